/-
Model/JqOutput — what `succinctly jq` writes to stdout for a JSON value (properties C11, C27).

Follows `src/bin/succinctly/jq_runner.rs` (`OutputConfig::from_args`, `write_output_jq_value`,
`write_output`, `write_terminator`, `print_json`, `collapse_duplicate_fields`, `write_object_key`),
`src/bin/succinctly/output.rs` (`format_json_impl`), `src/jq/escape.rs` (`write_json_body_jq`,
`write_json_body_jq_ascii`, `write_u_escape`) and `src/jq/document.rs` (`collapse_repeated`).

* `V`      – JSON value with ordered fields (duplicates allowed), numbers as literal text, strings as
             scalar lists plus the one bit of source spelling the cursor printer looks at
             (`esc` = "the raw span contains a backslash", which selects zero-copy vs re-escape).
* `render` – the structural printer shared by `print_json` (cursor / owned `JqValue`) and
             `format_json_impl`; parameters: compact?, indent unit, `-a`, number re-spelling `fmt`.
             The number re-spelling (`format_number_jq_compat`, property C10) is a *parameter*
             `fmt : Bytes → Bytes`; the theorems need only "`fmt` maps number literals to number
             literals" and state value preservation relative to `fmt`.
* `collapse` – jq's duplicate-key rule (first position, last value), `sortDeep` – `-S`.
* `read`   – reference reader: RFC 8259 grammar, any whitespace in gaps, strict strings
             (escapes, surrogate pairing, well-formed UTF-8), duplicates kept in order.
* `Cur`    – cursor model (path into a value with first_child / next_sibling / value accessors) and
             the streaming printer over it (C27).
Imports nothing: linked into `svdriver`.
-/
namespace SV.JqOut

abbrev Bytes := List UInt8

/-! ## bytes, whitespace, number grammar -/

def isWs (b : UInt8) : Bool := b == 0x20 || b == 0x09 || b == 0x0a || b == 0x0d

def skipWs : Bytes → Bytes
  | [] => []
  | b :: s => if isWs b then skipWs s else b :: s

def isDigit (b : UInt8) : Bool := 0x30 ≤ b && b ≤ 0x39

/-- bytes that can occur in a JSON number token -/
def isNumChar (b : UInt8) : Bool :=
  isDigit b || b == 0x2d || b == 0x2b || b == 0x2e || b == 0x65 || b == 0x45

def dropDigits : Bytes → Bytes
  | [] => []
  | b :: s => if isDigit b then dropDigits s else b :: s

/-- after `e`/`E`: optional sign, one or more digits, end -/
def gExp (s : Bytes) : Bool :=
  let s := match s with
    | b :: r => if b == 0x2b || b == 0x2d then r else b :: r
    | [] => []
  match s with
  | d :: r => isDigit d && (dropDigits r).isEmpty
  | [] => false

/-- after the integer part: optional fraction, optional exponent, end -/
def gFracExp (s : Bytes) : Bool :=
  match s with
  | [] => true
  | b :: r =>
    if b == 0x2e then
      match r with
      | d :: r1 =>
        isDigit d &&
          (match dropDigits r1 with
           | [] => true
           | e :: r2 => (e == 0x65 || e == 0x45) && gExp r2)
      | [] => false
    else (b == 0x65 || b == 0x45) && gExp r

/-- integer part: `0` or a non-zero digit followed by digits -/
def gInt (s : Bytes) : Bool :=
  match s with
  | [] => false
  | d :: r =>
    if d == 0x30 then gFracExp r
    else (0x31 ≤ d && d ≤ 0x39) && gFracExp (dropDigits r)

/-- RFC 8259 `number` (whole slice) -/
def validNum (s : Bytes) : Bool :=
  s.all isNumChar &&
    (match s with
     | b :: r => if b == 0x2d then gInt r else gInt (b :: r)
     | [] => false)

/-! ## UTF-8 and `\uXXXX` -/

def utf8Enc (c : Char) : Bytes :=
  let n := c.toNat
  if n < 0x80 then [UInt8.ofNat n]
  else if n < 0x800 then [UInt8.ofNat (0xC0 + n / 64), UInt8.ofNat (0x80 + n % 64)]
  else if n < 0x10000 then
    [UInt8.ofNat (0xE0 + n / 4096), UInt8.ofNat (0x80 + n / 64 % 64), UInt8.ofNat (0x80 + n % 64)]
  else
    [UInt8.ofNat (0xF0 + n / 262144), UInt8.ofNat (0x80 + n / 4096 % 64),
     UInt8.ofNat (0x80 + n / 64 % 64), UInt8.ofNat (0x80 + n % 64)]

def isCont (b : UInt8) : Bool := 0x80 ≤ b && b < 0xC0

def hexDig (n : Nat) : UInt8 := if n < 10 then UInt8.ofNat (0x30 + n) else UInt8.ofNat (0x57 + n)

/-- `\uXXXX` (lower-case hex), `write_bmp_u_escape` / `write_short_u_escape` -/
def u4 (n : Nat) : Bytes :=
  [0x5c, 0x75, hexDig (n / 4096 % 16), hexDig (n / 256 % 16), hexDig (n / 16 % 16), hexDig (n % 16)]

def hexVal (b : UInt8) : Option Nat :=
  let n := b.toNat
  if 0x30 ≤ n ∧ n ≤ 0x39 then some (n - 0x30)
  else if 0x61 ≤ n ∧ n ≤ 0x66 then some (n - 0x57)
  else if 0x41 ≤ n ∧ n ≤ 0x46 then some (n - 0x37)
  else none

def hex4 (a b c d : UInt8) : Option Nat :=
  match hexVal a, hexVal b, hexVal c, hexVal d with
  | some a, some b, some c, some d => some (((a * 16 + b) * 16 + c) * 16 + d)
  | _, _, _, _ => none

/-- one character of a JSON string body in jq's convention (`write_json_body_jq[_ascii]`) -/
def escChar (ascii : Bool) (c : Char) : Bytes :=
  let n := c.toNat
  if n = 0x22 then [0x5c, 0x22]
  else if n = 0x5c then [0x5c, 0x5c]
  else if n = 0x08 then [0x5c, 0x62]
  else if n = 0x0c then [0x5c, 0x66]
  else if n = 0x0a then [0x5c, 0x6e]
  else if n = 0x0d then [0x5c, 0x72]
  else if n = 0x09 then [0x5c, 0x74]
  else if n < 0x20 ∨ n = 0x7f then u4 n
  else if ascii ∧ 0x80 ≤ n then
    if n < 0x10000 then u4 n
    else u4 (0xD800 + (n - 0x10000) / 1024) ++ u4 (0xDC00 + (n - 0x10000) % 1024)
  else utf8Enc c

def escBody (ascii : Bool) : List Char → Bytes
  | [] => []
  | c :: cs => escChar ascii c ++ escBody ascii cs

def rawBody : List Char → Bytes
  | [] => []
  | c :: cs => utf8Enc c ++ rawBody cs

/-! ## values -/

/-- A string: its scalar values and whether its source span contained a backslash
(`raw_and_escaped().1`, `content.contains(&b'\\')`). Owned strings behave as `esc = true`. -/
structure Str where
  cs : List Char
  esc : Bool

inductive V where
  | null
  | bool (b : Bool)
  | num (lit : Bytes)
  | str (s : Str)
  | arr (xs : List V)
  | obj (fs : List (Str × V))

/-- characters that valid JSON cannot carry unescaped -/
def mustEscape (c : Char) : Bool := c.toNat < 0x20 || c.toNat = 0x22 || c.toNat = 0x5c

/-- `esc = false` is only possible for a span without backslash, i.e. without mandatory escapes -/
def Str.wf (s : Str) : Bool := s.esc || s.cs.all (fun c => !mustEscape c)

mutual
  /-- well-formed: number literals are in the grammar, un-escaped spellings are possible -/
  def V.wf : V → Bool
    | .null => true
    | .bool _ => true
    | .num l => validNum l
    | .str s => s.wf
    | .arr xs => wfList xs
    | .obj fs => wfFields fs
  def wfList : List V → Bool
    | [] => true
    | x :: xs => x.wf && wfList xs
  def wfFields : List (Str × V) → Bool
    | [] => true
    | (k, x) :: fs => k.wf && x.wf && wfFields fs
end

/-! ## the structural printer -/

/-- What the printers depend on after option resolution. -/
structure Cfg where
  compact : Bool
  unit : Bytes            -- indent unit (`indent_string`)
  ascii : Bool
  fmt : Bytes → Bytes     -- number token re-spelling (C10: `format_number_jq_compat`, or identity)

def indentOf (unit : Bytes) : Nat → Bytes
  | 0 => []
  | n + 1 => unit ++ indentOf unit n

/-- `separator ++ indent.repeat(level)` -/
def gap (c : Cfg) (lvl : Nat) : Bytes := if c.compact then [] else 0x0a :: indentOf c.unit lvl

def colon (c : Cfg) : Bytes := if c.compact then [0x3a] else [0x3a, 0x20]

/-- a raw DEL: legal unescaped in JSON, escaped by jq's convention -/
def hasDel (cs : List Char) : Bool := cs.any (fun ch => ch.toNat == 0x7f)

/-- `span_is_verbatim_safe`: the zero-copy arm needs a span without backslash and without DEL -/
def strBytes (c : Cfg) (s : Str) : Bytes :=
  if !c.ascii && !s.esc && !hasDel s.cs then 0x22 :: (rawBody s.cs ++ [0x22])
  else 0x22 :: (escBody c.ascii s.cs ++ [0x22])

mutual
  def render (c : Cfg) (lvl : Nat) : V → Bytes
    | .null => [0x6e, 0x75, 0x6c, 0x6c]
    | .bool true => [0x74, 0x72, 0x75, 0x65]
    | .bool false => [0x66, 0x61, 0x6c, 0x73, 0x65]
    | .num l => c.fmt l
    | .str s => strBytes c s
    | .arr [] => [0x5b, 0x5d]
    | .arr (x :: xs) =>
      0x5b :: (gap c (lvl + 1) ++ render c (lvl + 1) x ++ renderRest c (lvl + 1) xs ++ gap c lvl ++ [0x5d])
    | .obj [] => [0x7b, 0x7d]
    | .obj ((k, x) :: fs) =>
      0x7b :: (gap c (lvl + 1) ++ strBytes c k ++ colon c ++ render c (lvl + 1) x
                ++ renderFields c (lvl + 1) fs ++ gap c lvl ++ [0x7d])
  def renderRest (c : Cfg) (lvl : Nat) : List V → Bytes
    | [] => []
    | x :: xs => 0x2c :: (gap c lvl ++ render c lvl x ++ renderRest c lvl xs)
  def renderFields (c : Cfg) (lvl : Nat) : List (Str × V) → Bytes
    | [] => []
    | (k, x) :: fs =>
      0x2c :: (gap c lvl ++ strBytes c k ++ colon c ++ render c lvl x ++ renderFields c lvl fs)
end

/-! ## duplicate keys, sort-keys, materialisation -/

/-- `collapse_repeated` / `collapse_duplicate_fields`: scan left to right; a key seen before
overwrites its slot (whole field: last spelling, last value), a new key is appended. -/
def replaceSlot (k : Str) (x : V) : List (Str × V) → List (Str × V)
  | [] => []
  | (k', x') :: out => if k'.cs = k.cs then (k, x) :: out else (k', x') :: replaceSlot k x out

def hasKey (k : List Char) : List (Str × V) → Bool
  | [] => false
  | (k', _) :: out => k'.cs = k || hasKey k out

def collapseInto (out : List (Str × V)) : List (Str × V) → List (Str × V)
  | [] => out
  | (k, x) :: fs =>
    if hasKey k.cs out then collapseInto (replaceSlot k x out) fs
    else collapseInto (out ++ [(k, x)]) fs

/-- first position, last value (one object level) -/
def collapse (fs : List (Str × V)) : List (Str × V) := collapseInto [] fs

mutual
  /-- collapse at every object of the value (children first) -/
  def collapseDeep : V → V
    | .arr xs => .arr (collapseDeepList xs)
    | .obj fs => .obj (collapse (collapseDeepFields fs))
    | v => v
  def collapseDeepList : List V → List V
    | [] => []
    | x :: xs => collapseDeep x :: collapseDeepList xs
  def collapseDeepFields : List (Str × V) → List (Str × V)
    | [] => []
    | (k, x) :: fs => (k, collapseDeep x) :: collapseDeepFields fs
end

/-- `String::cmp`: lexicographic by UTF-8 bytes = by scalar value -/
def keyLt : List Char → List Char → Bool
  | [], [] => false
  | [], _ :: _ => true
  | _ :: _, [] => false
  | a :: as, b :: bs => a.toNat < b.toNat || (a.toNat = b.toNat && keyLt as bs)

/-- stable insertion (`sort_by` is stable): after every entry that is not greater -/
def insertField (f : Str × V) : List (Str × V) → List (Str × V)
  | [] => [f]
  | g :: gs => if keyLt f.1.cs g.1.cs then f :: g :: gs else g :: insertField f gs

def sortFields : List (Str × V) → List (Str × V)
  | [] => []
  | f :: fs => insertField f (sortFields fs)

mutual
  def sortDeep : V → V
    | .arr xs => .arr (sortDeepList xs)
    | .obj fs => .obj (sortFields (sortDeepFields fs))
    | v => v
  def sortDeepList : List V → List V
    | [] => []
    | x :: xs => sortDeep x :: sortDeepList xs
  def sortDeepFields : List (Str × V) → List (Str × V)
    | [] => []
    | (k, x) :: fs => (k, sortDeep x) :: sortDeepFields fs
end

mutual
  /-- materialisation into `OwnedValue`: strings lose their source spelling (always re-escaped) -/
  def owned : V → V
    | .str s => .str ⟨s.cs, true⟩
    | .arr xs => .arr (ownedList xs)
    | .obj fs => .obj (ownedFields fs)
    | v => v
  def ownedList : List V → List V
    | [] => []
    | x :: xs => owned x :: ownedList xs
  def ownedFields : List (Str × V) → List (Str × V)
    | [] => []
    | (k, x) :: fs => (⟨k.cs, true⟩, owned x) :: ownedFields fs
end

/-! ## options and routes -/

structure Opts where
  compact : Bool := false       -- -c
  indent : Option Nat := none   -- --indent n (0..7)
  tab : Bool := false           -- --tab
  sortKeys : Bool := false      -- -S
  ascii : Bool := false         -- -a
  raw : Bool := false           -- -r
  join : Bool := false          -- -j
  raw0 : Bool := false          -- --raw-output0
  seq : Bool := false           -- --seq
  preserve : Bool := false      -- --preserve-input

def spaces : Nat → Bytes
  | 0 => []
  | n + 1 => 0x20 :: spaces n

/-- `OutputConfig::from_args`: `indent_string` -/
def Opts.unit (o : Opts) : Bytes :=
  if o.tab then [0x09]
  else match o.indent with
    | some n => spaces n
    | none => if o.compact then [] else [0x20, 0x20]

def Opts.rawOut (o : Opts) : Bool := o.raw || o.join || o.raw0

/-- which printer a result goes through -/
inductive Route where
  | fast      -- identity fast path: the input span is echoed
  | cursor    -- `print_json` over `JqValue::Cursor`
  | ownedLazy -- `print_json` over an owned `JqValue` (lazy path, constructed result)
  | mat       -- `format_json_impl` over `OwnedValue` (original path)
  deriving DecidableEq, Repr

/-- `can_use_lazy_path` (colour is off: stdout is a pipe, NO_COLOR set) -/
def Opts.lazy (o : Opts) : Bool := !o.seq && !o.sortKeys && !o.ascii

/-- `expr.is_identity() && can_use_raw_identity()` -/
def Opts.fastOk (o : Opts) : Bool :=
  o.lazy && o.compact && !o.rawOut && o.preserve

/-- the `Cfg` each route prints with; `fmt` is the jq-compat number re-spelling. An empty indent
unit (`--indent 0`) means compact on every route (`print_json` and `format_json_impl` agree). -/
def Opts.cfg (o : Opts) (r : Route) (fmt : Bytes → Bytes) : Cfg :=
  match r with
  | .mat => { compact := o.compact || o.unit.isEmpty, unit := o.unit, ascii := o.ascii, fmt := fmt }
  | _ => { compact := o.compact || o.unit.isEmpty, unit := o.unit, ascii := o.ascii,
           fmt := if o.preserve then id else fmt }

/-- the value a route hands to the structural printer -/
def Opts.prep (o : Opts) (r : Route) (v : V) : V :=
  match r with
  | .mat => if o.sortKeys then sortDeep (owned (collapseDeep v)) else owned (collapseDeep v)
  | .ownedLazy => owned (collapseDeep v)
  | _ => if o.preserve then v else collapseDeep v

/-- `write_terminator` -/
def Opts.term (o : Opts) : Bytes := if o.raw0 then [0x00] else if o.join then [] else [0x0a]

/-- RS prefix of `--seq` -/
def Opts.pre (o : Opts) : Bytes := if o.seq then [0x1e] else []

/-- JSON text of one result (no framing) -/
def body (o : Opts) (r : Route) (fmt : Bytes → Bytes) (v : V) : Bytes :=
  render (o.cfg r fmt) 0 (o.prep r v)

/-- one result as written to stdout by `write_output_jq_value` / `write_output` -/
def print (o : Opts) (r : Route) (fmt : Bytes → Bytes) (v : V) : Bytes :=
  match o.rawOut, v with
  | true, .str s => o.pre ++ rawBody s.cs ++ o.term
  | _, _ => o.pre ++ body o r fmt v ++ o.term

/-- identity fast path: the input span and a newline -/
def printFast (span : Bytes) : Bytes := span ++ [0x0a]

/-! ## reference reader -/

inductive Err where
  | eof | bad (what : String) | fuel | trailing
  deriving Repr

def simpleEsc (b : UInt8) : Option Char :=
  if b == 0x22 then some '"' else if b == 0x5c then some '\\' else if b == 0x2f then some '/'
  else if b == 0x62 then some (Char.ofNat 8) else if b == 0x66 then some (Char.ofNat 12)
  else if b == 0x6e then some (Char.ofNat 10) else if b == 0x72 then some (Char.ofNat 13)
  else if b == 0x74 then some (Char.ofNat 9) else none

def consC (c : Char) (esc : Bool) : Except Err (List Char × Bool × Bytes) → Except Err (List Char × Bool × Bytes)
  | .ok (cs, e, r) => .ok (c :: cs, esc || e, r)
  | .error e => .error e

def isContN (n : Nat) : Bool := 0x80 ≤ n && n < 0xC0

/-- string body after the opening quote: `(scalars, "saw a backslash", rest after closing quote)`.
Byte tests are on `toNat` values. -/
def pStr : Bytes → Except Err (List Char × Bool × Bytes)
  | [] => .error .eof
  | b :: r =>
    let n := b.toNat
    if n = 0x22 then .ok ([], false, r)
    else if n = 0x5c then
      match r with
      | [] => .error .eof
      | e :: r1 =>
        if e.toNat = 0x75 then
          match r1 with
          | h1 :: h2 :: h3 :: h4 :: r2 =>
            match hex4 h1 h2 h3 h4 with
            | none => .error (.bad "hex")
            | some n =>
              if 0xD800 ≤ n ∧ n < 0xDC00 then
                match r2 with
                | b5 :: b6 :: g1 :: g2 :: g3 :: g4 :: r3 =>
                  if b5.toNat = 0x5c ∧ b6.toNat = 0x75 then
                    match hex4 g1 g2 g3 g4 with
                    | none => .error (.bad "hex")
                    | some m =>
                      if 0xDC00 ≤ m ∧ m < 0xE000 then
                        consC (Char.ofNat (0x10000 + (n - 0xD800) * 1024 + (m - 0xDC00))) true (pStr r3)
                      else .error (.bad "unpaired surrogate")
                  else .error (.bad "unpaired surrogate")
                | _ => .error (.bad "unpaired surrogate")
              else if 0xDC00 ≤ n ∧ n < 0xE000 then .error (.bad "unpaired surrogate")
              else consC (Char.ofNat n) true (pStr r2)
          | _ => .error .eof
        else
          match simpleEsc e with
          | some c => consC c true (pStr r1)
          | none => .error (.bad "escape")
    else if n < 0x20 then .error (.bad "control character")
    else if n < 0x80 then consC (Char.ofNat n) false (pStr r)
    else if n < 0xC2 then .error (.bad "utf8")
    else if n < 0xE0 then
      match r with
      | b1 :: r1 =>
        if isContN b1.toNat then consC (Char.ofNat ((n - 0xC0) * 64 + (b1.toNat - 0x80))) false (pStr r1)
        else .error (.bad "utf8")
      | _ => .error (.bad "utf8")
    else if n < 0xF0 then
      match r with
      | b1 :: b2 :: r2 =>
        let m := (n - 0xE0) * 4096 + (b1.toNat - 0x80) * 64 + (b2.toNat - 0x80)
        if isContN b1.toNat && isContN b2.toNat && decide (0x800 ≤ m) && !(decide (0xD800 ≤ m) && decide (m < 0xE000)) then
          consC (Char.ofNat m) false (pStr r2)
        else .error (.bad "utf8")
      | _ => .error (.bad "utf8")
    else if n < 0xF5 then
      match r with
      | b1 :: b2 :: b3 :: r3 =>
        let m := (n - 0xF0) * 262144 + (b1.toNat - 0x80) * 4096 + (b2.toNat - 0x80) * 64 + (b3.toNat - 0x80)
        if isContN b1.toNat && isContN b2.toNat && isContN b3.toNat && decide (0x10000 ≤ m) && decide (m < 0x110000) then
          consC (Char.ofNat m) false (pStr r3)
        else .error (.bad "utf8")
      | _ => .error (.bad "utf8")
    else .error (.bad "utf8")

def takeNum : Bytes → Bytes
  | [] => []
  | b :: s => if isNumChar b then b :: takeNum s else []

def dropNum : Bytes → Bytes
  | [] => []
  | b :: s => if isNumChar b then dropNum s else b :: s

mutual
  /-- one value at the head of the input (no leading whitespace), returning the rest -/
  def pValue (keep : Bool) : Nat → Bytes → Except Err (V × Bytes)
    | 0, _ => .error .fuel
    | _ + 1, [] => .error .eof
    | f + 1, b :: s =>
      if b == 0x5b then
        match skipWs s with
        | [] => .error .eof
        | b1 :: s1 =>
          if b1 == 0x5d then .ok (.arr [], s1)
          else
            match pValue keep f (b1 :: s1) with
            | .error e => .error e
            | .ok (x, s2) =>
              match pRest keep f s2 with
              | .error e => .error e
              | .ok (xs, s3) => .ok (.arr (x :: xs), s3)
      else if b == 0x7b then
        match skipWs s with
        | [] => .error .eof
        | b1 :: s1 =>
          if b1 == 0x7d then .ok (.obj [], s1)
          else
            match pField keep f (b1 :: s1) with
            | .error e => .error e
            | .ok (kx, s2) =>
              match pFields keep f s2 with
              | .error e => .error e
              | .ok (fs, s3) => .ok (.obj (kx :: fs), s3)
      else if b == 0x22 then
        match pStr s with
        | .error e => .error e
        | .ok (cs, esc, r) => .ok (.str ⟨cs, keep && esc⟩, r)
      else if b == 0x6e then
        match s with
        | 0x75 :: 0x6c :: 0x6c :: r => .ok (.null, r)
        | _ => .error (.bad "literal")
      else if b == 0x74 then
        match s with
        | 0x72 :: 0x75 :: 0x65 :: r => .ok (.bool true, r)
        | _ => .error (.bad "literal")
      else if b == 0x66 then
        match s with
        | 0x61 :: 0x6c :: 0x73 :: 0x65 :: r => .ok (.bool false, r)
        | _ => .error (.bad "literal")
      else if isNumChar b then
        if validNum (takeNum (b :: s)) then .ok (.num (takeNum (b :: s)), dropNum (b :: s))
        else .error (.bad "number")
      else .error (.bad "value")
  /-- after an array element: `, value …` or `]` -/
  def pRest (keep : Bool) : Nat → Bytes → Except Err (List V × Bytes)
    | 0, _ => .error .fuel
    | f + 1, s =>
      match skipWs s with
      | [] => .error .eof
      | b :: s1 =>
        if b == 0x5d then .ok ([], s1)
        else if b == 0x2c then
          match pValue keep f (skipWs s1) with
          | .error e => .error e
          | .ok (x, s2) =>
            match pRest keep f s2 with
            | .error e => .error e
            | .ok (xs, s3) => .ok (x :: xs, s3)
        else .error (.bad "array")
  /-- `"key" : value` (no leading whitespace) -/
  def pField (keep : Bool) : Nat → Bytes → Except Err ((Str × V) × Bytes)
    | 0, _ => .error .fuel
    | f + 1, s =>
      match s with
      | [] => .error .eof
      | b :: s0 =>
        if b == 0x22 then
          match pStr s0 with
          | .error e => .error e
          | .ok (cs, esc, s1) =>
            match skipWs s1 with
            | [] => .error .eof
            | b1 :: s2 =>
              if b1 == 0x3a then
                match pValue keep f (skipWs s2) with
                | .error e => .error e
                | .ok (x, s3) => .ok ((⟨cs, keep && esc⟩, x), s3)
              else .error (.bad "colon")
        else .error (.bad "key")
  /-- after an object member: `, member …` or `}` -/
  def pFields (keep : Bool) : Nat → Bytes → Except Err (List (Str × V) × Bytes)
    | 0, _ => .error .fuel
    | f + 1, s =>
      match skipWs s with
      | [] => .error .eof
      | b :: s1 =>
        if b == 0x7d then .ok ([], s1)
        else if b == 0x2c then
          match pField keep f (skipWs s1) with
          | .error e => .error e
          | .ok (kx, s2) =>
            match pFields keep f s2 with
            | .error e => .error e
            | .ok (fs, s3) => .ok (kx :: fs, s3)
        else .error (.bad "object")
end

/-- JSON-text = ws value ws (RFC 8259 §2); duplicates kept in order. With `keep` the strings
remember whether their source span had a backslash (what the cursor printer looks at). -/
def readWith (keep : Bool) (s : Bytes) : Except Err V :=
  match pValue keep (s.length + 1) (skipWs s) with
  | .error e => .error e
  | .ok (v, r) => if (skipWs r).isEmpty then .ok v else .error .trailing

/-- the reference reader: the value a conforming JSON parser sees (spelling forgotten) -/
def read (s : Bytes) : Except Err V := readWith false s

/-- the reader the driver uses for *input* documents (keeps the spelling bit) -/
def readSrc (s : Bytes) : Except Err V := readWith true s

mutual
  /-- forget the spelling bits (`esc`), keeping the value a JSON reader sees -/
  def norm : V → V
    | .str s => .str ⟨s.cs, false⟩
    | .arr xs => .arr (normList xs)
    | .obj fs => .obj (normFields fs)
    | v => v
  def normList : List V → List V
    | [] => []
    | x :: xs => norm x :: normList xs
  def normFields : List (Str × V) → List (Str × V)
    | [] => []
    | (k, x) :: fs => (⟨k.cs, false⟩, norm x) :: normFields fs
end

mutual
  /-- re-spell every number token with `f` (what the reader sees after the printer's `fmt`) -/
  def mapNum (f : Bytes → Bytes) : V → V
    | .num l => .num (f l)
    | .arr xs => .arr (mapNumList f xs)
    | .obj fs => .obj (mapNumFields f fs)
    | v => v
  def mapNumList (f : Bytes → Bytes) : List V → List V
    | [] => []
    | x :: xs => mapNum f x :: mapNumList f xs
  def mapNumFields (f : Bytes → Bytes) : List (Str × V) → List (Str × V)
    | [] => []
    | (k, x) :: fs => (k, mapNum f x) :: mapNumFields f fs
end

/-- The value a conforming reader must see in the output of route `r` under options `o`:
duplicates collapsed (unless `--preserve-input` on the cursor route), keys sorted iff `-S`
(materialised route), number tokens re-spelled by the route's `fmt`, spelling bits forgotten. -/
def canon (o : Opts) (r : Route) (fmt : Bytes → Bytes) (v : V) : V :=
  norm (mapNum (o.cfg r fmt).fmt (o.prep r v))

/-! ## cursor model (C27)

What `JsonCursor` exposes to the streaming printer: the node under the cursor (`value`), its first
child (`first_child`) and its next sibling (`next_sibling`); for an object member also the member's
key (`key()` of the field the cursor came from). A position in the document is represented by the
node and the members that follow it in its parent (the cons-list view `uncons` walks in the Rust
code); `Cur.ofPath` resolves a path of child indices from the root to such a position. -/

structure Cur where
  node : V
  key : Option Str
  rest : List (Option Str × V)

def Cur.root (v : V) : Cur := ⟨v, none, []⟩

def Cur.value (c : Cur) : V := c.node

def elemsOf : List V → List (Option Str × V)
  | [] => []
  | x :: xs => (none, x) :: elemsOf xs

def membersOf : List (Str × V) → List (Option Str × V)
  | [] => []
  | (k, x) :: fs => (some k, x) :: membersOf fs

def Cur.firstChild (c : Cur) : Option Cur :=
  match c.node with
  | .arr (x :: xs) => some ⟨x, none, elemsOf xs⟩
  | .obj ((k, x) :: fs) => some ⟨x, some k, membersOf fs⟩
  | _ => none

def Cur.nextSibling (c : Cur) : Option Cur :=
  match c.rest with
  | [] => none
  | (k, x) :: r => some ⟨x, k, r⟩

/-- walk `n` siblings to the right -/
def Cur.sibling : Cur → Nat → Option Cur
  | c, 0 => some c
  | c, n + 1 => match c.nextSibling with
    | some d => d.sibling n
    | none => none

/-- the position a path of child indices designates (first_child, then `i` next_sibling hops) -/
def Cur.ofPath : Cur → List Nat → Option Cur
  | c, [] => some c
  | c, i :: p => match c.firstChild with
    | some d => match d.sibling i with
      | some e => e.ofPath p
      | none => none
    | none => none

def keyBytes (c : Cfg) (cur : Cur) : Bytes :=
  match cur.key with
  | some k => strBytes c k ++ colon c
  | none => []

mutual
  /-- `print_json` over a cursor: scalars through `value`, containers by walking `first_child`
  and `next_sibling`. The fuel bounds the number of navigation steps. -/
  def streamAt (c : Cfg) : Nat → Nat → Cur → Bytes
    | 0, _, _ => []
    | f + 1, lvl, cur =>
      match cur.value with
      | .arr _ =>
        match cur.firstChild with
        | none => [0x5b, 0x5d]
        | some ch =>
          0x5b :: (gap c (lvl + 1) ++ streamAt c f (lvl + 1) ch ++ streamSibs c f (lvl + 1) ch
            ++ gap c lvl ++ [0x5d])
      | .obj _ =>
        match cur.firstChild with
        | none => [0x7b, 0x7d]
        | some ch =>
          0x7b :: (gap c (lvl + 1) ++ keyBytes c ch ++ streamAt c f (lvl + 1) ch
            ++ streamSibs c f (lvl + 1) ch ++ gap c lvl ++ [0x7d])
      | v => render c lvl v
  /-- everything after `cur` in its parent: `, gap [key:] value` per following sibling -/
  def streamSibs (c : Cfg) : Nat → Nat → Cur → Bytes
    | 0, _, _ => []
    | f + 1, lvl, cur =>
      match cur.nextSibling with
      | none => []
      | some nx => 0x2c :: (gap c lvl ++ keyBytes c nx ++ streamAt c f lvl nx ++ streamSibs c f lvl nx)
end

mutual
  /-- navigation steps the streaming printer spends on a value -/
  def V.steps : V → Nat
    | .arr xs => 1 + stepsList xs
    | .obj fs => 1 + stepsFields fs
    | _ => 1
  def stepsList : List V → Nat
    | [] => 1
    | x :: xs => 1 + x.steps + stepsList xs
  def stepsFields : List (Str × V) → Nat
    | [] => 1
    | (_, x) :: fs => 1 + x.steps + stepsFields fs
end

end SV.JqOut
