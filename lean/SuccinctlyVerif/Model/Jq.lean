/-
Model/Jq — Lean model of the jq core language (AST + generator-style evaluator with fuel).

Shape. `evalStep rec` interprets exactly one AST node and calls `rec` for every sub-evaluation;
`eval (fuel+1) = evalStep (eval fuel)`, `eval 0 = none`. Results live in `Option (List Out)`:
`none` means *no verdict* (fuel exhausted, or a corner this model deliberately does not decide – the
driver then answers `OUT-OF-FRAGMENT`); `some outs` is the finished run: the output values in order,
optionally ended by exactly one terminator (`err`, `brk`, `halt`). Because every use of `rec` is
through `Option`'s bind and a handful of monotone combinators, `evalStep` is monotone in `rec` for
the flat order, which gives `eval_fuel_mono` (Props/C23.lean).

Semantics follow jq 1.7.1 (manual + `src/builtin.jq`, whose definitions are kept as jq text in
`preludeSrc` and interpreted by this same evaluator) — generator order of every construct, path
tracking (`path(f)`, assignment), error message templates. Where `succinctly` deliberately or
accidentally differs, the difference is a named switch of `Dialect` (never an ad-hoc special case).
-/
import SuccinctlyVerif.Model.JqValue
import SuccinctlyVerif.Model.JsonPrint
namespace SV.Jq

/-! ### AST -/

inductive Pattern where
  | var (name : String)
  | arr (ps : List Pattern)
  /-- `{key: pat}` entries; `{$x}` is `("x", some (var "x"))` with `bindKey = true` -/
  | obj (es : List (String × Bool × Option Pattern))
  deriving Inhabited, Repr

inductive Lit where
  | null | true_ | false_
  | num (text : String)
  | str (s : String)
  deriving Inhabited, Repr

inductive Expr where
  | identity
  | lit (l : Lit)
  /-- string with interpolations: literal pieces and expressions, under format `fmt` (`@base64 "…"`) -/
  | interp (fmt : Option String) (parts : List (String × Option Expr))
  | format (name : String)
  /-- `t[k]`; `opt` = the step itself is optional (`t[k]?`, jq's INDEX_OPT): only this step's error is suppressed -/
  | index (t k : Expr) (opt : Bool := false)
  | slice (t : Expr) (lo hi : Option Expr) (opt : Bool := false)
  | iterate (t : Expr) (opt : Bool := false)
  | try_ (body : Expr) (handler : Option Expr)
  | arr (e : Option Expr)
  | obj (entries : List (Expr × Expr))
  | neg (e : Expr)
  | pipe (a b : Expr)
  | comma (a b : Expr)
  | binop (op : String) (a b : Expr)
  | and_ (a b : Expr)
  | or_ (a b : Expr)
  | alt (a b : Expr)
  | ite (c t : Expr) (e : Option Expr)
  | reduce (src : Expr) (pat : Pattern) (init upd : Expr)
  | foreach (src : Expr) (pat : Pattern) (init upd : Expr) (ext : Option Expr)
  | label (name : String) (body : Expr)
  | brk (name : String)
  | bind (src : Expr) (pat : Pattern) (body : Expr)
  | var (name : String)
  | def_ (name : String) (params : List String) (body rest : Expr)
  | call (name : String) (args : List Expr)
  deriving Inhabited, Repr

/-! ### runtime structures -/

/-- path-tracking state of a value: `off` (value mode), `lost` (path mode, value is not a path
of the root), `at p` -/
inductive PInfo (N : Type) where
  | off
  | lost
  | at (p : List (JV N))
  deriving Inhabited

def PInfo.drop {N} : PInfo N → PInfo N
  | .off => .off
  | _ => .lost

def PInfo.push {N} (k : JV N) : PInfo N → PInfo N
  | .at p => .at (p ++ [k])
  | o => o

def PInfo.append {N} (ks : List (JV N)) : PInfo N → PInfo N
  | .at p => .at (p ++ ks)
  | o => o

inductive Out (N : Type) where
  | val (v : JV N) (p : PInfo N)
  | err (e : JV N)
  | brk (l : String)
  | halt (code : Int) (msg : Option (JV N))
  deriving Inhabited

/-- environment: a linked scope chain. `fn`'s closure environment is the chain below it (plus itself,
for recursion); `arg` is a filter argument closed over the caller's chain. -/
inductive Env (N : Type) where
  | nil
  | var (name : String) (v : JV N) (p : PInfo N) (rest : Env N)
  | fn (name : String) (params : List String) (body : Expr) (rest : Env N)
  | arg (name : String) (body : Expr) (cenv : Env N) (rest : Env N)
  deriving Inhabited

/-- switches for documented / recorded differences between `succinctly` and jq 1.7.1 -/
structure Dialect where
  /-- `true`: behave as succinctly (C23); `false`: jq 1.7.1 (C24 oracle) -/
  succinctly : Bool := true
  /-- `if c then a end` with a false condition yields `null` (succinctly's parser) instead of `.` (jq 1.7.1) -/
  ifNoElseNull : Bool := true
  /-- `fromjson` returns plain numbers (no preserved spelling) -/
  fromjsonPlain : Bool := true
  deriving Inhabited

/-- result of a run (a macro, so that `do` blocks see the `Option` monad) -/
macro "Res" n:term:max : term => `(Option (List (Out $n)))
abbrev Rec (N : Type) := Expr → Env N → JV N → PInfo N → Res N

section
variable {N : Type} [NumOps N]

def Out.isVal : Out N → Bool
  | .val _ _ => true
  | _ => false

/-- does the run end in a terminator? -/
def terminated (xs : List (Out N)) : Bool :=
  match xs.getLast? with
  | some o => !o.isVal
  | none => false

def lookupVar (name : String) : Env N → Option (JV N × PInfo N)
  | .nil => none
  | .var n v p rest => if n == name then some (v, p) else lookupVar name rest
  | .fn _ _ _ rest => lookupVar name rest
  | .arg _ _ _ rest => lookupVar name rest

inductive FnHit (N : Type) where
  | fn (params : List String) (body : Expr) (self : Env N)
  | arg (body : Expr) (cenv : Env N)

def lookupFn (name : String) (arity : Nat) : Env N → Option (FnHit N)
  | .nil => none
  | .var _ _ _ rest => lookupFn name arity rest
  | .fn n ps b rest =>
    if n == name && ps.length == arity then some (.fn ps b (.fn n ps b rest)) else lookupFn name arity rest
  | .arg n b c rest =>
    if n == name && arity == 0 then some (.arg b c) else lookupFn name arity rest

/-! ### error message vocabulary (`src/jq/error.rs`) -/

/-- first `n` bytes of `s`, snapped back to a character boundary -/
def takeBytes (s : String) (n : Nat) : String :=
  let rec go (cs : List Char) (used : Nat) (acc : List Char) : List Char :=
    match cs with
    | [] => acc.reverse
    | c :: rest =>
      let w := c.utf8Size
      if used + w ≤ n then go rest (used + w) (c :: acc) else acc.reverse
  String.ofList (go s.toList 0 [])

/-- `dump_truncated`: JSON dump, at most 14 bytes verbatim, else first 11 bytes + `...` -/
def dumpTrunc (v : JV N) : Option String :=
  match v.toJson with
  | none => none
  | some s => if s.utf8ByteSize ≤ 14 then some s else some (takeBytes s 11 ++ "...")

def describe (v : JV N) : Option String :=
  (dumpTrunc v).map fun d => s!"{v.typeName} ({d})"

def errS (s : String) : Res N := some [.err (.str s)]

/-- lift a value-level `Except` whose message `UNMODELLED…` means "no verdict" -/
def liftExc (p : PInfo N) : Except String (JV N) → Res N
  | .ok v => some [.val v p]
  | .error m => if m.startsWith "UNMODELLED" then none else errS m

def opParticiple (op : String) : String :=
  match op with
  | "+" => "added" | "-" => "subtracted" | "*" => "multiplied" | "/" => "divided"
  | _ => "divided (remainder)"

def binErr (a b : JV N) (phrase : String) : Res N :=
  match describe a, describe b with
  | some x, some y => errS s!"{x} and {y} {phrase}"
  | _, _ => none

def subjErr (a : JV N) (phrase : String) : Res N :=
  match describe a with
  | some x => errS s!"{x} {phrase}"
  | none => none

/-! ### combinators (each monotone in its function argument, see Proof/JqMono.lean) -/

/-- feed every value of `xs` to `f`, concatenating, stopping at the first terminator -/
def bindOut (xs : List (Out N)) (f : JV N → PInfo N → Res N) : Option (List (Out N)) :=
  match xs with
  | [] => some []
  | .val v p :: rest => do
    let r ← f v p
    if terminated r then pure r else do
      let r2 ← bindOut rest f
      pure (r ++ r2)
  | t :: _ => some [t]

/-- values only (used after a terminator check) -/
def valuesOf (xs : List (Out N)) : List (JV N) :=
  xs.filterMap fun | .val v _ => some v | _ => none

def terminatorOf (xs : List (Out N)) : Option (Out N) :=
  match xs.getLast? with
  | some o => if o.isVal then none else some o
  | none => none

/-- fold with a state over values (reduce / foreach); `f st v` returns the new state and emitted
outputs; stops at terminators coming from `xs` or from `f`. -/
def foldOut {σ : Type} (xs : List (Out N)) (st : σ)
    (f : σ → JV N → PInfo N → Option (σ × List (Out N))) : Option (σ × List (Out N)) :=
  match xs with
  | [] => some (st, [])
  | .val v p :: rest => do
    let (st', outs) ← f st v p
    if terminated outs then pure (st', outs) else do
      let (st'', outs2) ← foldOut rest st' f
      pure (st'', outs ++ outs2)
  | t :: _ => some (st, [t])

/-- evaluate a list of argument expressions to value lists (each a full run) -/
def mapRes (es : List Expr) (f : Expr → Res N) : Option (List (List (Out N))) :=
  match es with
  | [] => some []
  | e :: rest => do
    let r ← f e
    let rs ← mapRes rest f
    pure (r :: rs)

/-! ### value-level primitives -/

def boolV (b : Bool) : JV N := .bool b

def arithOp (op : String) (a b : JV N) : Res N :=
  let ok (v : JV N) : Res N := some [.val v .off]
  match op, a, b with
  | "+", .null, x => ok x
  | "+", x, .null => ok x
  | "+", .num x, .num y => ok (.num (NumOps.add x y))
  | "+", .str x, .str y => ok (.str (x ++ y))
  | "+", .arr x, .arr y => ok (.arr (x ++ y))
  | "+", .obj x, .obj y => ok (.obj (y.foldl (fun acc p => JV.insert acc p.1 p.2) x))
  | "-", .num x, .num y => ok (.num (NumOps.sub x y))
  | "-", .arr x, .arr y => ok (.arr (x.filter fun e => !(y.any fun f => JV.eqv e f)))
  | "*", .num x, .num y => ok (.num (NumOps.mul x y))
  | "*", .str s, .num n => repeatStr s n
  | "*", .num n, .str s => repeatStr s n
  | "*", .obj x, .obj y => ok (mergeObj 200 x y)
  | "/", .num x, .num y =>
    (match NumOps.div x y with
     | some r => ok (.num r)
     | none => binErr a b "cannot be divided because the divisor is zero")
  | "/", .str x, .str y => ok (.arr ((splitStr x y).map .str))
  | "%", .num x, .num y =>
    (match NumOps.mod x y with
     | some r => ok (.num r)
     | none => binErr a b "cannot be divided (remainder) because the divisor is zero")
  | op, a, b => binErr a b s!"cannot be {opParticiple op}"
where
  repeatStr (s : String) (n : N) : Res N :=
    let k := NumOps.truncI64 n
    if k < 0 then some [.val .null .off]
    -- decided arithmetically, never by materialising: `"" * 9223372036854775807` is `""` (Rust's
    -- `"".repeat(n)` allocates nothing), and the size test below is vacuous for an empty string
    else if s.utf8ByteSize = 0 then some [.val (.str "") .off]
    else if k.toNat * s.utf8ByteSize > 2000000 then none
    else some [.val (.str (String.join (List.replicate k.toNat s))) .off]
  splitStr (s sep : String) : List String :=
    if sep.isEmpty then
      -- Rust `str::split("")`: empty string at both ends around every char
      [""] ++ s.toList.map String.singleton ++ [""]
    else s.splitOn sep
  mergeObj (fuel : Nat) (x y : List (String × JV N)) : JV N :=
    match fuel with
    | 0 => .obj x
    | fuel + 1 =>
      .obj (y.foldl (fun acc p =>
        match JV.lookup acc p.1, p.2 with
        | some (.obj a), .obj b => JV.insert acc p.1 (mergeObj fuel a b)
        | _, v => JV.insert acc p.1 v) x)

def cmpOp (op : String) (a b : JV N) : Bool :=
  match op with
  | "==" => JV.eqv a b
  | "!=" => !JV.eqv a b
  | "<" => JV.cmp a b == .lt
  | "<=" => JV.cmp a b != .gt
  | ">" => JV.cmp a b == .gt
  | _ => JV.cmp a b != .lt

def isCmpOp (op : String) : Bool :=
  op == "==" || op == "!=" || op == "<" || op == "<=" || op == ">" || op == ">="

/-- array slice bounds per jq `parse_slice` on integer bounds -/
def clampIdx (i : Int) (len : Nat) : Nat :=
  let j := if i < 0 then i + len else i
  if j < 0 then 0 else if j > len then len else j.toNat

def sliceBound (b : Option (JV N)) (dflt : Int) : Except String (Option Int) :=
  match b with
  | none => .ok (some dflt)
  | some .null => .ok (some dflt)
  | some (.num n) =>
    match NumOps.toInt? n with
    | some i => .ok (some i)
    | none => .ok none
  | some _ => .error "Array/string slice indices must be integers"

def sliceKey (lo hi : Option (JV N)) : JV N :=
  .obj [("start", lo.getD .null), ("end", hi.getD .null)]

def sliceValue (v : JV N) (lo hi : Option (JV N)) : Res N :=
  liftExc .off (v.getStep (sliceKey lo hi))

/-- `.[k]` on a value (read side, value level) -/
def indexValue (v k : JV N) : Res N :=
  match v, k with
  | .arr xs, .arr pat =>
    -- indices of a subarray (`jv_array_indexes`)
    some [.val (.arr (subIdx xs pat 0)) .off]
  | v, k => liftExc .off (v.getStep k)
where
  subIdx (xs pat : List (JV N)) (i : Nat) : List (JV N) :=
    match xs with
    | [] => []
    | x :: rest =>
      let hit := !pat.isEmpty && isPrefix pat (x :: rest)
      (if hit then [JV.ofNat i] else []) ++ subIdx rest pat (i + 1)
  isPrefix : List (JV N) → List (JV N) → Bool
    | [], _ => true
    | _ :: _, [] => false
    | p :: ps, y :: ys => JV.eqv p y && isPrefix ps ys

def iterValues (v : JV N) (p : PInfo N) : Res N :=
  match v with
  | .arr xs => some ((List.range xs.length).zip xs |>.map fun (i, x) => .val x (p.push (JV.ofNat i)))
  | .obj fs => some (fs.map fun (k, x) => .val x (p.push (.str k)))
  | v => subjErr' v
where
  subjErr' (v : JV N) : Res N :=
    match describe v with
    | some d => errS s!"Cannot iterate over {d}"
    | none => none

def utf8Len (s : String) : Nat := s.utf8ByteSize

def containsV (fuel : Nat) (a b : JV N) : Option Bool :=
  match fuel with
  | 0 => none
  | fuel + 1 =>
    match a, b with
    | .obj fa, .obj fb =>
      fb.foldl (fun acc (k, vb) =>
        match acc with
        | some true =>
          (match JV.lookup fa k with
           | some va => containsV fuel va vb
           | none => some false)
        | o => o) (some true)
    | .arr xa, .arr xb =>
      xb.foldl (fun acc vb =>
        match acc with
        | some true =>
          xa.foldl (fun acc2 va =>
            match acc2 with
            | some false => containsV fuel va vb
            | o => o) (some false)
        | o => o) (some true)
    | .str sa, .str sb => some ((sa.splitOn sb).length > 1 || sb.isEmpty)
    | a, b => if a.rank == b.rank || (a.rank ≤ 2 && b.rank ≤ 2 && a.rank ≥ 1 && b.rank ≥ 1) then some (JV.eqv a b) else none

/-! ### formats -/

def b64chars : List Char :=
  ['A', 'B', 'C', 'D', 'E', 'F', 'G', 'H', 'I', 'J', 'K', 'L', 'M', 'N', 'O', 'P', 'Q', 'R', 'S', 'T', 'U', 'V', 'W', 'X', 'Y', 'Z', 'a', 'b', 'c', 'd', 'e', 'f', 'g', 'h', 'i', 'j', 'k', 'l', 'm', 'n', 'o', 'p', 'q', 'r', 's', 't', 'u', 'v', 'w', 'x', 'y', 'z', '0', '1', '2', '3', '4', '5', '6', '7', '8', '9', '+', '/']

def b64enc : List UInt8 → List Char
  | [] => []
  | [a] =>
    let n := a.toNat <<< 16
    [b64chars.getD (n >>> 18) 'A', b64chars.getD ((n >>> 12) % 64) 'A', '=', '=']
  | [a, b] =>
    let n := (a.toNat <<< 16) + (b.toNat <<< 8)
    [b64chars.getD (n >>> 18) 'A', b64chars.getD ((n >>> 12) % 64) 'A', b64chars.getD ((n >>> 6) % 64) 'A', '=']
  | a :: b :: c :: rest =>
    let n := (a.toNat <<< 16) + (b.toNat <<< 8) + c.toNat
    b64chars.getD (n >>> 18) 'A' :: b64chars.getD ((n >>> 12) % 64) 'A' ::
      b64chars.getD ((n >>> 6) % 64) 'A' :: b64chars.getD (n % 64) 'A' :: b64enc rest

def b64val (c : Char) : Option Nat :=
  if 'A' ≤ c && c ≤ 'Z' then some (c.toNat - 65)
  else if 'a' ≤ c && c ≤ 'z' then some (c.toNat - 97 + 26)
  else if '0' ≤ c && c ≤ '9' then some (c.toNat - 48 + 52)
  else if c == '+' then some 62 else if c == '/' then some 63 else none

/-- decode canonical padded base64 (what `b64enc` produces); `none` otherwise -/
def b64dec : List Char → Option (List UInt8)
  | [] => some []
  | [a, b, '=', '='] =>
    match b64val a, b64val b with
    | some x, some y => some [UInt8.ofNat ((x <<< 2) + (y >>> 4))]
    | _, _ => none
  | [a, b, c, '='] =>
    match b64val a, b64val b, b64val c with
    | some x, some y, some z => some [UInt8.ofNat ((x <<< 2) + (y >>> 4)), UInt8.ofNat (((y % 16) <<< 4) + (z >>> 2))]
    | _, _, _ => none
  | a :: b :: c :: d :: rest =>
    match b64val a, b64val b, b64val c, b64val d, b64dec rest with
    | some x, some y, some z, some w, some tl =>
      some (UInt8.ofNat ((x <<< 2) + (y >>> 4)) :: UInt8.ofNat (((y % 16) <<< 4) + (z >>> 2)) ::
        UInt8.ofNat (((z % 4) <<< 6) + w) :: tl)
    | _, _, _, _, _ => none
  | _ => none

def hexUp (n : Nat) : Char := if n < 10 then Char.ofNat (48 + n) else Char.ofNat (55 + n)

/-- `@uri`: unreserved = alnum and `-_.~`, everything else percent-encoded bytewise -/
def uriEnc (bs : List UInt8) : List Char :=
  bs.flatMap fun b =>
    let c := Char.ofNat b.toNat
    if c.isAlphanum || c == '-' || c == '_' || c == '.' || c == '~' then [c]
    else ['%', hexUp (b.toNat / 16), hexUp (b.toNat % 16)]

/-- inverse of `uriEnc` on its image -/
def uriDec : List Char → Option (List UInt8)
  | [] => some []
  | '%' :: a :: b :: rest =>
    match hexVal a, hexVal b, uriDec rest with
    | some x, some y, some tl => some (UInt8.ofNat (x * 16 + y) :: tl)
    | _, _, _ => none
  | c :: rest =>
    if c.toNat < 128 then (uriDec rest).map (UInt8.ofNat c.toNat :: ·) else none

def strBytes (s : String) : List UInt8 := s.toUTF8.toList

def bytesToStr? (bs : List UInt8) : Option String := String.fromUTF8? (ByteArray.mk bs.toArray)

/-- `tostring` text of a value -/
def toText (v : JV N) : Option String :=
  match v with
  | .str s => some s
  | v => v.toJson

def htmlEsc (s : String) : String :=
  s.foldl (fun acc c =>
    acc ++ (if c == '<' then "&lt;" else if c == '>' then "&gt;" else if c == '&' then "&amp;"
      else if c == '\'' then "&#39;" else if c == '"' then "&quot;" else String.singleton c)) ""

def replaceAll (s a b : String) : String := joinWith b (s.splitOn a)

/-- apply format `name` to a value; `none` = not modelled -/
def applyFormat (d : Dialect) (name : String) (v : JV N) : Res N :=
  let ok (s : String) : Res N := some [.val (.str s) .off]
  match name with
  | "@text" => (toText v).bind ok
  | "@json" => v.toJson.bind ok
  | "@html" =>
    (match v with
     | .str s => ok (htmlEsc s)
     | v => if d.succinctly then none else (toText v).bind fun s => ok (htmlEsc s))
  | "@uri" =>
    (match v with
     | .str s => ok (String.ofList (uriEnc (strBytes s)))
     | v => if d.succinctly then none else (toText v).bind fun s => ok (String.ofList (uriEnc (strBytes s))))
  | "@base64" =>
    (match v with
     | .str s => ok (String.ofList (b64enc (strBytes s)))
     | v => if d.succinctly then none else (toText v).bind fun s => ok (String.ofList (b64enc (strBytes s))))
  | "@base64d" =>
    (match v with
     | .str s =>
       (match b64dec s.toList with
        | some bs => (bytesToStr? bs).bind ok
        | none => none)
     | _ => none)
  | "@csv" | "@tsv" =>
    (match v with
     | .arr xs =>
       let cell (x : JV N) : Option (Option String) :=
         match x with
         | .null => some (some "")
         | .bool b => some (some (if b then "true" else "false"))
         | .num _ => some x.toJson
         | .str s =>
           if name == "@csv" then some (some ("\"" ++ replaceAll s "\"" "\"\"" ++ "\""))
           else some (some (replaceAll (replaceAll (replaceAll (replaceAll s "\\" "\\\\") "\t" "\\t") "\n" "\\n") "\r" "\\r"))
         | _ => none
       let cells := xs.map cell
       if cells.any (·.isNone) then
         (match xs.find? (fun x => (cell x).isNone) with
          | some bad => subjErr bad (if name == "@csv" then "is not valid in a csv row" else "is not valid in a csv row")
          | none => none)
       else if cells.any (· == some none) then none
       else ok (joinWith (if name == "@csv" then "," else "\t") (cells.map fun c => (c.getD none).getD ""))
     | v => subjErr v (if name == "@csv" then "cannot be csv-formatted, only array" else "cannot be tsv-formatted, only array"))
  | _ => none


/-! ### primitives (jq's C-coded builtins), pure -/

def okV (p : PInfo N) (v : JV N) : Res N := some [.val v p.drop]

def strIndices (hay needle : String) : List Nat :=
  -- byte offsets of (overlapping) occurrences, as jq's `_strindices` (which reports byte offsets
  -- in 1.7.1; codepoint offsets coincide for ASCII haystacks)
  let h := hay.toList; let n := needle.toList
  if n.isEmpty then [] else
  let rec go (h : List Char) (i : Nat) (acc : List Nat) : List Nat :=
    match h with
    | [] => acc.reverse
    | c :: rest => go rest (i + 1) (if n.isPrefixOf (c :: rest) then i :: acc else acc)
  go h 0 []

def isAscii (s : String) : Bool := s.toList.all (fun c => c.toNat < 128)

def asciiMap (f : Char → Char) (s : String) : String := s.map f

def lowerC (c : Char) : Char := if 'A' ≤ c && c ≤ 'Z' then Char.ofNat (c.toNat + 32) else c
def upperC (c : Char) : Char := if 'a' ≤ c && c ≤ 'z' then Char.ofNat (c.toNat - 32) else c

def isWsChar (c : Char) : Bool := c == ' ' || c == '\t' || c == '\n' || c == '\r' || c == '\x0b' || c == '\x0c'

def minMax (xs : List (JV N)) (wantMax : Bool) : JV N :=
  match xs with
  | [] => .null
  | x :: rest =>
    rest.foldl (fun best y =>
      if wantMax then (if JV.cmp y best != .lt then y else best)
      else (if JV.cmp y best == .lt then y else best)) x

/-- group a list of (key, value) pairs sorted stably by key into runs of equal keys -/
def groupRuns (xs : List (JV N × JV N)) : List (List (JV N × JV N)) :=
  xs.foldr (fun x acc =>
    match acc with
    | (y :: ys) :: rest => if JV.cmp x.1 y.1 == .eq then (x :: y :: ys) :: rest else [x] :: (y :: ys) :: rest
    | _ => [[x]]) []

def zipKeyed (vals keys : List (JV N)) : List (JV N × JV N) := keys.zip vals

def rangeList (from_ upto : JV N) (p : PInfo N) : Res N :=
  match from_, upto with
  | .num a, .num b =>
    match NumOps.toInt? a, NumOps.toInt? b with
    | some x, some y =>
      if y - x > 20000 then none
      else some ((List.range (y - x).toNat).map fun (i : Nat) => .val (JV.ofInt (x + (i : Int))) p.drop)
    | _, _ => none
  | _, _ => errS "Range bounds must be numeric"

/-! proleptic Gregorian calendar (Howard Hinnant's `days_from_civil` / `civil_from_days`) for the
date builtins of the jq dialect -/
def daysFromCivil (y0 m d : Int) : Int :=
  let y := if m ≤ 2 then y0 - 1 else y0
  let era := y.fdiv 400
  let yoe := y - era * 400
  let doy := (153 * (m + (if m > 2 then -3 else 9)) + 2) / 5 + d - 1
  let doe := yoe * 365 + yoe / 4 - yoe / 100 + doy
  era * 146097 + doe - 719468

def civilFromDays (z0 : Int) : Int × Int × Int :=
  let z := z0 + 719468
  let era := z.fdiv 146097
  let doe := z - era * 146097
  let yoe := (doe - doe / 1460 + doe / 36524 - doe / 146096) / 365
  let y := yoe + era * 400
  let doy := doe - (365 * yoe + yoe / 4 - yoe / 100)
  let mp := (5 * doy + 2) / 153
  let d := doy - (153 * mp + 2) / 5 + 1
  let m := if mp < 10 then mp + 3 else mp - 9
  (if m ≤ 2 then y + 1 else y, m, d)

/-- `timegm` of broken-down fields (month 0-based, out-of-range month / day normalised) -/
def timegm (y mon0 dd h mi sec : Int) : Int :=
  let y' := y + mon0.fdiv 12
  let m := mon0.fmod 12 + 1
  (daysFromCivil y' m 1 + (dd - 1)) * 86400 + h * 3600 + mi * 60 + sec

/-- jq's broken-down time `[year, month0, mday, hours, minutes, seconds, wday, yday]` -/
def brokenDown (t : Int) : JV N :=
  let days := t.fdiv 86400
  let r := t.fmod 86400
  let (y, m, d) := civilFromDays days
  let wday := (days + 4).fmod 7
  let yday := days - daysFromCivil y 1 1
  .arr ([y, m - 1, d, r / 3600, r % 3600 / 60, r % 60, wday, yday].map JV.ofInt)

/-- `YYYY-MM-DDTHH:MM:SSZ` with exactly these field widths -/
def parseIso (s : String) : Option (Int × Int × Int × Int × Int × Int) :=
  let cs := s.toList
  let num (xs : List Char) : Option Int := if !xs.isEmpty && xs.all Char.isDigit then some (String.ofList xs).toInt! else none
  match cs with
  | [y1, y2, y3, y4, '-', m1, m2, '-', d1, d2, 'T', h1, h2, ':', i1, i2, ':', s1, s2, 'Z'] =>
    (match num [y1, y2, y3, y4], num [m1, m2], num [d1, d2], num [h1, h2], num [i1, i2], num [s1, s2] with
     | some y, some m, some d, some h, some i, some sc => some (y, m, d, h, i, sc)
     | _, _, _, _, _, _ => none)
  | _ => none

/-- drop every preserved number spelling inside a value -/
def plainAll (fuel : Nat) (v : JV N) : JV N :=
  match fuel with
  | 0 => v
  | fuel + 1 =>
    match v with
    | .num n => .num (NumOps.plain n)
    | .arr xs => .arr (xs.map (plainAll fuel))
    | .obj fs => .obj (fs.map fun (k, x) => (k, plainAll fuel x))
    | v => v

/-- succinctly re-reads the `reduce`/`foreach` state from its printed form at every step, so a
double that prints as an integer continues as an exact integer (recorded C24 finding). -/
def reparseAll (fuel : Nat) (v : JV N) : JV N :=
  match fuel with
  | 0 => v
  | fuel + 1 =>
    match v with
    | .num n =>
      -- a number that still carries a spelling of its own keeps it
      if (NumOps.canon n).contains '~' then v else
      (match NumOps.print n with
       | some s => (match (NumOps.ofLit s : Option N) with | some m => .num m | none => v)
       | none => v)
    | .arr xs => .arr (xs.map (reparseAll fuel))
    | .obj fs => .obj (fs.map fun (k, x) => (k, reparseAll fuel x))
    | v => v

/-- jq's parser diagnostic for a string that is a single garbage token (the only shape succinctly
and the recorded probes pin down); anything with separators or brackets: no verdict -/
def badJsonMsg (s : String) : Res N :=
  if s.isEmpty then errS "Expected JSON value (while parsing '')"
  else if s.toList.all (fun c => c.isAlphanum || c == '+' || c == '-' || c == '.' || c == '_') then
    errS s!"Invalid numeric literal at EOF at line 1, column {s.utf8ByteSize} (while parsing '{s}')"
  else none

/-- names/arity of the primitives `prim` implements (anything else is outside the fragment) -/
def primNames : List (String × Nat) :=
  [("empty",0),("not",0),("error",0),("error",1),("halt",0),("halt_error",0),("halt_error",1),("length",0),
   ("utf8bytelength",0),("keys",0),("keys_unsorted",0),("has",1),("contains",1),("type",0),("tostring",0),
   ("tojson",0),("fromjson",0),("tonumber",0),("sort",0),("_sort_by_impl",1),("_group_by_impl",1),
   ("_unique_by_impl",1),("_min_by_impl",1),("_max_by_impl",1),("min",0),("max",0),("floor",0),("sqrt",0),
   ("ceil",0),("round",0),("fabs",0),("infinite",0),("nan",0),("isinfinite",0),("isnan",0),("explode",0),
   ("implode",0),("ltrimstr",1),("rtrimstr",1),("startswith",1),("endswith",1),("split",1),("trim",0),
   ("ltrim",0),("rtrim",0),("_unmodelled",0),("_split_j",1),("trunc",0),("sin",0),("cos",0),("tan",0),("asin",0),("acos",0),("atan",0),("sinh",0),("cosh",0),("tanh",0),("exp",0),("exp2",0),("exp10",0),("log",0),("log2",0),("log10",0),("cbrt",0),("pow",2),("gmtime",0),("mktime",0),("strptime",1),("strftime",1),("have_literal_numbers",0),("test",1),("test",2),("match",1),("match",2),("capture",1),("capture",2),("scan",1),("scan",2),("splits",1),("splits",2),("sub",2),("sub",3),("gsub",2),("gsub",3),("split",2),("_trim_j",0),("_ltrim_j",0),("_rtrim_j",0),("_strindices",1),("getpath",1),("setpath",2),("delpaths",1)]

/-- the C-coded builtins, by name and evaluated arguments (cartesian product already taken) -/
def prim (d : Dialect) (name : String) (args : List (JV N)) (v : JV N) (p : PInfo N) : Res N :=
  let ok := okV p
  match name, args with
  | "empty", [] => some []
  | "not", [] => ok (.bool !v.truthy)
  | "error", [] => some [.err v]
  | "error", [m] => some [.err m]
  | "halt", [] => some [.halt 0 none]
  | "halt_error", [] => some [.halt 5 (some v)]
  | "halt_error", [.num c] =>
    (match NumOps.toInt? c with
     | some i => some [.halt i (some v)]
     | none => none)
  | "length", [] =>
    (match v with
     | .null => ok (JV.ofNat 0)
     | .bool _ => subjErr v "has no length"
     | .num n => (NumOps.math "length" n).bind fun r => ok (.num r)
     | .str s => ok (JV.ofNat s.length)
     | .arr xs => ok (JV.ofNat xs.length)
     | .obj fs => ok (JV.ofNat fs.length))
  | "utf8bytelength", [] =>
    (match v with
     | .str s => ok (JV.ofNat s.utf8ByteSize)
     | v => subjErr v "only strings have UTF-8 byte length")
  | "keys", [] =>
    (match v with
     | .obj fs => ok (.arr ((JV.objKeys fs).map .str))
     | .arr xs => ok (.arr ((List.range xs.length).map JV.ofNat))
     | v => subjErr v "has no keys")
  | "keys_unsorted", [] =>
    (match v with
     | .obj fs => ok (.arr (fs.map fun f => .str f.1))
     | .arr xs => ok (.arr ((List.range xs.length).map JV.ofNat))
     | v => subjErr v "has no keys")
  | "has", [k] =>
    (match v, k with
     | .obj fs, .str s => ok (.bool (JV.lookup fs s).isSome)
     | .arr xs, .num n =>
       (match NumOps.toInt? n with
        | some i => ok (.bool (0 ≤ i && i < xs.length))
        | none => none)
     | .null, _ => ok (.bool false)
     | v, k => errS s!"Cannot check whether {v.typeName} has a {k.typeName} key")
  | "contains", [b] =>
    (match containsV 200 v b with
     | some r => ok (.bool r)
     | none =>
       if (v.typeName == b.typeName) then none
       else binErr v b "cannot have their containment checked")
  | "type", [] => ok (.str v.typeName)
  | "tostring", [] => (toText v).bind fun s => ok (.str s)
  | "tojson", [] => v.toJson.bind fun s => ok (.str s)
  | "fromjson", [] =>
    (match v with
     | .str s =>
       (match (readJson s : Option (JV N)) with
        | some r => ok (if d.fromjsonPlain then plainAll 200 r else r)
        | none => badJsonMsg s)
     | v => subjErr v "only strings can be parsed")
  | "tonumber", [] =>
    (match v with
     | .num _ => ok v
     | .str s =>
       if validJsonNumber s.toList then (NumOps.ofLit s : Option N).bind fun n => ok (.num n)
       else if s == "null" || s == "true" || s == "false" then subjErr v "cannot be parsed as a number"
       else badJsonMsg s
     | v => subjErr v "cannot be parsed as a number")
  | "sort", [] =>
    (match v with
     | .arr xs => ok (.arr (JV.sort xs))
     | v => subjErr v "cannot be sorted, as it is not an array")
  | "_sort_by_impl", [keys] =>
    (match v, keys with
     | .arr xs, .arr ks =>
       if xs.length != ks.length then none
       else ok (.arr ((sortBy (fun a b => JV.cmp a.1 b.1) (ks.zip xs)).map (·.2)))
     | .arr _, _ => none
     | v, k => binErr v k "cannot be sorted, as they are not both arrays")
  | "_group_by_impl", [keys] =>
    (match v, keys with
     | .arr xs, .arr ks =>
       if xs.length != ks.length then none
       else ok (.arr ((groupRuns (sortBy (fun a b => JV.cmp a.1 b.1) (ks.zip xs))).map fun g => .arr (g.map (·.2))))
     | .arr _, _ => none
     | v, k => binErr v k "cannot be sorted, as they are not both arrays")
  | "_unique_by_impl", [keys] =>
    (match v, keys with
     | .arr xs, .arr ks =>
       if xs.length != ks.length then none
       else ok (.arr ((groupRuns (sortBy (fun a b => JV.cmp a.1 b.1) (ks.zip xs))).filterMap fun g => g.head?.map (·.2)))
     | .arr _, _ => none
     | v, k => binErr v k "cannot be sorted, as they are not both arrays")
  | "_min_by_impl", [keys] =>
    (match v, keys with
     | .arr xs, .arr ks =>
       if xs.length != ks.length then none
       else
         ok (match ks.zip xs with
             | [] => .null
             | x :: rest => (rest.foldl (fun best y => if JV.cmp y.1 best.1 == .lt then y else best) x).2)
     | .arr _, _ => none
     | v, _ => binErr v v "cannot be iterated over")
  | "_max_by_impl", [keys] =>
    (match v, keys with
     | .arr xs, .arr ks =>
       if xs.length != ks.length then none
       else
         ok (match ks.zip xs with
             | [] => .null
             | x :: rest => (rest.foldl (fun best y => if JV.cmp y.1 best.1 != .lt then y else best) x).2)
     | .arr _, _ => none
     | v, _ => binErr v v "cannot be iterated over")
  | "min", [] =>
    (match v with
     | .arr xs => ok (minMax xs false)
     | v => binErr v v "cannot be iterated over")
  | "max", [] =>
    (match v with
     | .arr xs => ok (minMax xs true)
     | v => binErr v v "cannot be iterated over")
  | "floor", [] | "sqrt", [] | "ceil", [] | "round", [] | "fabs", [] =>
    (match v with
     | .num n =>
       -- succinctly: floor/ceil/round go through `as i64` (saturating) and return an integer
       let nm := if d.succinctly && name != "sqrt" && name != "fabs" then name ++ "_i64" else name
       (NumOps.math nm n).bind fun r => ok (.num r)
     | v => if d.succinctly then errS "math function requires number" else subjErr v "number required")
  | "infinite", [] => ok (.num NumOps.inf)
  | "nan", [] => ok (.num NumOps.nan)
  | "isinfinite", [] =>
    (match v with
     | .num n => ok (.bool (NumOps.isInf n))
     | v => subjErr v "number required")
  | "isnan", [] =>
    (match v with
     | .num n => ok (.bool (NumOps.isNan n))
     | v => subjErr v "number required")
  | "explode", [] =>
    (match v with
     | .str s => ok (.arr (s.toList.map fun c => JV.ofNat c.toNat))
     | _ => errS "explode input must be a string")
  | "implode", [] =>
    (match v with
     | .arr xs =>
       (match xs.find? (fun x => match x with | .num n => NumOps.isNan n | _ => true) with
        | some bad => subjErr bad "can't be imploded, unicode codepoint needs to be numeric"
        | none =>
          -- codepoint = the number truncated; anything that is not a Unicode scalar value becomes U+FFFD
          let cp (x : JV N) : Option Char :=
            match x with
            | .num n =>
              (match NumOps.math "trunc" n with
               | some t =>
                 (match NumOps.toInt? t with
                  | some i =>
                    if 0 ≤ i && i ≤ 0x10FFFF && !(0xD800 ≤ i && i ≤ 0xDFFF) then some (Char.ofNat i.toNat) else some '\uFFFD'
                  | none => if NumOps.isInf n then some '\uFFFD' else none)
               | none => none)
            | _ => none
          let cs := xs.map cp
          if cs.any (·.isNone) then none else ok (.str (String.ofList (cs.map (·.getD ' ')))))
     | _ => errS "implode input must be an array")
  | "ltrimstr", [x] =>
    (match v, x with
     | .str s, .str pre => ok (if s.startsWith pre then .str (s.drop pre.length).toString else v)
     | _, _ => ok v)
  | "rtrimstr", [x] =>
    (match v, x with
     | .str s, .str suf => ok (if s.endsWith suf && !suf.isEmpty then .str (s.dropEnd suf.length).toString else v)
     | _, _ => ok v)
  | "startswith", [x] =>
    (match v, x with
     | .str s, .str pre => ok (.bool (s.startsWith pre))
     | _, _ => errS "startswith() requires string inputs")
  | "endswith", [x] =>
    (match v, x with
     | .str s, .str suf => ok (.bool (s.endsWith suf))
     | _, _ => errS "endswith() requires string inputs")
  | "split", [x] | "_split_j", [x] =>
    (match v, x with
     | .str s, .str sep =>
       if s.isEmpty then ok (.arr [])
       else if sep.isEmpty then ok (.arr (s.toList.map fun c => .str (String.singleton c)))
       else ok (.arr ((s.splitOn sep).map .str))
     | _, _ => errS "split input and separator must be strings")
  | "trim", [] | "ltrim", [] | "rtrim", [] | "_trim_j", [] | "_ltrim_j", [] | "_rtrim_j", [] =>
    (match v with
     | .str s =>
       let cs := s.toList
       let cs := if name != "rtrim" && name != "_rtrim_j" then cs.dropWhile isWsChar else cs
       let cs := if name != "ltrim" && name != "_ltrim_j" then (cs.reverse.dropWhile isWsChar).reverse else cs
       ok (.str (String.ofList cs))
     | _ => none)
  | "_strindices", [x] =>
    (match v, x with
     | .str s, .str n =>
       if isAscii s then ok (.arr ((strIndices s n).map JV.ofNat)) else none
     | _, _ => none)
  | "getpath", [pth] =>
    (match pth with
     | .arr ks =>
       (match p with
        | .lost => (dumpTrunc v).bind fun dmp => errS s!"Invalid path expression with result {dmp}"
        | _ =>
          -- jq: errors inside getpath yield null when the prefix is null; otherwise the message
          (match v.getpath ks with
           | .ok r => some [.val r (p.append ks)]
           | .error m => if m.startsWith "UNMODELLED" then none else errS m))
     | _ => errS "Path must be specified as an array")
  | "setpath", [pth, x] =>
    (match pth with
     | .arr ks => liftExc p.drop (v.setpath ks x)
     | _ => errS "Path must be specified as an array")
  | "_unmodelled", _ => none
  | "delpaths", [ps] =>
    (match ps with
     | .arr pths =>
       if pths.all (fun q => match q with | .arr _ => true | _ => false) then
         liftExc p.drop (JV.delPaths 200 v (pths.filterMap fun q => match q with | .arr ks => some ks | _ => none))
       else if d.succinctly then none else errS "Path must be specified as an array"
     | _ => errS "Paths must be specified as an array")
  | "trunc", [] =>
    (match v with
     | .num n => (NumOps.math (if d.succinctly then "trunc_i64" else "trunc") n).bind fun r => ok (.num r)
     | v => if d.succinctly then errS "math function requires number" else subjErr v "number required")
  | "have_literal_numbers", [] => ok (.bool true)
  | "sin", [] | "cos", [] | "tan", [] | "asin", [] | "acos", [] | "atan", [] | "sinh", [] | "cosh", [] | "tanh", []
  | "exp", [] | "exp2", [] | "exp10", [] | "log", [] | "log2", [] | "log10", [] | "cbrt", [] =>
    -- libm: only in the jq dialect (succinctly ships its own libm; last-bit differences are not modelled)
    if d.succinctly then none else
    (match v with
     | .num n => (NumOps.math name n).bind fun r => ok (.num r)
     | v => subjErr v "number required")
  | "pow", [a, b] =>
    if d.succinctly then none else
    (match a, b with
     | .num x, .num y => (NumOps.math2 "pow" x y).bind fun r => ok (.num r)
     | _, _ => none)
  | "gmtime", [] =>
    if d.succinctly then none else
    (match v with
     | .num n =>
       (match NumOps.toInt? n with
        | some t => ok (brokenDown t)
        | none => none)
     | _ => errS "gmtime() requires numeric inputs")
  | "mktime", [] =>
    if d.succinctly then none else
    (match v with
     | .arr xs =>
       let ints := xs.map fun x => match x with | .num n => NumOps.toInt? n | _ => none
       (match ints with
        | some y :: some mo :: some dd :: some h :: some mi :: some sec :: _ => ok (JV.ofInt (timegm y mo dd h mi sec))
        | _ => none)
     | _ => errS "mktime requires array inputs")
  | "strptime", [f] =>
    if d.succinctly then none else
    (match v, f with
     | .str s, .str "%Y-%m-%dT%H:%M:%SZ" =>
       (match parseIso s with
        | some (y, mo, dd, h, mi, sec) => ok (brokenDown (timegm y (mo - 1) dd h mi sec))
        | none => none)
     | .str s, .str fmt =>
       if fmt == "%Y-%m-%d" && !(s.toList.headD 'x').isDigit then errS s!"date \"{s}\" does not match format \"{fmt}\""
       else none
     | _, _ => errS "strptime/1 requires string inputs and arguments")
  | "strftime", [f] =>
    if d.succinctly then none else
    (match f with
     | .str "%Y-%m-%dT%H:%M:%SZ" =>
       let fromT (t : Int) : Res N :=
         let (y, mo, dd) := civilFromDays (t.fdiv 86400)
         let r := t.fmod 86400
         let p2 (i : Int) : String := if i < 10 then "0" ++ toString i else toString i
         let y4 := let ys := toString y; String.ofList (List.replicate (4 - ys.length) '0') ++ ys
         ok (.str s!"{y4}-{p2 mo}-{p2 dd}T{p2 (r / 3600)}:{p2 (r % 3600 / 60)}:{p2 (r % 60)}Z")
       (match v with
        | .num n => (NumOps.toInt? n).bind fromT
        | .arr xs =>
          let ints := xs.map fun x => match x with | .num n => NumOps.toInt? n | _ => none
          (match ints with
           | some y :: some mo :: some dd :: some h :: some mi :: some sec :: _ => fromT (timegm y mo dd h mi sec)
           | _ => none)
        | _ => errS "strftime/1 requires parsed datetime inputs")
     | _ => none)
  | "tostream_list", [] => ok (.arr v.tostream)
  | _, _ => none

/-! ### destructuring -/

mutual
def bindPatF (fuel : Nat) (pat : Pattern) (v : JV N) (p : PInfo N) (env : Env N) : Except String (Env N) :=
  match fuel with
  | 0 => .error "UNMODELLED pattern depth"
  | fuel + 1 =>
    match pat with
    | .var x => .ok (.var x v p env)
    | .arr ps =>
      (match v with
       | .arr _ | .null => bindArrF fuel ps 0 v p env
       | v => .error s!"Cannot index {v.typeName} with number")
    | .obj es =>
      (match v with
       | .obj _ | .null => bindObjF fuel es v p env
       | v =>
         match es with
         | (k, _, _) :: _ => .error s!"Cannot index {v.typeName} with string \"{k}\""
         | [] => .ok env)
def bindArrF (fuel : Nat) (ps : List Pattern) (i : Nat) (v : JV N) (p : PInfo N) (env : Env N) :
    Except String (Env N) :=
  match fuel with
  | 0 => .error "UNMODELLED pattern depth"
  | fuel + 1 =>
    match ps with
    | [] => .ok env
    | q :: rest =>
      let e := match v with | .arr xs => xs.getD i .null | _ => .null
      match bindPatF fuel q e p.drop env with
      | .ok env' => bindArrF fuel rest (i + 1) v p env'
      | .error m => .error m
def bindObjF (fuel : Nat) (es : List (String × Bool × Option Pattern)) (v : JV N) (p : PInfo N)
    (env : Env N) : Except String (Env N) :=
  match fuel with
  | 0 => .error "UNMODELLED pattern depth"
  | fuel + 1 =>
    match es with
    | [] => .ok env
    | (k, bk, sub) :: rest =>
      let e := match v with | .obj fs => (JV.lookup fs k).getD .null | _ => .null
      let env := if bk then Env.var k e p.drop env else env
      match sub with
      | none => bindObjF fuel rest v p env
      | some q =>
        match bindPatF fuel q e p.drop env with
        | .ok env' => bindObjF fuel rest v p env'
        | .error m => .error m
end

def bindPat (pat : Pattern) (v : JV N) (p : PInfo N) (env : Env N) : Except String (Env N) :=
  bindPatF 200 pat v p env

/-! ### one evaluation step -/

def cutBreak (name : String) (r : List (Out N)) : List (Out N) :=
  match r.getLast? with
  | some (.brk l) => if l == name then r.dropLast else r
  | _ => r

def retag (p : PInfo N) (r : List (Out N)) : List (Out N) :=
  r.map fun | .val v _ => .val v p.drop | o => o

/-- cartesian product over argument runs, last argument outermost -/
def cartArgs (runsRev : List (List (Out N))) (acc : List (JV N)) (f : List (JV N) → Res N) :
    Option (List (Out N)) :=
  match runsRev with
  | [] => f acc
  | r :: rest => bindOut r (fun x _ => cartArgs rest (x :: acc) f)

/-- object construction: first entry outermost, key before value -/
def objGo (ev : Expr → Res N) (keyErr : JV N → Res N) (entries : List (Expr × Expr))
    (acc : List (String × JV N)) (p : PInfo N) : Option (List (Out N)) :=
  match entries with
  | [] => some [.val (JV.mkObj acc.reverse) p.drop]
  | (ke, ve) :: rest => do
    let ks ← ev ke
    bindOut ks (fun kv _ => do
      let vs ← ev ve
      bindOut vs (fun vv _ =>
        match kv with
        | .str k => objGo ev keyErr rest ((k, vv) :: acc) p
        | bad => keyErr bad))

/-- string interpolation: parts given in reverse order (last part outermost) -/
def interpGo (ev : Expr → Res N) (fmtV : JV N → Option String) (partsRev : List (String × Option Expr))
    (suffix : String) (p : PInfo N) : Option (List (Out N)) :=
  match partsRev with
  | [] => some [.val (.str suffix) p.drop]
  | (litS, none) :: rest => interpGo ev fmtV rest (litS ++ suffix) p
  | (litS, some e) :: rest => do
    let vs ← ev e
    bindOut vs (fun x _ =>
      match fmtV x with
      | some s => interpGo ev fmtV rest (litS ++ s ++ suffix) p
      | none => none)

def navErrAccess (k t : JV N) : Res N :=
  match dumpTrunc k, dumpTrunc t with
  | some a, some b => errS s!"Invalid path expression near attempt to access element {a} of {b}"
  | _, _ => none

/-- an optional navigation step swallows its own error -/
def dropErrIf (opt : Bool) (r : List (Out N)) : List (Out N) :=
  if opt then (match r with | [.err _] => [] | r => r) else r

/-- succinctly vivifies the prefix of a path whose optional last step failed (`(.x|.[]?) |= f` adds
`"x":null`; recorded C24 finding): no verdict there -/
def optPathUnmodelled (d : Dialect) (opt : Bool) (tp : PInfo N) (r : List (Out N)) : Bool :=
  d.succinctly && opt && (match tp with | .at _ => true | _ => false) &&
    (match r with | [.err _] => true | _ => false)

def isLost : PInfo N → Bool
  | .lost => true
  | _ => false

/-- builtins whose behaviour in succinctly differs from jq 1.7.1 (each a recorded C24 finding or a
documented divergence): mapped to a `_…_s` prelude definition that mirrors succinctly, or to
`_unmodelled` when the model gives no verdict. -/
def succName (name : String) (arity : Nat) : String :=
  match name, arity with
  | "leaf_paths", 0 => "_unmodelled"
  | "pick", 1 => "_unmodelled"
  | "transpose", 0 => "_unmodelled"
  | "sqrt", 0 => "_unmodelled"
  | "isinfinite", 0 => "_unmodelled"
  | "infinite", 0 => "_unmodelled"
  | "isnormal", 0 => "_unmodelled"
  | "splits", _ => "_unmodelled"
  | "combinations", _ => "_unmodelled"
  | "have_literal_numbers", 0 => "_unmodelled"
  | "bsearch", 1 => "_unmodelled"
  | "IN", _ => "_unmodelled"
  | "INDEX", _ => "_unmodelled"
  | "ascii", _ => "_unmodelled"
  | "tostream", 0 => "tostream"
  | "last", 1 => "_last_s"
  | "nth", 2 => "_nth_s"
  | "limit", 2 => "_limit_s"
  | "reverse", 0 => "_reverse_s"
  | "flatten", 0 => "_flatten_s"
  | "flatten", 1 => "_flatten1_s"
  | "indices", 1 => "_indices_s"
  | "_modify", 2 => "_modify_s"
  | "_modify_alt", 2 => "_modify_alt_s"
  | "split", 1 => "_split_s"
  | "trim", 0 => "_trim_s"
  | "ltrim", 0 => "_ltrim_s"
  | "rtrim", 0 => "_rtrim_s"
  | n, _ => n

/-- `reduce`/`foreach` written in the user's program (as opposed to the ones inside the prelude's
definitions of builtins that succinctly implements natively): the prelude binds only these names -/
def userFold : Pattern → Bool
  | .var n => !(["p", "x", "i", "item", "q"].contains n)
  | _ => true

def evalStep (d : Dialect) (rec : Rec N) (e : Expr) (env : Env N) (v : JV N) (p : PInfo N) :
    Option (List (Out N)) :=
  match e with
  | .identity => some [.val v p]
  | .lit l =>
    (match l with
     | .null => okV p .null
     | .true_ => okV p (.bool true)
     | .false_ => okV p (.bool false)
     | .str s => okV p (.str s)
     | .num t => (NumOps.ofLit t : Option N).bind fun n => okV p (.num n))
  | .interp fmt parts =>
    let fmtV : JV N → Option String := fun x =>
      match fmt with
      | none => toText x
      | some f =>
        match applyFormat d f x with
        | some [.val (.str s) _] => some s
        | _ => none
    interpGo (fun a => rec a env v .off) fmtV parts.reverse "" p
  | .format name => (applyFormat d name v).map (retag p)
  | .index t k opt => do
    let ks ← rec k env v .off
    bindOut ks (fun kv _ => do
      let ts ← rec t env v p
      bindOut ts (fun tv tp =>
        if isLost tp then navErrAccess kv tv
        else (indexValue tv kv).bind fun r =>
          if optPathUnmodelled d opt tp r then none
          else some (dropErrIf opt (r.map fun | .val x _ => .val x (tp.push kv) | o => o))))
  | .slice t lo hi opt => do
    let los ← (match lo with | some a => rec a env v .off | none => some [.val .null .off])
    bindOut los (fun lv _ => do
      let his ← (match hi with | some a => rec a env v .off | none => some [.val .null .off])
      bindOut his (fun hv _ => do
        let ts ← rec t env v p
        bindOut ts (fun tv tp =>
          let lo' := if lo.isSome then some lv else none
          let hi' := if hi.isSome then some hv else none
          if isLost tp then navErrAccess (sliceKey lo' hi') tv
          else (sliceValue tv lo' hi').bind fun r =>
            if optPathUnmodelled d opt tp r then none
            else some (dropErrIf opt (r.map fun | .val x _ => .val x (tp.push (sliceKey lo' hi')) | o => o)))))
  | .iterate t opt => do
    let ts ← rec t env v p
    bindOut ts (fun tv tp =>
      if isLost tp then
        (match dumpTrunc tv with
         | some dmp => errS s!"Invalid path expression near attempt to iterate through {dmp}"
         | none => none)
      else (iterValues tv tp).bind fun r =>
        if optPathUnmodelled d opt tp r then none else some (dropErrIf opt r))
  | .try_ body handler => do
    let r ← rec body env v p
    match terminatorOf r with
    | some (.err ev) =>
      (match handler with
       | none => pure r.dropLast
       | some h => do
         let hr ← rec h env ev p.drop
         pure (r.dropLast ++ hr))
    | _ => pure r
  | .arr none => okV p (.arr [])
  | .arr (some a) => do
    let r ← rec a env v .off
    match terminatorOf r with
    | some t => pure [t]
    | none => okV p (.arr (valuesOf r))
  | .obj entries =>
    objGo (fun a => rec a env v .off)
      (fun bad =>
        match describe bad with
        | some s => errS s!"Cannot use {s} as object key"
        | none => none)
      entries [] p
  | .neg a => do
    let r ← rec a env v .off
    bindOut r (fun x _ =>
      match x with
      | .num n => okV p (.num (NumOps.neg n))
      | x => subjErr x "cannot be negated")
  | .pipe a b => do
    let r ← rec a env v p
    bindOut r (fun w q => rec b env w q)
  | .comma a b => do
    let r ← rec a env v p
    if terminated r then pure r else do
      let r2 ← rec b env v p
      pure (r ++ r2)
  | .binop op a b => do
    let rs ← rec b env v .off
    bindOut rs (fun rv _ => do
      let ls ← rec a env v .off
      bindOut ls (fun lv _ =>
        if isCmpOp op then okV p (.bool (cmpOp op lv rv))
        else (arithOp op lv rv).map (retag p)))
  | .and_ a b => do
    let ls ← rec a env v .off
    bindOut ls (fun lv _ =>
      if !lv.truthy then okV p (.bool false) else do
        let rs ← rec b env v .off
        bindOut rs (fun rv _ => okV p (.bool rv.truthy)))
  | .or_ a b => do
    let ls ← rec a env v .off
    bindOut ls (fun lv _ =>
      if lv.truthy then okV p (.bool true) else do
        let rs ← rec b env v .off
        bindOut rs (fun rv _ => okV p (.bool rv.truthy)))
  | .alt a b => do
    let r ← rec a env v p
    let good := r.filter fun | .val x _ => x.truthy | _ => false
    match terminatorOf r with
    | some t => pure (good ++ [t])
    | none => if good.isEmpty then rec b env v p else pure good
  | .ite c t el => do
    let cs ← rec c env v .off
    bindOut cs (fun cv _ =>
      if cv.truthy then rec t env v p
      else match el with
        | some x => rec x env v p
        | none => if d.ifNoElseNull then okV p .null else some [.val v p])
  | .reduce src pat init upd =>
    if d.succinctly && (match p with | .off => false | _ => true) then none else do
    let inits ← rec init env v p
    bindOut inits (fun iv ip => do
      let srcs ← rec src env v p
      let (st, outs) ← foldOut srcs (iv, ip) (fun st x xp =>
        match bindPat pat x xp env with
        | .error m => if m.startsWith "UNMODELLED" then none else some (st, [.err (.str m)])
        | .ok env' => do
          let r ← rec upd env' st.1 st.2
          match terminatorOf r with
          | some t => pure (st, [t])
          | none =>
            match r.getLast? with
            | some (.val nv np) => pure ((if d.succinctly && userFold pat then reparseAll 200 nv else nv, np), [])
            | _ => pure ((JV.null, st.2.drop), []))
      if terminated outs then pure outs else pure [.val st.1 st.2])
  | .foreach src pat init upd ext =>
    if d.succinctly && (match p with | .off => false | _ => true) then none else do
    let inits ← rec init env v p
    bindOut inits (fun iv ip => do
      let srcs ← rec src env v p
      let (_, outs) ← foldOut srcs (iv, ip) (fun st x xp =>
        match bindPat pat x xp env with
        | .error m => if m.startsWith "UNMODELLED" then none else some (st, [.err (.str m)])
        | .ok env' => do
          let r ← rec upd env' st.1 st.2
          foldOut r (JV.null, st.2.drop) (fun _ u0 up =>
            let u := if d.succinctly && userFold pat then reparseAll 200 u0 else u0
            match ext with
            | none => some ((u, up), [.val u up])
            | some x => do
              let er ← rec x env' u up
              pure ((u, up), er)))
      pure outs)
  | .label name body => do
    let r ← rec body env v p
    pure (cutBreak name r)
  | .brk name => some [.brk name]
  | .bind src pat body => do
    let ss ← rec src env v .off
    -- `a op= b` (desugared to `b as $__tmp | …`): succinctly uses only the first value of `b`
    if d.succinctly && (match pat with | .var "__tmp" => ss.length != 1 | _ => false) then none else
    bindOut ss (fun sv _ =>
      match bindPat pat sv p.drop env with
      | .ok env' => rec body env' v p
      | .error m => if m.startsWith "UNMODELLED" then none else errS m)
  | .var name =>
    (match lookupVar name env with
     | some (x, xp) => some [.val x (match p with | .off => .off | _ => xp)]
     | none => none)
  | .def_ name params body rest => rec rest (.fn name params body env) v p
  | .call name0 args =>
    let name := if d.succinctly then succName name0 args.length else name0
    if name == "_unmodelled" then none else
    match lookupFn name args.length env with
    | some (.arg body cenv) => rec body cenv v p
    | some (.fn params body self) =>
      -- bind parameters: `$x` parameters by value (cartesian, first outermost), others as closures
      let rec bindParams (ps : List String) (as : List Expr) (fenv : Env N) : Option (List (Out N)) :=
        match ps, as with
        | [], _ => rec body fenv v p
        | _ :: _, [] => none
        | ps1 :: prest, a :: arest =>
          if ps1.startsWith "$" then do
            let nm := (ps1.drop 1).toString
            let vs ← rec a env v .off
            if d.succinctly && vs.length != 1 then none else
            bindOut vs (fun x _ =>
              bindParams prest arest (.arg nm (.var nm) (.var nm x p.drop .nil) (.var nm x p.drop fenv)))
          else bindParams prest arest (.arg ps1 a env fenv)
      bindParams params args self
    | none =>
      match name, args with
      | "path", [f] => do
        let r ← rec f env v (.at [])
        bindOut r (fun w q =>
          match q with
          | .at pth => okV p (.arr pth)
          | _ =>
            match dumpTrunc w with
            | some dmp => errS s!"Invalid path expression with result {dmp}"
            | none => none)
      | "range", [a, b] => do
        let fs ← rec a env v .off
        if d.succinctly && fs.length != 1 then none else
        bindOut fs (fun x _ => do
          let us ← rec b env v .off
          if d.succinctly && us.length != 1 then none else
          bindOut us (fun y _ => rangeList x y p))
      | _, _ =>
        if ["test", "match", "capture", "scan", "splits", "sub", "gsub"].contains name
            || (name == "split" && args.length == 2) then
          -- no regex engine in the model: only the refusal of a non-string input is decided
          -- (jq checks the input before it looks at the pattern / replacement arguments)
          (match v with
           | .str _ => none
           | v => subjErr v "cannot be matched, as it is not a string")
        else
        if !primNames.contains (name, args.length) then none else do
          let runs ← args.mapM (fun a => rec a env v .off)
          -- succinctly evaluates an argument generator only once (first value); not modelled
          if d.succinctly && runs.any (fun r => r.length != 1 || terminated r) && name != "error" then
            (if runs.all (fun r => r.length == 1) then cartArgs runs.reverse [] (fun vals => prim d name vals v p) else none)
          else cartArgs runs.reverse [] (fun vals => prim d name vals v p)

/-- the evaluator: `fuel` bounds the nesting depth of evaluation steps -/
def eval (d : Dialect) : Nat → Rec N
  | 0 => fun _ _ _ _ => none
  | fuel + 1 => evalStep d (eval d fuel)

end

end SV.Jq
