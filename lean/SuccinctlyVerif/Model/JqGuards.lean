/-
Model/JqGuards — the size guards of the jq evaluator (`src/jq/eval.rs`) as decision logic.

Each guarded builtin is modelled only as far as the *size* of the value it builds in one step:
`range` (cap `MAX_RANGE`, extracted from source into Generated/C30), string repetition (`arith_mul`:
`checked_mul` + `try_reserve_exact`), `setpath` / `.[n] = v` padding (`resolve_setpath_index` +
`pad_with_nulls`: `checked_add` + `try_reserve`), `combinations(n)` (`try_reserve_exact`) and `limit`.
The allocator's answer to `try_reserve*` is a parameter (`alloc : Nat → Bool`, "can this many
bytes / elements be reserved"); `usize` is 64 bits.  Checked `usize` subtraction answers `panic`.
-/
import SuccinctlyVerif.Generated.C30
namespace SV.JqGuards
open SV.Gen

/-- 2^64: `usize::MAX + 1`. -/
abbrev USIZE : Nat := 18446744073709551616

inductive GRes (α : Type)
  | ok (a : α)
  | null                       -- jq `null` result (negative repetition count)
  | error (msg : String)       -- a jq error the program can catch
  | panic                      -- Rust panic / abort
  deriving DecidableEq, Repr

/-! ## `range(from; to; step)` over integers (`eval_range_values`) -/

/-- `while i < to && values.len() < MAX_RANGE { values.push(i); i += step }`; `fuel` is
`MAX_RANGE - values.len()`, the accumulator is in reverse order. -/
def rangeUp (to step : Int) : Nat → Int → List Int → List Int
  | 0, _, acc => acc
  | fuel + 1, i, acc => if i < to then rangeUp to step fuel (i + step) (i :: acc) else acc

/-- `while i > to && values.len() < MAX_RANGE { … }` for a negative step. -/
def rangeDown (to step : Int) : Nat → Int → List Int → List Int
  | 0, _, acc => acc
  | fuel + 1, i, acc => if i > to then rangeDown to step fuel (i + step) (i :: acc) else acc

/-- The values `range(from; to; step)` accumulates with cap `cap` (the code uses `MAX_RANGE`). -/
def rangeValuesCap (cap : Nat) (from_ to step : Int) : List Int :=
  if step > 0 then (rangeUp to step cap from_ []).reverse
  else if step < 0 then (rangeDown to step cap from_ []).reverse
  else []

def rangeValues (from_ to step : Int) : List Int := rangeValuesCap JQ_MAX_RANGE from_ to step

/-! ## string repetition (`arith_mul`, string × number) -/

/-- `s * n` for a string of `len` bytes: the byte length of the result.
`if n < 0 { null } else { fits = len.checked_mul(n).is_some_and(|t| try_reserve_exact(t).is_ok());
 if !fits { error } else { s.repeat(n) } }`. -/
def repeatString (len : Nat) (n : Int) (alloc : Nat → Bool) : GRes Nat :=
  if n < 0 then .null
  else
    let k := n.toNat
    if len * k < USIZE ∧ alloc (len * k) = true then .ok (len * k)
    else .error "Repeat string result too long"

/-! ## `setpath` / `.[n] = v`: index resolution and null padding -/

/-- `resolve_setpath_index(key, len)` for an integer key. -/
def resolveSetpathIndex (idx : Int) (len : Nat) : GRes Nat :=
  let resolved := if idx < 0 then (len : Int) + idx else idx
  if resolved < 0 then .error "Out of bounds negative array index"
  else if resolved.toNat < USIZE then .ok resolved.toNat
  else .error s!"Cannot grow array to {resolved.toNat + 1} elements"

/-- `pad_with_nulls(arr, index)`: new length of the array (`arrLen` its current length).
`len = index.checked_add(1)?; arr.try_reserve(len - arr.len())?; arr.resize(len, Null)`. -/
def padWithNulls (arrLen index : Nat) (alloc : Nat → Bool) : GRes Nat :=
  if index + 1 < USIZE then
    let len := index + 1
    if arrLen ≤ len then                                  -- checked `len - arr.len()`
      if alloc (len - arrLen) = true then .ok len else .error s!"Cannot grow array to {len} elements"
    else .panic
  else .error s!"Cannot grow array to {index + 1} elements"

/-- the numeric-key arm of `set_value_at_path` / `write_index`: resulting array length. -/
def setpathLength (arrLen : Nat) (idx : Int) (alloc : Nat → Bool) : GRes Nat :=
  match resolveSetpathIndex idx arrLen with
  | .ok index => if index ≥ arrLen then padWithNulls arrLen index alloc else .ok arrLen
  | .null => .null
  | .error m => .error m
  | .panic => .panic

/-! ## `combinations(n)`: the `n` copies of the input array -/

/-- number of array slots reserved (`try_reserve_exact(n)`) before the product is computed. -/
def combinationsCopies (n : Nat) (alloc : Nat → Bool) : GRes Nat :=
  if alloc n = true then .ok n else .error s!"Cannot grow array to {n} elements"

/-! ## `limit(n; f)` over a stream of `m` outputs -/

/-- number of outputs `limit(n; f)` lets through when `f` has `m` outputs: none for `n = 0`, all of
them for a negative `n` (jq 1.7), else at most `n`. -/
def limitCount (n : Int) (m : Nat) : Nat :=
  if n = 0 then 0 else if n < 0 then m else min n.toNat m

end SV.JqGuards
