/-
Model/YamlPos — the strict YAML validator's position bookkeeping (src/yaml/validate.rs): a running
cursor `(offset, line, column)` starting at `(0, 1, 1)`, moved only by
  * `advance` / `skip_spaces` / `skip_spaces_and_tabs` / `skip_to_line_end` / `scan_anchor_name`:
    `offset += 1; column += 1` per byte (used on bytes that are not line breaks), and
  * `consume_line_break`: `offset += line_break_len; line += 1; column = 1`
    (`line_break_len` = 2 for CRLF, 1 for a lone CR or LF, 0 otherwise → no movement);
the single error constructor `error(kind)` reports the cursor.  The 2 274-line validator's decisions
(which operation it performs where) are NOT modelled.  Import-free.
-/
namespace SV.YamlVPos

structure Cursor where
  off : Nat
  line : Nat
  col : Nat
  deriving Repr, DecidableEq

inductive Op where
  /-- one non-break byte -/
  | adv
  /-- `consume_line_break` -/
  | brk
  deriving Repr, DecidableEq

def lineBreakLen (bs : List UInt8) (pos : Nat) : Nat :=
  match bs[pos]?, bs[pos + 1]? with
  | some 13, some 10 => 2
  | some 13, _ => 1
  | some 10, _ => 1
  | _, _ => 0

def isBreak (b : UInt8) : Bool := b == 10 || b == 13

/-- One cursor movement; `none` when the operation is used outside its contract (`adv` on a break
byte or past the end). -/
def step (bs : List UInt8) (c : Cursor) : Op → Option Cursor
  | .adv =>
    match bs[c.off]? with
    | some b => if isBreak b then none else some ⟨c.off + 1, c.line, c.col + 1⟩
    | none => none
  | .brk =>
    let n := lineBreakLen bs c.off
    if n = 0 then some c else some ⟨c.off + n, c.line + 1, 1⟩

def run (bs : List UInt8) : Cursor → List Op → Option Cursor
  | c, [] => some c
  | c, op :: ops => (step bs c op).bind fun c' => run bs c' ops

end SV.YamlVPos
