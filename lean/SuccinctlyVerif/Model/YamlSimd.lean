/-
Model/YamlSimd — the x86 YAML scanning kernels of `src/yaml/simd/x86.rs` at lane level, and the
public dispatching wrappers of `src/yaml/simd/mod.rs`, for the three dispatch levels AVX2 (32-byte
chunks + one 16-byte step + scalar tail), SSE2 (16-byte chunks + scalar tail) and scalar
(`scalar-yaml` feature).

Lane semantics (modelled, not verified — DESIGN §3): a vector register is the list of its byte
lanes; `_mm{,256}_cmpeq_epi8(chunk, set1(c))` is `cmpeq c` per lane, `_mm{,256}_or_si*` is `por` per
lane, `_mm{,256}_movemask_epi8` collects the most significant bit of every lane into an integer
(`movemask`, lane 0 = bit 0), `u32::trailing_zeros` is `ctz32`, `!mask` on `u32` is `not32`.
Loops carry the not-yet-consumed suffix `data[offset..]` next to `offset`; `fuel` (= length + 1)
only makes the recursion structural.
-/
import SuccinctlyVerif.Spec.YamlKernels
namespace SV.YamlK

/-! ### lane primitives -/

/-- One lane of `_mm_cmpeq_epi8(chunk, _mm_set1_epi8(c))`. -/
def cmpeq (c x : Byte) : Byte := if x == c then 0xff#8 else 0x00#8
/-- One lane of `_mm_or_si128`. -/
def por (a b : Byte) : Byte := a ||| b
/-- `_mm_movemask_epi8`: bit `i` = most significant bit of lane `i`. -/
def movemask : List Byte → Nat
  | [] => 0
  | l :: ls => (if l.msb then 1 else 0) + 2 * movemask ls

def ctzGo : Nat → Nat → Nat
  | 0, _ => 0
  | f + 1, m => if m % 2 = 1 then 0 else 1 + ctzGo f (m / 2)
/-- `u32::trailing_zeros` (32 for zero). -/
def ctz32 (m : Nat) : Nat := ctzGo 32 m
/-- `!mask` on a `u32`. -/
def not32 (m : Nat) : Nat := 0xFFFFFFFF - m
/-- `0xFFFF` / `0xFFFF_FFFF`: every lane of a `W`-byte register matched. -/
def allOnes (W : Nat) : Nat := 2 ^ W - 1
/-- `_mm_loadu_si128(input.as_ptr().add(pos))`: the `W` bytes at `pos`. -/
def chunkAt (buf : List Byte) (pos W : Nat) : List Byte := (buf.drop pos).take W

/-! ### lane DAGs of the kernels (the `cmpeq`/`or` trees of x86.rs, one lane) -/

/-- `or(cmpeq(chunk,'"'), cmpeq(chunk,'\\'))` -/
def laneQuoteOrEsc (x : Byte) : Byte := por (cmpeq 0x22#8 x) (cmpeq 0x5c#8 x)
/-- `cmpeq(chunk,'\'')` -/
def laneSingleQuote (x : Byte) : Byte := cmpeq 0x27#8 x
/-- `cmpeq(chunk,' ')` -/
def laneSpace (x : Byte) : Byte := cmpeq 0x20#8 x
/-- `cmpeq(chunk,'\n')` -/
def laneNewline (x : Byte) : Byte := cmpeq 0x0a#8 x
/-- `or(cmpeq(chunk,'\n'), cmpeq(chunk,'\r'))` (`find_block_scalar_end_*`) -/
def laneBreak (x : Byte) : Byte := por (cmpeq 0x0a#8 x) (cmpeq 0x0d#8 x)
/-- `definite = or(ws, flow)` of `parse_anchor_name_avx2`. -/
def laneAnchorDefinite (x : Byte) : Byte :=
  let ws := por (cmpeq 0x20#8 x) (cmpeq 0x09#8 x)
  let ws := por ws (cmpeq 0x0a#8 x)
  let ws := por ws (cmpeq 0x0d#8 x)
  let flow := por (cmpeq 0x5b#8 x) (cmpeq 0x5d#8 x)
  let flow := por flow (cmpeq 0x7b#8 x)
  let flow := por flow (cmpeq 0x7d#8 x)
  let flow := por flow (cmpeq 0x2c#8 x)
  por ws flow
/-- `is_colon = cmpeq(chunk, ':')` -/
def laneColon (x : Byte) : Byte := cmpeq 0x3a#8 x

/-! ### dispatch -/

inductive Level | avx2 | sse2 | scalar
  deriving DecidableEq, Repr

/-- `parse_simd_clamp`: `match value.trim().to_ascii_lowercase().as_str()`. -/
def parseSimdClamp (value : List Char) : Option Bool :=
  let v := normalise value
  if v = ['s','c','a','l','a','r'] ∨ v = ['s','s','e','2'] ∨ v = ['s','s','e','4','2'] ∨
      v = ['s','s','e','4','.','2'] then some true
  else if v = ['a','v','x','2'] ∨ v = [] then some false
  else none

/-- `clamp_below_avx2`: `env::var("SUCCINCTLY_SIMD").is_ok_and(|v| parse_simd_clamp(&v) == Some(true))`. -/
def clampBelowAvx2 (env : Option (List Char)) : Bool :=
  match env with
  | some v => parseSimdClamp v == some true
  | none => false

/-- `avx2_enabled`: `is_x86_feature_detected!("avx2") && !clamp_below_avx2()`. -/
def avx2Enabled (detected : Bool) (env : Option (List Char)) : Bool :=
  detected && !clampBelowAvx2 env

/-- The dispatch level of a default (non-`scalar-yaml`) x86_64 build. -/
def levelOf (detected : Bool) (env : Option (List Char)) : Level :=
  if avx2Enabled detected env then .avx2 else .sse2

/-! ### `find_*` kernels: first matching byte -/

/-- `while offset + W <= len { mask = movemask(lane(chunk)); if mask != 0 { return Some(offset +
mask.trailing_zeros()) } offset += W }`.  `.inl r` = returned `r`; `.inr (rest, offset)` = loop
left with `rest = data[offset..]`. -/
def findMain (lane : Byte → Byte) (W : Nat) : Nat → List Byte → Nat → Sum (Option Nat) (List Byte × Nat)
  | 0, rest, off => .inr (rest, off)
  | fuel + 1, rest, off =>
    if W ≤ rest.length then
      let mask := movemask ((rest.take W).map lane)
      if mask ≠ 0 then .inl (some (off + ctz32 mask))
      else findMain lane W fuel (rest.drop W) (off + W)
    else .inr (rest, off)

/-- `(offset..len).find(|&i| p(data[i]))` -/
def findTail (p : Byte → Bool) (rest : List Byte) (off : Nat) : Option Nat :=
  (rest.findIdx? p).map (off + ·)

/-- Shape of `find_*_sse2`: 16-byte loop, scalar tail. -/
def findSse2 (lane : Byte → Byte) (p : Byte → Bool) (data : List Byte) : Option Nat :=
  match findMain lane 16 (data.length + 1) data 0 with
  | .inl r => r
  | .inr (rest, off) => findTail p rest off

/-- Shape of `find_*_avx2`: 32-byte loop, one 16-byte SSE2 step, scalar tail. -/
def findAvx2 (lane : Byte → Byte) (p : Byte → Bool) (data : List Byte) : Option Nat :=
  match findMain lane 32 (data.length + 1) data 0 with
  | .inl r => r
  | .inr (rest, off) =>
    if 16 ≤ rest.length then
      let mask := movemask ((rest.take 16).map lane)
      if mask ≠ 0 then some (off + ctz32 mask)
      else findTail p (rest.drop 16) (off + 16)
    else findTail p rest off

/-- A `find_*` kernel on `data` at a dispatch level. -/
def findAt (lvl : Level) (lane : Byte → Byte) (p : Byte → Bool) (data : List Byte) : Option Nat :=
  match lvl with
  | .avx2 => findAvx2 lane p data
  | .sse2 => findSse2 lane p data
  | .scalar => data.findIdx? p

/-- `yaml::simd::find_quote_or_escape` (mod.rs guard + `&input[start..end]` + kernel). -/
def findQuoteOrEscape (lvl : Level) (buf : List Byte) (start end_ : Nat) : Option Nat :=
  if start ≥ end_ ∨ start ≥ buf.length then none
  else findAt lvl laneQuoteOrEsc isQuoteOrEsc ((buf.take (min end_ buf.length)).drop start)

/-- `yaml::simd::find_single_quote`. -/
def findSingleQuote (lvl : Level) (buf : List Byte) (start end_ : Nat) : Option Nat :=
  if start ≥ end_ ∨ start ≥ buf.length then none
  else findAt lvl laneSingleQuote isSingleQuote ((buf.take (min end_ buf.length)).drop start)

/-- `yaml::simd::find_newline` (`&input[start..]`). -/
def findNewline (lvl : Level) (buf : List Byte) (start : Nat) : Option Nat :=
  if start ≥ buf.length then none
  else findAt lvl laneNewline isLF (buf.drop start)

/-! ### `count_leading_spaces` -/

/-- `while offset + W <= len { mask = movemask(cmpeq(chunk,' ')); if mask != ALL { return offset +
(!mask).trailing_zeros() } offset += W }` -/
def countMain (W : Nat) : Nat → List Byte → Nat → Sum Nat (List Byte × Nat)
  | 0, rest, off => .inr (rest, off)
  | fuel + 1, rest, off =>
    if W ≤ rest.length then
      let mask := movemask ((rest.take W).map laneSpace)
      if mask ≠ allOnes W then .inl (off + ctz32 (not32 mask))
      else countMain W fuel (rest.drop W) (off + W)
    else .inr (rest, off)

/-- `offset + data[offset..].iter().take_while(|b| b == ' ').count()` -/
def countTail (rest : List Byte) (off : Nat) : Nat := off + (rest.takeWhile isSpace).length

def countSse2 (data : List Byte) : Nat :=
  match countMain 16 (data.length + 1) data 0 with
  | .inl r => r
  | .inr (rest, off) => countTail rest off

def countAvx2 (data : List Byte) : Nat :=
  match countMain 32 (data.length + 1) data 0 with
  | .inl r => r
  | .inr (rest, off) =>
    if 16 ≤ rest.length then
      let mask := movemask ((rest.take 16).map laneSpace)
      if mask ≠ allOnes 16 then off + ctz32 (not32 mask)
      else countTail (rest.drop 16) (off + 16)
    else countTail rest off

/-- `yaml::simd::count_leading_spaces`. -/
def countLeadingSpacesAt (lvl : Level) (buf : List Byte) (start : Nat) : Nat :=
  if start ≥ buf.length then 0
  else match lvl with
    | .avx2 => countAvx2 (buf.drop start)
    | .sse2 => countSse2 (buf.drop start)
    | .scalar => ((buf.drop start).takeWhile isSpace).length

/-! ### `find_block_scalar_end` -/

/-- Indentation of the line at `line_start` as the vector kernels count it: one `W`-byte space
compare when `remaining >= W` (`(!space_mask).trailing_zeros()`, or `W` plus a byte loop when all
`W` are spaces), else the byte loop. -/
def simdIndent (W : Nat) (buf : List Byte) (lineStart : Nat) : Nat :=
  let remaining := buf.length - lineStart
  if remaining ≥ W then
    let spaceMask := movemask ((chunkAt buf lineStart W).map laneSpace)
    if spaceMask ≠ allOnes W then ctz32 (not32 spaceMask)
    else W + ((buf.drop (lineStart + W)).takeWhile isSpace).length
  else ((buf.drop lineStart).takeWhile isSpace).length

/-- The per-line test of the vector kernels at `line_start` (`some r` = the kernel returns `r`):
EOF check, indentation (`simdIndent`), then "content at insufficient indent". -/
def simdLineTest (W : Nat) (buf : List Byte) (minIndent lineStart : Nat) : Option Nat :=
  if lineStart ≥ buf.length then some buf.length
  else
    let indent := simdIndent W buf lineStart
    if lineStart + indent < buf.length then
      let nextChar := buf.getD (lineStart + indent) 0#8
      if nextChar != 0x0a#8 && nextChar != 0x0d#8 && indent < minIndent then some lineStart else none
    else none

/-- `while nl_mask != 0 { offset = nl_mask.trailing_zeros(); line_start = pos + offset + 1; …test…;
nl_mask &= nl_mask - 1 }` for the chunk at `pos`.  `some r` = the kernel returned `r`. -/
def nlMaskLoop (test : Nat → Option Nat) (pos : Nat) : Nat → Nat → Option Nat
  | 0, _ => none
  | fuel + 1, nlMask =>
    if nlMask = 0 then none
    else
      let offset := ctz32 nlMask
      let lineStart := pos + offset + 1
      match test lineStart with
      | some r => some r
      | none => nlMaskLoop test pos fuel (nlMask &&& (nlMask - 1))

/-- `find_block_scalar_end_{avx2,sse2}`: `while pos + W < input.len() { … pos += W }` then the scalar
kernel from `pos`. -/
def blockEndSimd (W : Nat) (buf : List Byte) (minIndent : Nat) : Nat → Nat → Nat
  | 0, pos => findBlockScalarEndScalar buf pos minIndent
  | fuel + 1, pos =>
    if pos + W < buf.length then
      let nlMask := movemask ((chunkAt buf pos W).map laneBreak)
      match nlMaskLoop (simdLineTest W buf minIndent) pos 33 nlMask with
      | some r => r
      | none => blockEndSimd W buf minIndent fuel (pos + W)
    else findBlockScalarEndScalar buf pos minIndent

/-- The raw kernel at a level (`find_block_scalar_end_avx2`, `_sse2`, `_scalar`). -/
def blockEndKernel (lvl : Level) (buf : List Byte) (start minIndent : Nat) : Nat :=
  match lvl with
  | .avx2 => blockEndSimd 32 buf minIndent (buf.length + 1) start
  | .sse2 => blockEndSimd 16 buf minIndent (buf.length + 1) start
  | .scalar => findBlockScalarEndScalar buf start minIndent

/-- `yaml::simd::find_block_scalar_end` (always `Some`): x86 wrapper `start >= len → len`. -/
def findBlockScalarEnd (lvl : Level) (buf : List Byte) (start minIndent : Nat) : Nat :=
  match lvl with
  | .scalar => findBlockScalarEndScalar buf start minIndent
  | _ => if start ≥ buf.length then buf.length else blockEndKernel lvl buf start minIndent

/-! ### `parse_anchor_name` -/

/-- `parse_anchor_name_avx2` main loop: `while pos + 32 <= end { … }` then the scalar kernel. -/
def anchorAvx2Loop (buf : List Byte) : Nat → Nat → Nat
  | 0, pos => parseAnchorNameScalar buf pos
  | fuel + 1, pos =>
    if pos + 32 ≤ buf.length then
      let chunk := chunkAt buf pos 32
      let definiteMask := movemask (chunk.map laneAnchorDefinite)
      let colonMask := movemask (chunk.map laneColon)
      let combined := definiteMask ||| colonMask
      if combined ≠ 0 then
        let firstPos := ctz32 combined
        if (definiteMask >>> firstPos) &&& 1 ≠ 0 then pos + firstPos
        else
          let colonPos := pos + firstPos
          if colonPos + 1 < buf.length ∧ isWs (buf.getD (colonPos + 1) 0#8) then colonPos
          else parseAnchorNameScalar buf (colonPos + 1)
      else anchorAvx2Loop buf fuel (pos + 32)
    else parseAnchorNameScalar buf pos

/-- `parse_anchor_name_avx2(input, start)`. -/
def parseAnchorNameAvx2 (buf : List Byte) (start : Nat) : Nat :=
  if start ≥ buf.length then start else anchorAvx2Loop buf (buf.length + 1) start

/-- `yaml::simd::parse_anchor_name`: x86 dispatch uses the AVX2 kernel when `start + 16 <= len` and
AVX2 is enabled; there is no SSE2 kernel — SSE2 level and `scalar-yaml` run the scalar kernel. -/
def parseAnchorName (lvl : Level) (buf : List Byte) (start : Nat) : Nat :=
  match lvl with
  | .avx2 => if start + 16 ≤ buf.length then parseAnchorNameAvx2 buf start else parseAnchorNameScalar buf start
  | _ => parseAnchorNameScalar buf start

/-! ### `classify_yaml_chars` -/

/-- `classify_yaml_chars_{avx2,sse2}::<HAS_CR>` on the `W`-byte chunk at `offset`. -/
def classifyChunk (W : Nat) (hasCr : Bool) (buf : List Byte) (offset : Nat) : CharClass :=
  let chunk := chunkAt buf offset W
  { newlines := movemask (chunk.map (cmpeq 0x0a#8))
    carriageReturns := if hasCr then movemask (chunk.map (cmpeq 0x0d#8)) else 0
    colons := movemask (chunk.map (cmpeq 0x3a#8))
    hyphens := movemask (chunk.map (cmpeq 0x2d#8))
    spaces := movemask (chunk.map (cmpeq 0x20#8))
    quotesDouble := movemask (chunk.map (cmpeq 0x22#8))
    quotesSingle := movemask (chunk.map (cmpeq 0x27#8))
    backslashes := movemask (chunk.map (cmpeq 0x5c#8))
    hash := movemask (chunk.map (cmpeq 0x23#8))
    width := W }

/-- `x86::classify_yaml_chars::<HAS_CR>(input, offset)` with `avx2_enabled() = avx2`. -/
def classifyYamlChars (avx2 : Bool) (hasCr : Bool) (buf : List Byte) (offset : Nat) : Option CharClass :=
  if offset + 16 > buf.length then none
  else if offset + 32 ≤ buf.length ∧ avx2 then some (classifyChunk 32 hasCr buf offset)
  else if offset + 16 ≤ buf.length then some (classifyChunk 16 hasCr buf offset)
  else none

/-- `YamlCharClass::plain_scalar_terminators::<HAS_CR>`. -/
def plainScalarTerminators (hasCr : Bool) (c : CharClass) : Nat :=
  let t := c.newlines ||| c.colons ||| c.hash
  if hasCr then t ||| c.carriageReturns else t

end SV.YamlK
