/-
Model/Lines — executable model of `succinctly::text::LineIndex` (src/text/lines.rs) and of
`line_break_len` (src/text/line_break.rs), following the Rust code.

* `usize` is 64 bits (`USIZE = 2^64`), `u32` casts are `% 2^32`.  The harness and the crate's
  release profile compile with overflow checks off, so `+`/`+=` wrap; the model wraps at exactly
  the places the code can (`offset - start + 1`, `line_idx += 1`); `to_offset` uses `checked_add`.
  A subtraction that would underflow and the `.expect(..)` on `predecessor` are modelled as an
  explicit panic (`none` / `Answer.panic`); the theorems show they never happen.
* The Elias–Fano sequence `starts` is kept abstractly as the plain `List Nat` it encodes;
  `EliasFano::{len,get,predecessor}` are modelled by their plain-list meaning (`efLen`, `efGet`,
  `efPredecessor`).  That the real structure computes these is property C03.
* `text.get(pos)` / `text.get(pos + 1)` are rendered as pattern matching on the suffix `text[pos..]`.
* The `&self` + `Cell` cache is rendered as an explicit `Cache` value threaded through the queries.
-/
import SuccinctlyVerif.Spec.Lines
namespace SV.LinesM
open SV.Lines

def U32_MAX : Nat := 4294967295
def USIZE : Nat := 18446744073709551616

/-- `x as u32` -/
def toU32 (x : Nat) : Nat := x % 4294967296

/-! ### src/text/line_break.rs -/

/-- `line_break_len(text, pos)` where the argument is the suffix `text[pos..]`:
`Some(b'\r') if text.get(pos + 1) == Some(&b'\n') => 2, Some(b'\r' | b'\n') => 1, _ => 0`. -/
def lineBreakLen : List Byte → Nat
  | [] => 0
  | b :: rest =>
    if b = CR then
      match rest with
      | c :: _ => if c = LF then 2 else 1
      | [] => 1
    else if b = LF then 1
    else 0

/-! ### Elias–Fano sequence, abstractly (exactness of the real structure: C03) -/

/-- `EliasFano::len` -/
def efLen (xs : List Nat) : Nat := xs.length

/-- `EliasFano::get(i)` -/
def efGet (xs : List Nat) (i : Nat) : Option Nat := xs[i]?

/-- Last index (counted from `i`) whose element is `≤ v`, with the element. -/
def efPredFrom (v : Nat) : List Nat → Nat → Option (Nat × Nat)
  | [], _ => none
  | x :: xs, i =>
    match efPredFrom v xs (i + 1) with
    | some r => some r
    | none => if x ≤ v then some (i, x) else none

/-- `EliasFano::predecessor(v)`: the largest element `≤ v` (last such index), `None` if the
sequence is empty or every element exceeds `v`. -/
def efPredecessor (xs : List Nat) (v : Nat) : Option (Nat × Nat) := efPredFrom v xs 0

/-! ### LineIndex::build -/

/-- Pass 2 of `LineIndex::build`: the `while i < text.len()` loop.  `suffix = text[i..]`,
`len = text.len()`; returns the values pushed onto `starts`, in order.  `fuel` bounds the
iterations (`len` suffice: `i` grows by at least 1 per iteration). -/
def buildLoop : Nat → List Byte → Nat → Nat → List Nat
  | 0, _, _, _ => []
  | fuel + 1, suffix, i, len =>
    if i < len then
      let width := lineBreakLen suffix
      if width = 0 then
        buildLoop fuel (suffix.drop 1) (i + 1) len              -- i += 1; continue
      else
        let i' := i + width                                      -- i += width
        if i' < len then toU32 i' :: buildLoop fuel (suffix.drop width) i' len   -- starts.push(i as u32)
        else buildLoop fuel (suffix.drop width) i' len
    else []

/-- The struct without its cache cell. -/
structure LineIndex where
  /-- the sequence encoded by `starts: EliasFano` -/
  starts : List Nat
  textLen : Nat
deriving Repr, DecidableEq

/-- `LineIndex::build`; `none` = the `assert!(text.len() <= u32::MAX)` fires.  (Pass 1 only
computes a capacity and has no observable effect.) -/
def build (text : List Byte) : Option LineIndex :=
  if text.length ≤ U32_MAX then
    some { starts := 0 :: buildLoop text.length text 0 text.length, textLen := text.length }
  else none

/-! ### the cache -/

/-- `LineCacheEntry` (three `u32`). -/
structure CacheEntry where
  offset : Nat
  lineIdx : Nat
  lineStart : Nat
deriving Repr, DecidableEq

/-- `Cell<Option<LineCacheEntry>>` -/
abbrev Cache := Option CacheEntry

/-- `(idx + 1, offset - start as usize + 1)`; `none` = the subtraction underflows. -/
def mkLineCol (idx offset start : Nat) : Option (Nat × Nat) :=
  if start ≤ offset then some (idx + 1, (offset - start + 1) % USIZE) else none

/-- `walk_forward_from`: the `for _ in 0..FORWARD_WALK_CAP` loop.  `some (line_idx, line_start)` =
the `_ =>` arm was reached (query resolved), `none` = the loop ran out. -/
def walkForward (starts : List Nat) (query : Nat) : Nat → Nat → Nat → Option (Nat × Nat)
  | 0, _, _ => none
  | fuel + 1, lineIdx, lineStart =>
    match efGet starts (lineIdx + 1) with
    | some nextStart =>
      if nextStart ≤ query then walkForward starts query fuel (toU32 (lineIdx + 1)) nextStart
      else some (lineIdx, lineStart)
    | none => some (lineIdx, lineStart)

/-- The tail of `to_line_column` (cold / backward / walk-exceeded path): `predecessor(query)`,
store the cache entry, answer. -/
def coldLookup (ix : LineIndex) (cache : Cache) (offset query : Nat) : Option (Nat × Nat) × Cache :=
  match efPredecessor ix.starts query with
  | none => (none, cache)                                    -- .expect("LineIndex always holds line 1")
  | some (idx, start) =>
    (mkLineCol idx offset start, some { offset := query, lineIdx := toU32 idx, lineStart := start })

/-- `LineIndex::to_line_column` with `FORWARD_WALK_CAP = cap`.  Returns the answer (`none` =
panic) and the new cache. -/
def toLineColumn (cap : Nat) (ix : LineIndex) (cache : Cache) (offset : Nat) :
    Option (Nat × Nat) × Cache :=
  let query := toU32 (min offset U32_MAX)                      -- offset.min(u32::MAX as usize) as u32
  match cache with
  | none => coldLookup ix cache offset query
  | some entry =>
    if query = entry.offset then                               -- exact repeat
      (mkLineCol entry.lineIdx offset entry.lineStart, cache)
    else if query > entry.offset then
      match walkForward ix.starts query cap entry.lineIdx entry.lineStart with
      | some (lineIdx, lineStart) =>
        (mkLineCol lineIdx offset lineStart,
         some { offset := query, lineIdx := lineIdx, lineStart := lineStart })
      | none => coldLookup ix cache offset query               -- walk exceeded the cap
    else coldLookup ix cache offset query                      -- backward query

/-- `LineIndex::line_start` -/
def lineStart (ix : LineIndex) (line : Nat) : Option Nat :=
  if line = 0 then none else efGet ix.starts (line - 1)

/-- `LineIndex::to_offset`: `self.line_start(line)?.checked_add(column - 1)?` (`column ≥ 1` there;
`checked_add` answers `None` when the sum does not fit `usize`), then the bounds test. -/
def toOffset (ix : LineIndex) (line column : Nat) : Option Nat :=
  if column = 0 then none
  else match lineStart ix line with
    | none => none
    | some s =>
      if s + (column - 1) < USIZE then                           -- checked_add(column - 1)?
        let offset := s + (column - 1)
        if offset < ix.textLen then some offset else none
      else none

/-- `LineIndex::line_count` -/
def lineCount (ix : LineIndex) : Nat := efLen ix.starts

/-! ### query histories -/

inductive Query where
  | lineCol (offset : Nat)             -- to_line_column(offset)
  | toOffset (line column : Nat)       -- to_offset(line, column)
  | lineStart (line : Nat)             -- line_start(line)
  | lineCount                          -- line_count()
  | textLen                            -- text_len()
  | roundTrip (offset : Nat)           -- let (l, c) = to_line_column(offset); to_offset(l, c)
deriving Repr, DecidableEq

inductive Answer where
  | lc (line column : Nat)
  | opt (o : Option Nat)
  | num (n : Nat)
  | rt (line column : Nat) (o : Option Nat)
  | panic
deriving Repr, DecidableEq

/-- One public call on an index whose cache cell holds `cache`. -/
def step (cap : Nat) (ix : LineIndex) (cache : Cache) : Query → Answer × Cache
  | .lineCol offset =>
    let r := toLineColumn cap ix cache offset
    (match r.1 with
     | some (l, c) => .lc l c
     | none => .panic, r.2)
  | .toOffset line column => (.opt (toOffset ix line column), cache)
  | .lineStart line => (.opt (lineStart ix line), cache)
  | .lineCount => (.num (lineCount ix), cache)
  | .textLen => (.num ix.textLen, cache)
  | .roundTrip offset =>
    let r := toLineColumn cap ix cache offset
    (match r.1 with
     | some (l, c) => .rt l c (toOffset ix l c)
     | none => .panic, r.2)

/-- Answers of a whole query history, starting from cache state `cache`. -/
def run (cap : Nat) (ix : LineIndex) : Cache → List Query → List Answer
  | _, [] => []
  | cache, q :: qs =>
    let r := step cap ix cache q
    r.1 :: run cap ix r.2 qs

/-- The cache state after a query history. -/
def finalCache (cap : Nat) (ix : LineIndex) : Cache → List Query → Cache
  | cache, [] => cache
  | cache, q :: qs => finalCache cap ix (step cap ix cache q).2 qs

/-- What the naive scan of `text` answers (no index, no state). -/
def specAnswer (text : List Byte) : Query → Answer
  | .lineCol offset => let r := lineCol text offset; .lc r.1 r.2
  | .toOffset line column => .opt (Lines.toOffset text line column)
  | .lineStart line => .opt (Lines.lineStart text line)
  | .lineCount => .num (Lines.lineCount text)
  | .textLen => .num text.length
  | .roundTrip offset =>
    let r := lineCol text offset
    .rt r.1 r.2 (Lines.toOffset text r.1 r.2)

end SV.LinesM
