/-
Model/Prim — primitives of Rust `core` / the CPU that the models use and that are *modelled, not
verified* (DESIGN §3): `count_ones`, `trailing_zeros`, `ilog2`, PDEP.  Each is given here by its
defining semantics.
-/
namespace SV

/-- `u64::count_ones` as a `u32` (core's population count). -/
def popcountBV64 (x : BitVec 64) : BitVec 32 := x.cpop.setWidth 32

/-- `u8::count_ones`. -/
def popcountBV8 (x : BitVec 8) : BitVec 32 := x.cpop.setWidth 32

/-- `u64::count_ones` as a natural number. -/
def popc (x : BitVec 64) : Nat := x.cpop.toNat

/-- `u64::trailing_zeros`: index of the lowest set bit, 64 for zero. -/
def tz (x : BitVec 64) : Nat := x.ctz.toNat

/-- `u64::ilog2` for a non-zero word: index of the highest set bit. -/
def ilog2 (x : BitVec 64) : Nat := 63 - x.clz.toNat

/-- BMI2 `PDEP` (Intel SDM): deposit the low bits of `src` at the positions of the set bits of
`mask`, lowest first.  `go i k` has already consumed `k` source bits for mask bits below `i`. -/
def pdepGo (src mask : BitVec 64) : Nat → Nat → Nat → BitVec 64 → BitVec 64
  | 0, _, _, acc => acc
  | fuel + 1, i, k, acc =>
    if mask.getLsbD i then
      pdepGo src mask fuel (i + 1) (k + 1) (if src.getLsbD k then acc ||| (1#64 <<< i) else acc)
    else
      pdepGo src mask fuel (i + 1) k acc

def pdep (src mask : BitVec 64) : BitVec 64 := pdepGo src mask 64 0 0 0#64

end SV
