/-
Model/DsvCsv — `@csv` / `@dsv(d)` formatting of arrays of strings (src/jq/eval.rs `quote_csv_field`,
`format_csv`, `format_dsv`), the `-r` output line, and `--input-dsv` reading
(src/bin/succinctly/jq_runner.rs `validate_dsv_delimiter`, `parse_dsv_input` / the streaming path,
`strip_quotes_and_decode`) over the DSV cursor model of C21 (C22).

Strings are their UTF-8 bytes.  `String::from_utf8_lossy` is the identity on valid UTF-8, and
fields of a text produced from strings are split at ASCII bytes only, so they stay valid UTF-8;
the lossy replacement of invalid input is outside this model.
-/
import SuccinctlyVerif.Model.DsvNav
namespace SV.Dsv

def QUOTE : Byte := 0x22#8
def LF : Byte := 0x0a#8
def CR : Byte := 0x0d#8
def COMMA : Byte := 0x2c#8

/-- `s.replace('"', "\"\"")` -/
def escapeQuotes (s : List Byte) : List Byte :=
  s.flatMap fun b => if b == QUOTE then [QUOTE, QUOTE] else [b]

/-- `quote_csv_field`: `"` + escaped + `"` — every string field is quoted unconditionally. -/
def quoteField (s : List Byte) : List Byte := QUOTE :: (escapeQuotes s ++ [QUOTE])

/-- `parts.join(delimiter)` for a one-byte delimiter. -/
def joinWith (d : Byte) : List (List Byte) → List Byte
  | [] => []
  | [x] => x
  | x :: y :: rest => x ++ d :: joinWith d (y :: rest)

/-- `format_dsv` on an array of strings (`format_csv` = delimiter `,`). -/
def formatDsv (d : Byte) (xs : List (List Byte)) : List Byte := joinWith d (xs.map quoteField)

def formatCsv (xs : List (List Byte)) : List Byte := formatDsv COMMA xs

/-- What `jq -r` prints for one result: the string and a newline. -/
def printedLine (d : Byte) (xs : List (List Byte)) : List Byte := formatDsv d xs ++ [LF]

/-- `inner.replace("\"\"", "\"")`: left-to-right, non-overlapping. -/
def unescapeQuotes : List Byte → List Byte
  | a :: b :: rest =>
    if a == QUOTE && b == QUOTE then QUOTE :: unescapeQuotes rest else a :: unescapeQuotes (b :: rest)
  | l => l

/-- `strip_quotes_and_decode` -/
def stripQuotesAndDecode (f : List Byte) : List Byte :=
  if f.head? == some QUOTE && f.getLast? == some QUOTE && f.length ≥ 2 then
    unescapeQuotes ((f.drop 1).dropLast)
  else f

/-- `validate_dsv_delimiter` on a one-byte (ASCII) delimiter. -/
def admissible (d : Byte) : Bool := d.toNat < 128 && d != QUOTE && d != LF && d != CR

/-- `--input-dsv d`: rows via `DsvRows`/`DsvFields` over the index for `(d, '"', '\n')`, every field
through `strip_quotes_and_decode`. -/
def readDsv (d : Byte) (text : List Byte) : List (List (List Byte)) :=
  (parse d QUOTE LF text).rows.map (·.map stripQuotesAndDecode)

/-- The same over the splitting spec of C21. -/
def readDsvSpec (d : Byte) (text : List Byte) : List (List (List Byte)) :=
  (rowsSpec d QUOTE LF text).map (·.map stripQuotesAndDecode)

end SV.Dsv
