/-
Model/JsonSimple — executable model of `SimpleJsonIndex` (`src/json/simple_light.rs`, C32):
`build`, `structural_pos` (`ib_select1`), `structural_count`, `structural_index` (`ib_rank1`),
`find_close`, `skip_value`, `children`, `find_string_end`, `find_number_end`.

Callees that are the subject of other properties are taken at their proved specification:
`select_in_word` = `selectInWordSpec` (C02), `BalancedParens::find_close` = `BP.findClose` over the
first `bp_len` bits (C04); `bits::scan_select` is the shared model `Model/Scan.scanSelect`.
-/
import SuccinctlyVerif.Spec.Bits
import SuccinctlyVerif.Spec.BP
import SuccinctlyVerif.Model.Prim
import SuccinctlyVerif.Model.Scan
import SuccinctlyVerif.Model.JsonSemi
namespace SV.JsonSimple
open SV SV.JsonSemi

/-- `struct SimpleJsonIndex { ib, ib_len, bp: BalancedParens }` (the BP words and their bit length). -/
structure Index where
  ib : List (BitVec 64)
  ibLen : Nat
  bp : List (BitVec 64)
  bpLen : Nat

/-- `count_bp_bits`: two BP bits per structural character. -/
def countBpBits (ibWords : List (BitVec 64)) : Nat := (ibWords.map popc).sum * 2

/-- `SimpleJsonIndex::build` (x86_64: the runtime-dispatched SIMD simple-cursor builder). -/
def build (hasAvx2 : Bool) (json : List (BitVec 8)) : Index :=
  let semi := buildDispatchSimple hasAvx2 json
  ⟨semi.ib, json.length, semi.bp, countBpBits semi.ib⟩

/-- `from_parts` -/
def fromParts (ib : List (BitVec 64)) (ibLen : Nat) (bp : List (BitVec 64)) (bpLen : Nat) : Index :=
  ⟨ib, ibLen, bp, bpLen⟩

/-- `ib_select1(k)` -/
def ibSelect1 (x : Index) (k : Nat) : Option Nat :=
  match scanSelect popc x.ib 0 k with
  | none => none
  | some (wordIdx, rem) =>
    let bitPos := selectInWordSpec (x.ib.getD wordIdx 0#64) rem
    let result := wordIdx * 64 + bitPos
    if result < x.ibLen then some result else none

/-- `structural_pos(k)` -/
def structuralPos (x : Index) (k : Nat) : Option Nat := ibSelect1 x k

/-- `structural_count()` -/
def structuralCount (x : Index) : Nat := (x.ib.map popc).sum

/-- `ib_rank1(pos)` -/
def ibRank1 (x : Index) (pos : Nat) : Nat :=
  if pos = 0 then 0
  else
    let wordIdx := pos / 64
    let bitIdx := pos % 64
    let count := ((x.ib.take wordIdx).map popc).sum
    if wordIdx < x.ib.length ∧ bitIdx > 0 then
      let mask := (1#64 <<< bitIdx) - 1#64
      count + popc (x.ib.getD wordIdx 0#64 &&& mask)
    else count

/-- `structural_index(pos)` -/
def structuralIndex (x : Index) (pos : Nat) : Option Nat :=
  if pos ≥ x.ibLen then none
  else
    let wordIdx := pos / 64
    let bitIdx := pos % 64
    if wordIdx ≥ x.ib.length then none
    else if (x.ib.getD wordIdx 0#64 >>> bitIdx) &&& 1#64 = 0#64 then none
    else some (ibRank1 x pos)

/-- `self.bp.find_close(p)` at its specification (C04). -/
def bpFindClose (x : Index) (p : Nat) : Option Nat := BP.findClose (bitsOf x.bp x.bpLen) p

/-- `find_close(json, pos)` -/
def findClose (x : Index) (json : List (BitVec 8)) (pos : Nat) : Option Nat :=
  if pos ≥ json.length then none
  else
    let c := json.getD pos 0#8
    if c ≠ 0x7B#8 ∧ c ≠ 0x5B#8 then none
    else
      match structuralIndex x pos with
      | none => none
      | some structIdx =>
        let bpPos := structIdx * 2
        match bpFindClose x bpPos with
        | none => none
        | some closeBpPos => structuralPos x (closeBpPos / 2)

/-- `find_string_end(json, start)`: `i` is the loop variable, `fuel` bounds the iterations. -/
def findStringEndLoop (json : List (BitVec 8)) : Nat → Nat → Nat
  | 0, _ => json.length
  | fuel + 1, i =>
    if i < json.length then
      let c := json.getD i 0#8
      if c = 0x22#8 then i
      else if c = 0x5C#8 then findStringEndLoop json fuel (i + 2)
      else findStringEndLoop json fuel (i + 1)
    else json.length

def findStringEnd (json : List (BitVec 8)) (start : Nat) : Nat :=
  findStringEndLoop json (json.length + 1) (start + 1)

/-- The byte class of `find_number_end`: `0-9 - + . e E`. -/
def isNumberByte (c : BitVec 8) : Bool :=
  (0x30 ≤ c.toNat && c.toNat ≤ 0x39) || c == 0x2D#8 || c == 0x2B#8 || c == 0x2E#8 || c == 0x65#8 || c == 0x45#8

/-- `find_number_end(json, start)` -/
def findNumberEndLoop (json : List (BitVec 8)) : Nat → Nat → Nat
  | 0, i => i
  | fuel + 1, i =>
    if i < json.length then
      if isNumberByte (json.getD i 0#8) then findNumberEndLoop json fuel (i + 1) else i
    else i

def findNumberEnd (json : List (BitVec 8)) (start : Nat) : Nat :=
  findNumberEndLoop json (json.length + 1) start

/-- `&json[pos..pos + n] == lit` guarded by `pos + n <= json.len()`. -/
def matchesAt (json : List (BitVec 8)) (pos : Nat) (lit : List (BitVec 8)) : Bool :=
  pos + lit.length ≤ json.length && (json.drop pos).take lit.length == lit

def litTrue : List (BitVec 8) := [0x74#8, 0x72#8, 0x75#8, 0x65#8]
def litFalse : List (BitVec 8) := [0x66#8, 0x61#8, 0x6C#8, 0x73#8, 0x65#8]
def litNull : List (BitVec 8) := [0x6E#8, 0x75#8, 0x6C#8, 0x6C#8]

/-- `skip_value(json, pos)` -/
def skipValue (x : Index) (json : List (BitVec 8)) (pos : Nat) : Option Nat :=
  if pos ≥ json.length then none
  else
    let c := json.getD pos 0#8
    if c = 0x7B#8 ∨ c = 0x5B#8 then
      match findClose x json pos with
      | none => none
      | some closePos => some (closePos + 1)
    else if c = 0x22#8 then some (findStringEnd json pos + 1)
    else if c = 0x74#8 then (if matchesAt json pos litTrue then some (pos + 4) else none)
    else if c = 0x66#8 then (if matchesAt json pos litFalse then some (pos + 5) else none)
    else if c = 0x6E#8 then (if matchesAt json pos litNull then some (pos + 4) else none)
    else if c = 0x2D#8 ∨ (0x30 ≤ c.toNat ∧ c.toNat ≤ 0x39) then some (findNumberEnd json pos)
    else none

/-- All items of the `structural_positions` iterator. -/
def structuralPositionsLoop (x : Index) : Nat → Nat → List Nat
  | 0, _ => []
  | fuel + 1, k =>
    match structuralPos x k with
    | none => []
    | some p => p :: structuralPositionsLoop x fuel (k + 1)

def structuralPositions (x : Index) : List Nat := structuralPositionsLoop x (x.ibLen + 1) 0

/-- All items of the `Children` iterator (`next` until `None`). -/
def childrenLoop (x : Index) (json : List (BitVec 8)) (endIdx : Nat) : Nat → Nat → List Nat
  | 0, _ => []
  | fuel + 1, cur =>
    if cur ≥ endIdx then []
    else
      match structuralPos x cur with
      | none => []
      | some pos =>
        let c := json.getD pos 0#8
        if pos < json.length ∧ (c = 0x3A#8 ∨ c = 0x2C#8) then childrenLoop x json endIdx fuel (cur + 1)
        else pos :: childrenLoop x json endIdx fuel (cur + 1)

/-- `children(json, container_pos)`: `None`, or the positions the iterator yields. -/
def children (x : Index) (json : List (BitVec 8)) (containerPos : Nat) : Option (List Nat) :=
  if containerPos ≥ json.length then none
  else
    let c := json.getD containerPos 0#8
    if c ≠ 0x7B#8 ∧ c ≠ 0x5B#8 then none
    else
      match findClose x json containerPos with
      | none => none
      | some closePos =>
        match structuralIndex x containerPos, structuralIndex x closePos with
        | some s, some e => some (childrenLoop x json e (e + 1) (s + 1))
        | _, _ => none

end SV.JsonSimple
