/-
Model/YamlBlock — the DOM emitter's block-mapping layout (`emit_yaml_value_at_depth`, Object arm,
block style) for nested mappings with string leaves, at the level of token lines, and a reader of
such lines written from YAML's block-mapping rule (an entry's nested block is the run of following
lines that are more indented than the entry, all of them at one common indentation).

A line is `(indent, key token, value token?)`: the emitter writes `{indent}{key}: {val}` for a
scalar value and `{indent}{key}:` followed by the nested mapping one `indent_str` step deeper for a
non-empty mapping (`defers_to_own_block`).  Key and value tokens are exactly what `yaml_quote_key`
and `yaml_quote_string` print; the reader decodes them with `loadKeyText` / `loadScalar`.  Splitting
a physical line into its tokens is not modelled.
-/
import SuccinctlyVerif.Model.YamlEmit
namespace SV.Yaml.Block
open SV.Yaml SV.Yaml.Emit

/-- A mapping as a list of entries in first-child / next-sibling form: an entry holds a string
(`leaf = some s`, `children` unused) or a nested mapping (`leaf = none`, `children` non-empty). -/
inductive Tree where
  | nil
  | cons (key : List Char) (leaf : Option (List Char)) (children : Tree) (rest : Tree)
  deriving DecidableEq, Repr

/-- Every nested mapping is non-empty (an empty one prints as `{}`) and a string entry has no
children. -/
def wf : Tree → Bool
  | .nil => true
  | .cons _ (some _) ch rest => ch = .nil && wf rest
  | .cons _ none ch rest => ch ≠ .nil && wf ch && wf rest

structure Line where
  indent : Nat
  key : List Char
  value : Option (List Char)
  deriving DecidableEq, Repr

/-- `emit_yaml_value_at_depth`, block mapping: `step` is the width of `config.indent_str`, `n` the
width of the current `indent` string. -/
def emitLines (rev : Rev) (step : Nat) : Nat → Tree → List Line
  | _, .nil => []
  | n, .cons key (some s) _ rest =>
    ⟨n, yamlQuoteKey rev false key, some (yamlQuoteString rev false s)⟩ :: emitLines rev step n rest
  | n, .cons key none ch rest =>
    ⟨n, yamlQuoteKey rev false key, none⟩ :: (emitLines rev step (n + step) ch ++ emitLines rev step n rest)

/-- Reader of a block mapping whose entries sit at indentation `n`; stops (returning the unread
lines) at the first line indented less than `n`.  `fuel` bounds the recursion (the number of lines
plus one suffices). -/
def readBlock (resolve : List Char → Scalar) : Nat → Nat → List Line → Option (Tree × List Line)
  | 0, _, _ => none
  | _ + 1, _, [] => some (.nil, [])
  | fuel + 1, n, l :: rest =>
    if l.indent < n then some (.nil, l :: rest)
    else if l.indent > n then none
    else
      match loadKeyText (.blockKey (n == 0)) l.key with
      | none => none
      | some key =>
        match l.value with
        | some vtok =>
          (match loadScalar resolve .blockValue vtok with
           | some (.str s) =>
             (match readBlock resolve fuel n rest with
              | some (more, rest') => some (.cons key (some s) .nil more, rest')
              | none => none)
           | _ => none)
        | none =>
          (match rest with
           | [] => none
           | l2 :: _ =>
             if l2.indent > n then
               match readBlock resolve fuel l2.indent rest with
               | some (ch, rest1) =>
                 if ch = .nil then none
                 else
                   (match readBlock resolve fuel n rest1 with
                    | some (more, rest2) => some (.cons key none ch more, rest2)
                    | none => none)
               | none => none
             else none)

/-- Load a whole document that is one block mapping. -/
def loadDoc (resolve : List Char → Scalar) (ls : List Line) : Option Tree :=
  match readBlock resolve (ls.length + 1) 0 ls with
  | some (t, []) => some t
  | _ => none

end SV.Yaml.Block
