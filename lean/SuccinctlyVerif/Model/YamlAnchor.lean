/-
Model/YamlAnchor — the DOM route's anchor-soundness pass (`enforce_anchor_soundness` /
`scan_anchor_soundness`, `yq_runner.rs`) as a function over (value tree, anchor table), and what the
two emitters print for anchors and aliases.

Representation.  `scan_anchor_soundness` and `emit_yaml_value_at_depth` both read the anchor table
(`CommentTree`) only along the value tree (`comments.field(k)` / `comments.at_index(i)`, the empty
tree where the table has no entry), so the pair (value tree, anchor table) is modelled as ONE
annotated forest in first-child / next-sibling form: a node carries its label (key or index), its
anchor mark (`NodeMeta::anchor`: none | `Declares name` | `Aliases name`), a payload (node kind and
scalar content) and its children in emission order (the order of `obj.iter()`, or the sorted order
under `--sort-keys`, which the scan mirrors).  Value equality (`*d == value`, `OwnedValue`'s
`PartialEq`) is the abstract `eqv` on mark-stripped nodes: no theorem depends on what it is.

`scan` fuses the two passes of `enforce_anchor_soundness` (collect the paths of unresolvable aliases,
then clear `meta.anchor` at each path): it returns the cleaned forest directly; every flagged path
was just walked, so `comment_tree_at_path_mut` finds it.
-/
namespace SV.Yaml.Anchor

/-- `NodeMeta::anchor : Option<AnchorMark>` -/
inductive Mark where
  | none
  | declares (name : Nat)
  | aliases (name : Nat)
  deriving DecidableEq, Repr

/-- Annotated forest: `cons label mark payload children rest`. -/
inductive Forest where
  | nil
  | cons (label : Nat) (mark : Mark) (payload : Nat) (children : Forest) (rest : Forest)
  deriving DecidableEq, Repr

/-- The value alone (all marks erased): what `OwnedValue` holds. -/
def strip : Forest → Forest
  | .nil => .nil
  | .cons l _ p ch rest => .cons l .none p (strip ch) (strip rest)

/-- The value of one node: its payload and its children's values (its own key or index is not
part of its value). -/
def nodeVal (_l : Nat) (p : Nat) (ch : Forest) : Forest := .cons 0 .none p (strip ch) .nil

/-- `declared: IndexMap<&str, &OwnedValue>`: `insert` overrides, so the first match of an
association list with insertion at the head is the same map. -/
abbrev Table := List (Nat × Forest)

def lookup (n : Nat) : Table → Option Forest
  | [] => none
  | (m, v) :: t => if m = n then some v else lookup n t

/-- `scan_anchor_soundness` fused with the clearing pass: pre-order; a declaration is recorded as it
is reached; an alias whose name is not declared yet, or is declared with a different value, loses
its mark; the children are scanned whatever the node's own mark is (as the Rust does). -/
def scan (eqv : Forest → Forest → Bool) : Forest → Table → Forest × Table
  | .nil, t => (.nil, t)
  | .cons l m p ch rest, t =>
    let self := nodeVal l p ch
    let m' : Mark :=
      match m with
      | .aliases n =>
        (match lookup n t with
         | some d => if eqv d self then m else .none
         | none => .none)
      | _ => m
    let t1 : Table :=
      match m with
      | .declares n => (n, self) :: t
      | _ => t
    let r1 := scan eqv ch t1
    let r2 := scan eqv rest r1.2
    (.cons l m' p r1.1 r2.1, r2.2)

/-- `enforce_anchor_soundness` on one document. -/
def enforce (eqv : Forest → Forest → Bool) (f : Forest) : Forest := (scan eqv f []).1

/-- What is printed about anchors. -/
inductive Ev where
  | decl (name : Nat) (value : Forest)
  | alias (name : Nat) (value : Forest)
  deriving DecidableEq, Repr

/-- `emit_yaml_value_at_depth`: a node marked `Aliases n` renders as `*n` and its value is not
written at all; a node marked `Declares n` gets `&n` (written by its parent: `anchor_decl_prefix`,
the flow-item prefix, `output_value` for a container root) and then its content. -/
def emit : Forest → List Ev
  | .nil => []
  | .cons l m p ch rest =>
    match m with
    | .aliases n => .alias n (nodeVal l p ch) :: emit rest
    | .declares n => .decl n (nodeVal l p ch) :: (emit ch ++ emit rest)
    | .none => emit ch ++ emit rest

/-- The property: reading the printed events left to right, every alias names an anchor printed
earlier (the most recent one of that name, YAML's rule) whose value equals the alias's value. -/
def soundFrom (eqv : Forest → Forest → Bool) : Table → List Ev → Bool
  | _, [] => true
  | t, .decl n v :: es => soundFrom eqv ((n, v) :: t) es
  | t, .alias n v :: es =>
    (match lookup n t with
     | some d => eqv d v
     | none => false) && soundFrom eqv t es

def sound (eqv : Forest → Forest → Bool) (es : List Ev) : Bool := soundFrom eqv [] es

/-- No anchor mark anywhere in the forest. -/
def noMarks : Forest → Bool
  | .nil => true
  | .cons _ m _ ch rest => m = .none && noMarks ch && noMarks rest

/-- No anchor mark below a node that is marked as an alias. -/
def aliasOpaque : Forest → Bool
  | .nil => true
  | .cons _ m _ ch rest =>
    (match m with
     | .aliases _ => noMarks ch
     | _ => aliasOpaque ch) && aliasOpaque rest

/-! ## Streaming route (`stream_yaml_value`): no soundness pass

The streaming writer prints `&name` where `YamlIndex::get_anchor_name(bp_pos)` answers and `*name`
at every alias node.  `bp_to_anchor` is the inverse of `anchors: BTreeMap<String, usize>`, which
keeps ONE position per name (the last declaration in the whole stream), so an earlier declaration
of a re-declared name is not printed. -/

/-- Names declared in the forest, pre-order. -/
def declNames : Forest → List Nat
  | .nil => []
  | .cons _ m _ ch rest =>
    (match m with | .declares n => [n] | _ => []) ++ declNames ch ++ declNames rest

/-- Events the streaming writer prints for `f` when `later` lists the names declared after this
node's position in the stream (a declaration of a name that is declared again later is lost). -/
def streamEmit : Forest → List Nat → List Ev
  | .nil, _ => []
  | .cons l m p ch rest, later =>
    let after := declNames rest ++ later
    match m with
    | .aliases n => .alias n (nodeVal l p ch) :: streamEmit rest later
    | .declares n =>
      (if (declNames ch ++ after).contains n then [] else [.decl n (nodeVal l p ch)]) ++
        streamEmit ch after ++ streamEmit rest later
    | .none => streamEmit ch after ++ streamEmit rest later

end SV.Yaml.Anchor
