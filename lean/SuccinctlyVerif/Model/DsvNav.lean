/-
Model/DsvNav — `DsvIndexLightweight` rank/select (src/dsv/index_lightweight.rs), `DsvCursor`,
`DsvRows`, `DsvRow::get`, `DsvFields`, `Dsv::row` (src/dsv/cursor.rs, src/dsv/mod.rs), as the Rust
code runs them (C21).

`partition_point` is modelled by the binary search of `core::slice::binary_search_by` (Rust 1.82+:
`base`/`size` halving).  Index-out-of-bounds accesses that the constructors exclude are modelled as
`none` (= panic) in `rank1`; slices `text[start..end]` are total here (`start ≤ end ≤ len` holds for
indexes built from the text).  The `u32` cumulative counts are `Nat` (no overflow below 4 GiB).
-/
import SuccinctlyVerif.Model.Dsv
import SuccinctlyVerif.Model.Words
namespace SV.Dsv

/-- `build_rank`: entry `i` = number of one bits in `words[0..i)`. -/
def buildRank (words : List (BitVec 64)) : List Nat :=
  let rec go : List (BitVec 64) → Nat → List Nat
    | [], _ => []
    | w :: ws, cum => (cum + popc w) :: go ws (cum + popc w)
  0 :: go words 0

/-- One bit vector of `DsvIndexLightweight` with its cumulative rank array. -/
structure RankVec where
  words : List (BitVec 64)
  rank : List Nat
  textLen : Nat

structure Index where
  markers : RankVec
  newlines : RankVec
  textLen : Nat

def Index.new (markers newlines : List (BitVec 64)) (textLen : Nat) : Index :=
  ⟨⟨markers, buildRank markers, textLen⟩, ⟨newlines, buildRank newlines, textLen⟩, textLen⟩

def RankVec.total (v : RankVec) : Nat := v.rank.getLast?.getD 0

/-- `markers_rank1` / `newlines_rank1`; `none` = index out of bounds (panic). -/
def RankVec.rank1 (v : RankVec) (i : Nat) : Option Nat :=
  if i = 0 then some 0
  else if i ≥ v.textLen then some v.total
  else
    let wordIdx := i / 64
    let bitIdx := i % 64
    match v.rank[wordIdx]? with
    | none => none
    | some cumulative =>
      match v.words[wordIdx]? with
      | some word =>
        let mask := (1#64 <<< bitIdx) - 1#64
        some (cumulative + popc (word &&& mask))
      | none => some cumulative

/-- The loop of `binary_search_by` (`while size > 1`). -/
def bsearchLoop (pred : Nat → Bool) (xs : List Nat) : Nat → Nat → Nat → Nat
  | 0, base, _ => base
  | fuel + 1, base, size =>
    if size > 1 then
      let half := size / 2
      let mid := base + half
      let base' := if pred (xs.getD mid 0) then mid else base
      bsearchLoop pred xs fuel base' (size - half)
    else base

/-- `slice.partition_point(pred)`. -/
def partitionPoint (pred : Nat → Bool) (xs : List Nat) : Nat :=
  if xs.length = 0 then 0
  else
    let base := bsearchLoop pred xs xs.length 0 xs.length
    base + (if pred (xs.getD base 0) then 1 else 0)

/-- `markers_select1` / `newlines_select1`. -/
def RankVec.select1 (v : RankVec) (k : Nat) : Option Nat :=
  if k ≥ v.total then none
  else
    let wordIdx := partitionPoint (fun r => r ≤ k) v.rank - 1
    match v.words[wordIdx]? with
    | none => none
    | some word =>
      let rankBefore := v.rank.getD wordIdx 0
      let remaining := k - rankBefore
      let bitPos := selectCtz word remaining
      let result := wordIdx * 64 + bitPos
      if result < v.textLen then some result else none

/-! ### cursor -/

structure Ctx where
  text : List Byte
  ix : Index

def Ctx.len (c : Ctx) : Nat := c.text.length

/-- `rank1` on indexes built from the text never goes out of bounds; `getD 0` here. -/
def Ctx.mrank (c : Ctx) (i : Nat) : Nat := (c.ix.markers.rank1 i).getD 0
def Ctx.nrank (c : Ctx) (i : Nat) : Nat := (c.ix.newlines.rank1 i).getD 0

def Ctx.atEnd (c : Ctx) (pos : Nat) : Bool := pos ≥ c.len

/-- `next_field`: new position and return value. -/
def Ctx.nextField (c : Ctx) (pos : Nat) : Nat × Bool :=
  if c.atEnd pos then (pos, false)
  else
    let currentRank := c.mrank pos
    match c.ix.markers.select1 currentRank with
    | some nextPos =>
      if nextPos < c.len then (nextPos + 1, !(c.atEnd (nextPos + 1))) else (c.len, false)
    | none => (c.len, false)

/-- `next_row` -/
def Ctx.nextRow (c : Ctx) (pos : Nat) : Nat × Bool :=
  if c.atEnd pos then (pos, false)
  else
    let currentRank := c.nrank pos
    match c.ix.newlines.select1 currentRank with
    | some nextPos =>
      if nextPos < c.len then (nextPos + 1, !(c.atEnd (nextPos + 1))) else (c.len, false)
    | none => (c.len, false)

/-- `goto_row(n)` (position unchanged when it returns false without moving). -/
def Ctx.gotoRow (c : Ctx) (pos : Nat) (n : Nat) : Nat × Bool :=
  if n = 0 then (0, !c.text.isEmpty)
  else
    match c.ix.newlines.select1 (n - 1) with
    | some nl =>
      let newPos := nl + 1
      if newPos ≤ c.len then (newPos, !(c.atEnd newPos)) else (pos, false)
    | none => (pos, false)

/-- `current_field`: `(start, end)` of the slice. -/
def Ctx.fieldEnd (c : Ctx) (pos : Nat) : Nat :=
  (c.ix.markers.select1 (c.mrank pos)).getD c.len

def Ctx.slice (c : Ctx) (s e : Nat) : List Byte := (c.text.drop s).take (e - s)

def Ctx.currentField (c : Ctx) (pos : Nat) : List Byte :=
  if c.atEnd pos then [] else c.slice pos (c.fieldEnd pos)

/-- `at_newline` -/
def Ctx.atNewline (c : Ctx) (pos : Nat) : Bool :=
  if pos = 0 ∨ pos > c.len then false
  else c.nrank pos > c.nrank (pos - 1)

/-- `at_end_after_delimiter`: the cursor is at the end of a text whose last byte is a delimiter
outside quotes (a marker that is not a newline). -/
def Ctx.atEndAfterDelimiter (c : Ctx) (pos : Nat) : Bool :=
  c.len > 0 && pos == c.len && c.mrank c.len > c.mrank (c.len - 1) && c.nrank c.len == c.nrank (c.len - 1)

/-! ### DsvFields -/

structure FieldsState where
  pos : Nat
  started : Bool
  finished : Bool

/-- The "is this the last field in the row" block shared by both branches of `DsvFields::next`. -/
def Ctx.lastFieldCheck (c : Ctx) (pos : Nat) (field : List Byte) : Bool :=
  let fieldEnd := pos + field.length
  if fieldEnd ≥ c.len then true
  else c.nrank (fieldEnd + 1) > c.nrank fieldEnd

/-- `DsvFields::next` -/
def Ctx.fieldsNext (c : Ctx) (s : FieldsState) : FieldsState × Option (List Byte) :=
  if s.finished then (s, none)
  else if !s.started then
    let field := c.currentField s.pos
    (⟨s.pos, true, c.lastFieldCheck s.pos field⟩, some field)
  else
    let (pos, ok) := c.nextField s.pos
    if !ok then
      -- the text ends right after a delimiter: the row's last field is empty
      if c.atEndAfterDelimiter pos then (⟨pos, true, true⟩, some []) else (⟨pos, true, true⟩, none)
    else if c.atNewline pos then (⟨pos, true, true⟩, none)
    else
      let field := c.currentField pos
      (⟨pos, true, c.lastFieldCheck pos field⟩, some field)

/-- `row.fields().collect()`; fuel bounds the iteration (every step but the first moves forward). -/
def Ctx.collectFields (c : Ctx) : Nat → FieldsState → List (List Byte)
  | 0, _ => []
  | fuel + 1, s =>
    match c.fieldsNext s with
    | (s', some f) => f :: c.collectFields fuel s'
    | (_, none) => []

def Ctx.rowFields (c : Ctx) (rowStart : Nat) : List (List Byte) :=
  c.collectFields (c.len + 2) ⟨rowStart, false, false⟩

/-! ### DsvRows -/

/-- `DsvRows::next`: state `(pos, started)`; yields the row start. -/
def Ctx.rowsNext (c : Ctx) (pos : Nat) (started : Bool) : Nat × Option Nat :=
  if !started then
    if c.atEnd pos then (pos, none) else (pos, some pos)
  else
    let (p, ok) := c.nextRow pos
    if ok then (p, some p) else (p, none)

def Ctx.collectRows (c : Ctx) : Nat → Nat → Bool → List Nat
  | 0, _, _ => []
  | fuel + 1, pos, started =>
    match c.rowsNext pos started with
    | (p, some r) => r :: c.collectRows fuel p true
    | (_, none) => []

/-- Row starts yielded by `dsv.rows()`. -/
def Ctx.rowStarts (c : Ctx) : List Nat := c.collectRows (c.len + 2) 0 false

/-- `dsv.rows().map(|r| r.fields().collect())` -/
def Ctx.rows (c : Ctx) : List (List (List Byte)) := c.rowStarts.map c.rowFields

/-! ### random access -/

/-- `Dsv::row(n)`: the row start, if the row exists. -/
def Ctx.row (c : Ctx) (n : Nat) : Option Nat :=
  let (p, ok) := c.gotoRow 0 n
  if ok then some p else none

/-- The `for i in 0..column` loop of `DsvRow::get` (`k` iterations left): `.inl pos` = loop ran to
completion at `pos`, `.inr r` = early `return r`. -/
def Ctx.getLoop (c : Ctx) : Nat → Nat → Nat ⊕ Option (List Byte)
  | 0, pos => .inl pos
  | k + 1, pos =>
    let field := c.currentField pos
    if field.isEmpty && c.atEnd pos then .inr none
    else
      let (p, ok) := c.nextField pos
      if !ok then
        -- `i + 1 == column` ⇔ this is the last iteration
        if k == 0 && c.atEndAfterDelimiter p then .inr (some []) else .inr none
      else if c.atNewline p || c.atEnd p then .inr none
      else c.getLoop k p

/-- `DsvRow::get(column)` -/
def Ctx.get (c : Ctx) (rowStart : Nat) (column : Nat) : Option (List Byte) :=
  match c.getLoop column rowStart with
  | .inr r => r
  | .inl pos =>
    let field := c.currentField pos
    if field.isEmpty && c.atEnd pos then none else some field

/-- `Dsv::parse_with_config`: the dispatcher's index (any engine, see C20) + the text. -/
def parse (d q n : Byte) (text : List Byte) : Ctx :=
  let (m, nl) := buildIndexScalar d q n text
  ⟨text, Index.new m nl text.length⟩

end SV.Dsv
