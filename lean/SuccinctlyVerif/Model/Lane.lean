/-
Model/Lane — one byte lane of the per-lane x86 SIMD intrinsics that `tools/rs2lean.py` (kind
`"lanes"`) translates.  Modelled, not verified (DESIGN §3): the Intel SDM semantics of each
intrinsic restricted to a single 8-bit lane.  Every function here is lane-wise in the hardware, so
a vector operation is exactly this function applied to each lane independently.

  _mm{,256}_cmpeq_epi8   cmpeq      0xFF if equal else 0x00
  _mm{,256}_cmpgt_epi8   cmpgt      0xFF if a > b as *signed* bytes else 0x00
  _mm{,256}_or/and/xor   ||| &&& ^^^
  _mm{,256}_andnot       andnot     (!a) & b
  _mm{,256}_add/sub_epi8 + -        wrapping
  _mm{,256}_adds/subs_epu8 addsu/subsu  unsigned saturating
  _mm{,256}_min/max_epu8 minu/maxu  unsigned
  _mm{,256}_movemask_epi8 msb       the lane's contribution to the mask: its most significant bit
-/
namespace SV.Lane

def cmpeq (a b : BitVec 8) : BitVec 8 := if a = b then 0xFF#8 else 0x00#8
def cmpgt (a b : BitVec 8) : BitVec 8 := if b.slt a then 0xFF#8 else 0x00#8
def andnot (a b : BitVec 8) : BitVec 8 := (~~~a) &&& b
def addsu (a b : BitVec 8) : BitVec 8 := if a + b < a then 0xFF#8 else a + b
def subsu (a b : BitVec 8) : BitVec 8 := if a < b then 0x00#8 else a - b
def minu (a b : BitVec 8) : BitVec 8 := if a ≤ b then a else b
def maxu (a b : BitVec 8) : BitVec 8 := if a ≤ b then b else a
/-- `_mm*_srli_epi16(x, n)` followed by a byte mask `m ≤ 0xFF >> n`: the bits shifted in from the
neighbouring byte are masked away, so the result is lane-wise. -/
def srlMasked (x : BitVec 8) (n : Nat) (m : BitVec 8) : BitVec 8 := (x >>> n) &&& m
/-- `_mm*_slli_epi16(x, n)` followed by a byte mask whose low `n` bits are zero. -/
def sllMasked (x : BitVec 8) (n : Nat) (m : BitVec 8) : BitVec 8 := (x <<< n) &&& m

end SV.Lane
