/-
Model/JsonIb — interest-bit rank/select of `JsonIndex` (`src/json/light.rs`): `build_ib_rank`,
`ib_rank1`, `ib_select1`, `ib_select1_from` (galloping from a hint), and the cursor functions that
sit on them (`text_position`, `cursor_at_offset`) over an abstract BP rank function.

`usize` is modelled as `Nat`; the `u32` rank entries (`% 2^32`) and the `u32::try_from(k)` guard are
modelled exactly, because the property quantifies over every `k`.
-/
import SuccinctlyVerif.Spec.Bits
import SuccinctlyVerif.Model.Prim
namespace SV.JsonIb

def U32 : Nat := 4294967296

/-- `build_ib_rank`: entry `i` = ones in words `[0, i)`, accumulated in a wrapping `u32`. -/
def buildIbRankGo : List (BitVec 64) → Nat → List Nat
  | [], _ => []
  | w :: ws, c =>
    let c' := (c + popc w) % U32
    c' :: buildIbRankGo ws c'

def buildIbRank (ws : List (BitVec 64)) : List Nat := 0 :: buildIbRankGo ws 0

/-- The `while lo < hi` loop shared by `ib_select1` and `ib_select1_from`
(`if ib_rank[mid+1] <= k32 { lo = mid+1 } else { hi = mid }`). -/
def bsearch (rank : List Nat) (k32 : Nat) : Nat → Nat → Nat → Nat
  | 0, lo, _ => lo
  | fuel + 1, lo, hi =>
    if lo < hi then
      let mid := lo + (hi - lo) / 2
      if rank.getD (mid + 1) 0 ≤ k32 then bsearch rank k32 fuel (mid + 1) hi
      else bsearch rank k32 fuel lo mid
    else lo

/-- The tail shared by both selects once the word index `lo` is known. -/
def finish (ws : List (BitVec 64)) (rank : List Nat) (ibLen k lo : Nat) : Option Nat :=
  if lo ≥ ws.length then none
  else
    let remaining := k - rank.getD lo 0
    let word := ws.getD lo 0
    let bitPos := selectInWordSpec word (remaining % U32)
    let result := lo * 64 + bitPos
    if result < ibLen then some result else none

/-- `JsonIndex::ib_select1` over a prebuilt rank array. `u32::try_from(k)` fails for `k ≥ 2^32`
and the function returns `None`. -/
def ibSelect1With (rank : List Nat) (ws : List (BitVec 64)) (ibLen k : Nat) : Option Nat :=
  if ws.isEmpty then none
  else if k ≥ U32 then none
  else
    let k32 := k
    let n := ws.length
    let lo := bsearch rank k32 (n + 1) 0 n
    finish ws rank ibLen k lo

def ibSelect1 (ws : List (BitVec 64)) (ibLen k : Nat) : Option Nat :=
  ibSelect1With (buildIbRank ws) ws ibLen k

/-- Forward gallop: returns `(lo, hi)`. -/
def gallopFwd (rank : List Nat) (k32 n hint : Nat) : Nat → Nat → Nat → Nat × Nat
  | 0, _, prev => (prev, n)
  | fuel + 1, bound, prev =>
    let next := min (hint + bound) n
    if next ≥ n ∨ rank.getD (next + 1) 0 > k32 then (prev, next)
    else gallopFwd rank k32 n hint fuel (bound * 2) next

/-- Backward gallop: returns `(lo, hi)`. -/
def gallopBwd (rank : List Nat) (k32 hint : Nat) : Nat → Nat → Nat → Nat × Nat
  | 0, _, prev => (0, prev)
  | fuel + 1, bound, prev =>
    let next := hint - bound       -- saturating_sub
    if next = 0 ∨ rank.getD (next + 1) 0 ≤ k32 then (next, prev)
    else gallopBwd rank k32 hint fuel (bound * 2) next

/-- `JsonIndex::ib_select1_from(k, hint)` over a prebuilt rank array. -/
def ibSelect1FromWith (rank : List Nat) (ws : List (BitVec 64)) (ibLen k hint : Nat) : Option Nat :=
  if ws.isEmpty then none
  else if k ≥ U32 then none
  else
    let k32 := k
    let n := ws.length
    let hint := min hint (n - 1)
    let hintRank := rank.getD (hint + 1) 0
    let br :=
      if hintRank ≤ k32 then gallopFwd rank k32 n hint (n + 2) 1 hint
      else gallopBwd rank k32 hint (n + 2) 1 hint
    let lo := bsearch rank k32 (n + 1) br.1 br.2
    finish ws rank ibLen k lo

def ibSelect1From (ws : List (BitVec 64)) (ibLen k hint : Nat) : Option Nat :=
  ibSelect1FromWith (buildIbRank ws) ws ibLen k hint

/-- `JsonIndex::ib_rank1(pos)` over a prebuilt rank array. -/
def ibRank1With (rank : List Nat) (ws : List (BitVec 64)) (pos : Nat) : Nat :=
  if pos = 0 then 0
  else
    let wordIdx := pos / 64
    let bitIdx := pos % 64
    let count := rank.getD (min wordIdx ws.length) 0
    if wordIdx < ws.length ∧ bitIdx > 0 then
      let mask : BitVec 64 := (1#64 <<< bitIdx) - 1
      count + popc (ws.getD wordIdx 0 &&& mask)
    else count

def ibRank1 (ws : List (BitVec 64)) (pos : Nat) : Nat := ibRank1With (buildIbRank ws) ws pos

/-- `JsonCursor::text_position` given the BP rank of the cursor (`bp.rank1(bp_pos)`). -/
def textPosition (ws : List (BitVec 64)) (ibLen bpRank : Nat) : Option Nat :=
  ibSelect1From ws ibLen bpRank (bpRank / 8)

/-- The IB index chosen by `cursor_at_offset` (before the BP binary search). -/
def ibIdxAtOffsetWith (rk : List Nat) (ws : List (BitVec 64)) (ibLen textLen offset : Nat) : Option Nat :=
  if offset ≥ textLen then none
  else
    let rank := ibRank1With rk ws offset
    match ibSelect1With rk ws ibLen rank with
    | some structPos =>
      if structPos = offset then some rank
      else if rank > 0 then some (rank - 1) else none
    | none => if rank > 0 then some (rank - 1) else none

def ibIdxAtOffset (ws : List (BitVec 64)) (ibLen textLen offset : Nat) : Option Nat :=
  ibIdxAtOffsetWith (buildIbRank ws) ws ibLen textLen offset

/-- The BP binary search of `cursor_at_offset`, over an abstract `bp.rank1`. -/
def bpSearch (bpRank1 : Nat → Nat) (ibIdx : Nat) : Nat → Nat → Nat → Nat
  | 0, lo, _ => lo
  | fuel + 1, lo, hi =>
    if lo < hi then
      let mid := lo + (hi - lo) / 2
      if bpRank1 (mid + 1) ≤ ibIdx then bpSearch bpRank1 ibIdx fuel (mid + 1) hi
      else bpSearch bpRank1 ibIdx fuel lo mid
    else lo

/-- `JsonCursor::cursor_at_offset`: the BP position of the node, over an abstract BP
(`bpLen`, `bp.rank1`). -/
def cursorAtOffsetWith (rk : List Nat) (ws : List (BitVec 64)) (ibLen textLen : Nat) (bpLen : Nat)
    (bpRank1 : Nat → Nat) (offset : Nat) : Option Nat :=
  match ibIdxAtOffsetWith rk ws ibLen textLen offset with
  | none => none
  | some ibIdx =>
    if bpLen = 0 then none
    else
      let lo := bpSearch bpRank1 ibIdx (bpLen + 1) 0 bpLen
      if lo < bpLen ∧ bpRank1 (lo + 1) = ibIdx + 1 then some lo else none

def cursorAtOffset (ws : List (BitVec 64)) (ibLen textLen : Nat) (bpLen : Nat) (bpRank1 : Nat → Nat)
    (offset : Nat) : Option Nat :=
  cursorAtOffsetWith (buildIbRank ws) ws ibLen textLen bpLen bpRank1 offset

end SV.JsonIb
