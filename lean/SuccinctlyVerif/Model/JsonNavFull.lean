/-
Model/JsonNavFull — `JsonIndex::build` composed from the models of its parts: the dispatched
semi-index builder (C05), `BalancedParens::new` with all its directories (`Model/BP.lean`, C04) and
the interest-bit select with its rank directory and galloping search (`Model/JsonIb.lean`, C07).
The cursor functions of `Model/JsonNav.lean` run unchanged over these primitives.
-/
import SuccinctlyVerif.Model.BP
import SuccinctlyVerif.Model.JsonIb
import SuccinctlyVerif.Model.JsonNav
namespace SV.JsonNav
open SV SV.JsonSemi

/-- The cursor primitives as computed by the library: `BalancedParens` methods on the structure `I`
and `ib_select1_from(rank, rank / 8)` on the IB words. -/
def Prims.composed (I : BPM.BP) (ibWords : List (BitVec 64)) (ibLen : Nat) : Prims where
  bpLen := I.len
  isOpen := I.isOpen
  findClose := I.findClose
  enclose := I.parent
  rank1 := I.rank1
  select1 := fun k => JsonIb.textPosition ibWords ibLen k

/-- `JsonIndex::build(json)` then `root(json)`: `none` = the `assert!(len <= u32::MAX)` panic (of
`build` itself or of `BalancedParens::new`).  `simd` = the crate's `simd` feature (SSE4.1 L1/L2
builders of `BalancedParens`), `hasAvx2` = the runtime AVX2 test of the semi-index dispatcher. -/
def buildComposed (hasAvx2 simd : Bool) (json : List Byte) : Option Index :=
  if json.length ≥ 2 ^ 32 then none
  else
    let semi := buildDispatchStd hasAvx2 json
    (BPM.construct simd true semi.bp (countBpBits semi.bp) .noSelect).map fun I =>
      ⟨json.toArray, Prims.composed I semi.ib json.length⟩

end SV.JsonNav
