/-
Model/BitVec — executable model of `succinctly::BitVec` (C01), following the Rust code line by line:
`src/bits/bitvec.rs` (`with_config`, `rank1/rank0/select1/select0/get/count_*`),
`src/bits/rank.rs` (`RankDirectory::build`, `rank_at_word`), `src/bits/select.rs`
(`SelectIndex::build`, `jump_to`), `src/bits/popcount.rs` (`popcount_words`, `popcount_word`).

Conventions.  `usize`/`u64` values are `Nat`; every arithmetic step that can wrap or truncate in a
release build is written with the explicit modulus (`as u32` → `% 2^32`, `as u16` and `u16 +=` →
`% 2^16`, `u64`/`usize` `+=` → `% 2^64`, `u128 <<` → `BitVec 128` shift).  Subtractions that
would underflow in Rust are written with `Nat` subtraction; `Proof/BitVec.lean` proves for each of
them that the subtrahend is never larger (`rank0_exact_aux`, `count_exact_aux`,
`jumpTo_buildSelect`; restated in Props/C01), so the truncated subtraction is never taken on a built
vector.  The 128-bit rank entries are `BitVec 128` (= `u128`).
Slices are `List`s; indexing that Rust bounds-checks uses `getD` and the proofs show the index is in
range.  A panic (`assert!`) is the `none` of the outer `Option`.

Parameters.  `pc` is the per-word popcount selected by cargo features for `popcount_words` /
`popcount_word` (`count_ones`, the SWAR `popcount_word_portable`, POPCNT / AVX-512 lane counts);
`RankDirectory::build`, `SelectIndex::build` and `scan_select` always use `u64::count_ones` (`popc`).
`select_in_word` is `SV.selectInWordSpec`: every dispatch path of the Rust function (CTZ loop,
broadword, PDEP) is proved equal to it under C02.
-/
import SuccinctlyVerif.Spec.Bits
import SuccinctlyVerif.Model.Prim
import SuccinctlyVerif.Model.Scan
import SuccinctlyVerif.Generated.Common
namespace SV.BV
open SV

/-! ### popcount.rs -/

/-- `popcount_words` (default / portable / scalar-POPCNT loops): `total += pc(word) as usize`. -/
def popcountWords (pc : BitVec 64 → Nat) (ws : List (BitVec 64)) : Nat :=
  ws.foldl (fun total w => (total + pc w) % 2 ^ 64) 0

/-- `popcount_words_avx512vpopcntdq`: eight lanes per iteration (`_mm512_popcnt_epi64` +
`_mm512_reduce_add_epi64`), then the `< 8` remaining words one by one. -/
def popcountWordsAvx512 (pc : BitVec 64 → Nat) : Nat → List (BitVec 64) → Nat → Nat
  | 0, rest, total => rest.foldl (fun t w => (t + pc w) % 2 ^ 64) total
  | fuel + 1, rest, total =>
    if 8 ≤ rest.length then
      popcountWordsAvx512 pc fuel (rest.drop 8) ((total + (((rest.take 8).map pc).sum) % 2 ^ 64) % 2 ^ 64)
    else rest.foldl (fun t w => (t + pc w) % 2 ^ 64) total

/-! ### rank.rs -/

/-- `RankDirectory`: `l0: Vec<u64>`, `l1_l2: [u128]`. -/
structure RankDir where
  l0 : List Nat
  l1l2 : List (BitVec 128)
deriving Repr

/-- The inner `for (i, word_idx) in (block_start..block_end).enumerate()` loop of `build`:
state `(l2_offsets : [u16; 7], block_cumulative : u16)`. -/
def blockLoop : List (BitVec 64) → Nat → List Nat → Nat → List Nat × Nat
  | [], _, l2, bc => (l2, bc)
  | w :: ws, i, l2, bc =>
    let l2 := if i > 0 ∧ i < 8 then l2.set (i - 1) bc else l2
    -- block_cumulative += words[word_idx].count_ones() as u16;
    blockLoop ws (i + 1) l2 ((bc + popc w % 2 ^ 16) % 2 ^ 16)

/-- `for (i, &offset) in l2_offsets.iter().enumerate() { entry |= (offset as u128) << (32 + i * 9); }` -/
def packLoop : List Nat → Nat → BitVec 128 → BitVec 128
  | [], _, e => e
  | off :: rest, i, e => packLoop rest (i + 1) (e ||| (BitVec.ofNat 128 off <<< (32 + i * 9)))

/-- `let mut entry: u128 = l1_rank as u128; …` -/
def packEntry (l1 : Nat) (l2 : List Nat) : BitVec 128 :=
  packLoop l2 0 (BitVec.ofNat 128 l1)

/-- The `for block_idx in 0..num_blocks` loop of `RankDirectory::build`; `rest` is
`words[block_idx * WORDS_PER_BLOCK ..]`, the first argument counts the remaining iterations.
Returns the values pushed to `l0` and to `l1_l2`, in order. -/
def buildGo : Nat → List (BitVec 64) → Nat → Nat → Nat → List Nat × List (BitVec 128)
  | 0, _, _, _, _ => ([], [])
  | n + 1, rest, blockIdx, cum, base =>
    -- if block_idx > 0 && block_idx % BLOCKS_PER_SUPERBLOCK == 0 { l0.push(cum); l0_base = cum; }
    let newSuper := blockIdx > 0 ∧ blockIdx % Gen.RANK_BLOCKS_PER_SUPERBLOCK = 0
    let base := if newSuper then cum else base
    let block := rest.take Gen.RANK_WORDS_PER_BLOCK
    -- let l1_rank = (cumulative_rank - l0_base) as u32;
    let l1 := (cum - base) % 2 ^ 32
    -- (l2_offsets, block_cumulative) after the inner loop
    let bl := blockLoop block 0 (List.replicate 7 0) 0
    let entry := packEntry l1 bl.1
    -- cumulative_rank += block_cumulative as u64;
    let r := buildGo n (rest.drop Gen.RANK_WORDS_PER_BLOCK) (blockIdx + 1) ((cum + bl.2) % 2 ^ 64) base
    ((if newSuper then [cum] else []) ++ r.1, entry :: r.2)

/-- `RankDirectory::build`. -/
def buildRank (words : List (BitVec 64)) : RankDir :=
  if words.isEmpty then { l0 := [], l1l2 := [] }
  else
    -- words.len().div_ceil(WORDS_PER_BLOCK)
    let numBlocks := (words.length + Gen.RANK_WORDS_PER_BLOCK - 1) / Gen.RANK_WORDS_PER_BLOCK
    let r := buildGo numBlocks words 0 0 0
    { l0 := r.1, l1l2 := r.2 }

/-- `RankDirectory::rank_at_word`. -/
def rankAtWord (d : RankDir) (wordIdx : Nat) : Nat :=
  if d.l1l2.isEmpty then 0
  else
    let blockIdx := wordIdx / Gen.RANK_WORDS_PER_BLOCK
    let wordInBlock := wordIdx % Gen.RANK_WORDS_PER_BLOCK
    -- clamp to valid range
    let blockIdx := min blockIdx (d.l1l2.length - 1)
    let l0Idx := blockIdx / Gen.RANK_BLOCKS_PER_SUPERBLOCK
    let l0Rank := if l0Idx > 0 ∧ l0Idx ≤ d.l0.length then d.l0.getD (l0Idx - 1) 0 else 0
    let entry := d.l1l2.getD blockIdx 0
    let l1Rank := (entry &&& 0xFFFFFFFF#128).toNat % 2 ^ 64
    let l2Rank :=
      if wordInBlock = 0 then 0
      else
        let l2Idx := wordInBlock - 1
        let shift := 32 + l2Idx * 9
        ((entry >>> shift) &&& 0x1FF#128).toNat % 2 ^ 64
    (l0Rank + l1Rank + l2Rank) % 2 ^ 64

/-! ### select.rs (`SelectIndex<u64>`: `from_usize`/`to_usize` are the identity on 64-bit hosts) -/

/-- `SampleEntry { word_idx, cumulative_before }`. -/
structure Sample where
  wordIdx : Nat
  cumBefore : Nat
deriving Repr, DecidableEq

/-- `SelectIndex { samples, sample_rate }`. -/
structure SelectIdx where
  samples : List Sample
  rate : Nat
deriving Repr

/-- `while next_sample < total_ones && count + pop > next_sample { push; next_sample += rate }`.
Returns the samples pushed (in order) and the final `next_sample`.  The fuel is the number of
iterations allowed; `pop + 1` always suffices (`sampleWhile_spec`: with that fuel the loop has left
through its condition, because `count ≤ next_sample` and `rate ≥ 1`). -/
def sampleWhile (total cnt pop rate wordIdx : Nat) : Nat → Nat → List Sample × Nat
  | 0, next => ([], next)
  | fuel + 1, next =>
    if next < total ∧ cnt + pop > next then
      let r := sampleWhile total cnt pop rate wordIdx fuel ((next + rate) % 2 ^ 64)
      ({ wordIdx := wordIdx, cumBefore := cnt } :: r.1, r.2)
    else ([], next)

/-- `for (word_idx, &word) in words.iter().enumerate() { … }` of `SelectIndex::build`. -/
def sampleGo (total rate : Nat) : List (BitVec 64) → Nat → Nat → Nat → List Sample
  | [], _, _, _ => []
  | w :: ws, wordIdx, cnt, next =>
    let pop := popc w
    let r := sampleWhile total cnt pop rate wordIdx (pop + 1) next
    r.1 ++ sampleGo total rate ws (wordIdx + 1) ((cnt + pop) % 2 ^ 64) r.2

/-- `SelectIndex::build(words, total_ones, sample_rate)`. -/
def buildSelect (words : List (BitVec 64)) (totalOnes sampleRate : Nat) : SelectIdx :=
  if words.isEmpty ∨ totalOnes = 0 then { samples := [], rate := sampleRate }
  else
    let rate := max sampleRate 1
    { samples := sampleGo totalOnes rate words 0 0 0, rate := rate }

/-- `SelectIndex::jump_to`. -/
def jumpTo (s : SelectIdx) (k : Nat) : Nat × Nat :=
  if s.samples.isEmpty then (0, k)
  else
    let sampleIdx := k / s.rate
    if sampleIdx ≥ s.samples.length then
      let last := s.samples.getD (s.samples.length - 1) ⟨0, 0⟩
      (last.wordIdx, k - last.cumBefore)
    else
      let entry := s.samples.getD sampleIdx ⟨0, 0⟩
      (entry.wordIdx, k - entry.cumBefore)

/-! ### bitvec.rs -/

/-- `BitVec { words, len, ones_count, rank_dir, select_idx }`. -/
structure BVec where
  words : List (BitVec 64)
  len : Nat
  ones : Nat
  dir : RankDir
  sel : SelectIdx
deriving Repr

/-- The masking block of `with_config`: clear the tail of the word holding bit `len - 1`, then
zero every later word. -/
def maskWords (words : List (BitVec 64)) (len : Nat) : List (BitVec 64) :=
  let usedWords := (len + 63) / 64          -- len.div_ceil(64)
  let tailBits := len % 64
  let words :=
    if tailBits > 0 then
      words.set (usedWords - 1) (words.getD (usedWords - 1) 0 &&& ((1#64 <<< tailBits) - 1))
    else words
  -- for word in &mut words[used_words..] { *word = 0; }
  words.take usedWords ++ List.replicate (words.length - usedWords) 0#64

/-- `BitVec::with_config(words, len, Config { select_sample_rate })`; `none` = the `assert!`
fires (`len > words.len().saturating_mul(64)`). -/
def withConfig (pc : BitVec 64 → Nat) (words : List (BitVec 64)) (len rate : Nat) : Option BVec :=
  if len > min (words.length * 64) (2 ^ 64 - 1) then none
  else
    let words := maskWords words len
    let ones := popcountWords pc words
    some { words := words, len := len, ones := ones, dir := buildRank words,
           sel := buildSelect words ones rate }

def countOnes (b : BVec) : Nat := b.ones

/-- `self.len - self.ones_count`. -/
def countZeros (b : BVec) : Nat := b.len - b.ones

/-- `RankSelect::rank1`. -/
def rank1 (pc : BitVec 64 → Nat) (b : BVec) (i : Nat) : Nat :=
  if i = 0 then 0
  else if i ≥ b.len then b.ones
  else
    let wordIdx := i / 64
    let bitIdx := i % 64
    let dirRank := rankAtWord b.dir wordIdx
    let word := b.words.getD wordIdx 0
    let mask := (1#64 <<< bitIdx) - 1
    let partialCount := pc (word &&& mask)
    dirRank + partialCount

/-- `RankSelect::rank0`: `i.min(self.len) - self.rank1(i)`. -/
def rank0 (pc : BitVec 64 → Nat) (b : BVec) (i : Nat) : Nat :=
  min i b.len - rank1 pc b i

/-- `RankSelect::select1`. -/
def select1 (b : BVec) (k : Nat) : Option Nat :=
  if k ≥ b.ones then none
  else
    let (startWord, remaining) := jumpTo b.sel k
    match scanSelect popc b.words startWord remaining with
    | none => none
    | some (wordIdx, rem) =>
      -- select_in_word(self.words[word_idx], rem as u32) as usize
      let bitPos := selectInWordSpec (b.words.getD wordIdx 0) (rem % 2 ^ 32)
      let result := wordIdx * 64 + bitPos
      if result < b.len then some result else none

/-- The `while lo < hi` loop of `select0`. -/
def select0Loop (pc : BitVec 64 → Nat) (b : BVec) (k : Nat) : Nat → Nat → Nat → Nat
  | 0, lo, _ => lo
  | fuel + 1, lo, hi =>
    if lo < hi then
      let mid := lo + (hi - lo) / 2
      if rank0 pc b (mid + 1) > k then select0Loop pc b k fuel lo mid
      else select0Loop pc b k fuel (mid + 1) hi
    else lo

/-- `BitVec::select0`: binary search over `rank0`.  The loop halves `hi - lo`, so `len + 1`
iterations are never exhausted. -/
def select0 (pc : BitVec 64 → Nat) (b : BVec) (k : Nat) : Option Nat :=
  if k ≥ countZeros b then none
  else some (select0Loop pc b k (b.len + 1) 0 b.len)

/-- `BitVec::get`; `none` = the documented panic (`assert!(i < self.len)`). -/
def get (b : BVec) (i : Nat) : Option Bool :=
  if i < b.len then
    let wordIdx := i / 64
    let bitIdx := i % 64
    some (((b.words.getD wordIdx 0 >>> bitIdx) &&& 1#64) == 1#64)
  else none

end SV.BV
