/-
Model/YamlEmit — the yq emitter's DECISION LOGIC, following the Rust source line by line.

* `src/yaml/scalar.rs`: `resolve_plain` and its helpers (`resolvePlainRs`), over models of
  `str::parse::<i64>`, `i64::from_str_radix`, `str::parse::<f64>` (grammar + finiteness).
* `src/bin/succinctly/yq_runner.rs` (DOM emitter): `yaml_quote_string`, `yaml_quote_key`,
  `yaml_double_quote_escaped`, `yaml_single_quote_escaped`, `can_single_quote`,
  `yaml_quote_string_with_style`, the indent step of `OutputConfig::from_args`.
* `src/yaml/light.rs` (streaming emitter): `needs_yaml_quoting`, `looks_like_yaml_number`,
  `stream_yaml_double_quoted`, `stream_yaml_single_quoted`, the style decision of
  `stream_yaml_string_value`, `chomping_indicator`, `stream_yaml_block_scalar`'s header.

The two functions repaired by the `fix:` commit exist in both revisions (`Rev.v0` = source before
the fix, `Rev.v1` = source with the fix); `currentRev` is read from the generated marker
`Gen.C15_QUOTE_REV_L`, which the harness derives from the working tree's source text on every run,
so the driver always runs the revision the source says.  Import-free apart from Spec and Generated.
-/
import SuccinctlyVerif.Spec.YamlScalar
import SuccinctlyVerif.Generated.C15
namespace SV.Yaml.Emit
open SV.Yaml

/-- Source revision of the quoting functions. -/
inductive Rev where
  | v0 | v1
  deriving DecidableEq, Repr

/-- The revision the working tree's source is at (marker regenerated on every run). -/
def currentRev : Rev := if SV.Gen.C15_QUOTE_REV_L = [1] then .v1 else .v0

/-! ## Rust `core` primitives (modelled, not verified) -/

/-- `char::is_ascii_control` -/
def isAsciiControl (c : Char) : Bool := c.toNat < 0x20 || c.toNat = 0x7F

/-- ASCII lower-casing.  `str::to_lowercase` is Unicode lower-casing; it is compared only against
ASCII words without the letter `k`, and no non-ASCII character lower-cases to an ASCII string other
than U+212A (KELVIN SIGN → `k`), so ASCII lower-casing gives the same comparisons. -/
def asciiLower (c : Char) : Char :=
  if 'A' ≤ c && c ≤ 'Z' then Char.ofNat (c.toNat + 32) else c

/-- `s.to_lowercase() == w` for a lower-case ASCII word `w`; a non-ASCII character never compares
equal. -/
def lowerEq (s : List Char) (w : String) : Bool := s.map asciiLower = w.toList

def hexNibble (n : Nat) : Char :=
  if n < 10 then Char.ofNat (n + 48) else Char.ofNat (n - 10 + 97)

/-- `s.contains(a b)` for a two-character pattern. -/
def contains2 (a b : Char) : List Char → Bool
  | x :: y :: rest => (x = a && y = b) || contains2 a b (y :: rest)
  | _ => false

def startsWith (s : List Char) (c : Char) : Bool := s.head? = some c
def endsWith (s : List Char) (c : Char) : Bool := s.getLast? = some c

/-- Grammar accepted by `str::parse::<f64>` (std docs): `Sign? ('inf'|'infinity'|'nan'|Number)`,
`Number ::= (Digit+ | Digit+ '.' Digit* | Digit* '.' Digit+) Exp?`, `Exp ::= 'e' Sign? Digit+`,
case-insensitive. -/
def rustF64Ok (s : List Char) : Bool :=
  let body := (splitSign s).2
  lowerEq body "inf" || lowerEq body "infinity" || lowerEq body "nan" || isFloatBody body

/-- `str::parse::<i64>`: `Sign? Digit+`, in range. -/
def rustI64Parse (s : List Char) : Option Int :=
  let (neg, body) := splitSign s
  if allDigits body then
    let v : Int := if neg then -(natOfDigits 10 body : Int) else natOfDigits 10 body
    if -(2 : Int) ^ 63 ≤ v && v < (2 : Int) ^ 63 then some v else none
  else none

/-- Number of decimal digits of a positive natural (0 for 0). -/
def numDigits (n : Nat) : Nat := if n = 0 then 0 else (Nat.toDigits 10 n).length

/-- Does the decimal `d × 10^k` round to a finite `f64`?  Overflow to infinity happens exactly from
`2^1024 − 2^970` (the midpoint above `f64::MAX`, ties to even) upwards. -/
def decimalFinite (d : Nat) (k : Int) : Bool :=
  if d = 0 then true
  else
    let nd : Int := numDigits d
    if nd + k > 320 then false
    else if nd + k < 300 then true
    else
      let t : Nat := 2 ^ 1024 - 2 ^ 970
      if k ≥ 0 then d * 10 ^ k.toNat < t else d < t * 10 ^ (-k).toNat

/-- For a string accepted by the `Number` grammar (sign removed): is the parsed value finite? -/
def floatBodyFinite (body : List Char) : Bool :=
  let m := body.takeWhile (fun c => !(c = 'e' || c = 'E'))
  let e := body.dropWhile (fun c => !(c = 'e' || c = 'E'))
  let ip := m.takeWhile isDigit
  let fp := (m.dropWhile isDigit).drop 1
  let ex : Int :=
    match e with
    | [] => 0
    | _ :: r =>
      let (neg, ds) := splitSign r
      if neg then -(natOfDigits 10 ds : Int) else natOfDigits 10 ds
  decimalFinite (natOfDigits 10 (ip ++ fp)) (ex - fp.length)

/-- `parse_float`: `s.parse::<f64>()` is `Ok(f)` with `f.is_finite()`. -/
def parseFloatRs (s : List Char) : Scalar :=
  let body := (splitSign s).2
  if isFloatBody body && floatBodyFinite body then .float .finite else .str s

/-- `parse_int_or_float` -/
def parseIntOrFloatRs (s : List Char) : Scalar :=
  match rustI64Parse s with
  | some n => .int n
  | none => parseFloatRs s

def isRadixDigit (radix : Nat) (c : Char) : Bool :=
  if radix = 16 then isHexDigit c else isOctDigit c

/-- `parse_radix` (`i64::from_str_radix` after rejecting a sign; overflow ⇒ `Str`). -/
def parseRadixRs (s digits : List Char) (radix : Nat) : Scalar :=
  match digits with
  | [] => .str s
  | c :: _ =>
    if c = '+' || c = '-' then .str s
    else if digits.all (isRadixDigit radix) then
      let v := natOfDigits radix digits
      if v < 2 ^ 63 then .int v else .str s
    else .str s

/-- `resolve_plain` (`src/yaml/scalar.rs`), dispatching on the first character. -/
def resolvePlainRs (s : List Char) : Scalar :=
  match s with
  | [] => .null
  | first :: _ =>
    let kw (m : Bool) (r : Scalar) : Scalar := if m then r else .str s
    if first = 'n' then kw (s = "null".toList) .null
    else if first = 'N' then kw (s = "Null".toList || s = "NULL".toList) .null
    else if first = '~' then kw (s.length = 1) .null
    else if first = 't' then kw (s = "true".toList) (.bool true)
    else if first = 'T' then kw (s = "True".toList || s = "TRUE".toList) (.bool true)
    else if first = 'f' then kw (s = "false".toList) (.bool false)
    else if first = 'F' then kw (s = "False".toList || s = "FALSE".toList) (.bool false)
    else if first = '.' then
      -- resolve_dot
      if isInfWord s then .float .posInf
      else if isNanWord s then .float .nan
      else parseFloatRs s
    else if first = '+' || first = '-' then
      -- resolve_signed
      match s.drop 1 with
      | c2 :: _ =>
        if c2 = '.' then
          if isInfWord (s.drop 1) then .float (if first = '-' then .negInf else .posInf)
          else parseFloatRs s
        else if isDigit c2 then parseIntOrFloatRs s
        else .str s
      | [] => .str s
    else if isDigit first then
      -- resolve_number
      match s with
      | '0' :: 'x' :: d :: ds => parseRadixRs s (d :: ds) 16
      | '0' :: 'o' :: d :: ds => parseRadixRs s (d :: ds) 8
      | _ => parseIntOrFloatRs s
    else .str s

/-- The documented deviations of `resolve_plain` from the core schema (header of `scalar.rs`):
an integer outside `i64` (decimal: becomes a float or a string; `0x`/`0o`: stays a string) and a
decimal float whose value overflows `f64` (stays a string). -/
def deviates (s : List Char) : Bool :=
  match coreResolve s with
  | .int n => !(decide (-(2 : Int) ^ 63 ≤ n) && decide (n < (2 : Int) ^ 63))
  | .float .finite => !floatBodyFinite (splitSign s).2
  | _ => false

/-! ## DOM emitter (`yq_runner.rs`) -/

/-- `yaml_double_quote_escaped`: the escape of one character. -/
def dqEscapeChar (c : Char) : List Char :=
  if c = '"' then ['\\', '"']
  else if c = '\\' then ['\\', '\\']
  else if c = '\n' then ['\\', 'n']
  else if c = '\r' then ['\\', 'r']
  else if c = '\t' then ['\\', 't']
  else if isAsciiControl c then ['\\', 'x', hexNibble (c.toNat / 16), hexNibble (c.toNat % 16)]
  else [c]

/-- `yaml_double_quote_escaped` -/
def yamlDoubleQuoteEscaped (s : List Char) : List Char :=
  '"' :: (s.flatMap dqEscapeChar ++ ['"'])

def sqEscapeChar (c : Char) : List Char := if c = '\'' then ['\'', '\''] else [c]

/-- `yaml_single_quote_escaped` -/
def yamlSingleQuoteEscaped (s : List Char) : List Char :=
  '\'' :: (s.flatMap sqEscapeChar ++ ['\''])

/-- `can_single_quote` -/
def canSingleQuote (s : List Char) : Bool := !s.any isAsciiControl

/-- `s.starts_with(c) && (s.len() == 1 || s.chars().nth(1) == Some(' '))` (`s.len()` is the byte
length; `c` is ASCII, so `len == 1` iff the string is that single character). -/
def startsAloneOrSpace (s : List Char) (c : Char) : Bool :=
  match s with
  | x :: rest => x = c && (rest = [] || rest.head? = some ' ')
  | [] => false

/-- The disjunction `needs_quoting` of `yaml_quote_string` as it stood before the fix. -/
def needsQuotingValueV0 (s : List Char) : Bool :=
  lowerEq s "null" || lowerEq s "true" || lowerEq s "false" || lowerEq s "~" ||
  lowerEq s ".nan" || lowerEq s ".inf" || lowerEq s "-.inf" ||
  rustF64Ok s ||
  startsWith s '*' || startsWith s '&' || startsWith s '!' || startsWith s '%' ||
  startsWith s '@' || startsWith s '`' || startsWith s '|' || startsWith s '>' ||
  startsWith s '[' || startsWith s '{' || startsWith s '"' || startsWith s '\'' ||
  startsWith s '#' ||
  startsAloneOrSpace s '-' || startsAloneOrSpace s '?' || startsAloneOrSpace s ':' ||
  contains2 ':' ' ' s || contains2 ' ' '#' s ||
  s.contains '\n' || s.contains '\r' || s.contains '\t' ||
  endsWith s ':' || endsWith s ' '

/-- The additions of the fix: anything `resolve_plain` does not type as a string, a leading space,
the remaining indicators `,` `]` `}` in first position, and — inside a flow collection — any flow
indicator anywhere. -/
def needsQuotingValueV1 (inFlow : Bool) (s : List Char) : Bool :=
  needsQuotingValueV0 s ||
  !(resolvePlainRs s).isStr ||
  startsWith s ' ' || startsWith s ',' || startsWith s ']' || startsWith s '}' ||
  (inFlow && s.any isFlowIndicator)

def needsQuotingValue (rev : Rev) (inFlow : Bool) (s : List Char) : Bool :=
  match rev with
  | .v0 => needsQuotingValueV0 s
  | .v1 => needsQuotingValueV1 inFlow s

/-- `yaml_quote_string` -/
def yamlQuoteString (rev : Rev) (inFlow : Bool) (s : List Char) : List Char :=
  if s = [] then ['\'', '\'']
  else if needsQuotingValue rev inFlow s then yamlDoubleQuoteEscaped s
  else s

/-- Source styles `CommentTree::style` reports for a scalar. -/
inductive Style where
  | single | double | other
  deriving DecidableEq, Repr

/-- `yaml_quote_string_with_style` -/
def yamlQuoteStringWithStyle (rev : Rev) (inFlow : Bool) (s : List Char) (style : Style) : List Char :=
  match style with
  | .single => if canSingleQuote s then yamlSingleQuoteEscaped s else yamlQuoteString rev inFlow s
  | .double => yamlDoubleQuoteEscaped s
  | .other => yamlQuoteString rev inFlow s

/-- The hand-copied escaper inside `yaml_quote_key` before the fix (no `\xNN` arm). -/
def keyEscapeCharV0 (c : Char) : List Char :=
  if c = '"' then ['\\', '"']
  else if c = '\\' then ['\\', '\\']
  else if c = '\n' then ['\\', 'n']
  else if c = '\r' then ['\\', 'r']
  else if c = '\t' then ['\\', 't']
  else [c]

def needsQuotingKeyV0 (s : List Char) : Bool :=
  s.contains ':' || s.contains '#' || s.contains '\n' || s.contains '\r' ||
  startsWith s '-' || startsWith s '?' || startsWith s '[' || startsWith s '{' ||
  startsWith s '"' || startsWith s '\'' || startsWith s '*' || startsWith s '&' ||
  startsWith s '!' || endsWith s ' '

/-- `s.starts_with("... ")` -/
def startsWithDotsSpace (s : List Char) : Bool :=
  match s with
  | '.' :: '.' :: '.' :: ' ' :: _ => true
  | _ => false

def needsQuotingKeyV1 (inFlow : Bool) (s : List Char) : Bool :=
  needsQuotingKeyV0 s ||
  s.contains '\t' || startsWith s ' ' ||
  startsWith s '|' || startsWith s '>' || startsWith s '%' || startsWith s '@' ||
  startsWith s '`' || startsWith s ',' || startsWith s ']' || startsWith s '}' ||
  s = "<<".toList || startsWithDotsSpace s ||
  (inFlow && s.any isFlowIndicator)

/-- `yaml_quote_key` -/
def yamlQuoteKey (rev : Rev) (inFlow : Bool) (s : List Char) : List Char :=
  if s = [] then ['\'', '\'']
  else match rev with
    | .v0 => if needsQuotingKeyV0 s then '"' :: (s.flatMap keyEscapeCharV0 ++ ['"']) else s
    | .v1 => if needsQuotingKeyV1 inFlow s then yamlDoubleQuoteEscaped s else s

/-- `OutputConfig::from_args`: width of one YAML indentation step of the DOM emitter for
`--indent n` (no `--tab`).  Before the fix `-I 0` gave the empty string (nested block mappings
collapse onto their parent's column); with the fix it is 2, as in the streaming path. -/
def domIndentWidth (rev : Rev) (n : Nat) : Nat :=
  if n = 0 then (match rev with | .v0 => 0 | .v1 => 2) else max n 2

/-- `run_yq`: `yaml_indent_spaces` of the streaming path (no `--tab`). -/
def streamIndentWidth (n : Nat) : Nat := if n = 0 then 2 else max n 2

/-! ## Streaming emitter (`light.rs`; `jq/stream.rs` carries an identical copy) -/

/-- `looks_like_yaml_number` — the `while` loop, with `hasDot`/`hasExp` threaded. -/
def looksLikeNumberLoop : Bool → Bool → List Char → Bool
  | _, _, [] => true
  | hasDot, hasExp, c :: rest =>
    if isDigit c then looksLikeNumberLoop hasDot hasExp rest
    else if c = '.' && !hasDot && !hasExp then looksLikeNumberLoop true hasExp rest
    else if (c = 'e' || c = 'E') && !hasExp then
      match rest with
      | d :: rest' => if d = '-' || d = '+' then looksLikeNumberLoop hasDot true rest'
                      else looksLikeNumberLoop hasDot true (d :: rest')
      | [] => true
    else false

/-- `looks_like_yaml_number` (bytes; every byte it accepts is ASCII, so characters do as well). -/
def looksLikeYamlNumber (s : List Char) : Bool :=
  match s with
  | [] => false
  | c :: rest =>
    let body := if c = '-' || c = '+' then rest else s
    match body with
    | [] => false
    | d :: _ => if !isDigit d then false else looksLikeNumberLoop false false body

def streamFirstIndicator (c : Char) : Bool := isIndicator c

/-- `needs_yaml_quoting`.  The fix adds the `resolve_plain` check after `looks_like_yaml_number`. -/
def needsYamlQuoting (rev : Rev) (s : List Char) : Bool :=
  match s with
  | [] => true
  | first :: _ =>
    if streamFirstIndicator first then true
    else if first = ' ' || s.getLast? = some ' ' then true
    else if lowerEq s "null" || lowerEq s "~" || lowerEq s "true" || lowerEq s "false" ||
            lowerEq s "yes" || lowerEq s "no" || lowerEq s "on" || lowerEq s "off" ||
            lowerEq s ".inf" || lowerEq s "-.inf" || lowerEq s ".nan" then true
    else if looksLikeYamlNumber s then true
    else if rev = .v1 && !(resolvePlainRs s).isStr then true
    else s.any (fun c => c.toNat < 0x20 || c = ':' || c = '#')

/-- `stream_yaml_double_quoted`: escapes C0 controls only (`< 0x20`), DEL stays raw. -/
def streamDqEscapeChar (c : Char) : List Char :=
  if c = '"' then ['\\', '"']
  else if c = '\\' then ['\\', '\\']
  else if c = '\n' then ['\\', 'n']
  else if c = '\r' then ['\\', 'r']
  else if c = '\t' then ['\\', 't']
  else if c.toNat < 0x20 then ['\\', 'x', hexNibble (c.toNat / 16), hexNibble (c.toNat % 16)]
  else [c]

def streamYamlDoubleQuoted (s : List Char) : List Char :=
  '"' :: (s.flatMap streamDqEscapeChar ++ ['"'])

/-- `stream_yaml_single_quoted` -/
def streamYamlSingleQuoted (s : List Char) : List Char := yamlSingleQuoteEscaped s

/-- `stream_yaml_block_scalar_quoted` (also `stream_yaml_nonstring_key`, and `jq/stream.rs`'s
`stream_yaml_string` apart from its `''` for the empty string). -/
def streamSmartQuoted (rev : Rev) (s : List Char) : List Char :=
  if needsYamlQuoting rev s then streamYamlDoubleQuoted s else s

/-- `starts_seq_entry(bytes, 0)` -/
def startsSeqEntry (s : List Char) : Bool :=
  match s with
  | '-' :: rest => (match rest with | [] => true | c :: _ => c = ' ' || c = '\t' || c = '\n' || c = '\r')
  | _ => false

/-- Source style of a `YamlString` as `stream_yaml_string_value` sees it. -/
inductive SrcStyle where
  | doubleQuoted | singleQuoted | unquoted | block
  deriving DecidableEq, Repr

/-- `stream_yaml_string_value` on a decoded value `s` of source style `st` (not JSON-sourced).
Before the fix a single-quoted source scalar is re-quoted in single quotes whatever it decodes to;
with the fix a decoded line break (a folded multi-line source scalar) selects double quotes. -/
def streamStringValue (rev : Rev) (st : SrcStyle) (s : List Char) : List Char :=
  match st with
  | .doubleQuoted => streamYamlDoubleQuoted s
  | .singleQuoted =>
    (match rev with
     | .v0 => streamYamlSingleQuoted s
     | .v1 => if s.any isBreak then streamYamlDoubleQuoted s else streamYamlSingleQuoted s)
  | .unquoted =>
    if s = [] || s.any (fun c => c.toNat < 0x20) || startsSeqEntry s then streamYamlDoubleQuoted s
    else s
  | .block => streamSmartQuoted rev s

/-- `chomping_indicator`: the text of the indicator.  Clip (no indicator) when the value ends in
exactly one line break after non-empty content, strip (`-`) when it ends in none, keep (`+`)
otherwise — in particular for a value that is a single line break (clip keeps the final break only of
non-empty content). -/
def chompingIndicator (s : List Char) : List Char :=
  match s.reverse with
  | ['\n'] => ['+']
  | '\n' :: '\n' :: _ => ['+']
  | '\n' :: _ => []
  | _ => ['-']

/-- `str::split('\n')` -/
def splitLines : List Char → List (List Char)
  | [] => [[]]
  | c :: rest =>
    if c = '\n' then [] :: splitLines rest
    else
      match splitLines rest with
      | l :: ls => (c :: l) :: ls
      | [] => [[c]]

/-- `needs_explicit_indent`: the first non-blank content line starts with a space. -/
def needsExplicitIndent (decoded : List Char) : Bool :=
  match (splitLines decoded).find? (fun l => !l.isEmpty) with
  | some l => l.head? == some ' '
  | none => false

/-- The decision of `stream_yaml_value`'s block-scalar arm for a decoded value written with the
indent string of width `indentLen` and step `indentSpaces`: `none` = fall back to smart quoting;
`some none` = block style without an indentation indicator; `some (some d)` = block style with the
explicit indicator `d`.  The indicator is needed when the first NON-BLANK content line starts with
a space (auto-detection would swallow it). -/
def blockScalarDecision (indentSpaces indentLen : Nat) (decoded : List Char) : Option (Option Nat) :=
  if indentSpaces = 0 || indentLen = 0 then none
  else
    let lines := splitLines decoded
    let hasTrailingSpace := lines.any (fun l => l.getLast? = some ' ')
    let hasAstral := decoded.any (fun c => c.toNat > 0xFFFF)
    let explicit : Option (Option Nat) :=
      if needsExplicitIndent decoded then (if 1 ≤ indentSpaces && indentSpaces ≤ 9 then some (some indentSpaces) else none)
      else some none
    match explicit with
    | some e => if !decoded.isEmpty && !hasTrailingSpace && !hasAstral then some e else none
    | none => none

/-- Content lines of a literal scalar as `stream_yaml_block_scalar` writes them: the value less one
final line break, split into lines. -/
def literalContentLines (decoded : List Char) : List (List Char) :=
  splitLines (match decoded.reverse with | '\n' :: r => r.reverse | _ => decoded)

/-- `stream_yaml_block_scalar`, literal style: header and the content lines, each non-empty line
behind `indentLen` spaces; the caller supplies the line break that follows. -/
def streamBlockLiteral (indentLen : Nat) (explicit : Option Nat) (decoded : List Char) : List Char :=
  '|' :: ((match explicit with | some d => (toString d).toList | none => []) ++ chompingIndicator decoded ++
    (literalContentLines decoded).flatMap (fun l =>
      '\n' :: (if l.isEmpty then [] else List.replicate indentLen ' ' ++ l)))

/-- The physical lines `stream_yaml_block_scalar` writes after the header (literal style). -/
def literalBodyLines (indentLen : Nat) (decoded : List Char) : List (List Char) :=
  (literalContentLines decoded).map fun l => if l.isEmpty then [] else List.replicate indentLen ' ' ++ l

/-- Header of the folded form (the body, `widen_folded_breaks`, is not modelled). -/
def streamBlockFoldedHeader (explicit : Option Nat) (decoded : List Char) : List Char :=
  '>' :: ((match explicit with | some d => (toString d).toList | none => []) ++ chompingIndicator decoded)

end SV.Yaml.Emit
