/-
Model/JsonNav — executable model of `JsonIndex` navigation (`src/json/light.rs`, C06):
`JsonIndex::build`, `JsonCursor::{first_child, next_sibling, parent, text_position, value,
children, text_range}`, `JsonFields::{uncons, find, find_cursor}`, `JsonElements::{uncons, get,
get_fast}`, `JsonString::{raw_and_escaped, as_str, find_string_end}`, `decode_escapes`, `parse_hex4`,
`nested_number_span`, `JsonNumber::{raw_bytes, as_i64}`.

Callees that are the subject of other properties are taken at their specification, collected in
`Prims`: `BalancedParens::{is_open, find_close, enclose, rank1}` = the scans of `Spec/BP` /
`Spec/Bits` over the first `bp_len` BP bits (C04), `ib_select1_from(k, hint)` = position of the
`k`-th interest bit below `ib_len` (C07 `text_position_eq`), the semi-index = reference (C05),
`core::str::from_utf8` = Table 3-7 well-formedness (`Spec/Utf8`, C13), `char::from_u32` = "is a
Unicode scalar value".  `Prims.fast` is an array-backed implementation of the same primitives used
by the driver on large documents.
-/
import SuccinctlyVerif.Spec.Bits
import SuccinctlyVerif.Spec.BP
import SuccinctlyVerif.Spec.Utf8
import SuccinctlyVerif.Spec.JsonSimple
import SuccinctlyVerif.Model.JsonSemi
namespace SV.JsonNav
open SV SV.JsonSemi

abbrev Byte := BitVec 8

/-! ### primitives -/

/-- The BP / IB operations the cursor is built on. -/
structure Prims where
  /-- `BalancedParens::len` -/
  bpLen : Nat
  /-- `is_open(p)` (false for `p ≥ len`) -/
  isOpen : Nat → Bool
  /-- `find_close(p)` -/
  findClose : Nat → Option Nat
  /-- `enclose(p)` = `parent(p)` -/
  enclose : Nat → Option Nat
  /-- `rank1(p)`: opens in `[0, min p len)` -/
  rank1 : Nat → Nat
  /-- `ib_select1_from(k, _)`: position of the `k`-th interest bit -/
  select1 : Nat → Option Nat

/-- The primitives at their specification, over the IB bit list (first `ib_len` bits) and the BP bit
list (first `bp_len` bits). -/
def Prims.spec (ib bp : List Bool) : Prims where
  bpLen := bp.length
  isOpen := fun p => bp.getD p false
  findClose := BP.findClose bp
  enclose := BP.enclose bp
  rank1 := fun p => rankB true bp (min p bp.length)
  select1 := selectB true ib

/-! #### array-backed primitives (driver, large documents) -/

/-- `scanClose` over an array: first position `≥ i` where the excess `d` would drop below zero. -/
def scanCloseA (bp : Array Bool) : Nat → Nat → Nat → Option Nat
  | 0, _, _ => none
  | fuel + 1, i, d =>
    if i < bp.size then
      if bp.getD i false then scanCloseA bp fuel (i + 1) (d + 1)
      else if d = 0 then some i else scanCloseA bp fuel (i + 1) (d - 1)
    else none

/-- backward scan for the enclosing open of position `p`: `i` is one past the position examined. -/
def scanOpenA (bp : Array Bool) : Nat → Nat → Nat → Option Nat
  | 0, _, _ => none
  | fuel + 1, i, d =>
    if i = 0 then none
    else if bp.getD (i - 1) false then (if d = 0 then some (i - 1) else scanOpenA bp fuel (i - 1) (d - 1))
    else scanOpenA bp fuel (i - 1) (d + 1)

def prefixCounts (bs : List Bool) : Array Nat :=
  (bs.foldl (fun (acc : Array Nat × Nat) b => let c := if b then acc.2 + 1 else acc.2; (acc.1.push c, c))
    (#[0], 0)).1

def onesPositions (bs : List Bool) : Array Nat :=
  ((bs.foldl (fun (acc : Array Nat × Nat) b => (if b then acc.1.push acc.2 else acc.1, acc.2 + 1))
    (#[], 0)).1)

def Prims.fast (ib bp : List Bool) : Prims :=
  let a := bp.toArray
  let rk := prefixCounts bp
  let pos := onesPositions ib
  { bpLen := a.size
    isOpen := fun p => a.getD p false
    findClose := fun p => if a.getD p false ∧ p < a.size then scanCloseA a (a.size + 1) (p + 1) 0 else none
    enclose := fun p => if a.getD p false ∧ p < a.size then scanOpenA a (a.size + 1) p 0 else none
    rank1 := fun p => rk.getD (min p a.size) 0
    select1 := fun k => pos[k]? }

/-! ### index and cursor -/

/-- `JsonIndex` + the text a cursor carries. -/
structure Index where
  text : Array Byte
  P : Prims

/-- `count_bp_bits`: `2 ·` number of ones. -/
def countBpBits (bpWords : List (BitVec 64)) : Nat := (bpWords.map popc).sum * 2

/-- `JsonIndex::build` followed by `root(text)`, with the primitives at specification level
(`fast = false`) or array-backed (`fast = true`). -/
def build (hasAvx2 fast : Bool) (json : List Byte) : Index :=
  let semi := buildDispatchStd hasAvx2 json
  let ib := bitsOf semi.ib json.length
  let bp := bitsOf semi.bp (countBpBits semi.bp)
  ⟨json.toArray, if fast then Prims.fast ib bp else Prims.spec ib bp⟩

def Index.byteAt (x : Index) (i : Nat) : Byte := x.text.getD i 0#8
def Index.len (x : Index) : Nat := x.text.size

/-- `first_child` -/
def firstChild (x : Index) (p : Nat) : Option Nat :=
  if !x.P.isOpen p || p + 1 ≥ x.P.bpLen then none
  else if x.P.isOpen (p + 1) then some (p + 1) else none

/-- `next_sibling` -/
def nextSibling (x : Index) (p : Nat) : Option Nat :=
  if !x.P.isOpen p then none
  else
    match x.P.findClose p with
    | none => none
    | some c => if c + 1 < x.P.bpLen && x.P.isOpen (c + 1) then some (c + 1) else none

/-- `parent` -/
def parent (x : Index) (p : Nat) : Option Nat := x.P.enclose p

/-- `text_position` -/
def textPosition (x : Index) (p : Nat) : Option Nat := x.P.select1 (x.P.rank1 p)

/-- `text[pos..].starts_with(lit)` -/
def startsWithAt (x : Index) (pos : Nat) (lit : List Byte) : Bool :=
  pos + lit.length ≤ x.len && (List.range lit.length).all fun j => x.byteAt (pos + j) == lit.getD j 0#8

def litTrue : List Byte := [0x74#8, 0x72#8, 0x75#8, 0x65#8]
def litFalse : List Byte := [0x66#8, 0x61#8, 0x6C#8, 0x73#8, 0x65#8]
def litNull : List Byte := [0x6E#8, 0x75#8, 0x6C#8, 0x6C#8]

def isAsciiDigit (c : Byte) : Bool := 0x30 ≤ c.toNat && c.toNat ≤ 0x39

/-- `StandardJson` (containers carry the cursor they were made from, strings/numbers their start). -/
inductive Kind where
  | obj (p : Nat)
  | arr (p : Nat)
  | str (start : Nat)
  | num (start : Nat)
  | bool (b : Bool)
  | null
  | err (msg : String)
  deriving DecidableEq, Repr

/-- `JsonCursor::value` -/
def value (x : Index) (p : Nat) : Kind :=
  match textPosition x p with
  | none => .err "invalid cursor position"
  | some pos =>
    if pos ≥ x.len then .err "text position out of bounds"
    else
      let c := x.byteAt pos
      if c = 0x7B#8 then .obj p
      else if c = 0x5B#8 then .arr p
      else if c = 0x22#8 then .str pos
      else if c = 0x74#8 ∨ c = 0x66#8 then
        if startsWithAt x pos litTrue then .bool true
        else if startsWithAt x pos litFalse then .bool false
        else .err "invalid boolean"
      else if c = 0x6E#8 then
        if startsWithAt x pos litNull then .null else .err "invalid null"
      else if c = 0x2D#8 ∨ c = 0x2E#8 ∨ isAsciiDigit c then .num pos
      else .err "unexpected character"

/-- The `JsonChildren` iterator: `first_child`, then `next_sibling` until `None`. -/
def siblingsFrom (x : Index) : Nat → Option Nat → List Nat
  | 0, _ => []
  | _ + 1, none => []
  | fuel + 1, some p => p :: siblingsFrom x fuel (nextSibling x p)

def children (x : Index) (p : Nat) : List Nat := siblingsFrom x (x.P.bpLen + 1) (firstChild x p)

/-! ### strings -/

/-- The loop of `find_string_end` / `raw_and_escaped` / the string arm of `text_range`: returns the
index of the closing quote (or `none` when the text ends first) and whether a backslash was seen. -/
def stringScan (x : Index) : Nat → Nat → Bool → Option Nat × Bool
  | 0, _, esc => (none, esc)
  | fuel + 1, i, esc =>
    if i < x.len then
      let c := x.byteAt i
      if c = 0x22#8 then (some i, esc)
      else if c = 0x5C#8 then stringScan x fuel (i + 2) true
      else stringScan x fuel (i + 1) esc
    else (none, esc)

/-- `find_string_end`: index of the closing quote, `text.len()` if there is none. -/
def findStringEnd (x : Index) (start : Nat) : Nat :=
  ((stringScan x (x.len + 1) (start + 1) false).1).getD x.len

/-- `raw_and_escaped`: `(end of the raw span (exclusive), escaped)`. -/
def rawAndEscaped (x : Index) (start : Nat) : Nat × Bool :=
  match stringScan x (x.len + 1) (start + 1) false with
  | (some i, e) => (i + 1, e)
  | (none, e) => (x.len, e)

inductive JErr where
  | invalidUtf8 | invalidNumber | invalidEscape | invalidUnicodeEscape
  deriving DecidableEq, Repr

/-- hex digit value of `parse_hex4`'s `match` -/
def hexDigit (b : Byte) : Option Nat :=
  if 0x30 ≤ b.toNat ∧ b.toNat ≤ 0x39 then some (b.toNat - 0x30)
  else if 0x61 ≤ b.toNat ∧ b.toNat ≤ 0x66 then some (b.toNat - 0x61 + 10)
  else if 0x41 ≤ b.toNat ∧ b.toNat ≤ 0x46 then some (b.toNat - 0x41 + 10)
  else none

/-- `parse_hex4` -/
def parseHex4 (hex : List Byte) : Except JErr Nat :=
  if hex.length ≠ 4 then .error .invalidUnicodeEscape
  else
    hex.foldlM (fun (v : Nat) b =>
      match hexDigit b with
      | some d => .ok ((v * 16 + d) % 65536)
      | none => .error .invalidUnicodeEscape) 0

/-- The two-character escapes of `decode_escapes`' `match`: `\" \\ \/ \b \f \n \r \t`. -/
def simpleEsc (c : Byte) : Option Byte :=
  if c = 0x22#8 then some 0x22#8
  else if c = 0x5C#8 then some 0x5C#8
  else if c = 0x2F#8 then some 0x2F#8
  else if c = 0x62#8 then some 0x08#8
  else if c = 0x66#8 then some 0x0C#8
  else if c = 0x6E#8 then some 0x0A#8
  else if c = 0x72#8 then some 0x0D#8
  else if c = 0x74#8 then some 0x09#8
  else none

/-- `char::from_u32` succeeds exactly on Unicode scalar values. -/
def charFromU32 (cp : Nat) : Option Nat := if Utf8.isScalar cp then some cp else none

/-- index of the first backslash at or after `i` (`bytes.len()` if none): the inner `while` of the
unescaped-chunk arm. -/
def chunkEnd (bytes : Array Byte) : Nat → Nat → Nat
  | 0, i => i
  | fuel + 1, i => if i < bytes.size ∧ bytes.getD i 0#8 ≠ 0x5C#8 then chunkEnd bytes fuel (i + 1) else i

def slice (bytes : Array Byte) (a b : Nat) : List Byte := (bytes.extract a b).toList

/-- The `b'u'` arm of `decode_escapes`: `i` is the index of the `u`.  Returns the index of the last
byte consumed (the loop then adds 1) and the UTF-8 bytes pushed. -/
def decodeUnicode (bytes : Array Byte) (i : Nat) : Except JErr (Nat × List Byte) :=
  if i + 4 ≥ bytes.size then .error .invalidUnicodeEscape
  else
    match parseHex4 (slice bytes (i + 1) (i + 5)) with
    | .error e => .error e
    | .ok codepoint =>
      let i := i + 4
      if 0xD800 ≤ codepoint ∧ codepoint ≤ 0xDBFF then
        if i + 6 < bytes.size ∧ bytes.getD (i + 1) 0#8 = 0x5C#8 ∧ bytes.getD (i + 2) 0#8 = 0x75#8 then
          match parseHex4 (slice bytes (i + 3) (i + 7)) with
          | .error e => .error e
          | .ok low =>
            if 0xDC00 ≤ low ∧ low ≤ 0xDFFF then
              let cp := 0x10000 + ((codepoint - 0xD800) * 1024) + (low - 0xDC00)
              match charFromU32 cp with
              | some c => .ok (i + 6, Utf8.encode c)
              | none => .error .invalidUnicodeEscape
            else .error .invalidUnicodeEscape
        else .error .invalidUnicodeEscape
      else if 0xDC00 ≤ codepoint ∧ codepoint ≤ 0xDFFF then .error .invalidUnicodeEscape
      else
        match charFromU32 codepoint with
        | some c => .ok (i, Utf8.encode c)
        | none => .error .invalidUnicodeEscape

/-- The `while i < bytes.len()` loop of `decode_escapes`; `acc` is the `String` built so far (its
UTF-8 bytes). -/
def decodeLoop (bytes : Array Byte) : Nat → Nat → List Byte → Except JErr (List Byte)
  | 0, _, acc => .ok acc
  | fuel + 1, i, acc =>
    if i < bytes.size then
      if bytes.getD i 0#8 = 0x5C#8 then
        if i + 1 ≥ bytes.size then .error .invalidEscape
        else
          let i := i + 1
          let c := bytes.getD i 0#8
          match simpleEsc c with
          | some ch => decodeLoop bytes fuel (i + 1) (acc ++ [ch])
          | none =>
            if c = 0x75#8 then
              match decodeUnicode bytes i with
              | .error e => .error e
              | .ok (i', out) => decodeLoop bytes fuel (i' + 1) (acc ++ out)
            else .error .invalidEscape
      else
        let j := chunkEnd bytes (bytes.size + 1) i
        let chunk := slice bytes i j
        if Utf8.wellFormed chunk then decodeLoop bytes fuel j (acc ++ chunk) else .error .invalidUtf8
    else .ok acc

/-- `decode_escapes(bytes)`: the UTF-8 bytes of the resulting `String`, or the error. -/
def decodeEscapes (bytes : List Byte) : Except JErr (List Byte) :=
  decodeLoop bytes.toArray (bytes.length + 1) 0 []

/-- `JsonString::as_str` for a string whose opening quote is at `start`. -/
def asStr (x : Index) (start : Nat) : Except JErr (List Byte) :=
  let bytes := slice x.text (start + 1) (findStringEnd x start)
  if !bytes.contains 0x5C#8 then
    if Utf8.wellFormed bytes then .ok bytes else .error .invalidUtf8
  else decodeEscapes bytes

/-! ### numbers -/

/-- the byte class of `nested_number_span`: `0-9 . e E + -` -/
def isSpanByte (c : Byte) : Bool :=
  isAsciiDigit c || c == 0x2E#8 || c == 0x65#8 || c == 0x45#8 || c == 0x2B#8 || c == 0x2D#8

def spanLoop (x : Index) : Nat → Nat → Nat
  | 0, i => i
  | fuel + 1, i => if i < x.len ∧ isSpanByte (x.byteAt i) then spanLoop x fuel (i + 1) else i

/-- `nested_number_span(text, start)` -/
def nestedNumberSpan (x : Index) (start : Nat) : Nat :=
  let i := if start < x.len ∧ x.byteAt start = 0x2D#8 then start + 1 else start
  spanLoop x (x.len + 1) i

/-- `<i64 as FromStr>::from_str` on ASCII bytes: optional sign, at least one digit, digits only,
value within the `i64` range. -/
def parseI64 (bs : List Byte) : Option Int :=
  let (neg, ds) :=
    match bs with
    | c :: rest => if c = 0x2D#8 then (true, rest) else if c = 0x2B#8 then (false, rest) else (false, bs)
    | [] => (false, [])
  if ds.isEmpty || !ds.all isAsciiDigit then none
  else
    let n : Nat := ds.foldl (fun acc d => acc * 10 + (d.toNat - 0x30)) 0
    let v : Int := if neg then -(n : Int) else (n : Int)
    if -(9223372036854775808 : Int) ≤ v ∧ v ≤ 9223372036854775807 then some v else none

/-- `JsonNumber::raw_bytes` -/
def numberBytes (x : Index) (start : Nat) : List Byte := slice x.text start (nestedNumberSpan x start)

/-- `JsonNumber::as_i64` (`None` = `Err(InvalidNumber)`; the bytes are ASCII so `from_utf8` succeeds). -/
def asI64 (x : Index) (start : Nat) : Option Int := parseI64 (numberBytes x start)

/-! ### `text_range` -/

/-- the inner `while` skipping a string inside a container: returns the index after the closing
quote (or an index `≥ len`). `i` is already past the opening quote. -/
def skipString (x : Index) : Nat → Nat → Nat
  | 0, i => i
  | fuel + 1, i =>
    if i < x.len then
      let c := x.byteAt i
      if c = 0x22#8 then i + 1
      else if c = 0x5C#8 then skipString x fuel (i + 2)
      else skipString x fuel (i + 1)
    else i

/-- the outer `while` of the container arm: `depth` counts brackets of the container's own kind. -/
def containerScan (x : Index) (openB closeB : Byte) : Nat → Nat → Nat → Option Nat
  | 0, _, _ => none
  | fuel + 1, i, depth =>
    if i < x.len then
      let c := x.byteAt i
      if c = 0x22#8 then containerScan x openB closeB fuel (skipString x (x.len + 1) (i + 1)) depth
      else if c = openB then containerScan x openB closeB fuel (i + 1) (depth + 1)
      else if c = closeB then
        if depth - 1 = 0 then some (i + 1) else containerScan x openB closeB fuel (i + 1) (depth - 1)
      else containerScan x openB closeB fuel (i + 1) depth
    else none

/-- `text_range` -/
def textRange (x : Index) (p : Nat) : Option (Nat × Nat) :=
  match textPosition x p with
  | none => none
  | some start =>
    if start ≥ x.len then none
    else
      let c := x.byteAt start
      if c = 0x7B#8 ∨ c = 0x5B#8 then
        let closeB : Byte := if c = 0x7B#8 then 0x7D#8 else 0x5D#8
        (containerScan x c closeB (x.len + 1) (start + 1) 1).map fun e => (start, e)
      else if c = 0x22#8 then
        match (stringScan x (x.len + 1) (start + 1) false).1 with
        | some i => some (start, i + 1)
        | none => some (start, x.len)
      else if c = 0x74#8 then (if startsWithAt x start litTrue then some (start, start + 4) else none)
      else if c = 0x66#8 then (if startsWithAt x start litFalse then some (start, start + 5) else none)
      else if c = 0x6E#8 then (if startsWithAt x start litNull then some (start, start + 4) else none)
      else if c = 0x2D#8 ∨ c = 0x2E#8 ∨ isAsciiDigit c then some (start, nestedNumberSpan x start)
      else none

/-! ### fields and elements -/

/-- `JsonFields::uncons`: `(key cursor, value cursor, rest)`; `fields` is the `key_cursor` option. -/
def fieldsUncons (x : Index) (fields : Option Nat) : Option (Nat × Nat × Option Nat) :=
  match fields with
  | none => none
  | some k =>
    match nextSibling x k with
    | none => none
    | some v => some (k, v, nextSibling x v)

/-- All fields by repeated `uncons`. -/
def fieldsList (x : Index) : Nat → Option Nat → List (Nat × Nat)
  | 0, _ => []
  | fuel + 1, fields =>
    match fieldsUncons x fields with
    | none => []
    | some (k, v, rest) => (k, v) :: fieldsList x fuel rest

/-- `from_object_cursor` then all fields. -/
def objectFields (x : Index) (p : Nat) : List (Nat × Nat) :=
  fieldsList x (x.P.bpLen + 1) (firstChild x p)

/-- The loop shared by `find` and `find_cursor`: the value cursor of the last field whose decoded key
equals `name`; the whole lookup is `None` as soon as a string key fails to decode (`.ok()?`). -/
def findLoop (x : Index) (name : List Byte) : Nat → Option Nat → Option Nat → Option Nat
  | 0, _, result => result
  | fuel + 1, fields, result =>
    match fieldsUncons x fields with
    | none => result
    | some (k, v, rest) =>
      match value x k with
      | .str start =>
        match asStr x start with
        | .error _ => none
        | .ok key => findLoop x name fuel rest (if key = name then some v else result)
      | _ => findLoop x name fuel rest result

/-- `JsonFields::find_cursor(name)` on the fields of the object at `p`. -/
def findCursor (x : Index) (p : Nat) (name : List Byte) : Option Nat :=
  findLoop x name (x.P.bpLen + 1) (firstChild x p) none

/-- `JsonElements::get(index)`: the element cursor (its `value()` is what `get` returns). -/
def elementsGet (x : Index) (p : Nat) (index : Nat) : Option Nat :=
  let rec go : Nat → Option Nat → Option Nat
    | 0, cur => cur
    | n + 1, cur =>
      match cur with
      | none => none
      | some c => go n (nextSibling x c)
  go index (firstChild x p)

/-- `JsonElements::get_fast(index)`: `next_sibling` `index` times from the first element. -/
def elementsGetFast (x : Index) (p : Nat) (index : Nat) : Option Nat :=
  match firstChild x p with
  | none => none
  | some c =>
    let rec go : Nat → Nat → Option Nat
      | 0, c => some c
      | n + 1, c =>
        match nextSibling x c with
        | none => none
        | some c' => go n c'
    go index c

/-! ### reconstructing the whole value by navigation -/

/-- The value read off an index by navigation: what a caller obtains by walking `value()`,
`JsonFields::uncons` (fields in source order, duplicates kept), the `children` iterator, `as_str()`
(decoded UTF-8 bytes or the error) and `JsonNumber::raw_bytes()` (numbers as literal text). -/
inductive Val where
  | null
  | bool (b : Bool)
  | num (lit : List Byte)
  | str (r : Except JErr (List Byte))
  | arr (xs : List Val)
  | obj (fs : List (Val × Val))
  | err

/-- Walk the tree below cursor `p` (`fuel` bounds the nesting depth). -/
def reconstruct (x : Index) : Nat → Nat → Val
  | 0, _ => .err
  | fuel + 1, p =>
    match value x p with
    | .obj _ => .obj ((objectFields x p).map fun kv => (reconstruct x fuel kv.1, reconstruct x fuel kv.2))
    | .arr _ => .arr ((children x p).map (reconstruct x fuel))
    | .str s => .str (asStr x s)
    | .num s => .num (numberBytes x s)
    | .bool b => .bool b
    | .null => .null
    | .err _ => .err

/-- `as_str` as a function of the bytes between the quotes. -/
def decodeBody (bs : List Byte) : Except JErr (List Byte) :=
  if !bs.contains 0x5C#8 then
    if Utf8.wellFormed bs then .ok bs else .error .invalidUtf8
  else decodeEscapes bs

open SV.JsonText in
mutual
  /-- The value a document tree denotes: literals, numbers as their literal text, strings decoded
  from the bytes between their quotes, array elements in order, object fields in source order with
  duplicates. -/
  def valueOf : JVal → Val
    | .lit .tru => .bool true
    | .lit .fls => .bool false
    | .lit .null => .null
    | .num n => .num n.bytes
    | .str b => .str (decodeBody (b.flatMap SChar.bytes))
    | .arr0 _ => .arr []
    | .obj0 _ => .obj []
    | .arr _ v _ rest => .arr (valueOf v :: itemsOf rest)
    | .obj _ k _ _ v _ rest => .obj ((.str (decodeBody (k.flatMap SChar.bytes)), valueOf v) :: membersOf rest)
  def itemsOf : JItems → List Val
    | .nil => []
    | .cons _ v _ rest => valueOf v :: itemsOf rest
  def membersOf : JMembers → List (Val × Val)
    | .nil => []
    | .cons _ k _ _ v _ rest => (.str (decodeBody (k.flatMap SChar.bytes)), valueOf v) :: membersOf rest
end

/-! ### raw byte range of every node -/

/-- Pre-order list of `text_range()` of every node reached by the walk (containers, object keys,
values, array elements). -/
def rangesWalk (x : Index) : Nat → Nat → List (Option (Nat × Nat))
  | 0, _ => []
  | fuel + 1, p =>
    textRange x p ::
      match value x p with
      | .obj _ => (objectFields x p).flatMap fun kv => rangesWalk x fuel kv.1 ++ rangesWalk x fuel kv.2
      | .arr _ => (children x p).flatMap (rangesWalk x fuel)
      | _ => []

open SV.JsonText in
/-- byte length of a token segment -/
def blen (ts : List Tok) : Nat := (toksBytes ts).length

open SV.JsonText in
mutual
  /-- Pre-order list of the source spans `(start, end)` of every node of a value starting at byte
  offset `a`: the token of a scalar or key, the bracketed span of a container. -/
  def spansOf : JVal → Nat → List (Nat × Nat)
    | .lit l, a => [(a, a + blen (JVal.lit l).toks)]
    | .num n, a => [(a, a + blen (JVal.num n).toks)]
    | .str s, a => [(a, a + blen (JVal.str s).toks)]
    | .arr0 ws, a => [(a, a + blen (JVal.arr0 ws).toks)]
    | .obj0 ws, a => [(a, a + blen (JVal.obj0 ws).toks)]
    | .arr ws0 v ws1 rest, a =>
      (a, a + blen (JVal.arr ws0 v ws1 rest).toks) ::
        (spansOf v (a + blen (Tok.lbracket :: wsToks ws0)) ++
         itemsSpans rest (a + blen (Tok.lbracket :: wsToks ws0) + blen v.toks + blen (wsToks ws1)))
    | .obj ws0 k ws1 ws2 v ws3 rest, a =>
      (a, a + blen (JVal.obj ws0 k ws1 ws2 v ws3 rest).toks) ::
        ((a + blen (Tok.lbrace :: wsToks ws0), a + blen (Tok.lbrace :: wsToks ws0) + blen (JVal.str k).toks) ::
         (spansOf v (a + blen (Tok.lbrace :: wsToks ws0) + blen (JVal.str k).toks
            + blen (wsToks ws1 ++ (Tok.colon :: wsToks ws2))) ++
          membersSpans rest (a + blen (Tok.lbrace :: wsToks ws0) + blen (JVal.str k).toks
            + blen (wsToks ws1 ++ (Tok.colon :: wsToks ws2)) + blen v.toks + blen (wsToks ws3))))
  def itemsSpans : JItems → Nat → List (Nat × Nat)
    | .nil, _ => []
    | .cons ws0 v ws1 rest, a =>
      spansOf v (a + blen (Tok.comma :: wsToks ws0)) ++
        itemsSpans rest (a + blen (Tok.comma :: wsToks ws0) + blen v.toks + blen (wsToks ws1))
  def membersSpans : JMembers → Nat → List (Nat × Nat)
    | .nil, _ => []
    | .cons ws0 k ws1 ws2 v ws3 rest, a =>
      (a + blen (Tok.comma :: wsToks ws0), a + blen (Tok.comma :: wsToks ws0) + blen (JVal.str k).toks) ::
        (spansOf v (a + blen (Tok.comma :: wsToks ws0) + blen (JVal.str k).toks
            + blen (wsToks ws1 ++ (Tok.colon :: wsToks ws2))) ++
         membersSpans rest (a + blen (Tok.comma :: wsToks ws0) + blen (JVal.str k).toks
            + blen (wsToks ws1 ++ (Tok.colon :: wsToks ws2)) + blen v.toks + blen (wsToks ws3)))
end

end SV.JsonNav
