/-
Model/JqPrelude — jq 1.7.1's `src/builtin.jq` definitions of the derived builtins, kept as jq text
and interpreted by the model's own evaluator (so a derived builtin means exactly what jq defines it
to mean: generator order, error messages, path behaviour). Order matters: a definition sees only
the ones before it (and itself).
-/
import SuccinctlyVerif.Model.JqParse
namespace SV.Jq

def preludeSrc : String := "
def halt_error: halt_error(5);
def map(f): [.[] | f];
def select(f): if f then . else empty end;
def sort_by(f): _sort_by_impl(map([f]));
def group_by(f): _group_by_impl(map([f]));
def unique_by(f): [group_by(f)[] | .[0]];
def unique: group_by(.) | map(.[0]);
def reverse: if type == \"string\" then _unmodelled else [.[length - 1 - range(0;length)]] end;
def ascii_downcase: explode | map( if 65 <= . and . <= 90 then . + 32  else . end) | implode;
def ascii_upcase: explode | map( if 97 <= . and . <= 122 then . - 32  else . end) | implode;
def max_by(f): _max_by_impl(map([f]));
def min_by(f): _min_by_impl(map([f]));
def add: reduce .[] as $x (null; . + $x);
def del(f): delpaths([path(f)]);
def _assign(paths; $value): reduce path(paths) as $p (.; setpath($p; $value));
def _modify(paths; update):
    reduce path(paths) as $p ([., []];
        label $out
      | (setpath([0] + $p; getpath([0] + $p) | update) | ., break $out),
        setpath([1, (.[1] | length)]; $p))
    | . as $x | $x[0] | delpaths($x[1]);
def _modify_alt(paths; $v): _modify(paths; . // $v);
def map_values(f): .[] |= f;
def recurse(f): def r: ., (f | r); r;
def recurse(f; cond): def r: ., (f | select(cond) | r); r;
def recurse: recurse(.[]?);
def to_entries: [keys_unsorted[] as $k | {key: $k, value: .[$k]}];
def from_entries: map({(.key // .Key // .name // .Name): (if has(\"value\") then .value else .Value end)}) | add | . //= {};
def with_entries(f): to_entries | map(f) | from_entries;
def values: select(. != null);
def nulls: select(. == null);
def booleans: select(type == \"boolean\");
def numbers: select(type == \"number\");
def strings: select(type == \"string\");
def arrays: select(type == \"array\");
def objects: select(type == \"object\");
def iterables: select(type|. == \"array\" or . == \"object\");
def scalars: select(type|. != \"array\" and . != \"object\");
def join($x): reduce .[] as $i (null;
            (if .==null then \"\" else .+$x end) +
            ($i | if type==\"boolean\" or type==\"number\" then tojson else . end)
        ) // \"\";
def _flatten($x): reduce .[] as $i ([]; if $i | type == \"array\" and $x != 0 then . + ($i | _flatten($x - 1)) else . + [$i] end);
def flatten($x): if $x < 0 then error(\"flatten depth must not be negative\") else _flatten($x) end;
def flatten: _flatten(1e9);
def range($x): range(0;$x);
def in(xs): . as $x | xs | has($x);
def inside(xs): . as $x | xs | contains($x);
def repeat(f): def _repeat: ., (f | _repeat); _repeat;
def while(cond; update): def _while: if cond then ., (update | _while) else empty end; _while;
def until(cond; update): def _until: if cond then . else (update | _until) end; _until;
def range($from;$upto;$by):
    if $by > 0 then $from|while(. < $upto; . + $by)
    elif $by < 0 then $from|while(. > $upto; . + $by)
    else empty end;
def _limit_j($n; f): if $n > 0 then label $out | foreach f as $item (0; .+1; $item, if . >= $n then break $out else empty end) elif $n == 0 then empty else f end;
def limit($n; f): _limit_j($n; f);
def first(f): label $out | (f | ., break $out);
def isempty(g): label $go | (g|false, break $go), true;
def all(generator; condition): isempty(first(generator|condition and empty));
def any(generator; condition): isempty(first(generator|condition or empty)) | not;
def all(f): all(.[]; f);
def any(f): any(.[]; f);
def all: all(.);
def any: any(.);
def last(f): reduce f as $x (null; $x);
def nth($n): .[$n];
def nth($n; f): if $n < 0 then error(\"Out of bounds negative array index\") else last(limit($n + 1; f)) end;
def first: .[0];
def last: .[-1];
def paths: path(..)|select(length > 0);
def paths(node_filter): . as $dot|paths|select(. as $p|$dot|getpath($p) | node_filter);
def leaf_paths: paths(scalars);
def _indices_j($i): if type == \"array\" and ($i|type) == \"array\" then .[$i]
  elif type == \"array\" then .[[$i]]
  elif type == \"string\" and ($i|type) == \"string\" then _strindices($i)
  else .[$i] end;
def indices($i): _indices_j($i);
def _indices_s($i): if ($i|type) == \"array\" or $i == \"\" or $i == null then _unmodelled else _indices_j($i) end;
def index($i): indices($i) | .[0];
def rindex($i): indices($i) | .[-1:][0];
def combinations: if length == 0 then [] else .[0][] as $x | (.[1:] | combinations) as $w | [$x] + $w end;
def combinations(n): . as $dot | [range(n)] | map($dot) | combinations;
def walk(f): def w: if type == \"object\" then map_values(w) elif type == \"array\" then map(w) else . end | f; w;
def transpose: if . == [] then [] else . as $in | (map(length) | max) as $max | [range(0; $max) as $j | [range(0; $in|length) as $i | $in[$i][$j] ] ] end;
def tostream: path(def r: (.[]?|r), .; r) as $p | getpath($p) | reduce path(.[]?) as $q ([$p, .]; [$p+$q]);
def fromstream(f): { x: null, e: false } as $init
  | foreach f as $i ($init;
      if .e then $init else . end
      | if $i | length == 2
        then setpath([\"e\"]; $i[0] | length == 0) | setpath([\"x\"] + $i[0]; $i[1])
        else setpath([\"e\"]; $i[0] | length == 1) end;
      if .e then .x else empty end
  );
def truncate_stream(stream): . as $n | null | stream | . as $input | if (.[0]|length) > $n then setpath([0];.[0][$n:]) else empty end;
def pick(pathexps): . as $top | reduce path(pathexps) as $p (null; setpath($p; $top | getpath($p)));
def _last_s(f): reduce (f | [.]) as $x (null; $x) | if . == null then empty else .[0] end;
def _limit_s($n; f): if ($n|type) == \"number\" and $n == ($n|floor) and $n < 4611686018427387904 and $n > -4611686018427387904 then _limit_j($n; f) else _unmodelled end;
def _nth_s($n; f): if $n < 0 then error(\"nth doesn't support negative indices\") else label $out | foreach f as $item (-1; .+1; if . == $n then $item, break $out else empty end) end;
def _reverse_s: if type == \"array\" then [.[length - 1 - range(0;length)]] else _unmodelled end;
def _flatten_s: _flatten(1);
def _flatten1_s($x): if $x < 0 then _unmodelled else _flatten($x) end;
def _oob_neg($x; $p): any(range(0; $p | length); . as $n | ($p[$n] | type) == \"number\" and $p[$n] < 0 and ($x | getpath($p[:$n]) | type) == \"array\" and (($x | getpath($p[:$n]) | length) + $p[$n]) < 0);
def _modify_lazy(paths; update): reduce path(paths) as $p (.; . as $x | label $out | (setpath($p; $x | getpath($p) | update) | ., break $out), setpath($p; null));
def _modify_s(paths; update): (try {ok: [path(paths)]} catch {err: .}) as $r | if $r | has(\"ok\") then ($r.ok as $ps | reduce $ps[] as $p (.; . as $x | if ($p | length) > 0 and ($p[-1] | type) == \"object\" and ($x | getpath($p[:-1]) | type) == \"string\" then error(\"Cannot update string slices\") elif _oob_neg($x; $p) then error(\"Out of bounds negative array index\") else label $out | (setpath($p; $x | getpath($p) | update) | ., break $out), setpath($p; null) end)) elif $r.err == null then _unmodelled else (try (_nohalt(_modify_lazy(paths; update)) | {ok: .}) catch {err: .}) as $q | if ($q | has(\"err\")) and $q.err == $r.err then error($r.err) else _unmodelled end end;
def _modify_alt_s(paths; $v): (try [path(paths)] catch \"__err__\") as $ps | if $ps == \"__err__\" then _unmodelled else _modify_s(paths; . // $v) end;
def _split_s($x): if . == \"\" then _unmodelled else _split_j($x) end;
def _trim_s: if type == \"string\" then _trim_j else _unmodelled end;
def _ltrim_s: if type == \"string\" then _ltrim_j else _unmodelled end;
def _rtrim_s: if type == \"string\" then _rtrim_j else _unmodelled end;
def IN(s): any(s == .; .);
def IN(src; s): any(src == s; .);
def INDEX(stream; idx_expr): reduce stream as $row ({}; .[$row|idx_expr|tostring] |= $row);
def INDEX(idx_expr): INDEX(.[]; idx_expr);
def bsearch($target):
  if length == 0 then -1
  elif length == 1 then (if $target == .[0] then 0 elif $target < .[0] then -1 else -2 end)
  else . as $in
    | [0, length-1, null]
    | until( .[0] > .[1] ;
             if .[2] != null then (.[1] = -1)
             else
               ( ( (.[1] + .[0]) / 2 ) | floor ) as $mid
               | $in[$mid] as $monkey
               | if $monkey == $target  then (.[2] = $mid)
                 elif (.[0] == .[1])     then (.[1] = -1)
                 elif $monkey < $target then (.[0] = ($mid + 1))
                 else (.[1] = ($mid - 1))
                 end
             end )
    | if .[2] == null then
         if $in[ .[0] ] < $target then (-2 -.[0])
         else (-1 -.[0])
         end
      else .[2]
      end
  end;
def todate: strftime(\"%Y-%m-%dT%H:%M:%SZ\");
def fromdateiso8601: strptime(\"%Y-%m-%dT%H:%M:%SZ\")|mktime;
def todateiso8601: strftime(\"%Y-%m-%dT%H:%M:%SZ\");
def fromdate: fromdateiso8601;
def finites: select(isinfinite or isnan | not);
.
"

/-- the prelude as a scope chain -/
def preludeEnv (N : Type) : Option (Env N) :=
  match parseProgram preludeSrc with
  | none => none
  | some e =>
    let rec go (fuel : Nat) (e : Expr) (env : Env N) : Env N :=
      match fuel with
      | 0 => env
      | fuel + 1 =>
        match e with
        | .def_ name params body rest => go fuel rest (.fn name params body env)
        | _ => env
    some (go 1000 e .nil)

end SV.Jq
