/-
Model/JqValue — the jq value type `JV N`, parametric in the number carrier `N`.

`N` is abstract for theorems (class `NumOps` gives the operations, `LawfulNum` the laws the proofs
use) and instantiated with the executable `JNum` (Model/JsonPrint.lean: i64-or-IEEE-double plus the
preserved literal text, mirroring `OwnedValue::{Int,Float,NumberLiteral}`) in the driver.

Everything here is value level (no programs): jq's total order, equality, object field handling
(`IndexMap` semantics: first position, last value), path machinery (`getpath`/`setpath`/`delpaths`/
`paths`), `tostream`/`fromstream`, `to_entries`/`from_entries`, sorting. Model/Jq.lean's evaluator
calls exactly these functions, and Props/C25.lean proves the identities about them.
-/
namespace SV.Jq

/-- jq values. Objects keep insertion order (`IndexMap`), keys are unique in well-formed values. -/
inductive JV (N : Type) where
  | null
  | bool (b : Bool)
  | num (n : N)
  | str (s : String)
  | arr (xs : List (JV N))
  | obj (fs : List (String × JV N))
  deriving Inhabited

/-- Operations the model needs from the number carrier. No laws here (see `LawfulNum`). -/
class NumOps (N : Type) where
  /-- plain number from an integer (executable carrier: `Int` inside i64, else the nearest double) -/
  ofInt : Int → N
  /-- a JSON / program number token, keeping its spelling where the implementation does -/
  ofLit : String → Option N
  /-- drop the preserved literal (`into_plain_number`) -/
  plain : N → N
  /-- jq's order on numbers (`numeric_repr_cmp`, NaN below everything) -/
  cmp : N → N → Ordering
  /-- jq's `==` on numbers (`numeric_repr_eq`, NaN ≠ NaN) -/
  eq : N → N → Bool
  /-- exact integer value when the number is a finite integer -/
  toInt? : N → Option Int
  /-- Rust `as i64` on the value (saturating, NaN ↦ 0) -/
  truncI64 : N → Int
  /-- text used by `tostring`/`tojson`/interpolation; `none` = spelling not modelled -/
  print : N → Option String
  add : N → N → N
  sub : N → N → N
  mul : N → N → N
  /-- `none` = divisor is zero -/
  div : N → N → Option N
  /-- `none` = divisor is zero -/
  mod : N → N → Option N
  neg : N → N
  /-- one-argument math builtins by name (`floor sqrt fabs ceil round trunc abs`), `none` = not modelled -/
  math : String → N → Option N
  isNan : N → Bool
  isInf : N → Bool
  nan : N
  inf : N
  /-- exchange format of the driver (never a printed float): `i<dec>` / `f<16 hex>` [`~literal`] -/
  canon : N → String
  /-- two-argument math builtins by name (`pow`, `atan2`), `none` = not modelled -/
  math2 : String → N → N → Option N := fun _ _ _ => none
  /-- a computed number whose representation in succinctly (i64 or f64) depends on where the
  implementation re-reads values from their printed form: an integral double without a spelling of
  its own, `2^53 ≤ |x|`, inside the i64 range. The model gives no verdict on runs that compute one. -/
  unstable : N → Bool := fun _ => false

/-- The laws the C25 theorems assume about the carrier (trusted for the executable `JNum`). -/
class LawfulNum (N : Type) [NumOps N] : Prop where
  cmp_refl : ∀ a : N, NumOps.cmp a a = .eq
  cmp_swap : ∀ a b : N, NumOps.cmp b a = (NumOps.cmp a b).swap
  cmp_trans : ∀ a b c : N, NumOps.cmp a b ≠ .gt → NumOps.cmp b c ≠ .gt → NumOps.cmp a c ≠ .gt
  cmp_eq_iff : ∀ a b : N, NumOps.cmp a b = .eq ↔ a = b
  /-- `==` on numbers is "equal under the order" -/
  eq_iff_cmp : ∀ a b : N, NumOps.eq a b = true ↔ NumOps.cmp a b = .eq
  toInt_ofInt : ∀ i : Int, NumOps.toInt? (NumOps.ofInt i : N) = some i
  ofInt_inj : ∀ i j : Int, (NumOps.ofInt i : N) = NumOps.ofInt j → i = j
  /-- integers are not NaN and are their own floor (so they index arrays exactly) -/
  isNan_ofInt : ∀ i : Int, NumOps.isNan (NumOps.ofInt i : N) = false
  isInf_ofInt : ∀ i : Int, NumOps.isInf (NumOps.ofInt i : N) = false
  floor_ofInt : ∀ i : Int, NumOps.math "floor" (NumOps.ofInt i : N) = some (NumOps.ofInt i)

namespace JV
variable {N : Type}

def typeName : JV N → String
  | .null => "null" | .bool _ => "boolean" | .num _ => "number" | .str _ => "string"
  | .arr _ => "array" | .obj _ => "object"

/-- jq's type rank: null < false < true < numbers < strings < arrays < objects. -/
def rank : JV N → Nat
  | .null => 0 | .bool false => 1 | .bool true => 2 | .num _ => 3 | .str _ => 4
  | .arr _ => 5 | .obj _ => 6

def truthy : JV N → Bool
  | .null => false | .bool false => false | _ => true

/-! ### object fields (`IndexMap` semantics) -/

def lookup (fs : List (String × JV N)) (k : String) : Option (JV N) :=
  match fs with
  | [] => none
  | (k', v) :: rest => if k' == k then some v else lookup rest k

/-- `IndexMap::insert`: replace the value in place if the key exists, else append. -/
def insert (fs : List (String × JV N)) (k : String) (v : JV N) : List (String × JV N) :=
  match fs with
  | [] => [(k, v)]
  | (k', v') :: rest => if k' == k then (k', v) :: rest else (k', v') :: insert rest k v

def erase (fs : List (String × JV N)) (k : String) : List (String × JV N) :=
  fs.filter (fun p => p.1 != k)

/-- build an object from a field list with jq's duplicate rule (first position, last value) -/
def mkObj (fs : List (String × JV N)) : JV N :=
  .obj (fs.foldl (fun acc p => insert acc p.1 p.2) [])

def strLt (a b : String) : Bool := a < b
def strCmp (a b : String) : Ordering := compare a b

/-- insertion sort on strings (codepoint order = UTF-8 byte order) -/
def insertKey (k : String) : List String → List String
  | [] => [k]
  | x :: xs => if strLt x k then x :: insertKey k xs else k :: x :: xs

def sortKeys (ks : List String) : List String := ks.foldr insertKey []

def cmpKeys : List String → List String → Ordering
  | [], [] => .eq
  | [], _ => .lt
  | _, [] => .gt
  | a :: as, b :: bs => (strCmp a b).then (cmpKeys as bs)

end JV

/-! ### jq's total order -/
section order
variable {N : Type} [NumOps N]

def insertKO (p : String × Ordering) : List (String × Ordering) → List (String × Ordering)
  | [] => [p]
  | x :: xs => if JV.strLt x.1 p.1 then x :: insertKO p xs else p :: x :: xs

def firstNonEq : List (String × Ordering) → Ordering
  | [] => .eq
  | (_, .eq) :: rest => firstNonEq rest
  | (_, o) :: _ => o

mutual
/-- `compare_values`: ranks first; arrays lexicographic; objects by sorted key list, then by the
values taken in sorted key order. Structural in the first argument. -/
def JV.cmp : JV N → JV N → Ordering
  | .null, .null => .eq
  | .bool a, .bool b => compare a b
  | .num a, .num b => NumOps.cmp a b
  | .str a, .str b => JV.strCmp a b
  | .arr xs, .arr ys => cmpArr xs ys
  | .obj fs, .obj gs =>
    match JV.cmpKeys (JV.sortKeys (fs.map (·.1))) (JV.sortKeys (gs.map (·.1))) with
    | .eq => firstNonEq ((cmpFields fs gs).foldr insertKO [])
    | o => o
  | a, b => compare a.rank b.rank
def cmpArr : List (JV N) → List (JV N) → Ordering
  | [], [] => .eq
  | [], _ :: _ => .lt
  | _ :: _, [] => .gt
  | x :: xs, y :: ys => (JV.cmp x y).then (cmpArr xs ys)
def cmpFields : List (String × JV N) → List (String × JV N) → List (String × Ordering)
  | [], _ => []
  | (k, v) :: rest, gs => (k, JV.cmp v ((JV.lookup gs k).getD .null)) :: cmpFields rest gs
end

mutual
/-- `owned_value_eq`: jq's `==` (numbers by value, NaN ≠ NaN, objects as maps). -/
def JV.eqv : JV N → JV N → Bool
  | .null, .null => true
  | .bool a, .bool b => a == b
  | .num a, .num b => NumOps.eq a b
  | .str a, .str b => a == b
  | .arr xs, .arr ys => eqvArr xs ys
  | .obj fs, .obj gs => fs.length == gs.length && eqvFields fs gs
  | _, _ => false
def eqvArr : List (JV N) → List (JV N) → Bool
  | [], [] => true
  | x :: xs, y :: ys => JV.eqv x y && eqvArr xs ys
  | _, _ => false
def eqvFields : List (String × JV N) → List (String × JV N) → Bool
  | [], _ => true
  | (k, v) :: rest, gs =>
    (match JV.lookup gs k with
     | some w => JV.eqv v w
     | none => false) && eqvFields rest gs
end

/-- stable insertion sort by a comparison (`sort_by` is stable) -/
def insertBy (cmp : α → α → Ordering) (x : α) : List α → List α
  | [] => [x]
  | y :: ys => if cmp x y != .gt then x :: y :: ys else y :: insertBy cmp x ys

def sortBy (cmp : α → α → Ordering) (xs : List α) : List α := xs.foldr (insertBy cmp) []

def JV.sort (xs : List (JV N)) : List (JV N) := sortBy JV.cmp xs

/-- drop elements equal (under the order) to their predecessor -/
def dedupSorted : List (JV N) → List (JV N)
  | [] => []
  | [x] => [x]
  | x :: y :: rest => if JV.cmp x y == .eq then dedupSorted (y :: rest) else x :: dedupSorted (y :: rest)

/-- keep the *first* of each run of equal elements -/
def dedupFirst : List (JV N) → List (JV N)
  | [] => []
  | x :: rest =>
    match dedupFirst rest with
    | [] => [x]
    | y :: ys => if JV.cmp x y == .eq then x :: ys else x :: y :: ys

def JV.unique (xs : List (JV N)) : List (JV N) := dedupFirst (JV.sort xs)

end order

/-! ### paths -/
section paths
variable {N : Type} [NumOps N]

def JV.ofNat (n : Nat) : JV N := .num (NumOps.ofInt (Int.ofNat n))
def JV.ofInt (n : Int) : JV N := .num (NumOps.ofInt n)

/-- `keys` of an object (sorted, unique) -/
def JV.objKeys (fs : List (String × JV N)) : List String := JV.sortKeys (fs.map (·.1))

def listSet (xs : List α) (i : Nat) (v : α) (pad : α) : List α :=
  match xs, i with
  | [], 0 => [v]
  | [], i + 1 => pad :: listSet [] i v pad
  | _ :: rest, 0 => v :: rest
  | x :: rest, i + 1 => x :: listSet rest i v pad

/-- resolve a possibly negative index against a length -/
def resolveIdx (i : Int) (len : Nat) : Option Nat :=
  if i ≥ 0 then some i.toNat else if i + len ≥ 0 then some (i + len).toNat else none

/-- array index of a number key: floor (jq 1.7.1 `jv_array_get(t, (int)floor)`), `some none` for NaN
(reads as null), `none` when not representable (no verdict) -/
def idxOf (n : N) : Option (Option Int) :=
  if NumOps.isNan n then some none
  else if NumOps.isInf n then
    -- ±infinity: far outside every array (reads null); the sign is that of the number
    some (some (if NumOps.cmp n (NumOps.ofInt 0) == .lt then -4611686018427387904 else 4611686018427387904))
  else match NumOps.math "floor" n with
    | some f => (NumOps.toInt? f).map some
    | none => none

def clampSlice (i : Int) (len : Nat) : Nat :=
  let j := if i < 0 then i + len else i
  if j < 0 then 0 else if j > len then len else j.toNat

/-- resolve a slice key `{"start":s,"end":e}` against a length (jq's `parse_slice`: floor the start,
ceil the end, fold negatives, clamp, pull `end` up to `start`) -/
def sliceRange (k : List (String × JV N)) (len : Nat) : Except String (Nat × Nat) :=
  match JV.lookup k "start", JV.lookup k "end" with
  | some lo, some hi =>
    let bound (b : JV N) (dflt : Int) (up : Bool) : Except String Int :=
      match b with
      | .null => .ok dflt
      | .num n =>
        (match NumOps.math (if up then "ceil" else "floor") n with
         | some f => (match NumOps.toInt? f with | some i => .ok i | none => .error "UNMODELLED slice bound")
         | none => .error "UNMODELLED slice bound")
      | _ => .error "Array/string slice indices must be integers"
    match bound lo 0 false, bound hi len true with
    | .ok a, .ok b =>
      let s := clampSlice a len
      let e := clampSlice b len
      .ok (s, if e < s then s else e)
    | .error m, _ => .error m
    | _, .error m => .error m
  | _, _ => .error "Array/string slice indices must be integers"

/-- one step of `getpath` on a value; `Except` carries jq's message -/
def JV.getStep (v : JV N) (k : JV N) : Except String (JV N) :=
  match v, k with
  | .null, .str _ => .ok .null
  | .null, .num _ => .ok .null
  | .null, .null => .ok .null
  | .null, .obj _ => .ok .null
  | .obj fs, .str s => .ok ((JV.lookup fs s).getD .null)
  | .arr xs, .num n =>
    match idxOf n with
    | some (some i) =>
      match resolveIdx i xs.length with
      | some j => .ok (xs.getD j .null)
      | none => .ok .null
    | some none => .ok .null
    | none => .error "UNMODELLED non-integer index"
  | .arr xs, .obj k =>
    (match sliceRange k xs.length with
     | .ok (s, e) => .ok (.arr ((xs.drop s).take (e - s)))
     | .error m => .error m)
  | .str st, .obj k =>
    (match sliceRange k st.length with
     | .ok (s, e) => .ok (.str (String.ofList ((st.toList.drop s).take (e - s))))
     | .error m => .error m)
  | v, .str s => .error s!"Cannot index {v.typeName} with string \"{s}\""
  | v, k => .error s!"Cannot index {v.typeName} with {k.typeName}"

def JV.getpath (v : JV N) : List (JV N) → Except String (JV N)
  | [] => .ok v
  | k :: rest => do
    let w ← v.getStep k
    JV.getpath w rest

/-- `setpath` with a continuation on the old value (jq's `jv_setpath` / `_modify`), auto-vivifying
`null`, padding arrays with `null`. -/
def JV.updStep (v : JV N) (k : JV N) (f : JV N → Except String (JV N)) : Except String (JV N) :=
  let setIdx (xs : List (JV N)) (n : N) : Except String (JV N) :=
    match idxOf n with
    | some (some i) =>
      (match resolveIdx i xs.length with
       | some j =>
         if j > xs.length + 100000 then .error "UNMODELLED huge index"
         else do let w ← f (xs.getD j .null); .ok (.arr (listSet xs j w .null))
       | none => .error "Out of bounds negative array index")
    | some none => .error "Cannot set array element at NaN index"
    | none => .error "UNMODELLED non-integer index"
  let setSlice (xs : List (JV N)) (k : List (String × JV N)) : Except String (JV N) :=
    match sliceRange k xs.length with
    | .ok (s, e) => do
      let w ← f (.arr ((xs.drop s).take (e - s)))
      match w with
      | .arr ys => .ok (.arr (xs.take s ++ ys ++ xs.drop e))
      | _ => .error "A slice of an array can only be assigned another array"
    | .error m => .error m
  match v, k with
  | .null, .str s => do let w ← f .null; .ok (.obj [(s, w)])
  | .obj fs, .str s => do
    let w ← f ((JV.lookup fs s).getD .null)
    .ok (.obj (JV.insert fs s w))
  | .null, .num n => setIdx [] n
  | .arr xs, .num n => setIdx xs n
  | .arr xs, .obj k => setSlice xs k
  | .null, .obj k => setSlice [] k
  | .str _, .obj _ => .error "Cannot update string slices"
  | v, .str s => .error s!"Cannot index {v.typeName} with string \"{s}\""
  | v, k => .error s!"Cannot index {v.typeName} with {k.typeName}"

def JV.updpath (v : JV N) (p : List (JV N)) (f : JV N → Except String (JV N)) : Except String (JV N) :=
  match p with
  | [] => f v
  | k :: rest => v.updStep k (fun w => JV.updpath w rest f)

def JV.setpath (v : JV N) (p : List (JV N)) (x : JV N) : Except String (JV N) :=
  v.updpath p (fun _ => .ok x)

mutual
/-- all paths of a value in jq's `paths` order (pre-order, arrays by index, objects by sorted key —
`paths` is `path(..)|select(length > 0)` and `..` iterates `.[]` in storage order; the implementation
iterates objects in insertion order) -/
def JV.pathsFrom (pre : List (JV N)) : JV N → List (List (JV N))
  | .arr xs => pathsArr pre 0 xs
  | .obj fs => pathsObj pre fs
  | _ => []
def pathsArr (pre : List (JV N)) (i : Nat) : List (JV N) → List (List (JV N))
  | [] => []
  | x :: rest =>
    let p := pre ++ [JV.ofNat i]
    (p :: JV.pathsFrom p x) ++ pathsArr pre (i + 1) rest
def pathsObj (pre : List (JV N)) : List (String × JV N) → List (List (JV N))
  | [] => []
  | (k, x) :: rest =>
    let p := pre ++ [.str k]
    (p :: JV.pathsFrom p x) ++ pathsObj pre rest
end

def JV.paths (v : JV N) : List (List (JV N)) := JV.pathsFrom [] v

mutual
/-- `tostream` events: `[path, leaf]` for every scalar / empty container, and a closing `[path]`
after the last child of every non-empty container (the path of that last child). -/
def JV.streamFrom (pre : List (JV N)) : JV N → List (JV N)
  | .arr [] => [.arr [.arr pre, .arr []]]
  | .obj [] => [.arr [.arr pre, .obj []]]
  | .arr (x :: xs) => streamArr pre 0 (x :: xs)
  | .obj (f :: fs) => streamObj pre (f :: fs)
  | v => [.arr [.arr pre, v]]
def streamArr (pre : List (JV N)) (i : Nat) : List (JV N) → List (JV N)
  | [] => []
  | [x] => JV.streamFrom (pre ++ [JV.ofNat i]) x ++ [.arr [.arr (pre ++ [JV.ofNat i])]]
  | x :: y :: rest => JV.streamFrom (pre ++ [JV.ofNat i]) x ++ streamArr pre (i + 1) (y :: rest)
def streamObj (pre : List (JV N)) : List (String × JV N) → List (JV N)
  | [] => []
  | [(k, x)] => JV.streamFrom (pre ++ [.str k]) x ++ [.arr [.arr (pre ++ [.str k])]]
  | (k, x) :: y :: rest => JV.streamFrom (pre ++ [.str k]) x ++ streamObj pre (y :: rest)
end

def JV.tostream (v : JV N) : List (JV N) := JV.streamFrom [] v

/-- `fromstream` state machine of jq's definition:
`{x: null, e: false} as $init | foreach events as $i ($init; if .e then $init end | if $i|length == 2
then setpath(["e"]; $i[0]|length==0) | setpath(["x"]+$i[0]; $i[1]) else setpath(["e"]; $i[0]|length==1) end;
if .e then .x else empty end)` -/
def fromstreamStep (st : JV N × Bool) (ev : JV N) : Except String ((JV N × Bool) × Option (JV N)) :=
  let (x0, e0) := st
  let x := if e0 then JV.null else x0
  match ev with
  | .arr [.arr p, leaf] => do
    let x' ← x.setpath p leaf
    let e := p.isEmpty
    .ok ((x', e), if e then some x' else none)
  | .arr [.arr p] =>
    let e := p.length == 1
    .ok ((x, e), if e then some x else none)
  | _ => .error "UNMODELLED fromstream event"

def JV.fromstream (evs : List (JV N)) : Except String (List (JV N)) :=
  let rec go (st : JV N × Bool) (evs : List (JV N)) (acc : List (JV N)) : Except String (List (JV N)) :=
    match evs with
    | [] => .ok acc.reverse
    | ev :: rest => do
      let (st', out) ← fromstreamStep st ev
      go st' rest (match out with | some v => v :: acc | none => acc)
  go (.null, false) evs []

/-- `to_entries` of an object (insertion order) -/
def JV.toEntries (fs : List (String × JV N)) : List (JV N) :=
  fs.map fun (k, v) => .obj [("key", .str k), ("value", v)]

/-- `delpaths`: every key naming a child of one container is resolved against the container as it
was on entry and removed in a single pass (overlapping ranges union, a repeated index deletes once);
a step that reaches `null` or an out-of-range index is a no-op. -/
def JV.delPaths (fuel : Nat) (v : JV N) (paths : List (List (JV N))) : Except String (JV N) :=
  match fuel with
  | 0 => .error "UNMODELLED delpaths depth"
  | fuel + 1 =>
    if paths.isEmpty then .ok v
    else if paths.any (·.isEmpty) then .ok .null
    else
      let tailsOf (pred : JV N → Bool) : List (List (JV N)) :=
        paths.filterMap fun p => match p with
          | k :: rest => if pred k then some rest else none
          | [] => none
      match v with
      | .null => .ok .null
      | .obj fs =>
        (match paths.find? (fun p => match p.head? with | some (.str _) => false | _ => true) with
         | some bad => .error s!"Cannot delete {(bad.headD .null).typeName} field of object"
         | none =>
           let step (acc : Except String (List (String × JV N))) (f : String × JV N) :=
             match acc with
             | .error m => .error m
             | .ok out =>
               let tails := tailsOf (fun k => match k with | .str s => s == f.1 | _ => false)
               if tails.any (·.isEmpty) then .ok out
               else if tails.isEmpty then .ok (f :: out)
               else match JV.delPaths fuel f.2 tails with
                 | .ok x => .ok ((f.1, x) :: out)
                 | .error m => .error m
           (fs.foldl step (.ok [])).map fun out => .obj out.reverse)
      | .arr xs =>
        let len := xs.length
        -- classify keys
        let bad := paths.find? (fun p => match p.head? with | some (.num _) | some (.obj _) => false | _ => true)
        match bad with
        | some b => .error s!"Cannot delete {(b.headD .null).typeName} element of array"
        | none =>
          -- resolved index of a number key (none = no such element)
          let idxKey (k : JV N) : Except String (Option Nat) :=
            match k with
            | .num n =>
              (match idxOf n with
               | some (some i) =>
                 (match resolveIdx i len with
                  | some j => .ok (if j < len then some j else none)
                  | none => .ok none)
               | some none => .ok none
               | none => .error "UNMODELLED non-integer index")
            | _ => .ok none
          -- slices with a non-empty tail together with other keys: not modelled
          let sliceDeep := paths.filter fun p => match p with | .obj _ :: _ :: _ => true | _ => false
          if !sliceDeep.isEmpty then
            (match paths with
             | [.obj k :: rest] =>
               (match sliceRange k len with
                | .ok (s, e) =>
                  (match JV.delPaths fuel (.arr ((xs.drop s).take (e - s))) [rest] with
                   | .ok (.arr ys) => .ok (.arr (xs.take s ++ ys ++ xs.drop e))
                   | .ok _ => .error "UNMODELLED slice delete"
                   | .error m => .error m)
                | .error m => .error m)
             | _ => .error "UNMODELLED slice delete with siblings")
          else
            -- ranges deleted outright
            let ranges : Except String (List (Nat × Nat)) :=
              paths.foldl (fun acc p =>
                match acc, p with
                | .error m, _ => .error m
                | .ok rs, [.obj k] => (match sliceRange k len with | .ok r => .ok (r :: rs) | .error m => .error m)
                | .ok rs, _ => .ok rs) (.ok [])
            match ranges with
            | .error m => .error m
            | .ok rs =>
              let step (acc : Except String (List (JV N) × Nat)) (x : JV N) : Except String (List (JV N) × Nat) :=
                match acc with
                | .error m => .error m
                | .ok (out, i) =>
                  if rs.any (fun r => r.1 ≤ i && i < r.2) then .ok (out, i + 1)
                  else
                    -- tails of number keys resolving to i
                    let tailsE : Except String (List (List (JV N))) :=
                      paths.foldl (fun acc p =>
                        match acc, p with
                        | .error m, _ => .error m
                        | .ok ts, k :: rest =>
                          (match idxKey k with
                           | .ok (some j) => if j == i then .ok (rest :: ts) else .ok ts
                           | .ok none => .ok ts
                           | .error m => .error m)
                        | .ok ts, [] => .ok ts) (.ok [])
                    match tailsE with
                    | .error m => .error m
                    | .ok tails =>
                      if tails.any (·.isEmpty) then .ok (out, i + 1)
                      else if tails.isEmpty then .ok (x :: out, i + 1)
                      else match JV.delPaths fuel x tails with
                        | .ok y => .ok (y :: out, i + 1)
                        | .error m => .error m
              (xs.foldl step (.ok ([], 0))).map fun r => .arr r.1.reverse
      | v => .error s!"Cannot delete fields from {v.typeName}"

/-- single-path delete (kept for the path laws) -/
def JV.delpath (v : JV N) (p : List (JV N)) : Except String (JV N) := JV.delPaths 200 v [p]

end paths

end SV.Jq
