/-
Spec/JsonSimple — what "a valid JSON document" and "its structural bytes / containers / values" mean
for C32, defined structurally (generator style): a document is the rendering of a value tree
`JVal`, with arbitrary whitespace in every gap RFC 8259 allows, through a token list.

* `JVal` — RFC 8259 values; numbers follow the number grammar (`NumLit`), string bodies are lists
  of `SChar` (unescaped bytes ≥ 0x20 other than `"` and `\` — a superset of well-formed UTF-8 —,
  two-character escapes, `\uXXXX`), whitespace (`Ws`) is carried explicitly at every gap.
* `JVal.toks` — the token sequence; `Tok.bytes` — the bytes of one token; `render` — the text.
* `Tok.structural` — the token is one of `{ } [ ] , :` (by construction *outside* strings: a string is
  one token whose bytes are never structural, whatever they are).
-/
namespace SV.JsonText

abbrev Byte := BitVec 8

/-! ### lexical pieces -/

inductive WsChar where
  | sp | tab | lf | cr
  deriving DecidableEq, Repr

def WsChar.byte : WsChar → Byte
  | .sp => 0x20#8 | .tab => 0x09#8 | .lf => 0x0A#8 | .cr => 0x0D#8

abbrev Ws := List WsChar

/-- Decimal digit. -/
abbrev Digit := Fin 10
def Digit.byte (d : Digit) : Byte := BitVec.ofNat 8 (0x30 + d.val)

/-- Hex digit of a `\uXXXX` escape: value and letter case. -/
structure HexDigit where
  val : Fin 16
  upper : Bool
  deriving DecidableEq, Repr

def HexDigit.byte (h : HexDigit) : Byte :=
  if h.val.val < 10 then BitVec.ofNat 8 (0x30 + h.val.val)
  else if h.upper then BitVec.ofNat 8 (0x41 + h.val.val - 10) else BitVec.ofNat 8 (0x61 + h.val.val - 10)

/-- The two-character escapes `\" \\ \/ \b \f \n \r \t`. -/
inductive Esc where
  | quote | backslash | slash | b | f | n | r | t
  deriving DecidableEq, Repr

def Esc.byte : Esc → Byte
  | .quote => 0x22#8 | .backslash => 0x5C#8 | .slash => 0x2F#8 | .b => 0x62#8
  | .f => 0x66#8 | .n => 0x6E#8 | .r => 0x72#8 | .t => 0x74#8

/-- An unescaped string byte: anything ≥ 0x20 except `"` and `\`. -/
def PlainByte := { b : Byte // b ≠ 0x22#8 ∧ b ≠ 0x5C#8 ∧ 0x20 ≤ b.toNat }

/-- One element of a string body. -/
inductive SChar where
  | plain (b : PlainByte)
  | esc (e : Esc)
  | uni (h1 h2 h3 h4 : HexDigit)

def SChar.bytes : SChar → List Byte
  | .plain b => [b.val]
  | .esc e => [0x5C#8, e.byte]
  | .uni h1 h2 h3 h4 => [0x5C#8, 0x75#8, h1.byte, h2.byte, h3.byte, h4.byte]

/-- RFC 8259 `number = [ minus ] int [ frac ] [ exp ]`. -/
inductive IntPart where
  | zero
  | nonzero (first : Fin 9) (rest : List Digit)      -- first digit is `first + 1`

def IntPart.bytes : IntPart → List Byte
  | .zero => [0x30#8]
  | .nonzero d rest => BitVec.ofNat 8 (0x31 + d.val) :: rest.map Digit.byte

structure Exp where
  upper : Bool                       -- `E` or `e`
  sign : Option Bool                 -- `some true` = `+`, `some false` = `-`
  first : Digit
  rest : List Digit

def Exp.bytes (e : Exp) : List Byte :=
  (if e.upper then 0x45#8 else 0x65#8) ::
    ((match e.sign with | none => [] | some true => [0x2B#8] | some false => [0x2D#8]) ++
      e.first.byte :: e.rest.map Digit.byte)

structure NumLit where
  neg : Bool
  int : IntPart
  frac : Option (Digit × List Digit)
  exp : Option Exp

def NumLit.bytes (n : NumLit) : List Byte :=
  (if n.neg then [0x2D#8] else []) ++ n.int.bytes ++
    (match n.frac with | none => [] | some (d, ds) => 0x2E#8 :: d.byte :: ds.map Digit.byte) ++
    (match n.exp with | none => [] | some e => e.bytes)

inductive Lit where
  | tru | fls | null
  deriving DecidableEq, Repr

def Lit.bytes : Lit → List Byte
  | .tru => [0x74#8, 0x72#8, 0x75#8, 0x65#8]
  | .fls => [0x66#8, 0x61#8, 0x6C#8, 0x73#8, 0x65#8]
  | .null => [0x6E#8, 0x75#8, 0x6C#8, 0x6C#8]

/-! ### tokens -/

inductive Tok where
  | lbrace | rbrace | lbracket | rbracket | comma | colon
  | ws (w : WsChar)
  | str (body : List SChar)
  | num (n : NumLit)
  | lit (l : Lit)

def Tok.bytes : Tok → List Byte
  | .lbrace => [0x7B#8] | .rbrace => [0x7D#8] | .lbracket => [0x5B#8] | .rbracket => [0x5D#8]
  | .comma => [0x2C#8] | .colon => [0x3A#8]
  | .ws w => [w.byte]
  | .str body => 0x22#8 :: (body.flatMap SChar.bytes ++ [0x22#8])
  | .num n => n.bytes
  | .lit l => l.bytes

/-- The token is one of the six structural characters. -/
def Tok.structural : Tok → Bool
  | .lbrace | .rbrace | .lbracket | .rbracket | .comma | .colon => true
  | _ => false

def wsToks (w : Ws) : List Tok := w.map Tok.ws

/-- The bytes of a token sequence. -/
def toksBytes (ts : List Tok) : List Byte := ts.flatMap Tok.bytes

/-- Per byte of the text: is this byte a structural character outside strings? -/
def toksTags (ts : List Tok) : List Bool :=
  ts.flatMap fun t => if t.structural then [true] else List.replicate t.bytes.length false

/-! ### values -/

mutual
  inductive JVal where
    | lit (l : Lit)
    | num (n : NumLit)
    | str (body : List SChar)
    /-- `[ ws ]` -/
    | arr0 (ws : Ws)
    /-- `[ ws v ws (, ws v ws)* ]` -/
    | arr (ws0 : Ws) (v : JVal) (ws1 : Ws) (rest : JItems)
    /-- `{ ws }` -/
    | obj0 (ws : Ws)
    /-- `{ ws "k" ws : ws v ws (, ws "k" ws : ws v ws)* }` -/
    | obj (ws0 : Ws) (key : List SChar) (ws1 ws2 : Ws) (v : JVal) (ws3 : Ws) (rest : JMembers)
  inductive JItems where
    | nil
    | cons (ws0 : Ws) (v : JVal) (ws1 : Ws) (rest : JItems)
  inductive JMembers where
    | nil
    | cons (ws0 : Ws) (key : List SChar) (ws1 ws2 : Ws) (v : JVal) (ws3 : Ws) (rest : JMembers)
end

mutual
  def JVal.toks : JVal → List Tok
    | .lit l => [.lit l]
    | .num n => [.num n]
    | .str b => [.str b]
    | .arr0 ws => .lbracket :: (wsToks ws ++ [.rbracket])
    | .arr ws0 v ws1 rest =>
      .lbracket :: (wsToks ws0 ++ v.toks ++ wsToks ws1 ++ rest.toks ++ [.rbracket])
    | .obj0 ws => .lbrace :: (wsToks ws ++ [.rbrace])
    | .obj ws0 k ws1 ws2 v ws3 rest =>
      .lbrace :: (wsToks ws0 ++ [.str k] ++ wsToks ws1 ++ [.colon] ++ wsToks ws2 ++ v.toks ++ wsToks ws3
        ++ rest.toks ++ [.rbrace])
  def JItems.toks : JItems → List Tok
    | .nil => []
    | .cons ws0 v ws1 rest => .comma :: (wsToks ws0 ++ v.toks ++ wsToks ws1 ++ rest.toks)
  def JMembers.toks : JMembers → List Tok
    | .nil => []
    | .cons ws0 k ws1 ws2 v ws3 rest =>
      .comma :: (wsToks ws0 ++ [.str k] ++ wsToks ws1 ++ [.colon] ++ wsToks ws2 ++ v.toks ++ wsToks ws3
        ++ rest.toks)
end

/-- A JSON text (RFC 8259 §2): `ws value ws`. -/
structure Doc where
  ws0 : Ws
  value : JVal
  ws1 : Ws

def Doc.toks (d : Doc) : List Tok := wsToks d.ws0 ++ d.value.toks ++ wsToks d.ws1

/-- The bytes of the document. -/
def Doc.text (d : Doc) : List Byte := toksBytes d.toks

/-- Is the value a container (`[…]` or `{…}`)? -/
def JVal.isContainer : JVal → Bool
  | .arr0 _ | .arr .. | .obj0 _ | .obj .. => true
  | _ => false

/-! ### sub-values of a document, with the token context they occur in -/

/-- An occurrence: tokens before, the sub-value, tokens after. -/
abbrev Occ := List Tok × JVal × List Tok

/-- Put an occurrence found inside a part of a value into the context of that part. -/
def Occ.wrap (pre post : List Tok) (o : Occ) : Occ := (pre ++ o.1, o.2.1, o.2.2 ++ post)

mutual
  /-- Every sub-value of `v` (including `v` itself) with its context inside `v.toks`. -/
  def JVal.occs : JVal → List Occ
    | .lit l => [([], .lit l, [])]
    | .num n => [([], .num n, [])]
    | .str b => [([], .str b, [])]
    | .arr0 ws => [([], .arr0 ws, [])]
    | .obj0 ws => [([], .obj0 ws, [])]
    | .arr ws0 v ws1 rest =>
      ([], .arr ws0 v ws1 rest, []) ::
        (v.occs.map (Occ.wrap (.lbracket :: wsToks ws0) (wsToks ws1 ++ rest.toks ++ [.rbracket])) ++
         rest.occs.map (Occ.wrap (.lbracket :: (wsToks ws0 ++ v.toks ++ wsToks ws1)) [.rbracket]))
    | .obj ws0 k ws1 ws2 v ws3 rest =>
      ([], .obj ws0 k ws1 ws2 v ws3 rest, []) ::
        (v.occs.map (Occ.wrap (.lbrace :: (wsToks ws0 ++ [.str k] ++ wsToks ws1 ++ [.colon] ++ wsToks ws2))
            (wsToks ws3 ++ rest.toks ++ [.rbrace])) ++
         rest.occs.map (Occ.wrap
            (.lbrace :: (wsToks ws0 ++ [.str k] ++ wsToks ws1 ++ [.colon] ++ wsToks ws2 ++ v.toks ++ wsToks ws3))
            [.rbrace]))
  def JItems.occs : JItems → List Occ
    | .nil => []
    | .cons ws0 v ws1 rest =>
      v.occs.map (Occ.wrap (.comma :: wsToks ws0) (wsToks ws1 ++ rest.toks)) ++
      rest.occs.map (Occ.wrap (.comma :: (wsToks ws0 ++ v.toks ++ wsToks ws1)) [])
  def JMembers.occs : JMembers → List Occ
    | .nil => []
    | .cons ws0 k ws1 ws2 v ws3 rest =>
      v.occs.map (Occ.wrap (.comma :: (wsToks ws0 ++ [.str k] ++ wsToks ws1 ++ [.colon] ++ wsToks ws2))
          (wsToks ws3 ++ rest.toks)) ++
      rest.occs.map (Occ.wrap
          (.comma :: (wsToks ws0 ++ [.str k] ++ wsToks ws1 ++ [.colon] ++ wsToks ws2 ++ v.toks ++ wsToks ws3)) [])
end

/-- Every value of the document (the root and all nested values; object keys are not values) with
its token context inside `d.toks`. -/
def Doc.occs (d : Doc) : List Occ := d.value.occs.map (Occ.wrap (wsToks d.ws0) (wsToks d.ws1))

/-- Positions (indices into a Boolean list) of the `true` entries, in increasing order. -/
def truePositions : List Bool → List Nat
  | [] => []
  | b :: bs => (if b then [0] else []) ++ (truePositions bs).map (· + 1)

end SV.JsonText
