/-
Spec/Dsv — naive definitions for the DSV properties (C20–C22).

A text is a `List (BitVec 8)`.  A configuration is three bytes: delimiter `d`, quote `q`, record
separator `n`.  The quote state is toggled by every quote byte; a byte is tested *after* the toggle
(so an opening quote reads as inside, a closing quote as outside) — the order used by the scalar
`build_index` (src/dsv/parser.rs) and documented in src/util/simd/quote_mask.rs.
-/
namespace SV.Dsv

abbrev Byte := BitVec 8

/-- Quote state after byte `b`, given the state `inq` before it. -/
def quoteAfter (q : Byte) (inq : Bool) (b : Byte) : Bool :=
  if b == q then !inq else inq

/-- Quote state after a whole byte string. -/
def finalQuote (q : Byte) (inq : Bool) (bs : List Byte) : Bool :=
  bs.foldl (quoteAfter q) inq

/-- One bit per byte: the byte satisfies `p` and lies outside quotes (bit-serial, left to right,
starting in quote state `inq`). -/
def selBitsFrom (p : Byte → Bool) (q : Byte) : Bool → List Byte → List Bool
  | _, [] => []
  | inq, b :: bs =>
    let s := quoteAfter q inq b
    (!s && p b) :: selBitsFrom p q s bs

/-- Marker bits: delimiter or record-separator bytes outside quotes. -/
def markerBits (d q n : Byte) (text : List Byte) : List Bool :=
  selBitsFrom (fun b => b == d || b == n) q false text

/-- Newline bits: record-separator bytes outside quotes. -/
def newlineBits (_d q n : Byte) (text : List Byte) : List Bool :=
  selBitsFrom (fun b => b == n) q false text

/-- The word whose bit `i` is the `i`-th element of the list (LSB first; at most 64 bits matter). -/
def wordOfBits : List Bool → BitVec 64
  | [] => 0#64
  | b :: bs => (wordOfBits bs <<< 1) ||| (if b then 1#64 else 0#64)

/-- A bit sequence packed into 64-bit words, LSB first, last word zero-padded. -/
def packWords (bs : List Bool) : List (BitVec 64) :=
  if _h : bs = [] then [] else wordOfBits (bs.take 64) :: packWords (bs.drop 64)
termination_by bs.length
decreasing_by
  cases bs with
  | nil => exact absurd rfl _h
  | cons b bs => simp only [List.length_drop, List.length_cons]; omega

/-- The index every engine must produce: (marker words, newline words). -/
def indexSpec (d q n : Byte) (text : List Byte) : List (BitVec 64) × List (BitVec 64) :=
  (packWords (markerBits d q n text), packWords (newlineBits d q n text))

/-- Bit-serial quote toggle over one 64-bit quote bitmap (the oracle `toggle64_bit_serial` of the
repository's tests): quote state after bits `0..i` (inclusive) of the bitmap, starting from `st`. -/
def serialState (qm : BitVec 64) (st : Bool) : Nat → Bool
  | 0 => if qm.getLsbD 0 then !st else st
  | i + 1 => if qm.getLsbD (i + 1) then !(serialState qm st i) else serialState qm st i

end SV.Dsv

/-! ### rows and fields (C21) -/
namespace SV.Dsv

/-- Quote-aware splitting: the segments of `bs` between bytes equal to `sep` that lie outside
quotes (toggle, then test), keeping empty segments; always at least one segment. -/
def segs (sep q : Byte) : Bool → List Byte → List (List Byte)
  | _, [] => [[]]
  | inq, b :: bs =>
    let s := quoteAfter q inq b
    if !s && b == sep then [] :: segs sep q s bs
    else
      match segs sep q s bs with
      | seg :: rest => (b :: seg) :: rest
      | [] => [[b]]

/-- Rows: the text split at record separators outside quotes; a final separator (or an empty
text) does not start an extra row. -/
def rowSegs (q n : Byte) (text : List Byte) : List (List Byte) :=
  let ss := segs n q false text
  if ss.getLast? == some [] then ss.dropLast else ss

/-- Fields of one row: split at delimiters outside quotes (a row starts outside quotes), keeping
every empty field. -/
def fieldsOf (d q : Byte) (row : List Byte) : List (List Byte) := segs d q false row

/-- The table a DSV text denotes. -/
def rowsSpec (d q n : Byte) (text : List Byte) : List (List (List Byte)) :=
  (rowSegs q n text).map (fieldsOf d q)

/-- Random access: field `c` of row `r`, if both exist. -/
def cellSpec (d q n : Byte) (text : List Byte) (r c : Nat) : Option (List Byte) :=
  ((rowsSpec d q n text)[r]?).bind (·[c]?)

/-- Balanced quotes: the text ends outside quotes. -/
def balanced (q : Byte) (text : List Byte) : Bool := !(finalQuote q false text)

end SV.Dsv
