/-
Spec/YamlPos — naive line/column of a byte offset (C18), with LF, CR and CRLF each counting as ONE
line break (the convention `src/text/line_break.rs` documents and the validator's `Position` uses:
line and column 1-based, column counted in bytes).  Import-free.
-/
namespace SV.YamlVPos

/-- Scanner state: line, column, and whether the previous byte was a CR. -/
abbrev St := Nat × Nat × Bool

/-- One byte: CR starts a new line; LF starts a new line unless it directly follows a CR (then it
belongs to that CRLF break); any other byte advances the column. -/
def stepB (s : St) (x : UInt8) : St :=
  if x = 10 then (if s.2.2 then (s.1, s.2.1, false) else (s.1 + 1, 1, false))
  else if x = 13 then (s.1 + 1, 1, true)
  else (s.1, s.2.1 + 1, false)

def scan (bs : List UInt8) : St := bs.foldl stepB (1, 1, false)

/-- Naive line and column (1-based) of byte offset `off` in `bs`: scan the first `off` bytes. -/
def lineCol (bs : List UInt8) (off : Nat) : Nat × Nat :=
  let s := scan (bs.take off)
  (s.1, s.2.1)

end SV.YamlVPos
