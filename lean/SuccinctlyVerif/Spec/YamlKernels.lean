/-
Spec/YamlKernels — what the YAML scanning kernels of `src/yaml/simd` compute, stated byte by byte.

These are the *scalar* definitions of `src/yaml/simd/mod.rs` (`find_*_scalar`,
`count_leading_spaces_scalar`) and `src/yaml/simd/scalar.rs` (`parse_anchor_name_scalar`,
`find_block_scalar_end_scalar`): the reference every vectorised kernel has to agree with (C16).
A buffer is a `List (BitVec 8)`; a forward scan `while pos < len { … input[pos] … pos += 1 }` is a
structural recursion over the suffix `input[pos..]` carrying `pos`.
-/
namespace SV.YamlK

abbrev Byte := BitVec 8

/-- `b == b'"' || b == b'\\'` -/
def isQuoteOrEsc (b : Byte) : Bool := b == 0x22#8 || b == 0x5c#8
/-- `b == b'\''` -/
def isSingleQuote (b : Byte) : Bool := b == 0x27#8
/-- `b == b' '` -/
def isSpace (b : Byte) : Bool := b == 0x20#8
/-- `b == b'\n'` -/
def isLF (b : Byte) : Bool := b == 0x0a#8
/-- `matches!(b, b'\n' | b'\r')` -/
def isBreak (b : Byte) : Bool := b == 0x0a#8 || b == 0x0d#8
/-- `b' ' | b'\t' | b'\n' | b'\r'` -/
def isWs (b : Byte) : Bool := b == 0x20#8 || b == 0x09#8 || b == 0x0a#8 || b == 0x0d#8
/-- the unconditional anchor-name terminators: whitespace and `[ ] { } ,` -/
def isAnchorStop (b : Byte) : Bool :=
  b == 0x20#8 || b == 0x09#8 || b == 0x0a#8 || b == 0x0d#8 ||
  b == 0x5b#8 || b == 0x5d#8 || b == 0x7b#8 || b == 0x7d#8 || b == 0x2c#8
/-- `b == b':'` -/
def isColon (b : Byte) : Bool := b == 0x3a#8

/-- First index `i` (relative to `start`) with `p input[start+i]`, `start+i < min(end,len)`;
`None` for an empty range.  (`find_quote_or_escape_scalar`, `find_single_quote_scalar` behind the
guard of the public wrappers: `start >= end || start >= len → None`, `end = end.min(len)`.) -/
def findIn (p : Byte → Bool) (buf : List Byte) (start end_ : Nat) : Option Nat :=
  if start ≥ end_ ∨ start ≥ buf.length then none
  else ((buf.take (min end_ buf.length)).drop start).findIdx? p

/-- `find_newline`: first `\n` at or after `start`, relative to `start`. -/
def findFrom (p : Byte → Bool) (buf : List Byte) (start : Nat) : Option Nat :=
  if start ≥ buf.length then none else (buf.drop start).findIdx? p

/-- `count_leading_spaces`: `input[start..].iter().take_while(|b| b == ' ').count()`. -/
def countLeadingSpaces (buf : List Byte) (start : Nat) : Nat :=
  if start ≥ buf.length then 0 else ((buf.drop start).takeWhile isSpace).length

/-- `parse_anchor_name_scalar` over the suffix `input[pos..]`. -/
def anchorScan : List Byte → Nat → Nat
  | [], pos => pos
  | b :: rest, pos =>
    if isAnchorStop b then pos
    else if isColon b then
      match rest with
      | n :: _ => if isWs n then pos else anchorScan rest (pos + 1)
      | [] => anchorScan rest (pos + 1)
    else anchorScan rest (pos + 1)

/-- `parse_anchor_name_scalar(input, start)` (returns `start` itself when `start ≥ len`). -/
def parseAnchorNameScalar (buf : List Byte) (start : Nat) : Nat :=
  anchorScan (buf.drop start) start

/-- The test `find_block_scalar_end_*` performs after a line break: `after = input[line_start..]`.
`some r` = "return `r`", `none` = "keep scanning". -/
def lineCheck (minIndent len lineStart : Nat) (after : List Byte) : Option Nat :=
  match after with
  | [] => some len                                    -- line_start >= input.len()
  | _ =>
    let indent := (after.takeWhile isSpace).length    -- count leading spaces
    match after.drop indent with
    | [] => none                                      -- line_start + indent == len
    | c :: _ => if !isBreak c && indent < minIndent then some lineStart else none

/-- `find_block_scalar_end_scalar` over the suffix `input[pos..]`. -/
def blockEndScan (minIndent len : Nat) : List Byte → Nat → Nat
  | [], _ => len
  | b :: rest, pos =>
    if isBreak b then
      match lineCheck minIndent len (pos + 1) rest with
      | some r => r
      | none => blockEndScan minIndent len rest (pos + 1)
    else blockEndScan minIndent len rest (pos + 1)

/-- `find_block_scalar_end_scalar(input, start, min_indent)`. -/
def findBlockScalarEndScalar (buf : List Byte) (start minIndent : Nat) : Nat :=
  blockEndScan minIndent buf.length (buf.drop start) start

/-- Bit `i` of a classification mask ⇔ `input[offset+i] == c`, for the `width` classified bytes. -/
def classMask (c : Byte) (buf : List Byte) (offset width : Nat) : List Bool :=
  ((buf.drop offset).take width).map (· == c)

/-- The integer whose bit `i` is `bs[i]`. -/
def boolMask : List Bool → Nat
  | [] => 0
  | b :: bs => (if b then 1 else 0) + 2 * boolMask bs

/-- `YamlCharClass`: one bitmask per structural byte, plus the number of bytes classified. -/
structure CharClass where
  newlines : Nat
  carriageReturns : Nat
  colons : Nat
  hyphens : Nat
  spaces : Nat
  quotesDouble : Nat
  quotesSingle : Nat
  backslashes : Nat
  hash : Nat
  width : Nat
  deriving DecidableEq, Repr

/-- The classification of the `width` bytes at `offset`: bit `i` of each mask ⇔ byte `offset+i`
is that character; `carriage_returns` is `0` when `HAS_CR` is false. -/
def classSpec (hasCr : Bool) (buf : List Byte) (offset width : Nat) : CharClass :=
  { newlines := boolMask (classMask 0x0a#8 buf offset width)
    carriageReturns := if hasCr then boolMask (classMask 0x0d#8 buf offset width) else 0
    colons := boolMask (classMask 0x3a#8 buf offset width)
    hyphens := boolMask (classMask 0x2d#8 buf offset width)
    spaces := boolMask (classMask 0x20#8 buf offset width)
    quotesDouble := boolMask (classMask 0x22#8 buf offset width)
    quotesSingle := boolMask (classMask 0x27#8 buf offset width)
    backslashes := boolMask (classMask 0x5c#8 buf offset width)
    hash := boolMask (classMask 0x23#8 buf offset width)
    width := width }

/-! ### `SUCCINCTLY_SIMD` clamp -/

/-- Rust `char::is_whitespace` (Unicode `White_Space`), the set `str::trim` removes. -/
def rustWhitespace (c : Char) : Bool :=
  let n := c.toNat
  (0x09 ≤ n && n ≤ 0x0d) || n == 0x20 || n == 0x85 || n == 0xa0 || n == 0x1680 ||
  (0x2000 ≤ n && n ≤ 0x200a) || n == 0x2028 || n == 0x2029 || n == 0x202f || n == 0x205f || n == 0x3000

/-- `str::to_ascii_lowercase` on one char. -/
def asciiLower (c : Char) : Char :=
  if 'A' ≤ c ∧ c ≤ 'Z' then Char.ofNat (c.toNat + 32) else c

/-- `value.trim().to_ascii_lowercase()` as a list of chars. -/
def normalise (s : List Char) : List Char :=
  (((s.dropWhile rustWhitespace).reverse.dropWhile rustWhitespace).reverse).map asciiLower

/-- The documented spellings that clamp dispatch below AVX2. -/
def clampSpellings : List (List Char) :=
  [['s','c','a','l','a','r'], ['s','s','e','2'], ['s','s','e','4','2'], ['s','s','e','4','.','2']]

/-- The documented no-op spellings. -/
def noClampSpellings : List (List Char) := [['a','v','x','2'], []]

end SV.YamlK
