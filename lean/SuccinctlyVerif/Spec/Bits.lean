/-
Spec/Bits — the naive definitions every bit-level property appeals to.

A bit sequence is a `List Bool`.  A word vector plus a length denotes the first
`len` bits of the concatenation of the words' bits, least-significant bit first.
Everything here is "computed directly from the bits": no directories, no tables.
-/
namespace SV

/-- The 64 bits of a word, LSB first. -/
def wordBits (w : BitVec 64) : List Bool :=
  (List.range 64).map fun i => w.getLsbD i

/-- All bits of a word vector, LSB first, word 0 first. -/
def allBits (ws : List (BitVec 64)) : List Bool :=
  ws.flatMap wordBits

/-- The bit sequence denoted by `(words, len)`: the first `len` bits. -/
def bitsOf (ws : List (BitVec 64)) (len : Nat) : List Bool :=
  (allBits ws).take len

/-- Number of bits equal to `b` among the first `i` bits. -/
def rankB (b : Bool) (bs : List Bool) (i : Nat) : Nat :=
  (bs.take i).count b

/-- Position of the `k`-th (0-indexed) bit equal to `b`, scanning left to right. -/
def selectB (b : Bool) : List Bool → Nat → Option Nat
  | [], _ => none
  | x :: xs, k =>
    if x = b then
      match k with
      | 0 => some 0
      | k + 1 => (selectB b xs k).map (· + 1)
    else (selectB b xs k).map (· + 1)

/-- Total number of bits equal to `b`. -/
def countB (b : Bool) (bs : List Bool) : Nat := bs.count b

/-- Word population count, from the bits. -/
def popcount (w : BitVec 64) : Nat := (wordBits w).count true

/-- Position of the `k`-th set bit of a word, 64 if there is none. -/
def selectInWordSpec (w : BitVec 64) (k : Nat) : Nat :=
  (selectB true (wordBits w) k).getD 64

/-- Bits of a byte, LSB first. -/
def byteBits (b : BitVec 8) : List Bool :=
  (List.range 8).map fun i => b.getLsbD i

/-- Position of the `k`-th set bit of a byte, 8 if there is none. -/
def selectInByteSpec (b : BitVec 8) (k : Nat) : Nat :=
  (selectB true (byteBits b) k).getD 8

end SV
