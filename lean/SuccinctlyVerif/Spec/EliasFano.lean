/-
Spec/EliasFano — what property C03 appeals to: "the plain sequence".

A sequence is a `List Nat`; element `i` is `vs[i]?`; a cursor on the plain sequence is just an
index `idx ≤ vs.length` (`idx = vs.length` = exhausted).  Nothing here knows about high/low bits.
-/
namespace SV.EFSpec

/-- Non-decreasing. -/
def Sorted (vs : List Nat) : Prop := vs.Pairwise (· ≤ ·)

/-- All values are `u32`. -/
def AllU32 (vs : List Nat) : Prop := ∀ v ∈ vs, v < 2 ^ 32

/-- `universe()` of the plain sequence: last (= largest) element + 1, 0 when empty. -/
def universeOf (vs : List Nat) : Nat :=
  match vs.getLast? with
  | none => 0
  | some m => m + 1

/-- Left-to-right scan keeping the last index whose element is `≤ v`. On a non-decreasing sequence
this is the last index holding the largest element `≤ v` (see `predScan_spec`). -/
def predScanGo (v : Nat) : List Nat → Nat → Option (Nat × Nat) → Option (Nat × Nat)
  | [], _, best => best
  | x :: xs, i, best => predScanGo v xs (i + 1) (if x ≤ v then some (i, x) else best)

def predecessor (vs : List Nat) (v : Nat) : Option (Nat × Nat) := predScanGo v vs 0 none

/-- Operations on a cursor (the mutators of `EliasFanoCursor`, the two constructors, the getters). -/
inductive Op where
  | advanceOne
  | advanceBy (k : Nat)
  | seek (i : Nat)
  | cursorFrom (i : Nat)
  | cursor
  | current
  | index
  | isExhausted
  deriving Repr, DecidableEq

/-- What is observed after one operation: the operation's own return value (`none` for operations
that return no element: constructors, `index`, `is_exhausted`), then `current()`, `index()`,
`is_exhausted()` of the cursor afterwards. -/
structure Obs where
  ret : Option (Option Nat)
  cur : Option Nat
  idx : Nat
  exh : Bool
  deriving Repr, DecidableEq

/-- Moving to absolute position `i` on the plain sequence: past the end ⇒ `idx = n`. -/
def goto (vs : List Nat) (i : Nat) : Nat := if i < vs.length then i else vs.length

/-- One operation on the plain sequence: new index and the operation's return value. -/
def step (vs : List Nat) (idx : Nat) : Op → Nat × Option (Option Nat)
  | .advanceOne => let j := goto vs (idx + 1); (j, some vs[j]?)
  | .advanceBy k => let j := goto vs (idx + k); (j, some vs[j]?)
  | .seek i => let j := goto vs i; (j, some vs[j]?)
  | .cursorFrom i => (goto vs i, none)
  | .cursor => (goto vs 0, none)
  | .current => (idx, some vs[idx]?)
  | .index => (idx, none)
  | .isExhausted => (idx, none)

def observe (vs : List Nat) (idx : Nat) (ret : Option (Option Nat)) : Obs :=
  { ret := ret, cur := vs[idx]?, idx := idx, exh := decide (idx ≥ vs.length) }

/-- The plain machine: an index into `vs`, run over an operation list. -/
def runPlain (vs : List Nat) : Nat → List Op → List Obs
  | _, [] => []
  | idx, op :: ops =>
    let (j, r) := step vs idx op
    observe vs j r :: runPlain vs j ops

end SV.EFSpec
