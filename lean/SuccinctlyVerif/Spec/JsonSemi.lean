/-
Spec/JsonSemi — the reference byte-at-a-time JSON semi-index state machines (C05).

The "reference index of an input" is defined here directly on bit *lists*: one scan over the bytes
that emits, per byte, one interest bit and zero to two balanced-parentheses bits, and the state
after the last byte.  Two encodings: the standard cursor (4 states, `src/json/standard.rs
state_machine`) and the simple cursor (3 states, `src/json/simple.rs build_semi_index`).
`pack` is the naive LSB-first packing of a bit list into 64-bit words.
-/
namespace SV.JsonSemi

/-! ### byte classes (scalar predicates of `standard.rs` / `simple.rs`) -/

def isQuote (c : BitVec 8) : Bool := c == 0x22#8
def isBackslash (c : BitVec 8) : Bool := c == 0x5C#8
def isOpen (c : BitVec 8) : Bool := c == 0x5B#8 || c == 0x7B#8
def isClose (c : BitVec 8) : Bool := c == 0x5D#8 || c == 0x7D#8
def isDelim (c : BitVec 8) : Bool := c == 0x2C#8 || c == 0x3A#8
/-- `u8::is_ascii_alphabetic` -/
def isAlpha (c : BitVec 8) : Bool :=
  (0x41 ≤ c.toNat && c.toNat ≤ 0x5A) || (0x61 ≤ c.toNat && c.toNat ≤ 0x7A)
/-- `u8::is_ascii_digit` -/
def isDigit (c : BitVec 8) : Bool := 0x30 ≤ c.toNat && c.toNat ≤ 0x39
def isValueChar (c : BitVec 8) : Bool :=
  isAlpha c || isDigit c || c == 0x2E#8 || c == 0x2D#8 || c == 0x2B#8

/-! ### standard cursor -/

inductive St where
  | inJson | inString | inEscape | inValue
  deriving DecidableEq, Repr, Inhabited

/-- What one byte emits: the interest bit and the balanced-parentheses bits (in order). -/
structure Out where
  ib : Bool
  bp : List Bool
  deriving DecidableEq, Repr

def Out.none : Out := ⟨false, []⟩
def Out.close : Out := ⟨false, [false]⟩
def Out.open : Out := ⟨true, [true]⟩
def Out.leaf : Out := ⟨true, [true, false]⟩

/-- `state_machine(c, state)` of `src/json/standard.rs`. -/
def step (s : St) (c : BitVec 8) : St × Out :=
  match s with
  | .inJson =>
    if isOpen c then (.inJson, .open)
    else if isClose c then (.inJson, .close)
    else if isDelim c then (.inJson, .none)
    else if isValueChar c then (.inValue, .leaf)
    else if isQuote c then (.inString, .leaf)
    else (.inJson, .none)
  | .inString =>
    if isQuote c then (.inJson, .none)
    else if isBackslash c then (.inEscape, .none)
    else (.inString, .none)
  | .inEscape => (.inString, .none)
  | .inValue =>
    if isOpen c then (.inJson, .open)
    else if isClose c then (.inJson, .close)
    else if isDelim c then (.inJson, .none)
    else if isValueChar c then (.inValue, .none)
    else (.inJson, .none)

/-- Result of a scan: interest bits (one per byte), BP bits, final state. -/
structure Semi (σ : Type) where
  ib : List Bool
  bp : List Bool
  st : σ

/-- The reference scan from state `s`. -/
def run (s : St) : List (BitVec 8) → Semi St
  | [] => ⟨[], [], s⟩
  | c :: cs =>
    let (s', o) := step s c
    let r := run s' cs
    ⟨o.ib :: r.ib, o.bp ++ r.bp, r.st⟩

/-- The reference standard-cursor semi-index of a byte string. -/
def reference (bytes : List (BitVec 8)) : Semi St := run .inJson bytes

/-! ### simple cursor -/

inductive SSt where
  | inJson | inString | inEscape
  deriving DecidableEq, Repr, Inhabited

/-- One step of the loop of `src/json/simple.rs build_semi_index`. -/
def sstep (s : SSt) (c : BitVec 8) : SSt × Out :=
  match s with
  | .inJson =>
    if isOpen c then (.inJson, ⟨true, [true, true]⟩)
    else if isClose c then (.inJson, ⟨true, [false, false]⟩)
    else if isDelim c then (.inJson, ⟨true, [false, true]⟩)
    else if isQuote c then (.inString, .none)
    else (.inJson, .none)
  | .inString =>
    if isQuote c then (.inJson, .none)
    else if isBackslash c then (.inEscape, .none)
    else (.inString, .none)
  | .inEscape => (.inString, .none)

def srun (s : SSt) : List (BitVec 8) → Semi SSt
  | [] => ⟨[], [], s⟩
  | c :: cs =>
    let (s', o) := sstep s c
    let r := srun s' cs
    ⟨o.ib :: r.ib, o.bp ++ r.bp, r.st⟩

/-- The reference simple-cursor semi-index of a byte string. -/
def sreference (bytes : List (BitVec 8)) : Semi SSt := srun .inJson bytes

/-! ### naive packing of a bit list into words (LSB first) -/

/-- The `w`-bit vector whose bit `i` is `bs[i]` (bits beyond the list are 0; only the first `w`
elements matter). -/
def packBits (w : Nat) : List Bool → BitVec w
  | [] => 0#w
  | b :: bs => (packBits w bs <<< 1) ||| (if b then 1#w else 0#w)

/-- Bit `i` of `packBits w bs` is `bs[i]` (for `i < w`). -/
theorem getLsbD_packBits (w : Nat) (bs : List Bool) (i : Nat) :
    (packBits w bs).getLsbD i = (decide (i < w) && bs.getD i false) := by
  induction bs generalizing i with
  | nil => simp [packBits]
  | cons b bs ih =>
    simp only [packBits, BitVec.getLsbD_or, BitVec.getLsbD_shiftLeft, ih]
    cases i with
    | zero => cases b <;> simp [BitVec.getLsbD_one]
    | succ i =>
      have : (if b = true then 1#w else 0#w).getLsbD (i + 1) = false := by
        cases b <;> simp [BitVec.getLsbD_one]
      simp only [this, Bool.or_false]
      by_cases h : i + 1 < w
      · have : i < w := by omega
        simp [h, this]
      · simp [h]

/-- Compiled form of `packBits` (one reduction modulo `2^w` per vector instead of one per bit);
the `csimp` lemma below makes the driver run this while every theorem is about `packBits`. -/
def packNat : List Bool → Nat
  | [] => 0
  | b :: bs => 2 * packNat bs + (if b then 1 else 0)

theorem testBit_packNat (bs : List Bool) (i : Nat) : (packNat bs).testBit i = bs.getD i false := by
  induction bs generalizing i with
  | nil => simp [packNat]
  | cons b bs ih =>
    cases i with
    | zero => cases b <;> simp [packNat, Nat.testBit_zero] <;> omega
    | succ i =>
      rw [Nat.testBit_succ]
      have : (packNat (b :: bs)) / 2 = packNat bs := by cases b <;> simp [packNat] <;> omega
      rw [this, ih]; simp

def packBitsFast (w : Nat) (bs : List Bool) : BitVec w := BitVec.ofNat w (packNat bs)

@[csimp] theorem packBits_eq_fast : @packBits = @packBitsFast := by
  funext w bs
  apply BitVec.eq_of_getLsbD_eq
  intro i hi
  simp [packBitsFast, getLsbD_packBits, BitVec.getLsbD_ofNat, testBit_packNat]

/-- The 64-bit word whose bit `i` is `bs[i]`. -/
def packWord (bs : List Bool) : BitVec 64 := packBits 64 bs

/-- `n` words from a bit list, 64 bits each. -/
def packN : Nat → List Bool → List (BitVec 64)
  | 0, _ => []
  | n + 1, bs => packWord (bs.take 64) :: packN n (bs.drop 64)

/-- `⌈len/64⌉` words holding the bits LSB first, the last word zero-padded. -/
def pack (bs : List Bool) : List (BitVec 64) := packN ((bs.length + 63) / 64) bs

end SV.JsonSemi
