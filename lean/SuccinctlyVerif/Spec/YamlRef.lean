/-
Spec/YamlRef — the reference for the YAML properties (C14, C18, C26, C29): trees, presentations and
`render` (Spec/YamlTree), the reference loader `loadRef` (Spec/YamlLoad), the decidable side
condition `admissible`, JSON encoding `toJson` of a tree and a small JSON reader for the tree type.
Import-free.
-/
import SuccinctlyVerif.Spec.YamlTree
import SuccinctlyVerif.Spec.YamlLoad
namespace SV.YamlRef

/-! ## Tree equality (decidable, executable) -/

mutual
def Tree.beq : Tree → Tree → Bool
  | .null, .null => true
  | .bool a, .bool b => a == b
  | .int a, .int b => a == b
  | .str a, .str b => a == b
  | .seq a, .seq b => beqList a b
  | .map a, .map b => beqKVs a b
  | _, _ => false
def beqList : List Tree → List Tree → Bool
  | [], [] => true
  | a :: as, b :: bs => a.beq b && beqList as bs
  | _, _ => false
def beqKVs : List (Str × Tree) → List (Str × Tree) → Bool
  | [], [] => true
  | (k, a) :: as, (l, b) :: bs => k == l && a.beq b && beqKVs as bs
  | _, _ => false
end

/-! ## Admissibility -/

def i64Ok (i : Int) : Bool := -9223372036854775808 ≤ i && i ≤ 9223372036854775807

def commentOk (c : Str) : Bool := c.all isPrintable

def fillerOk : Filler → Bool
  | .blank => true
  | .comment c => commentOk c

def metaOk (m : Meta) : Bool :=
  m.fill.all fillerOk && (match m.trail with | none => true | some c => commentOk c) && m.gap ≤ 3

def anchorNameOk (a : Str) : Bool := !a.isEmpty && a.all isAnchorChar && a.length ≤ 16

/-- Lines of a block scalar's text are writable: printable characters only, no line consisting of
spaces only. -/
def bsLineOk (l : Str) : Bool := l.all isPrintable && (l.isEmpty || l.any (· != ' '))

def chompOk (ch : Chomp) (s : Str) : Bool :=
  match ch with
  | .strip => s.getLast? != some '\n'
  | .clip => s.getLast? == some '\n' && s.dropLast.getLast? != some '\n' && s.length ≥ 2
  | .keep => s.getLast? == some '\n'

/-- The first non-empty line decides whether the indentation indicator is required.
(At the document root block scalars are admissible only without indentation indicator and with
non-empty content: the indentation a root-level indicator denotes is read differently by the YAML
1.2 grammar (`n = -1`) and by libyaml-family parsers (`n = 0`), so that presentation is ambiguous.) -/
def needsExplicit (s : Str) : Bool :=
  match (splitNl s).find? (fun l => !l.isEmpty) with
  | some l => l.head? == some ' '
  | none => false

def foldOk (s : Str) (i : Nat) : Bool :=
  i ≥ 1 && s[i]? == some ' ' &&
    (match s[i - 1]? with | some c => c != ' ' && c != '\n' | none => false) &&
    (match s[i + 1]? with | some c => c != ' ' && c != '\n' | none => false)

def strOk (flow : Bool) (root : Bool) (s : Str) : SStyle → Bool
  | .plain => plainSafe flow s && resolvePlain s == .str
  | .single => s.all isPrintable
  | .double _ _ => true
  | .literal ch ind ex =>
    !flow && (if root then 2 else 1) ≤ ind && ind ≤ 9 && (splitNl s).all bsLineOk && chompOk ch s
      && (ex || !needsExplicit s) && (!root || (!ex && s.any (· != '\n')))
  | .folded ch ind ex folds =>
    !flow && (if root then 2 else 1) ≤ ind && ind ≤ 9 && (splitNl s).all bsLineOk && chompOk ch s
      && (ex || !needsExplicit s) && (!root || (!ex && s.any (· != '\n')))
      && (splitNl s).all (fun l => l.head? != some ' ') && s.head? != some '\n'
      && folds.all (foldOk s) && folds.Pairwise (· < ·) = true

/-- A `<<` key is excluded in every style: the loader documents YAML 1.1 merge-key support, and —
following mikefarah/yq, pinned by the repository's own test `test_merge_key_quoted_still_merges` —
applies it to a quoted `"<<"` as well; the 1.2 core schema has no merge keys, so the presentation is
genuinely ambiguous. -/
def keyOk (flow : Bool) (k : Str) : KStyle → Bool
  | .plain => plainSafe flow k && resolvePlain k == .str && k != "<<".toList
  | .single => k.all isPrintable && k != "<<".toList
  | .double _ _ => k != "<<".toList

mutual
/-- Does the rendered node end with a keep-chomped block scalar (then a following blank line would
be part of the scalar)? -/
def PNode.endsKeep : PNode → Bool
  | .str _ (.literal .keep _ _) => true
  | .str _ (.folded .keep _ _ _) => true
  | .seq false _ _ items => items.endsKeep
  | .map false _ _ entries => entries.endsKeep
  | .anchored _ n => n.endsKeep
  | _ => false
def PItems.endsKeep : PItems → Bool
  | .nil => false
  | .cons _ n .nil => n.endsKeep
  | .cons _ _ rest => rest.endsKeep
def PEntries.endsKeep : PEntries → Bool
  | .nil => false
  | .cons _ _ _ n .nil => n.endsKeep
  | .cons _ _ _ _ rest => rest.endsKeep
end

def startsBlank (m : Meta) : Bool := m.fill.head? == some .blank

def PItems.isNil : PItems → Bool | .nil => true | _ => false
def PEntries.isNil : PEntries → Bool | .nil => true | _ => false

def PItems.firstFillEmpty : PItems → Bool | .cons m _ _ => m.fill.isEmpty | .nil => true
def PEntries.firstFillEmpty : PEntries → Bool | .cons m _ _ _ _ => m.fill.isEmpty | .nil => true

def PEntries.keys : PEntries → List Str
  | .nil => []
  | .cons _ k _ _ rest => k :: rest.keys

mutual
/-- Local well-formedness of a presentation (everything except anchor scoping).
`flow`: inside a flow collection; `ctx`: what the node is the value of. -/
def PNode.ok (flow : Bool) (ctx : Ctx) (m : Meta) : PNode → Bool
  | .null v => !(flow && v % 5 == 4)
  | .bool _ _ => true
  | .int i _ => i64Ok i
  | .str s st => strOk flow (ctx == .root) s st
  | .seq fl st c items =>
    if fl then items.ok true
    else !flow && !items.isNil && items.ok false
      && (if c then ctx == .seq && items.firstFillEmpty && m.trail.isNone
          else ctx == .root || (1 ≤ st && st ≤ 8) || (ctx == .map && st == 0))
  | .map fl st c entries =>
    if fl then entries.ok true && entries.keys.Nodup
    else !flow && !entries.isNil && entries.ok false && entries.keys.Nodup
      && (if c then ctx == .seq && entries.firstFillEmpty && m.trail.isNone
          else ctx == .root || (1 ≤ st && st ≤ 8))
  | .anchored a n =>
    anchorNameOk a && n.ok flow ctx { m with gap := 0 } &&
      (match n with
       | .anchored _ _ => false
       | .alias _ _ => false
       | .seq false _ c _ => !c
       | .map false _ c _ => !c
       | .null v => !flow || v % 5 != 4
       | _ => true)
  | .alias a _ => anchorNameOk a
def PItems.ok (flow : Bool) : PItems → Bool
  | .nil => true
  | .cons m n rest =>
    metaOk m && n.ok flow .seq m && rest.ok flow
      && (match rest with
          | .cons m' _ _ => !(n.endsKeep && startsBlank m')
          | .nil => true)
def PEntries.ok (flow : Bool) : PEntries → Bool
  | .nil => true
  | .cons m k ks n rest =>
    metaOk m && keyOk flow k ks && k.length ≤ 200 && n.ok flow .map m && rest.ok flow
      && (match rest with
          | .cons m' _ _ _ _ => !(n.endsKeep && startsBlank m')
          | .nil => true)
end

mutual
/-- Does the node contain an alias or an anchor named `a`? -/
def PNode.mentions (a : Str) : PNode → Bool
  | .alias x _ => x == a
  | .anchored x n => x == a || n.mentions a
  | .seq _ _ _ items => items.mentions a
  | .map _ _ _ entries => entries.mentions a
  | _ => false
def PItems.mentions (a : Str) : PItems → Bool
  | .nil => false
  | .cons _ n rest => n.mentions a || rest.mentions a
def PEntries.mentions (a : Str) : PEntries → Bool
  | .nil => false
  | .cons _ _ _ n rest => n.mentions a || rest.mentions a
end

mutual
/-- Anchor scoping in document order: every alias names an anchor already defined whose tree is the
alias's target (an anchor is in scope from the start of its node, so anchors defined inside the node
are more recent than the node's own).  Returns the environment after the node. -/
def PNode.scope (env : Env) : PNode → Option Env
  | .alias a t =>
    match env.lookup a with
    | some t' => if t'.beq t then some env else none
    | none => none
  | .anchored a n =>
    -- an alias to (or a re-definition of) the node's own anchor name inside the node would denote a
    -- recursive structure (the anchor is in scope from the node's start): not admissible
    if n.mentions a then none
    else (n.scope env).map fun e => e.take (e.length - env.length) ++ (a, n.tree) :: env
  | .seq _ _ _ items => items.scope env
  | .map _ _ _ entries => entries.scope env
  | _ => some env
def PItems.scope (env : Env) : PItems → Option Env
  | .nil => some env
  | .cons _ n rest => (n.scope env).bind fun e => rest.scope e
def PEntries.scope (env : Env) : PEntries → Option Env
  | .nil => some env
  | .cons _ _ _ n rest => (n.scope env).bind fun e => rest.scope e
end

def PDoc.ok (first : Bool) (d : PDoc) : Bool :=
  d.fill.all fillerOk && metaOk d.rootMeta && (d.marker || first)
    && d.root.ok false .root d.rootMeta && (d.root.scope []).isSome
    && (match d.root with
        | .null v => d.marker || v % 5 != 4
        | _ => true)
    -- an inline root node on the `---` line, or a bare one, must not be a compact collection
    && (match d.root with
        | .seq false _ c _ => !c
        | .map false _ c _ => !c
        | _ => true)

def docsOk : Bool → List PDoc → Bool
  | _, [] => true
  | first, d :: ds =>
    d.ok first && docsOk false ds
      -- a bare document (no `...`) ending in a keep-chomped scalar must not be followed by blank filler
      && (match ds with
          | d' :: _ => !(d.root.endsKeep && !d.endMarker && d'.fill.head? == some .blank)
          | [] => true)

/-- `Admissible`: the side condition of `render_load`. -/
def admissible (s : PStream) : Bool := docsOk true s.docs

def PStream.trees (s : PStream) : List Tree := s.docs.map (·.root.tree)

/-! ## JSON encoding of trees (compact, keys in order; the repository's escaping convention:
`"` `\` and C0 controls escaped, everything else raw) -/

def jsonStr (s : Str) : Str :=
  '"' :: (s.flatMap (fun c =>
    if c == '"' then ['\\', '"'] else if c == '\\' then ['\\', '\\']
    else if c == '\n' then ['\\', 'n'] else if c == '\r' then ['\\', 'r'] else if c == '\t' then ['\\', 't']
    else if c.toNat < 0x20 then '\\' :: 'u' :: hexFixed 4 c.toNat else [c]) ++ ['"'])

def intDec (i : Int) : Str := if i ≥ 0 then natDigits 10 i.toNat else '-' :: natDigits 10 i.natAbs

mutual
def toJson : Tree → Str
  | .null => "null".toList
  | .bool true => "true".toList
  | .bool false => "false".toList
  | .int i => intDec i
  | .str s => jsonStr s
  | .seq xs => '[' :: (toJsonList true xs ++ [']'])
  | .map kvs => '{' :: (toJsonKVs true kvs ++ ['}'])
def toJsonList (first : Bool) : List Tree → Str
  | [] => []
  | x :: xs => (if first then [] else [',']) ++ toJson x ++ toJsonList false xs
def toJsonKVs (first : Bool) : List (Str × Tree) → Str
  | [] => []
  | (k, x) :: xs => (if first then [] else [',']) ++ jsonStr k ++ (':' :: toJson x) ++ toJsonKVs false xs
end

/-! ## A small JSON reader for the tree type (integers only) -/

def jsWs (s : Str) : Str := s.dropWhile (fun c => c == ' ' || c == '\n' || c == '\r' || c == '\t')

/-- JSON string body after the opening quote (surrogate pairs combined). -/
def readJsonStr : Nat → Str → Option (Str × Str)
  | 0, _ => none
  | _ + 1, [] => none
  | _ + 1, '"' :: rest => some ([], rest)
  | fuel + 1, '\\' :: 'u' :: a :: b :: c :: d :: rest =>
    match hexVal? [a, b, c, d] with
    | none => none
    | some hi =>
      if 0xD800 ≤ hi && hi < 0xDC00 then
        match rest with
        | '\\' :: 'u' :: e :: f :: g :: h :: rest' =>
          match hexVal? [e, f, g, h] with
          | some lo =>
            match charOfNat? (0x10000 + (hi - 0xD800) * 0x400 + (lo - 0xDC00)) with
            | some ch => (readJsonStr fuel rest').map fun (s, r) => (ch :: s, r)
            | none => none
          | none => none
        | _ => none
      else match charOfNat? hi with
        | some ch => (readJsonStr fuel rest).map fun (s, r) => (ch :: s, r)
        | none => none
  | fuel + 1, '\\' :: e :: rest =>
    let c? : Option Char := match e with
      | '"' => some '"' | '\\' => some '\\' | '/' => some '/' | 'b' => some (Char.ofNat 8)
      | 'f' => some (Char.ofNat 12) | 'n' => some '\n' | 'r' => some '\r' | 't' => some '\t' | _ => none
    match c? with
    | some c => (readJsonStr fuel rest).map fun (s, r) => (c :: s, r)
    | none => none
  | fuel + 1, c :: rest => (readJsonStr fuel rest).map fun (s, r) => (c :: s, r)

mutual
def readJsonVal : Nat → Str → Option (Tree × Str)
  | 0, _ => none
  | fuel + 1, s =>
    match jsWs s with
    | 'n' :: 'u' :: 'l' :: 'l' :: r => some (.null, r)
    | 't' :: 'r' :: 'u' :: 'e' :: r => some (.bool true, r)
    | 'f' :: 'a' :: 'l' :: 's' :: 'e' :: r => some (.bool false, r)
    | '"' :: r => (readJsonStr (r.length + 1) r).map fun (t, r') => (.str t, r')
    | '[' :: r =>
      match jsWs r with
      | ']' :: r' => some (.seq [], r')
      | _ => readJsonItems fuel r []
    | '{' :: r =>
      match jsWs r with
      | '}' :: r' => some (.map [], r')
      | _ => readJsonMembers fuel r []
    | '-' :: r =>
      let ds := r.takeWhile isDigit
      let r' := r.dropWhile isDigit
      if ds.isEmpty || r'.head? == some '.' || r'.head? == some 'e' || r'.head? == some 'E' then none
      else some (.int (- (natOfDigits 10 ds : Int)), r')
    | s' =>
      let ds := s'.takeWhile isDigit
      let r' := s'.dropWhile isDigit
      if ds.isEmpty || r'.head? == some '.' || r'.head? == some 'e' || r'.head? == some 'E' then none
      else some (.int (natOfDigits 10 ds), r')
def readJsonItems : Nat → Str → List Tree → Option (Tree × Str)
  | 0, _, _ => none
  | fuel + 1, s, acc =>
    match readJsonVal fuel s with
    | none => none
    | some (v, r) =>
      match jsWs r with
      | ',' :: r' => readJsonItems fuel r' (v :: acc)
      | ']' :: r' => some (.seq (v :: acc).reverse, r')
      | _ => none
def readJsonMembers : Nat → Str → List (Str × Tree) → Option (Tree × Str)
  | 0, _, _ => none
  | fuel + 1, s, acc =>
    match jsWs s with
    | '"' :: r =>
      match readJsonStr (r.length + 1) r with
      | none => none
      | some (k, r1) =>
        match jsWs r1 with
        | ':' :: r2 =>
          match readJsonVal fuel r2 with
          | none => none
          | some (v, r3) =>
            match jsWs r3 with
            | ',' :: r4 => readJsonMembers fuel r4 ((k, v) :: acc)
            | '}' :: r4 => some (.map ((k, v) :: acc).reverse, r4)
            | _ => none
        | _ => none
    | _ => none
end

/-- A stream of JSON values (white-space separated). -/
def readJsonStream : Nat → Str → Option (List Tree)
  | 0, _ => none
  | fuel + 1, s =>
    match jsWs s with
    | [] => some []
    | s' =>
      match readJsonVal (s'.length + 1) s' with
      | none => none
      | some (v, r) => if r.length < s'.length then (readJsonStream fuel r).map (v :: ·) else none

def readJson (s : Str) : Option Tree :=
  match readJsonVal (s.length + 1) s with
  | some (v, r) => if (jsWs r).isEmpty then some v else none
  | none => none

end SV.YamlRef
