/-
Spec/Dec — decimal literals as exact values, without floats.

A decimal literal denotes `(-1)^neg · mant · 10^exp` with `mant : Nat`, `exp : Int`.  Two literals
"read back to the same value" when they have the same sign (so `-0` and `0` stay apart, as the two
IEEE zeros do) and the same rational value, stated by cross-multiplication over `Nat` so that no
rationals (and no `Float`) are needed.  `parseDec` is the reference reader for the decimal grammar
Rust's `str::parse::<f64>` accepts (`[+-]? (digits [. digits?]? | . digits) ([eE] [+-]? digits)?`),
a superset of the JSON number grammar `isJsonNumber` (RFC 8259) and of the YAML core-schema float.

Import-free (linked into the driver); reused by C10 and C11.
-/
namespace SV.Dec

/-- value of one ASCII digit (`'0'..'9'`); other characters are never passed. -/
def digitVal (c : Char) : Nat := c.toNat - 48

/-- the digit character of `d < 10`. -/
def digitChar : Nat → Char
  | 0 => '0' | 1 => '1' | 2 => '2' | 3 => '3' | 4 => '4'
  | 5 => '5' | 6 => '6' | 7 => '7' | 8 => '8' | _ => '9'

/-- value of a digit string read left to right (`""` ↦ 0). -/
def digitsValAcc (acc : Nat) : List Char → Nat
  | [] => acc
  | c :: cs => digitsValAcc (acc * 10 + digitVal c) cs

def digitsVal (ds : List Char) : Nat := digitsValAcc 0 ds

/-- every character is an ASCII digit. -/
def allDigits (ds : List Char) : Bool := ds.all Char.isDigit

/-- A decimal value `(-1)^neg · mant · 10^exp`. -/
structure Dec where
  neg : Bool
  mant : Nat
  exp : Int
  deriving Repr, DecidableEq

/-- Same sign and same rational value: `a.mant·10^a.exp = b.mant·10^b.exp`, cross-multiplied by
`10^(-min a.exp b.exp)` so both sides are naturals. -/
def Dec.same (a b : Dec) : Prop :=
  a.neg = b.neg ∧
  a.mant * 10 ^ (a.exp - min a.exp b.exp).toNat = b.mant * 10 ^ (b.exp - min a.exp b.exp).toNat

instance (a b : Dec) : Decidable (Dec.same a b) := by unfold Dec.same; exact inferInstance

/-- `Option`-lifted: both readings succeed and denote the same signed value. -/
def sameVal : Option Dec → Option Dec → Prop
  | some a, some b => a.same b
  | _, _ => False

instance (a b : Option Dec) : Decidable (sameVal a b) := by
  cases a <;> cases b <;> unfold sameVal <;> exact inferInstance

/-- peel one leading `-` (negative) or `+`. -/
def stripSign : List Char → Bool × List Char
  | '-' :: r => (true, r)
  | '+' :: r => (false, r)
  | r => (false, r)

/-- The syntactic pieces of a decimal literal: sign, integer digits, fraction digits, and the
exponent (sign, digits) if present. -/
structure Parts where
  neg : Bool
  ip : List Char
  fp : List Char
  exp : Option (Bool × List Char)

/-- the written exponent of a literal (0 if absent). -/
def Parts.expVal (p : Parts) : Int :=
  match p.exp with
  | none => 0
  | some (eneg, ed) => if eneg then - (digitsVal ed : Int) else (digitsVal ed : Int)

/-- the value denoted by the pieces: `±(ip ++ fp) · 10^(exp − |fp|)`. -/
def Parts.toDec (p : Parts) : Dec :=
  ⟨p.neg, digitsVal (p.ip ++ p.fp), p.expVal - (p.fp.length : Int)⟩

/-- exponent stage of `decParts`: `r2` is what follows the mantissa. -/
def decPartsExp (neg : Bool) (ip fp r2 : List Char) : Option Parts :=
  if ip.isEmpty && fp.isEmpty then none else
  match r2 with
  | [] => some ⟨neg, ip, fp, none⟩
  | c :: t =>
    if c == 'e' || c == 'E' then
      if (stripSign t).2.isEmpty || !allDigits (stripSign t).2 then none
      else some ⟨neg, ip, fp, some ((stripSign t).1, (stripSign t).2)⟩
    else none

/-- fraction stage of `decParts`: `r1` is what follows the integer digits. -/
def decPartsFrac (neg : Bool) (ip r1 : List Char) : Option Parts :=
  match r1 with
  | '.' :: t => decPartsExp neg ip (t.takeWhile Char.isDigit) (t.dropWhile Char.isDigit)
  | _ => decPartsExp neg ip [] r1

/-- Split a decimal literal (the grammar of Rust's `f64::from_str` minus the `inf`/`nan` words):
optional sign, digits, optional `.` and digits (at least one digit overall), optional `e|E`,
optional sign, at least one digit.  `none` = not a decimal literal. -/
def decParts (s : List Char) : Option Parts :=
  decPartsFrac (stripSign s).1 ((stripSign s).2.takeWhile Char.isDigit) ((stripSign s).2.dropWhile Char.isDigit)

/-- Reference reader of a decimal literal: its exact value, `none` if not a decimal literal. -/
def parseDec (s : List Char) : Option Dec := (decParts s).map Parts.toDec

/-- Reference reader of an integer literal (`[+-]? digits+`, the grammar of Rust's `i64::from_str`
before its range check). -/
def readInt (s : List Char) : Option Int :=
  let (neg, ds) := stripSign s
  if ds.isEmpty || !allDigits ds then none
  else some (if neg then - (digitsVal ds : Int) else (digitsVal ds : Int))

/-! ### Grammars -/

/-- JSON `int`: `0` or a non-zero digit followed by digits; returns the rest. -/
def jsonIntRest : List Char → Option (List Char)
  | '0' :: r => some r
  | c :: r => if c.isDigit then some (r.dropWhile Char.isDigit) else none
  | [] => none

/-- JSON `frac`? : `.` followed by at least one digit (absent is fine); returns the rest. -/
def jsonFracRest : List Char → Option (List Char)
  | '.' :: r => if (r.takeWhile Char.isDigit).isEmpty then none else some (r.dropWhile Char.isDigit)
  | r => some r

/-- JSON `exp`? : `e|E`, optional sign, at least one digit, then end of input. -/
def jsonExpEnd : List Char → Bool
  | [] => true
  | c :: r =>
    if c == 'e' || c == 'E' then
      let d := match r with
        | '+' :: t => t
        | '-' :: t => t
        | t => t
      !d.isEmpty && allDigits d
    else false

/-- skip one leading `-`. -/
def dropMinus : List Char → List Char
  | '-' :: t => t
  | t => t

/-- `int frac? exp?` then end of input. -/
def isJsonBody (r : List Char) : Bool :=
  match jsonIntRest r with
  | none => false
  | some r1 =>
    match jsonFracRest r1 with
    | none => false
    | some r2 => jsonExpEnd r2

/-- RFC 8259 `number` (the grammar of `json::validate::is_valid_number`). -/
def isJsonNumber (s : List Char) : Bool := isJsonBody (dropMinus s)

/-- a JSON number without exponent part: `-? int frac?` — the shape of Rust's `f64` `Display`. -/
def isPlainJsonNumber (s : List Char) : Bool :=
  isJsonNumber s && !s.contains 'e' && !s.contains 'E'

/-! ### The number grammar, generatively -/

/-- A number literal given by its pieces: `sign` is `""`, `"-"` or `"+"`; `ip` the integer digits;
`frac` the digits after a `.` if one is written; `exp` = (marker `e|E`, sign, digits). -/
structure Lit where
  sign : List Char
  ip : List Char
  frac : Option (List Char)
  exp : Option (Char × List Char × List Char)

def Lit.fracText (l : Lit) : List Char :=
  match l.frac with
  | some f => '.' :: f
  | none => []

def Lit.expText (l : Lit) : List Char :=
  match l.exp with
  | some (m, s, d) => m :: (s ++ d)
  | none => []

/-- the text of the literal. -/
def Lit.text (l : Lit) : List Char := l.sign ++ (l.ip ++ (l.fracText ++ l.expText))

def isSignStr (s : List Char) : Prop := s = [] ∨ s = ['-'] ∨ s = ['+']

/-- The lenient grammar: JSON numbers plus leading `+`, redundant leading zeros and a leading `.`
(`.5`): digits everywhere, a written fraction is non-empty, without a fraction the integer part is
non-empty, a written exponent has at least one digit. -/
structure Lit.wf (l : Lit) : Prop where
  sign : isSignStr l.sign
  ip : allDigits l.ip = true
  frac : match l.frac with
    | some f => allDigits f = true ∧ f ≠ []
    | none => l.ip ≠ []
  exp : match l.exp with
    | some (m, s, d) => (m = 'e' ∨ m = 'E') ∧ isSignStr s ∧ allDigits d = true ∧ d ≠ []
    | none => True

/-- RFC 8259 strictness on top of `wf`: no `+`, integer part `0` or without leading zero. -/
structure Lit.strict (l : Lit) : Prop extends l.wf where
  noPlus : l.sign ≠ ['+']
  int : l.ip = ['0'] ∨ ∃ c t, l.ip = c :: t ∧ c ≠ '0'

/-- the value the pieces denote. -/
def Lit.toDec (l : Lit) : Dec :=
  ⟨l.sign == ['-'],
   digitsVal (l.ip ++ l.frac.getD []),
   (match l.exp with
    | some (_, s, d) => if s == ['-'] then - (digitsVal d : Int) else (digitsVal d : Int)
    | none => 0) - ((l.frac.getD []).length : Int)⟩

end SV.Dec
