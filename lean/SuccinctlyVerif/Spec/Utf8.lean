/-
Spec/Utf8 — well-formed UTF-8 as the automaton of Unicode Table 3-7 ("Well-Formed UTF-8 Byte
Sequences"), Unicode scalar values and their UTF-8 encoding (Table 3-6), all over
`List (BitVec 8)`.  Import-free; reused by C06, C08, C09, C13.

  Code points          1st byte  2nd byte  3rd byte  4th byte
  U+0000..U+007F       00..7F
  U+0080..U+07FF       C2..DF    80..BF
  U+0800..U+0FFF       E0        A0..BF    80..BF
  U+1000..U+CFFF       E1..EC    80..BF    80..BF
  U+D000..U+D7FF       ED        80..9F    80..BF
  U+E000..U+FFFF       EE..EF    80..BF    80..BF
  U+10000..U+3FFFF     F0        90..BF    80..BF    80..BF
  U+40000..U+FFFFF     F1..F3    80..BF    80..BF    80..BF
  U+100000..U+10FFFF   F4        80..8F    80..BF    80..BF
-/
namespace SV.Utf8

abbrev Byte := BitVec 8

/-- `lo ≤ b ≤ hi` (unsigned). -/
def inR (lo hi b : Byte) : Bool := lo ≤ b && b ≤ hi

/-- States of the Table 3-7 automaton: `start` = on a sequence boundary; `cN` = `N` more
bytes `80..BF` required; `e0/ed/f0/f4` = the next byte is the range-restricted second byte of
that lead; `dead` = ill-formed (absorbing). -/
inductive St where
  | start | c1 | c2 | c3 | e0 | ed | f0 | f4 | dead
  deriving DecidableEq, Repr, Inhabited

/-- One transition of the automaton: the rows of Table 3-7, read column by column. -/
def step (s : St) (b : Byte) : St :=
  match s with
  | .start =>
    if b ≤ 0x7F#8 then .start
    else if inR 0xC2#8 0xDF#8 b then .c1
    else if b = 0xE0#8 then .e0
    else if inR 0xE1#8 0xEC#8 b then .c2
    else if b = 0xED#8 then .ed
    else if inR 0xEE#8 0xEF#8 b then .c2
    else if b = 0xF0#8 then .f0
    else if inR 0xF1#8 0xF3#8 b then .c3
    else if b = 0xF4#8 then .f4
    else .dead
  | .c1 => if inR 0x80#8 0xBF#8 b then .start else .dead
  | .c2 => if inR 0x80#8 0xBF#8 b then .c1 else .dead
  | .c3 => if inR 0x80#8 0xBF#8 b then .c2 else .dead
  | .e0 => if inR 0xA0#8 0xBF#8 b then .c1 else .dead
  | .ed => if inR 0x80#8 0x9F#8 b then .c1 else .dead
  | .f0 => if inR 0x90#8 0xBF#8 b then .c2 else .dead
  | .f4 => if inR 0x80#8 0x8F#8 b then .c2 else .dead
  | .dead => .dead

/-- Run the automaton over a byte string. -/
def run (s : St) (bs : List Byte) : St := bs.foldl step s

/-- Well-formed UTF-8 (Unicode §3.9, D92 + Table 3-7): the automaton ends on a boundary. -/
def WellFormed (bs : List Byte) : Prop := run .start bs = .start

instance (bs : List Byte) : Decidable (WellFormed bs) := by unfold WellFormed; infer_instance

/-- Boolean form of `WellFormed`. -/
def wellFormed (bs : List Byte) : Bool := run .start bs == .start

/-- `n` is the length of the longest well-formed prefix of `bs`. -/
def IsLongestValidPrefix (bs : List Byte) (n : Nat) : Prop :=
  n ≤ bs.length ∧ WellFormed (bs.take n) ∧
    ∀ m, n < m → m ≤ bs.length → ¬ WellFormed (bs.take m)

/-- Executable longest-valid-prefix length: the last position at which the automaton stood on a
boundary before dying (or before the input ended).  `Proof/Utf8.validPrefixLen_spec` shows
`IsLongestValidPrefix bs (validPrefixLen bs)`. -/
def validPrefixGo : St → Nat → Nat → List Byte → Nat
  | _, _, last, [] => last
  | s, pos, last, b :: bs =>
    match step s b with
    | .dead => last
    | .start => validPrefixGo .start (pos + 1) (pos + 1) bs
    | s' => validPrefixGo s' (pos + 1) last bs

def validPrefixLen (bs : List Byte) : Nat := validPrefixGo .start 0 0 bs

/-! ### Scalar values and their encoding (Table 3-6) -/

/-- Unicode scalar value: a code point that is not a surrogate. -/
def isScalar (cp : Nat) : Bool := cp < 0xD800 || (0xE000 ≤ cp && cp ≤ 0x10FFFF)

/-- UTF-8 encoding of a scalar value (bit distribution of Table 3-6). -/
def encode (cp : Nat) : List Byte :=
  if cp < 0x80 then [BitVec.ofNat 8 cp]
  else if cp < 0x800 then [BitVec.ofNat 8 (0xC0 + cp / 64), BitVec.ofNat 8 (0x80 + cp % 64)]
  else if cp < 0x10000 then
    [BitVec.ofNat 8 (0xE0 + cp / 4096), BitVec.ofNat 8 (0x80 + cp / 64 % 64), BitVec.ofNat 8 (0x80 + cp % 64)]
  else
    [BitVec.ofNat 8 (0xF0 + cp / 262144), BitVec.ofNat 8 (0x80 + cp / 4096 % 64),
     BitVec.ofNat 8 (0x80 + cp / 64 % 64), BitVec.ofNat 8 (0x80 + cp % 64)]

/-- UTF-8 encoding of a string given as a list of scalar values. -/
def encodeAll (s : List Nat) : List Byte := s.flatMap encode

/-- Number of bytes the lead byte announces by its bit pattern (`0xxxxxxx` 1, `110xxxxx` 2,
`1110xxxx` 3, `11110xxx` 4; 0 for `10xxxxxx` and `11111xxx`). -/
def declaredLen (b : Byte) : Nat :=
  if b ≤ 0x7F#8 then 1 else if b ≤ 0xBF#8 then 0 else if b ≤ 0xDF#8 then 2
  else if b ≤ 0xEF#8 then 3 else if b ≤ 0xF7#8 then 4 else 0

/-- Payload bits of the lead byte of a sequence of declared length `n`. -/
def leadPayload (n : Nat) (b : Byte) : Nat :=
  match n with
  | 1 => b.toNat
  | 2 => b.toNat % 32
  | 3 => b.toNat % 16
  | _ => b.toNat % 8

/-- Decode the first well-formed sequence of `bs`: `(scalar value, length)`; `none` if `bs` does not
start with a well-formed sequence of Table 3-7. -/
def decodeFirst (bs : List Byte) : Option (Nat × Nat) :=
  match bs with
  | [] => none
  | b0 :: r =>
    let n := declaredLen b0
    if n = 0 ∨ bs.length < n ∨ run .start (bs.take n) ≠ .start then none
    else some ((r.take (n - 1)).foldl (fun acc b => acc * 64 + b.toNat % 64) (leadPayload n b0), n)

/-! ### Error classification (the rules of `succinctly::text::utf8`, phrased over Table 3-7) -/

/-- The six rule names of `Utf8ErrorKind`. -/
inductive ErrKind where
  | invalidLeadByte | invalidContinuationByte | overlongEncoding
  | surrogateCodepoint | outOfRangeCodepoint | truncatedSequence
  deriving DecidableEq, Repr, Inhabited

/-- `80..BF`. -/
def isContByte (b : Byte) : Bool := inR 0x80#8 0xBF#8 b

/-- The rule named by `k` is violated by the sequence that starts at the head of `rest`
(`rest` = the input after its longest valid prefix).  Phrased with the byte ranges of Table 3-7:
* invalid lead: the byte is `80..BF` (a continuation where a lead is expected) or `F8..FF`;
* truncated: the lead announces more bytes than remain;
* invalid continuation: one of the announced trailing bytes present is not `80..BF`;
* overlong: lead `C0/C1`, or `E0` followed by `80..9F`, or `F0` followed by `80..8F`
  (the encoded value would fit a shorter form);
* surrogate: `ED` followed by `A0..BF` (U+D800..U+DFFF);
* out of range: `F4` followed by `90..BF`, or lead `F5..F7` (above U+10FFFF). -/
def violates (k : ErrKind) (rest : List Byte) : Bool :=
  match rest with
  | [] => false
  | b0 :: r =>
    let n := declaredLen b0
    match k with
    | .invalidLeadByte => n == 0
    | .truncatedSequence => decide (2 ≤ n) && decide (rest.length < n)
    | .invalidContinuationByte => decide (2 ≤ n) && (r.take (n - 1)).any (fun b => !isContByte b)
    | .overlongEncoding =>
      inR 0xC0#8 0xC1#8 b0 || (b0 == 0xE0#8 && (r.head?.map (inR 0x80#8 0x9F#8)).getD false)
        || (b0 == 0xF0#8 && (r.head?.map (inR 0x80#8 0x8F#8)).getD false)
    | .surrogateCodepoint => b0 == 0xED#8 && (r.head?.map (inR 0xA0#8 0xBF#8)).getD false
    | .outOfRangeCodepoint =>
      inR 0xF5#8 0xF7#8 b0 || (b0 == 0xF4#8 && (r.head?.map (inR 0x90#8 0xBF#8)).getD false)

/-- The order in which the rules are examined (documented in the module header of
`src/text/utf8/mod.rs`): lead byte, truncation, continuation bytes left to right, then the
code-point rules.  Returns the first violated rule and, for `invalidContinuationByte`, the index
(1..3) of the offending byte inside the sequence (0 for every other kind). -/
def firstViolation (rest : List Byte) : Option (ErrKind × Nat) :=
  match rest with
  | [] => none
  | b0 :: r =>
    let n := declaredLen b0
    if violates .invalidLeadByte rest then some (.invalidLeadByte, 0)
    else if violates .truncatedSequence rest then some (.truncatedSequence, 0)
    else if violates .invalidContinuationByte rest then
      some (.invalidContinuationByte, 1 + ((r.take (n - 1)).takeWhile isContByte).length)
    else if violates .overlongEncoding rest then some (.overlongEncoding, 0)
    else if violates .surrogateCodepoint rest then some (.surrogateCodepoint, 0)
    else if violates .outOfRangeCodepoint rest then some (.outOfRangeCodepoint, 0)
    else none

/-! ### Lines (LF only, as `succinctly::text::utf8` defines them) -/

/-- 1-based line and 1-based byte column of `offset` in `bs`: line = 1 + number of `\n` before
`offset`; column = 1 + number of bytes after the last `\n` before `offset`. -/
def lineColLF (bs : List Byte) (offset : Nat) : Nat × Nat :=
  let pre := bs.take offset
  (1 + pre.count 0x0A#8, (pre.reverse.takeWhile (· ≠ 0x0A#8)).length + 1)

end SV.Utf8
