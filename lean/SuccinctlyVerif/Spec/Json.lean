/-
Spec/Json — RFC 8259 JSON texts over bytes (shared, import-free).

* `JVal`      – JSON values (numbers kept as their literal text, strings as scalar-value lists,
                objects as ordered field lists).
* byte classes, the well-formed-UTF-8 table (Unicode Table 3-7) – local copy, to be reconciled
  with `Spec/Utf8` once that exists.
* `NumberLit`, `StrBody`/`StringLit`, `Elems`/`Members`, `JValueAt d`, `Valid maxDepth`
              – the grammar of RFC 8259 §2–§7 as a derivation relation over bytes, the four
                whitespace bytes allowed in every gap, strings restricted to well-formed UTF-8 with
                `\u` escapes denoting scalar values (a surrogate escape only as a high+low pair),
                container nesting ≤ `maxDepth`.
* `Viable`    – a prefix that can still be extended to a valid text.
* `lineCol`   – the validator module's line/column definition (1-based, columns in bytes,
                LF / CR / CRLF each one line break).
(The executable reference recogniser lives in `Spec/JsonPda.lean`; a `readJson : Bytes → Except E JVal`
reader is not part of this file yet – `JVal` is provided for the properties that will add it.)
-/
namespace SV.Json

abbrev Byte := BitVec 8
abbrev Bytes := List Byte

/-- JSON values. `num` keeps the literal text, `str` the decoded Unicode scalar values. -/
inductive JVal where
  | null
  | bool (b : Bool)
  | num (lit : Bytes)
  | str (s : List Nat)
  | arr (xs : List JVal)
  | obj (fs : List (List Nat × JVal))
  deriving Repr, Inhabited

/-! ## Byte classes -/

/-- RFC 8259 §2 `ws`: space, tab, line feed, carriage return. -/
def isWs (b : Byte) : Bool := b == 0x20 || b == 0x09 || b == 0x0A || b == 0x0D
def isDigit (b : Byte) : Bool := decide (0x30 ≤ b) && decide (b ≤ 0x39)
def isDigit19 (b : Byte) : Bool := decide (0x31 ≤ b) && decide (b ≤ 0x39)
def isLowerHex (b : Byte) : Bool := decide (0x61 ≤ b) && decide (b ≤ 0x66)
def isUpperHex (b : Byte) : Bool := decide (0x41 ≤ b) && decide (b ≤ 0x46)
def isHex (b : Byte) : Bool := isDigit b || isLowerHex b || isUpperHex b
/-- Value of a hex digit (0 for other bytes). -/
def hexVal (b : Byte) : Nat :=
  if isDigit b then (b - 0x30).toNat
  else if isLowerHex b then (b - 0x61).toNat + 10
  else if isUpperHex b then (b - 0x41).toNat + 10
  else 0
def hex4 (a b c d : Byte) : Nat := ((hexVal a * 16 + hexVal b) * 16 + hexVal c) * 16 + hexVal d
def isHighSurr (n : Nat) : Bool := decide (0xD800 ≤ n) && decide (n ≤ 0xDBFF)
def isLowSurr (n : Nat) : Bool := decide (0xDC00 ≤ n) && decide (n ≤ 0xDFFF)
/-- The bytes allowed after `\` besides `u`: `" \ / b f n r t`. -/
def isSimpleEsc (b : Byte) : Bool :=
  b == 0x22 || b == 0x5C || b == 0x2F || b == 0x62 || b == 0x66 || b == 0x6E || b == 0x72 || b == 0x74

def Ws (w : Bytes) : Prop := ∀ b ∈ w, isWs b = true
def Digits (ds : Bytes) : Prop := ∀ b ∈ ds, isDigit b = true

/-! ## Well-formed UTF-8 (Unicode 15 Table 3-7), one encoded scalar value -/

def isCont (b : Byte) : Bool := decide (0x80 ≤ b) && decide (b ≤ 0xBF)

/-- `c` is the well-formed UTF-8 encoding of exactly one scalar value. -/
def utf8Wf : Bytes → Bool
  | [a] => decide (a ≤ 0x7F)
  | [a, b] => decide (0xC2 ≤ a) && decide (a ≤ 0xDF) && isCont b
  | [a, b, c] =>
    ((a == 0xE0 && decide (0xA0 ≤ b) && decide (b ≤ 0xBF))
      || (decide (0xE1 ≤ a) && decide (a ≤ 0xEC) && isCont b)
      || (a == 0xED && decide (0x80 ≤ b) && decide (b ≤ 0x9F))
      || (decide (0xEE ≤ a) && decide (a ≤ 0xEF) && isCont b)) && isCont c
  | [a, b, c, d] =>
    ((a == 0xF0 && decide (0x90 ≤ b) && decide (b ≤ 0xBF))
      || (decide (0xF1 ≤ a) && decide (a ≤ 0xF3) && isCont b)
      || (a == 0xF4 && decide (0x80 ≤ b) && decide (b ≤ 0x8F))) && isCont c && isCont d
  | _ => false

/-- Scalar value of a well-formed sequence (0 on anything else). -/
def utf8Scalar : Bytes → Nat
  | [a] => a.toNat
  | [a, b] => (a.toNat % 32) * 64 + b.toNat % 64
  | [a, b, c] => ((a.toNat % 16) * 64 + b.toNat % 64) * 64 + c.toNat % 64
  | [a, b, c, d] => (((a.toNat % 8) * 64 + b.toNat % 64) * 64 + c.toNat % 64) * 64 + d.toNat % 64
  | _ => 0

/-- An unescaped string character: one well-formed UTF-8 sequence that is not `"`, `\` or a
control character below U+0020 (RFC 8259 §7 `unescaped`). -/
def strCharOk (c : Bytes) : Bool :=
  utf8Wf c && (match c with
    | [a] => decide (0x20 ≤ a) && a != 0x22 && a != 0x5C
    | _ => true)

/-! ## Numbers (RFC 8259 §6) -/

def IntPart (s : Bytes) : Prop :=
  s = [0x30] ∨ ∃ d ds, s = d :: ds ∧ isDigit19 d = true ∧ Digits ds
def FracPart (s : Bytes) : Prop :=
  s = [] ∨ ∃ ds, s = 0x2E :: ds ∧ ds ≠ [] ∧ Digits ds
def ExpPart (s : Bytes) : Prop :=
  s = [] ∨ ∃ e sg ds, s = e :: (sg ++ ds) ∧ (e = 0x65 ∨ e = 0x45) ∧
    (sg = [] ∨ sg = [0x2B] ∨ sg = [0x2D]) ∧ ds ≠ [] ∧ Digits ds
/-- `number = [ minus ] int [ frac ] [ exp ]` -/
def NumberLit (s : Bytes) : Prop :=
  ∃ sg ip fp ep, s = sg ++ (ip ++ (fp ++ ep)) ∧ (sg = [] ∨ sg = [0x2D]) ∧
    IntPart ip ∧ FracPart fp ∧ ExpPart ep

/-! ## Strings (RFC 8259 §7, restricted to well-formed UTF-8 and paired surrogate escapes) -/

/-- The bytes between the quotes. -/
inductive StrBody : Bytes → Prop
  | nil : StrBody []
  /-- an unescaped character -/
  | char (c r : Bytes) : strCharOk c = true → StrBody r → StrBody (c ++ r)
  /-- `\"  \\  \/  \b  \f  \n  \r  \t` -/
  | esc (e : Byte) (r : Bytes) : isSimpleEsc e = true → StrBody r → StrBody (0x5C :: e :: r)
  /-- `\uXXXX` denoting a non-surrogate scalar value -/
  | uni (a b c d : Byte) (r : Bytes) :
      isHex a = true → isHex b = true → isHex c = true → isHex d = true →
      isHighSurr (hex4 a b c d) = false → isLowSurr (hex4 a b c d) = false →
      StrBody r → StrBody (0x5C :: 0x75 :: a :: b :: c :: d :: r)
  /-- `\uD8xx\uDCxx`: a high surrogate immediately followed by a low surrogate -/
  | pair (a b c d a' b' c' d' : Byte) (r : Bytes) :
      isHex a = true → isHex b = true → isHex c = true → isHex d = true →
      isHex a' = true → isHex b' = true → isHex c' = true → isHex d' = true →
      isHighSurr (hex4 a b c d) = true → isLowSurr (hex4 a' b' c' d') = true →
      StrBody r →
      StrBody (0x5C :: 0x75 :: a :: b :: c :: d :: 0x5C :: 0x75 :: a' :: b' :: c' :: d' :: r)

def StringLit (s : Bytes) : Prop := ∃ body, StrBody body ∧ s = 0x22 :: (body ++ [0x22])

/-! ## Values, arrays, objects, texts -/

def kwNull : Bytes := [0x6E, 0x75, 0x6C, 0x6C]
def kwTrue : Bytes := [0x74, 0x72, 0x75, 0x65]
def kwFalse : Bytes := [0x66, 0x61, 0x6C, 0x73, 0x65]

def Scalar (s : Bytes) : Prop :=
  s = kwNull ∨ s = kwTrue ∨ s = kwFalse ∨ NumberLit s ∨ StringLit s

/-- `ws value ws *( , ws value ws )` – the non-empty element list of an array, `P` the element
grammar. -/
inductive Elems (P : Bytes → Prop) : Bytes → Prop
  | one (w1 v w2 : Bytes) : Ws w1 → P v → Ws w2 → Elems P (w1 ++ (v ++ w2))
  | cons (w1 v w2 r : Bytes) : Ws w1 → P v → Ws w2 → Elems P r →
      Elems P (w1 ++ (v ++ (w2 ++ 0x2C :: r)))

/-- `ws string ws : ws value ws *( , … )` – the non-empty member list of an object. -/
inductive Members (P : Bytes → Prop) : Bytes → Prop
  | one (w1 k w2 w3 v w4 : Bytes) : Ws w1 → StringLit k → Ws w2 → Ws w3 → P v → Ws w4 →
      Members P (w1 ++ (k ++ (w2 ++ 0x3A :: (w3 ++ (v ++ w4)))))
  | cons (w1 k w2 w3 v w4 r : Bytes) : Ws w1 → StringLit k → Ws w2 → Ws w3 → P v → Ws w4 →
      Members P r →
      Members P (w1 ++ (k ++ (w2 ++ 0x3A :: (w3 ++ (v ++ (w4 ++ 0x2C :: r))))))

/-- `JValueAt d s`: `s` is exactly one JSON value (no surrounding whitespace) whose containers
nest at most `d` deep. -/
def JValueAt : Nat → Bytes → Prop
  | 0, s => Scalar s
  | d + 1, s =>
    Scalar s
    ∨ (∃ w, Ws w ∧ s = 0x5B :: (w ++ [0x5D]))
    ∨ (∃ body, Elems (JValueAt d) body ∧ s = 0x5B :: (body ++ [0x5D]))
    ∨ (∃ w, Ws w ∧ s = 0x7B :: (w ++ [0x7D]))
    ∨ (∃ body, Members (JValueAt d) body ∧ s = 0x7B :: (body ++ [0x7D]))

/-- `JSON-text = ws value ws` with container nesting at most `maxDepth`. -/
def Valid (maxDepth : Nat) (b : Bytes) : Prop :=
  ∃ w1 v w2, Ws w1 ∧ JValueAt maxDepth v ∧ Ws w2 ∧ b = w1 ++ (v ++ w2)

/-- A prefix that can still be extended to a valid text. -/
def Viable (maxDepth : Nat) (p : Bytes) : Prop := ∃ s, Valid maxDepth (p ++ s)

/-! ## Line / column of an offset (the validator module's definition)

Lines and columns are 1-based, columns count bytes; LF, CR and CRLF are each one line break and the
byte after a break is at column 1. -/

structure LC where
  line : Nat
  column : Nat
  /-- the previous byte was a CR (a following LF belongs to the same break) -/
  cr : Bool
  deriving DecidableEq, Repr

def LC.step (p : LC) (b : Byte) : LC :=
  if b = 0x0A then (if p.cr then { p with cr := false } else ⟨p.line + 1, 1, false⟩)
  else if b = 0x0D then ⟨p.line + 1, 1, true⟩
  else ⟨p.line, p.column + 1, false⟩

def lcOf (p : Bytes) : LC := p.foldl LC.step ⟨1, 1, false⟩

/-- (line, column) of byte offset `off` of `b`. -/
def lineCol (b : Bytes) (off : Nat) : Nat × Nat :=
  let r := lcOf (b.take off)
  (r.line, r.column)

end SV.Json
