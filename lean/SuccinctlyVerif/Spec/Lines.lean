/-
Spec/Lines — the naive line/column definitions (C12; shared with C07, C08, C13, C18).

A text is a `List (BitVec 8)`.  A line break is spelled LF, a lone CR, or CRLF (one break, two
bytes wide).  The spec is a single left-to-right pass with ONE BYTE OF LOOK-BEHIND and no notion
of "width": a byte begins a new line iff the byte before it is LF, or the byte before it is CR and
the byte itself is not LF (then the LF still belongs to the CRLF break).  Since only a byte that
exists can begin a line, a break at the very end of the text begins nothing (`"a\n"` has one line),
and offsets at or past the end of the text are reported against the last line — the behaviour
`LineIndex::to_line_column` documents.

Lines and columns are 1-indexed, byte offsets 0-indexed; everything is an unbounded `Nat`.
-/
namespace SV.Lines

abbrev Byte := BitVec 8

def LF : Byte := 0x0A#8
def CR : Byte := 0x0D#8

/-- Does a new line begin at a byte `b` whose predecessor is `prev`? -/
def startsLine (prev : Option Byte) (b : Byte) : Bool :=
  prev == some LF || (prev == some CR && b != LF)

/-- The scan: walk the bytes left to right up to `offset`, keeping the current line number and the
position at which the current line began.  `prev` is the byte before `pos`. -/
def lineColScan (offset : Nat) : Option Byte → List Byte → Nat → Nat → Nat → Nat × Nat
  | _, [], _, line, start => (line, offset - start + 1)
  | prev, b :: rest, pos, line, start =>
    if offset < pos then (line, offset - start + 1)
    else if startsLine prev b then lineColScan offset (some b) rest (pos + 1) (line + 1) pos
    else lineColScan offset (some b) rest (pos + 1) line start

/-- `(line, column)` of byte offset `offset` in `text`. -/
def lineCol (text : List Byte) (offset : Nat) : Nat × Nat :=
  lineColScan offset none text 0 1 0

/-- Positions `≥ pos` at which a line begins (same look-behind rule), for a suffix starting at `pos`. -/
def lineStartsScan : Option Byte → List Byte → Nat → List Nat
  | _, [], _ => []
  | prev, b :: rest, pos =>
    if startsLine prev b then pos :: lineStartsScan (some b) rest (pos + 1)
    else lineStartsScan (some b) rest (pos + 1)

/-- All line starts of a text: offset 0 (line 1 exists even in the empty text) and every later
byte that begins a line. -/
def lineStarts (text : List Byte) : List Nat :=
  0 :: lineStartsScan none text 0

def lineCount (text : List Byte) : Nat := (lineStarts text).length

/-- Start offset of the 1-indexed `line`. -/
def lineStart (text : List Byte) (line : Nat) : Option Nat :=
  if line = 0 then none else (lineStarts text)[line - 1]?

/-- Offset of 1-indexed `(line, column)`; rejected when line/column is 0, the line does not exist,
or the offset is not inside the text.  (Columns are byte counts from the line start and are not
clipped at the line's end — as `LineIndex::to_offset` documents.) -/
def toOffset (text : List Byte) (line column : Nat) : Option Nat :=
  if column = 0 then none
  else match lineStart text line with
    | none => none
    | some s => if s + column - 1 < text.length then some (s + column - 1) else none

end SV.Lines
