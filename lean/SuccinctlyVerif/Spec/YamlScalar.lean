/-
Spec/YamlScalar — what a YAML 1.2 reader makes of ONE-LINE scalar text.

Written from the YAML 1.2.2 specification, not from the Rust code:

* §10.3.2 core-schema tag resolution of a plain scalar (`coreResolve`);
* §7.3.3 plain scalars: when a one-line text is a plain scalar of exactly that content in a given
  context (`plainSafe`, productions [126]–[133]);
* §7.3.1/§7.3.2 + §5.7: readers of double- and single-quoted one-line scalars (`readDouble`,
  `readSingle`, escape table of production [41]–[62]);
* `loadScalar`: the scalar denoted by an emitted one-line text in a context.

Strings are `List Char`.  Import-free (linked into the driver).

Character classes.  Production [1] `c-printable` restricts the *character stream*; the loader under
test does not enforce it (checked by the correspondence's re-read oracle on C0/C1/DEL/BOM/
non-characters), so `nbChar` below is "any character except a line break" — the reader is lenient
about printability and strict about every *syntactic* rule (indicators, white space, `: `, ` #`,
flow indicators, quotes, escapes).  YAML 1.2 line breaks are LF and CR only (NEL/LS/PS are ordinary
characters in 1.2).
-/
namespace SV.Yaml

/-- A resolved scalar: what the representation graph holds for one scalar node. -/
inductive FloatClass where
  | finite | posInf | negInf | nan
  deriving DecidableEq, Repr

inductive Scalar where
  | null
  | bool (b : Bool)
  | int (n : Int)
  | float (f : FloatClass)
  | str (s : List Char)
  deriving DecidableEq, Repr

def Scalar.isStr : Scalar → Bool
  | .str _ => true
  | _ => false

/-! ## Character classes (§5) -/

def isDigit (c : Char) : Bool := '0' ≤ c && c ≤ '9'
def isOctDigit (c : Char) : Bool := '0' ≤ c && c ≤ '7'
def isHexDigit (c : Char) : Bool :=
  isDigit c || ('a' ≤ c && c ≤ 'f') || ('A' ≤ c && c ≤ 'F')
/-- [33] s-white -/
def isWhite (c : Char) : Bool := c = ' ' || c = '\t'
/-- [26] b-char (YAML 1.2: LF and CR) -/
def isBreak (c : Char) : Bool := c = '\n' || c = '\r'
/-- [22] c-indicator -/
def isIndicator (c : Char) : Bool :=
  c = '-' || c = '?' || c = ':' || c = ',' || c = '[' || c = ']' || c = '{' || c = '}' ||
  c = '#' || c = '&' || c = '*' || c = '!' || c = '|' || c = '>' || c = '\'' || c = '"' ||
  c = '%' || c = '@' || c = '`'
/-- [23] c-flow-indicator -/
def isFlowIndicator (c : Char) : Bool :=
  c = ',' || c = '[' || c = ']' || c = '{' || c = '}'
/-- [27] nb-char, lenient about printability (see the header). -/
def nbChar (c : Char) : Bool := !isBreak c
/-- [34] ns-char -/
def nsChar (c : Char) : Bool := nbChar c && !isWhite c

/-! ## Core schema (§10.3.2) -/

def digitVal (c : Char) : Nat :=
  if isDigit c then c.toNat - '0'.toNat
  else if 'a' ≤ c && c ≤ 'f' then c.toNat - 'a'.toNat + 10
  else if 'A' ≤ c && c ≤ 'F' then c.toNat - 'A'.toNat + 10
  else 0

def natOfDigits (base : Nat) (cs : List Char) : Nat :=
  cs.foldl (fun acc c => acc * base + digitVal c) 0

def allDigits (cs : List Char) : Bool := !cs.isEmpty && cs.all isDigit

/-- `[-+]?` : (negative?, rest). -/
def splitSign : List Char → Bool × List Char
  | '-' :: r => (true, r)
  | '+' :: r => (false, r)
  | r => (false, r)

/-- `( [eE] [-+]? [0-9]+ )?` up to the end of the text. -/
def isExpTail : List Char → Bool
  | [] => true
  | c :: r => (c = 'e' || c = 'E') && allDigits (splitSign r).2

/-- `( \. [0-9]+ | [0-9]+ ( \. [0-9]* )? ) ( [eE] [-+]? [0-9]+ )?` (no sign). -/
def isFloatBody (cs : List Char) : Bool :=
  match cs with
  | [] => false
  | c :: rest =>
    if c = '.' then
      -- `\. [0-9]+`
      (match rest with | d :: _ => isDigit d | [] => false) && isExpTail (rest.dropWhile isDigit)
    else if isDigit c then
      -- `[0-9]+ ( \. [0-9]* )?`
      match rest.dropWhile isDigit with
      | '.' :: f => isExpTail (f.dropWhile isDigit)
      | r => isExpTail r
    else false

def isInfWord (cs : List Char) : Bool :=
  cs = ".inf".toList || cs = ".Inf".toList || cs = ".INF".toList
def isNanWord (cs : List Char) : Bool :=
  cs = ".nan".toList || cs = ".NaN".toList || cs = ".NAN".toList

/-- Core-schema resolution of a plain scalar's content (regular expressions of §10.3.2, in the
table's order).  Integers are unbounded here; floats are only classified. -/
def coreResolve (s : List Char) : Scalar :=
  if s = [] || s = "null".toList || s = "Null".toList || s = "NULL".toList || s = "~".toList then .null
  else if s = "true".toList || s = "True".toList || s = "TRUE".toList then .bool true
  else if s = "false".toList || s = "False".toList || s = "FALSE".toList then .bool false
  else
    let (neg, body) := splitSign s
    if allDigits body then .int (if neg then -(natOfDigits 10 body : Int) else natOfDigits 10 body)
    else match s with
      | '0' :: 'o' :: d => if !d.isEmpty && d.all isOctDigit then .int (natOfDigits 8 d) else .str s
      | '0' :: 'x' :: d => if !d.isEmpty && d.all isHexDigit then .int (natOfDigits 16 d) else .str s
      | _ =>
        if isFloatBody body then .float .finite
        else if isInfWord body then .float (if neg then .negInf else .posInf)
        else if isNanWord s then .float .nan
        else .str s

/-! ## Plain scalars on one line (§7.3.3) -/

/-- Where the scalar text is written.  `blockValue`: after `key: ` or `- ` in block context
(block-out/in); `blockKey`: an implicit key of a block mapping (`top = true` when the key starts a
line at column 0, where [206] c-forbidden and [82] l-directive apply); `flowValue`/`flowKey`: inside
`[…]`/`{…}` (flow-in / flow-key). -/
inductive Ctx where
  | blockValue
  | blockKey (top : Bool)
  | flowValue
  | flowKey
  deriving DecidableEq, Repr

def Ctx.isFlow : Ctx → Bool
  | .flowValue | .flowKey => true
  | _ => false

def Ctx.isKey : Ctx → Bool
  | .blockKey _ | .flowKey => true
  | _ => false

/-- [128] ns-plain-safe(c) -/
def nsPlainSafe (ctx : Ctx) (c : Char) : Bool :=
  nsChar c && !(ctx.isFlow && isFlowIndicator c)

/-- [126] ns-plain-first(c): `next` is the character following the first one. -/
def nsPlainFirst (ctx : Ctx) (c : Char) (next : Option Char) : Bool :=
  (nsChar c && !isIndicator c) ||
  ((c = '?' || c = ':' || c = '-') && (match next with | some n => nsPlainSafe ctx n | none => false))

/-- [130] ns-plain-char(c) for a character with predecessor `prev` and successor `next`. -/
def nsPlainChar (ctx : Ctx) (prev c : Char) (next : Option Char) : Bool :=
  if c = ':' then (match next with | some n => nsPlainSafe ctx n | none => false)
  else if c = '#' then nsChar prev
  else nsPlainSafe ctx c

/-- [132] nb-ns-plain-in-line(c) `( s-white* ns-plain-char(c) )*` for the text after the character
`prev`: every character is white space or an `ns-plain-char`; that the text does not *end* in white
space is checked by `plainOneLine`. -/
def plainInLine (ctx : Ctx) : Char → List Char → Bool
  | _, [] => true
  | prev, c :: rest =>
    (isWhite c || nsPlainChar ctx prev c rest.head?) && plainInLine ctx c rest

/-- The text ends in white space (or is empty). -/
def lastIsWhite (s : List Char) : Bool :=
  match s.getLast? with
  | some l => isWhite l
  | none => true

/-- [133] ns-plain-one-line(c), with content exactly `s`. -/
def plainOneLine (ctx : Ctx) (s : List Char) : Bool :=
  match s with
  | [] => false
  | c :: rest =>
    nsPlainFirst ctx c rest.head? && plainInLine ctx c rest && !lastIsWhite (c :: rest)

/-- [206] c-forbidden at the start of a line: `---` / `...` followed by white space or a break
(a key is always followed by its `:`, so the end-of-input alternative does not arise). -/
def startsWithDocMarker (s : List Char) : Bool :=
  match s with
  | a :: b :: c :: d :: _ =>
    ((a = '-' && b = '-' && c = '-') || (a = '.' && b = '.' && c = '.')) && (isWhite d || isBreak d)
  | _ => false

/-- The text `s`, written on one line in context `ctx`, is a plain scalar whose content is `s`. -/
def plainSafe (ctx : Ctx) (s : List Char) : Bool :=
  plainOneLine ctx s &&
  (match ctx with
   | .blockKey true => !startsWithDocMarker s && s.head? ≠ some '%'
   | _ => true)

/-! ## Quoted scalars on one line (§7.3.1, §7.3.2, §5.7) -/

def hexVal? (c : Char) : Option Nat :=
  if isHexDigit c then some (digitVal c) else none

/-- Single-character escapes of §5.7 ([42]–[58]); `x`, `u`, `U` are handled by the reader. -/
def escChar (c : Char) : Option Char :=
  if c = '0' then some (Char.ofNat 0)
  else if c = 'a' then some (Char.ofNat 7)
  else if c = 'b' then some (Char.ofNat 8)
  else if c = 't' || c = '\t' then some '\t'
  else if c = 'n' then some '\n'
  else if c = 'v' then some (Char.ofNat 0x0B)
  else if c = 'f' then some (Char.ofNat 0x0C)
  else if c = 'r' then some '\r'
  else if c = 'e' then some (Char.ofNat 0x1B)
  else if c = ' ' then some ' '
  else if c = '"' then some '"'
  else if c = '/' then some '/'
  else if c = '\\' then some '\\'
  else if c = 'N' then some (Char.ofNat 0x85)
  else if c = '_' then some (Char.ofNat 0xA0)
  else if c = 'L' then some (Char.ofNat 0x2028)
  else if c = 'P' then some (Char.ofNat 0x2029)
  else none

/-- Reader state inside a double-quoted scalar: plain text, just after a `\\`, or inside a
`\\x`/`\\u`/`\\U` escape with `n` hexadecimal digits still to read and `acc` read so far. -/
inductive DqState where
  | text
  | esc
  | hex (n : Nat) (acc : Nat)

def consFst (c : Char) (r : Option (List Char × List Char)) : Option (List Char × List Char) :=
  r.map fun p => (c :: p.1, p.2)

/-- One-line double-quoted scalar body, one character at a time ([107]–[116], escapes [41]–[62]).
A raw line break (multi-line scalar, folding) is outside this reader: `none`. -/
def readDoubleSt : DqState → List Char → Option (List Char × List Char)
  | _, [] => none
  | .text, c :: rest =>
    if c = '"' then some ([], rest)
    else if isBreak c then none
    else if c = '\\' then readDoubleSt .esc rest
    else consFst c (readDoubleSt .text rest)
  | .esc, e :: rest =>
    if e = 'x' then readDoubleSt (.hex 2 0) rest
    else if e = 'u' then readDoubleSt (.hex 4 0) rest
    else if e = 'U' then readDoubleSt (.hex 8 0) rest
    else match escChar e with
      | some d => consFst d (readDoubleSt .text rest)
      | none => none
  | .hex 0 _, _ :: _ => none
  | .hex (n + 1) acc, c :: rest =>
    match hexVal? c with
    | none => none
    | some v =>
      if n = 0 then consFst (Char.ofNat (acc * 16 + v)) (readDoubleSt .text rest)
      else readDoubleSt (.hex n (acc * 16 + v)) rest

/-- Body of a one-line double-quoted scalar (after the opening `"`): decoded content and the text
after the closing `"`. -/
def readDouble (body : List Char) : Option (List Char × List Char) := readDoubleSt .text body

/-- One-line single-quoted scalar body ([117]–[125]); the flag says the previous character was a
`'` that is either the first half of `''` or the closing quote. -/
def readSingleSt : Bool → List Char → Option (List Char × List Char)
  | false, [] => none
  | true, [] => some ([], [])
  | false, c :: rest =>
    if c = '\'' then readSingleSt true rest
    else if isBreak c then none
    else consFst c (readSingleSt false rest)
  | true, c :: rest =>
    if c = '\'' then consFst '\'' (readSingleSt false rest)
    else some ([], c :: rest)

/-- Body of a one-line single-quoted scalar (after the opening `'`). -/
def readSingle (body : List Char) : Option (List Char × List Char) := readSingleSt false body

/-! ## Literal block scalars (§8.1.1, §8.1.2): content lines -/

def leadingSpaces : List Char → Nat
  | c :: r => if c = ' ' then leadingSpaces r + 1 else 0
  | [] => 0

/-- A line of spaces only (an `l-empty` line, when not longer than the content indentation). -/
def isBlankLine (l : List Char) : Bool := l.all (fun c => c = ' ')

/-- [8.1.1.1] auto-detected content indentation: that of the first non-blank line. -/
def autoIndent : List (List Char) → Option Nat
  | [] => none
  | l :: ls => if isBlankLine l then autoIndent ls else some (leadingSpaces l)

/-- One physical line of a block scalar at content indentation `ci`: its content. -/
def stripContent (ci : Nat) (l : List Char) : Option (List Char) :=
  if isBlankLine l && l.length ≤ ci then some []
  else if ci ≤ leadingSpaces l then some (l.drop ci) else none

/-- All lines at content indentation `ci`, or `none` if one of them is indented less. -/
def stripAll (ci : Nat) : List (List Char) → Option (List (List Char))
  | [] => some []
  | l :: ls =>
    match stripContent ci l, stripAll ci ls with
    | some c, some cs => some (c :: cs)
    | _, _ => none

/-- The content lines of a literal block scalar whose parent is indented `n`, with indentation
indicator `ind` (`none`: auto-detect), from the physical lines after the header. -/
def readLiteralLines (n : Nat) (ind : Option Nat) (lines : List (List Char)) : Option (List (List Char)) :=
  match (match ind with | some d => some (n + d) | none => autoIndent lines) with
  | none => some (lines.map fun _ => [])
  | some ci => stripAll ci lines

/-- The scalar denoted by the one-line text `t` written in context `ctx`, for a reader that
resolves plain scalars with `resolve` (`coreResolve`, or the loader's resolver).  `none`: `t` is
not a single scalar token there (it denotes something else, or nothing). -/
def loadScalar (resolve : List Char → Scalar) (ctx : Ctx) (t : List Char) : Option Scalar :=
  match t with
  | [] => none
  | c :: body =>
    if c = '"' then
      match readDouble body with
      | some (s, []) => some (.str s)
      | _ => none
    else if c = '\'' then
      match readSingle body with
      | some (s, []) => some (.str s)
      | _ => none
    else if plainSafe ctx t then some (resolve t) else none

/-- The *text* a mapping key contributes to the JSON view of the document (`-o json` prints every
scalar key by its content text, whatever it resolves to).  A plain `<<` is the merge key, not an
entry. -/
def loadKeyText (ctx : Ctx) (t : List Char) : Option (List Char) :=
  match t with
  | [] => none
  | c :: body =>
    if c = '"' then
      match readDouble body with
      | some (s, []) => some s
      | _ => none
    else if c = '\'' then
      match readSingle body with
      | some (s, []) => some s
      | _ => none
    else if plainSafe ctx t && t ≠ "<<".toList then some t else none

end SV.Yaml
