/-
Spec/YamlLoad — reference loader `loadRef` for the YAML subset of DESIGN §5 C14.  Import-free.

Pipeline:  bytes --UTF-8--> chars --normBreaks--> chars with LF only --lines--> `List Line`
           --splitDocs--> per document lines --parseBlock--> `Node` (syntax tree with anchors,
           aliases and unresolved scalars) --resolve--> `Tree`.

The loader follows the YAML 1.2.2 productions for the subset it accepts (block collections by
indentation, compact nested collections, single-line flow collections, single-line plain / quoted
scalars, literal and folded block scalars with chomping and explicit indentation, comments, anchors
and aliases, `---` / `...`).  Everything else (tags, directives, explicit `?` keys, multi-line flow
or quoted or plain scalars, tabs as separation, non-string keys, floats) is rejected with an error
naming the construct, never silently misread.
-/
import SuccinctlyVerif.Spec.YamlTree
namespace SV.YamlRef

inductive Err where
  | utf8
  | unsupported (what : String)
  | syntax (what : String)
  | fuel
  deriving Repr, DecidableEq

abbrev R := Except Err

/-- Syntax tree. -/
inductive Node where
  /-- `plain = true`: subject to core-schema resolution -/
  | scalar (plain : Bool) (text : Str)
  | seq (xs : List Node)
  | map (kvs : List (Node × Node))
  | alias (name : Str)
  | anchored (name : Str) (n : Node)

/-! ## Line structure -/

/-- CRLF and lone CR become LF (YAML 1.2.2 §5.4: all three are line breaks, normalised to LF). -/
def normBreaks : Str → Str
  | [] => []
  | '\r' :: '\n' :: rest => '\n' :: normBreaks rest
  | '\r' :: rest => '\n' :: normBreaks rest
  | c :: rest => c :: normBreaks rest

structure Line where
  ind : Nat
  txt : Str      -- content after the leading spaces
  deriving Repr, DecidableEq

def mkLine (raw : Str) : Line := ⟨(raw.takeWhile (· == ' ')).length, raw.dropWhile (· == ' ')⟩

def Line.raw (l : Line) : Str := spaces l.ind ++ l.txt

/-- Lines of a text; a final line break does not open another line. -/
def linesOf (s : Str) : List Line :=
  let ls := splitNl s
  (if ls.getLast? = some [] then ls.dropLast else ls).map mkLine

def dropSpaces (s : Str) : Str := s.dropWhile (· == ' ')

def trimRight (s : Str) : Str := (s.reverse.dropWhile (· == ' ')).reverse

/-- Rest of a line is empty or a comment (a comment must be preceded by white space or start the
text). -/
def isBlankOrComment (s : Str) : Bool :=
  match dropSpaces s with
  | [] => true
  | '#' :: _ => s.isEmpty || s.head? == some ' ' || true
  | _ => false

/-- After a complete token: only spaces, optionally followed by ` #…`. -/
def restOk (s : Str) : Bool :=
  match s with
  | [] => true
  | ' ' :: _ => isBlankOrComment s
  | _ => false

def Line.isFiller (l : Line) : Bool := l.txt.isEmpty || l.txt.head? == some '#'

/-! ## Quoted scalars (single line) -/

def hexVal? (ds : Str) : Option Nat :=
  if ds.all isHexDigit then some (natOfDigits 16 ds) else none

def charOfNat? (n : Nat) : Option Char :=
  if h : n.isValidChar then some ⟨n.toUInt32, by
    -- `Nat.isValidChar n` bounds `n` below 2^32, so `toUInt32` is exact
    have : n < 4294967296 := by
      rcases h with h | h
      · omega
      · omega
    simpa [Nat.toUInt32, UInt32.isValidChar, UInt32.toNat_ofNat', Nat.mod_eq_of_lt this] using h⟩
  else none

def simpleEscape? (c : Char) : Option Char :=
  match c with
  | '0' => some (Char.ofNat 0) | 'a' => some (Char.ofNat 7) | 'b' => some (Char.ofNat 8)
  | 't' => some '\t' | '\t' => some '\t' | 'n' => some '\n' | 'v' => some (Char.ofNat 0xB)
  | 'f' => some (Char.ofNat 0xC) | 'r' => some '\r' | 'e' => some (Char.ofNat 0x1B)
  | ' ' => some ' ' | '"' => some '"' | '/' => some '/' | '\\' => some '\\'
  | 'N' => some (Char.ofNat 0x85) | '_' => some (Char.ofNat 0xA0)
  | 'L' => some (Char.ofNat 0x2028) | 'P' => some (Char.ofNat 0x2029)
  | _ => none

def hexChar? (ds : Str) : Option Char := (hexVal? ds).bind charOfNat?

def consR (c : Char) (r : R (Str × Str)) : R (Str × Str) := r.map fun (s, rest) => (c :: s, rest)

/-- Body of a double-quoted scalar, after the opening quote: decoded text and the input after the
closing quote. -/
def parseDQ : Str → R (Str × Str)
  | [] => .error (.unsupported "multi-line double-quoted scalar (or unclosed quote)")
  | '"' :: rest => .ok ([], rest)
  | '\n' :: _ => .error (.unsupported "multi-line double-quoted scalar")
  | ['\\'] => .error (.unsupported "multi-line double-quoted scalar (or unclosed quote)")
  | '\\' :: 'x' :: a :: b :: rest =>
    match hexChar? [a, b] with
    | some c => consR c (parseDQ rest)
    | none => .error (.syntax "bad hex escape")
  | '\\' :: 'u' :: a :: b :: c :: d :: rest =>
    match hexChar? [a, b, c, d] with
    | some ch => consR ch (parseDQ rest)
    | none => .error (.syntax "bad hex escape")
  | '\\' :: 'U' :: a :: b :: c :: d :: e :: f :: g :: h :: rest =>
    match hexChar? [a, b, c, d, e, f, g, h] with
    | some ch => consR ch (parseDQ rest)
    | none => .error (.syntax "bad hex escape")
  | '\\' :: e :: rest =>
    match simpleEscape? e with
    | some c => consR c (parseDQ rest)
    | none => .error (.syntax "unknown or short escape")
  | c :: rest => consR c (parseDQ rest)

/-- Body of a single-quoted scalar, after the opening quote. -/
def parseSQ : Str → R (Str × Str)
  | [] => .error (.unsupported "multi-line single-quoted scalar (or unclosed quote)")
  | '\n' :: _ => .error (.unsupported "multi-line single-quoted scalar")
  | '\'' :: '\'' :: rest => consR '\'' (parseSQ rest)
  | '\'' :: rest => .ok ([], rest)
  | c :: rest => consR c (parseSQ rest)

/-! ## Plain scalars (single line) -/

/-- Length of the plain scalar at the head of `s`: it ends before `": "` / a final `:` / `" #"`, and in
flow context before a flow indicator or a `:` followed by one. -/
def plainLen (flow : Bool) : Str → Nat
  | [] => 0
  | [c] => if c == ':' || (flow && isFlowInd c) then 0 else 1
  | c :: d :: rest =>
    if flow && isFlowInd c then 0
    else if c == ':' && (d == ' ' || (flow && isFlowInd d)) then 0
    else if c == ' ' && d == '#' then 0
    else 1 + plainLen flow (d :: rest)

/-- Plain scalar at the head of `s` (first character already known not to be a space): text with
trailing spaces removed, and the remaining input. -/
def parsePlain (flow : Bool) (s : Str) : R (Str × Str) :=
  if !plainFirstOk flow s then
    .error (match s.head? with
      | some '!' => .unsupported "tag" | some '%' => .unsupported "directive"
      | some '?' => .unsupported "explicit key" | some '\t' => .unsupported "tab"
      | some '#' => .unsupported "comment inside a flow collection"
      | _ => .syntax "indicator cannot start a plain scalar")
  else
    let n := plainLen flow s
    let t := trimRight (s.take n)
    if t.any (· == '\t') then .error (.unsupported "tab") else .ok (t, s.drop n)

def isAnchorChar (c : Char) : Bool := c.isAlphanum || c == '_' || c == '-'

/-! ## Flow nodes (single line) -/

mutual
/-- Flow node at the head of `s` (leading spaces skipped). -/
def parseFlow : Nat → Str → R (Node × Str)
  | 0, _ => .error .fuel
  | fuel + 1, s =>
    match dropSpaces s with
    | [] => .error (.unsupported "multi-line flow collection")
    | '[' :: rest => parseFlowSeq fuel rest []
    | '{' :: rest => parseFlowMap fuel rest []
    | '"' :: rest => (parseDQ rest).map fun (t, r) => (.scalar false t, r)
    | '\'' :: rest => (parseSQ rest).map fun (t, r) => (.scalar false t, r)
    | '*' :: rest =>
      let a := rest.takeWhile isAnchorChar
      if a.isEmpty then .error (.syntax "alias name") else .ok (.alias a, rest.dropWhile isAnchorChar)
    | '&' :: rest =>
      let a := rest.takeWhile isAnchorChar
      if a.isEmpty then .error (.syntax "anchor name")
      else match rest.dropWhile isAnchorChar with
        | ' ' :: rest' => (parseFlow fuel rest').map fun (n, r) => (.anchored a n, r)
        | _ => .error (.unsupported "anchor without node in flow context")
    | s' => (parsePlain true s').map fun (t, r) => (.scalar true t, r)
/-- Items of a flow sequence after `[` or after a comma. -/
def parseFlowSeq : Nat → Str → List Node → R (Node × Str)
  | 0, _, _ => .error .fuel
  | fuel + 1, s, acc =>
    match dropSpaces s with
    | ']' :: rest => .ok (.seq acc.reverse, rest)
    | s' =>
      match parseFlow fuel s' with
      | .error e => .error e
      | .ok (n, r) => parseFlowSeqTail fuel r (n :: acc)
/-- After an item of a flow sequence: `,` or `]`. -/
def parseFlowSeqTail : Nat → Str → List Node → R (Node × Str)
  | 0, _, _ => .error .fuel
  | fuel + 1, r, acc =>
    match dropSpaces r with
    | ',' :: r' => parseFlowSeq fuel r' acc
    | ']' :: r' => .ok (.seq acc.reverse, r')
    | ':' :: _ => .error (.unsupported "single-pair mapping in flow sequence")
    | [] => .error (.unsupported "multi-line flow collection")
    | '#' :: _ => .error (.unsupported "comment inside a flow collection")
    | _ => .error (.syntax "expected , or ] in flow sequence")
def parseFlowMap : Nat → Str → List (Node × Node) → R (Node × Str)
  | 0, _, _ => .error .fuel
  | fuel + 1, s, acc =>
    match dropSpaces s with
    | '}' :: rest => .ok (.map acc.reverse, rest)
    | s' =>
      match parseFlow fuel s' with
      | .error e => .error e
      | .ok (k, r) =>
        match dropSpaces r with
        | ':' :: r' =>
          (match dropSpaces r' with
          | ',' :: _ => parseFlowMapTail fuel (dropSpaces r') ((k, .scalar true []) :: acc)
          | '}' :: _ => parseFlowMapTail fuel (dropSpaces r') ((k, .scalar true []) :: acc)
          | _ =>
            match parseFlow fuel r' with
            | .error e => .error e
            | .ok (v, r'') => parseFlowMapTail fuel r'' ((k, v) :: acc))
        | _ => parseFlowMapTail fuel r ((k, .scalar true []) :: acc)
/-- After an entry of a flow mapping: `,` or `}`. -/
def parseFlowMapTail : Nat → Str → List (Node × Node) → R (Node × Str)
  | 0, _, _ => .error .fuel
  | fuel + 1, r, acc =>
    match dropSpaces r with
    | ',' :: r' => parseFlowMap fuel r' acc
    | '}' :: r' => .ok (.map acc.reverse, r')
    | [] => .error (.unsupported "multi-line flow collection")
    | '#' :: _ => .error (.unsupported "comment inside a flow collection")
    | _ => .error (.syntax "expected : , or } in flow mapping")
end

/-! ## Block scalars -/

structure BsHeader where
  folded : Bool
  chomp : Chomp
  indent : Option Nat
  deriving Repr

/-- Header after `|` / `>`: indentation digit and chomping indicator in either order, then only a
comment. -/
def parseBsHeader (folded : Bool) (s : Str) : R BsHeader :=
  let chompOf (c : Char) : Option Chomp := if c == '-' then some .strip else if c == '+' then some .keep else none
  let isInd (c : Char) : Bool := '1' ≤ c && c ≤ '9'
  let fin (ch : Chomp) (ind : Option Nat) (rest : Str) : R BsHeader :=
    if restOk rest then .ok ⟨folded, ch, ind⟩ else .error (.syntax "content after block scalar header")
  match s with
  | c :: d :: rest =>
    if isInd c then
      match chompOf d with
      | some ch => fin ch (some (digitVal c)) rest
      | none => fin .clip (some (digitVal c)) (d :: rest)
    else match chompOf c with
      | some ch => if isInd d then fin ch (some (digitVal d)) rest else fin ch none (d :: rest)
      | none => fin .clip none s
  | [c] =>
    if isInd c then fin .clip (some (digitVal c)) []
    else match chompOf c with
      | some ch => fin ch none []
      | none => fin .clip none s
  | [] => fin .clip none []

/-- Lines belonging to a block scalar with content indentation `ci`: blank lines and lines indented
at least `ci`. -/
def takeBsLines (ci : Nat) : List Line → List Line × List Line
  | [] => ([], [])
  | l :: ls =>
    if l.txt.isEmpty || l.ind ≥ ci then
      let (a, b) := takeBsLines ci ls
      (l :: a, b)
    else ([], l :: ls)

/-- Content of one block-scalar line after removing `ci` columns of indentation. -/
def bsLineText (ci : Nat) (l : Line) : Str :=
  if l.txt.isEmpty then spaces (l.ind - ci) else spaces (l.ind - ci) ++ l.txt

def newlines (n : Nat) : Str := List.replicate n '\n'

/-- Final line breaks according to the chomping indicator: `content` is the text up to the last
non-empty line (without its break), `trailing` the number of empty lines after it. -/
def chompText (ch : Chomp) (hasContent : Bool) (trailing : Nat) : Str :=
  match ch with
  | .strip => []
  | .clip => if hasContent then ['\n'] else []
  | .keep => if hasContent then newlines (trailing + 1) else newlines trailing

def literalText (ch : Chomp) (ls : List Str) : Str :=
  let body := (ls.reverse.dropWhile (·.isEmpty)).reverse
  let trailing := ls.length - body.length
  (['\n'].intercalate body) ++ chompText ch (!body.isEmpty) trailing

def isSpaced (l : Str) : Bool := l.head? == some ' ' || l.head? == some '\t'

/-- Line folding (§8.1.3): `go prevSpaced pending ls` — `pending` = number of empty lines since the
previous non-empty line. -/
def foldGo (prevSpaced : Bool) (pending : Nat) : List Str → Str
  | [] => []
  | l :: ls =>
    if l.isEmpty then foldGo prevSpaced (pending + 1) ls
    else
      let sp := isSpaced l
      (if prevSpaced || sp then newlines (pending + 1)
       else if pending = 0 then [' '] else newlines pending) ++ l ++ foldGo sp 0 ls

def foldedText (ch : Chomp) (ls : List Str) : Str :=
  let body := (ls.reverse.dropWhile (·.isEmpty)).reverse
  let trailing := ls.length - body.length
  let lead := body.takeWhile (·.isEmpty)
  (match body.dropWhile (·.isEmpty) with
   | [] => []
   | l :: rest => newlines lead.length ++ l ++ foldGo (isSpaced l) 0 rest)
    ++ chompText ch (!body.isEmpty) trailing

/-- Read the body of a block scalar; `pn` = minimal indentation of a child of the current entry. -/
def readBlockScalar (h : BsHeader) (pn : Nat) (ls : List Line) : R (Str × List Line) :=
  let firstContent := ls.find? (fun l => !l.txt.isEmpty)
  let ci : R Nat :=
    match h.indent with
    | some d => .ok (pn + d - 1)
    | none =>
      match firstContent with
      | some l => .ok (if l.ind ≥ pn then l.ind else pn)   -- less indented: the scalar is empty
      | none => .ok (ls.foldl (fun a l => if l.txt.isEmpty then max a l.ind else a) pn)   -- only empty lines: the longest decides
  match ci with
  | .error e => .error e
  | .ok ci =>
    let (mine, rest) := takeBsLines ci ls
    -- leading empty lines must not be indented deeper than the content (auto-detected indentation)
    if h.indent.isNone && firstContent.isSome && (mine.takeWhile (·.txt.isEmpty)).any (fun l => l.ind > ci) then
      .error (.syntax "leading empty line of block scalar is over-indented")
    else if mine.any (fun l => l.txt.head? == some '\t' && l.ind < ci) then .error (.unsupported "tab")
    else
      let texts := mine.map (bsLineText ci)
      .ok (if h.folded then foldedText h.chomp texts else literalText h.chomp texts, rest)

/-! ## Block structure -/

/-- Does the content of a line start a block sequence entry? -/
def isDash (t : Str) : Bool :=
  match t with
  | ['-'] => true
  | '-' :: ' ' :: _ => true
  | _ => false

/-- Split `key: rest` for an implicit single-line key; `none` if the text is not a mapping entry. -/
def splitKey (t : Str) : R (Option (Node × Str)) :=
  let afterKey (k : Node) (r : Str) : R (Option (Node × Str)) :=
    match dropSpaces r with
    | [':'] => .ok (some (k, []))
    | ':' :: ' ' :: r' => .ok (some (k, ' ' :: r'))
    | _ => .ok none
  match t with
  | '"' :: rest =>
    match parseDQ rest with
    | .ok (k, r) => afterKey (.scalar false k) r
    | .error e => .error e
  | '\'' :: rest =>
    match parseSQ rest with
    | .ok (k, r) => afterKey (.scalar false k) r
    | .error e => .error e
  | '[' :: _ => .ok none
  | '{' :: _ => .ok none
  | '&' :: _ => .ok none
  | '*' :: _ => .ok none
  | '|' :: _ => .ok none
  | '>' :: _ => .ok none
  | '#' :: _ => .ok none
  | _ =>
    let n := plainLen false t
    match t.drop n with
    | [':'] => (parsePlain false t).map fun (k, _) => some (.scalar true k, [])
    | ':' :: ' ' :: r' => (parsePlain false t).map fun (k, _) => some (.scalar true k, ' ' :: r')
    | _ => .ok none

/-- Skip blank and comment lines. -/
def skipFill : List Line → List Line
  | [] => []
  | l :: ls => if l.isFiller then skipFill ls else l :: ls

/-- Single-line node (scalar, flow collection or alias) filling the rest of a line. -/
def parseInline (t : Str) : R Node :=
  match t with
  | '"' :: rest =>
    match parseDQ rest with
    | .ok (s, r) => if restOk r then .ok (.scalar false s) else .error (.syntax "content after quoted scalar")
    | .error e => .error e
  | '\'' :: rest =>
    match parseSQ rest with
    | .ok (s, r) => if restOk r then .ok (.scalar false s) else .error (.syntax "content after quoted scalar")
    | .error e => .error e
  | '[' :: _ =>
    match parseFlow (4 * t.length + 4) t with
    | .ok (n, r) => if restOk r then .ok n else .error (.syntax "content after flow collection")
    | .error e => .error e
  | '{' :: _ =>
    match parseFlow (4 * t.length + 4) t with
    | .ok (n, r) => if restOk r then .ok n else .error (.syntax "content after flow collection")
    | .error e => .error e
  | '*' :: rest =>
    let a := rest.takeWhile isAnchorChar
    if a.isEmpty then .error (.syntax "alias name")
    else if restOk (rest.dropWhile isAnchorChar) then .ok (.alias a) else .error (.unsupported "alias as mapping key or content after alias")
  | _ =>
    match parsePlain false t with
    | .ok (s, r) =>
      if restOk r then .ok (.scalar true s)
      else if r.head? == some ':' then .error (.syntax "mapping entry not allowed here")
      else .error (.syntax "content after plain scalar")
    | .error e => .error e

mutual
/-- Node that follows an indicator on the same line.  `t` = rest of the line, `col` = its column,
`pn` = minimal indentation of a child on following lines, `compactOk`: a nested block collection may
start on this line (after `- `), `seqSame`: a block sequence may sit at indentation `pn - 1`
(value of a mapping key). -/
def parseAfter : Nat → (t : Str) → (col pn : Nat) → (compactOk seqSame : Bool) → List Line → R (Node × List Line)
  | 0, _, _, _, _, _, _ => .error .fuel
  | fuel + 1, t, col, pn, compactOk, seqSame, ls =>
    let gap := (t.takeWhile (· == ' ')).length
    let c := dropSpaces t
    if c.head? == some '\t' then .error (.unsupported "tab") else
    if c.isEmpty || (c.head? == some '#' && (gap > 0 || col = 0)) then
      -- nothing on this line: the node is on the following lines, or null
      parseBlock fuel pn seqSame ls
    else match c with
    | '|' :: h =>
      match parseBsHeader false h with
      | .ok hd => (readBlockScalar hd pn ls).map fun (s, r) => (.scalar false s, r)
      | .error e => .error e
    | '>' :: h =>
      match parseBsHeader true h with
      | .ok hd => (readBlockScalar hd pn ls).map fun (s, r) => (.scalar false s, r)
      | .error e => .error e
    | '&' :: rest =>
      let a := rest.takeWhile isAnchorChar
      let r := rest.dropWhile isAnchorChar
      if a.isEmpty then .error (.unsupported "anchor name outside [A-Za-z0-9_-]")
      else if !(r.isEmpty || r.head? == some ' ') then .error (.unsupported "anchor name outside [A-Za-z0-9_-]")
      else
        match splitKey (dropSpaces r) with
        | .error e => .error e
        | .ok (some _) => .error (.unsupported "anchor on an implicit key")
        | .ok none =>
          if isDash (dropSpaces r) then .error (.syntax "sequence entry after anchor")
          else (parseAfter fuel r (col + gap + 1 + a.length) pn false seqSame ls).map fun (n, l) => (.anchored a n, l)
    | _ =>
      if isDash c then
        if compactOk then parseBlock fuel (col + gap) false (⟨col + gap, c⟩ :: ls)
        else .error (.syntax "block sequence entry not allowed here")
      else
        match splitKey c with
        | .error e => .error e
        | .ok (some _) =>
          if compactOk then parseBlock fuel (col + gap) false (⟨col + gap, c⟩ :: ls)
          else .error (.syntax "mapping entry not allowed here")
        | .ok none => (parseInline c).map fun n => (n, ls)
/-- Block node starting on the next non-filler line, which must be indented at least `pn`
(`seqSame`: a sequence entry at `pn - 1` is accepted too); if there is none the node is null. -/
def parseBlock : Nat → (pn : Nat) → (seqSame : Bool) → List Line → R (Node × List Line)
  | 0, _, _, _ => .error .fuel
  | fuel + 1, pn, seqSame, ls =>
    match skipFill ls with
    | [] => .ok (.scalar true [], [])
    | l :: rest =>
      if l.txt.head? == some '\t' then .error (.unsupported "tab") else
      if l.ind + 1 = pn && seqSame && isDash l.txt then parseSeq fuel l.ind (l :: rest) []
      else if l.ind < pn then .ok (.scalar true [], l :: rest)
      else if isDash l.txt then parseSeq fuel l.ind (l :: rest) []
      else
        match splitKey l.txt with
        | .error e => .error e
        | .ok (some _) => parseMap fuel l.ind (l :: rest) []
        | .ok none =>
          -- a node on its own line: scalar / flow / alias / anchor / block scalar header
          match parseAfter fuel l.txt l.ind pn false false rest with
          | .error e => .error e
          | .ok (n, rest') =>
            -- the node must end the block: the next content line is less indented
            match skipFill rest' with
            | [] => .ok (n, rest')
            | l' :: _ => if l'.ind < pn || pn = 0 then .ok (n, rest') else .error (.unsupported "multi-line plain scalar or bad indentation")
/-- Entries of a block sequence at indentation `n`. -/
def parseSeq : Nat → (n : Nat) → List Line → List Node → R (Node × List Line)
  | 0, _, _, _ => .error .fuel
  | fuel + 1, n, ls, acc =>
    match skipFill ls with
    | [] => .ok (.seq acc.reverse, [])
    | l :: rest =>
      if l.ind < n then .ok (.seq acc.reverse, l :: rest)
      else if l.ind > n then .error (.unsupported "multi-line plain scalar or bad indentation (sequence)")
      else if !isDash l.txt then
        if l.txt.head? == some '\t' then .error (.unsupported "tab") else .ok (.seq acc.reverse, l :: rest)
      else
        match parseAfter fuel (l.txt.drop 1) (n + 1) (n + 1) true false rest with
        | .error e => .error e
        | .ok (x, rest') => parseSeq fuel n rest' (x :: acc)
/-- Entries of a block mapping at indentation `n`. -/
def parseMap : Nat → (n : Nat) → List Line → List (Node × Node) → R (Node × List Line)
  | 0, _, _, _ => .error .fuel
  | fuel + 1, n, ls, acc =>
    match skipFill ls with
    | [] => .ok (.map acc.reverse, [])
    | l :: rest =>
      if l.ind < n then .ok (.map acc.reverse, l :: rest)
      else if l.ind > n then .error (.unsupported "multi-line plain scalar or bad indentation (mapping)")
      else
        match splitKey l.txt with
        | .error e => .error e
        | .ok none =>
          if isDash l.txt then .ok (.map acc.reverse, l :: rest)   -- e.g. the enclosing sequence continues
          else .error (.unsupported "line is not a mapping entry (multi-line scalar, explicit key, tag …)")
        | .ok (some (k, r)) =>
          match parseAfter fuel r (n + (l.txt.length - r.length)) (n + 1) false true rest with
          | .error e => .error e
          | .ok (v, rest') => parseMap fuel n rest' ((k, v) :: acc)
end

/-! ## Documents -/

/-- `---` or `...` at column 0 followed by space / end of line. -/
def isMarker (m : Str) (l : Line) : Bool :=
  l.ind = 0 && m.isPrefixOf l.txt && ((l.txt.drop 3).isEmpty || (l.txt.drop 3).head? == some ' ')

def isDocStart (l : Line) : Bool := isMarker "---".toList l
def isDocEnd (l : Line) : Bool := isMarker "...".toList l

/-- Lines up to the next document marker. -/
def takeDoc : List Line → List Line × List Line
  | [] => ([], [])
  | l :: ls =>
    if isDocStart l || isDocEnd l then ([], l :: ls)
    else let (a, b) := takeDoc ls; (l :: a, b)

def fuelOf (ls : List Line) : Nat := (ls.foldl (fun a l => a + l.txt.length + 2) 0) * 4 + 8

/-- One document body: lines (first line possibly the rest of the `---` line at a virtual column). -/
def parseDocBody (first : Option Str) (ls : List Line) : R Node :=
  let fuel := fuelOf ls + (first.getD []).length * 4
  let r := match first with
    | some t => parseAfter fuel t 3 0 false false ls
    | none => parseBlock fuel 0 false ls
  match r with
  | .error e => .error e
  | .ok (n, rest) =>
    if (skipFill rest).isEmpty then .ok n else .error (.unsupported "multi-line plain scalar or content after the root node")

/-- Split a stream into documents.  `open_` = a document is open (a `---` was seen or content
started). -/
def parseDocs : Nat → List Line → R (List Node)
  | 0, _ => .error .fuel
  | fuel + 1, ls =>
    match skipFill ls with
    | [] => .ok []
    | l :: rest =>
      if l.txt.head? == some '%' && l.ind = 0 then .error (.unsupported "directive") else
      if isDocEnd l then
        if restOk (l.txt.drop 3) then parseDocs fuel rest else .error (.syntax "content after ...")
      else if isDocStart l then
        let (body, rest') := takeDoc rest
        match parseDocBody (some (l.txt.drop 3)) body with
        | .error e => .error e
        | .ok n => (parseDocs fuel rest').map (n :: ·)
      else
        let (body, rest') := takeDoc (l :: rest)
        match parseDocBody none body with
        | .error e => .error e
        | .ok n =>
          -- a bare document must be closed by `...` or `---` before the next one
          (parseDocs fuel rest').map (n :: ·)

/-! ## Resolution: anchors, aliases, core schema -/

abbrev Env := List (Str × Tree)

def resolveScalar (plain : Bool) (t : Str) : R Tree :=
  if !plain then .ok (.str t)
  else match resolvePlain t with
    | .null => .ok .null
    | .bool b => .ok (.bool b)
    | .int i => .ok (.int i)
    | .float => .error (.unsupported "float")
    | .str => .ok (.str t)

def resolveKey : Node → R Str
  | .scalar plain t =>
    if plain && resolvePlain t != .str then .error (.unsupported "non-string key") else .ok t
  | _ => .error (.unsupported "non-scalar key")

mutual
def Node.resolve (env : Env) : Node → R (Tree × Env)
  | .scalar p t => (resolveScalar p t).map (·, env)
  | .alias a =>
    match env.lookup a with
    | some t => .ok (t, env)
    | none => .error (.syntax "unknown anchor")
  | .anchored a n =>
    -- the anchor belongs to the node's start: anchors defined inside the node are more recent
    match n.resolve env with
    | .ok (t, env') => .ok (t, env'.take (env'.length - env.length) ++ (a, t) :: env)
    | .error e => .error e
  | .seq xs => (resolveList env xs).map fun (ts, e) => (.seq ts, e)
  | .map kvs => (resolveKVs env kvs).map fun (ts, e) => (.map ts, e)
def resolveList (env : Env) : List Node → R (List Tree × Env)
  | [] => .ok ([], env)
  | x :: xs =>
    match x.resolve env with
    | .error e => .error e
    | .ok (t, env') => (resolveList env' xs).map fun (ts, e) => (t :: ts, e)
def resolveKVs (env : Env) : List (Node × Node) → R (List (Str × Tree) × Env)
  | [] => .ok ([], env)
  | (k, v) :: xs =>
    match resolveKey k with
    | .error e => .error e
    | .ok ks =>
      match v.resolve env with
      | .error e => .error e
      | .ok (t, env') => (resolveKVs env' xs).map fun (ts, e) => ((ks, t) :: ts, e)
end

def resolveDocs : List Node → R (List Tree)
  | [] => .ok []
  | n :: ns =>
    match n.resolve [] with
    | .error e => .error e
    | .ok (t, _) => (resolveDocs ns).map (t :: ·)

/-- Byte order mark at the start of the stream. -/
def stripBom (s : Str) : Str :=
  match s with
  | '﻿' :: r => r
  | _ => s

/-- Loader on lines. -/
def loadLines (ls : List Line) : R (List Tree) :=
  match parseDocs (ls.length + 2) ls with
  | .error e => .error e
  | .ok ns => resolveDocs ns

/-- Loader on characters. -/
def loadChars (s : Str) : R (List Tree) := loadLines (linesOf (normBreaks (stripBom s)))

/-- The reference loader. -/
def loadRef (b : ByteArray) : R (List Tree) :=
  match b.utf8Decode? with
  | none => .error .utf8
  | some cs => loadChars cs.toList

end SV.YamlRef
