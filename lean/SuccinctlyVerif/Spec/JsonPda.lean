/-
Spec/JsonPda — executable reference recogniser for `Spec/Json.Valid`: a byte-at-a-time pushdown
automaton whose transition function is *defined exactly on the viable prefixes*:

  `viableB max p`  – the automaton survives `p`            (intended: ↔ `Viable max p`)
  `acceptB max b`  – … and ends in an accepting state      (intended: ↔ `Valid max b`)
  `lvp max b`      – length of the longest viable prefix of `b`
  `complete s`     – a constructive completion of any reachable state (closes the string, finishes
                     the number / keyword / escape, closes every open container).

It is deliberately structured differently from the validator under test (no recursion, no
look-ahead, one byte per step, explicit stack) so that it serves as an independent oracle.
-/
import SuccinctlyVerif.Spec.Json
namespace SV.Json.Pda
open SV.Json

/-- Lexical / syntactic position. `key` = the string being read is an object key. -/
inductive Lex where
  | top | after
  | arrStart | arrNext | objStart | objKey | objColon | objVal
  | str (key : Bool)
  | esc (key : Bool)
  /-- `n` hex digits (0–3) of a first `\u` escape read, value so far `v` -/
  | uni (key : Bool) (n : Nat) (v : Nat)
  /-- complete high-surrogate escape read: `\` required -/
  | hiDone (key : Bool)
  /-- … and `\` read: `u` required -/
  | hiBs (key : Bool)
  /-- `n` hex digits (0–3) of the low-surrogate escape read -/
  | lo (key : Bool) (n : Nat)
  /-- `n ≥ 1` continuation bytes outstanding, the next one within `[lo, hi]` -/
  | utf8 (key : Bool) (n : Nat) (lo hi : Byte)
  | minus | zero | int | dot | frac | e | esign | exp
  /-- inside a keyword, these bytes still expected -/
  | kw (rest : Bytes)
  deriving DecidableEq, Repr

/-- Automaton state: position + stack of open containers (`true` = array, innermost first). -/
structure PState where
  lex : Lex
  stack : List Bool
  deriving DecidableEq, Repr

def init : PState := ⟨.top, []⟩

def startValue (max : Nat) (stack : List Bool) (b : Byte) : Option PState :=
  if b = 0x5B then (if stack.length ≥ max then none else some ⟨.arrStart, true :: stack⟩)
  else if b = 0x7B then (if stack.length ≥ max then none else some ⟨.objStart, false :: stack⟩)
  else if b = 0x22 then some ⟨.str false, stack⟩
  else if b = 0x2D then some ⟨.minus, stack⟩
  else if b = 0x30 then some ⟨.zero, stack⟩
  else if isDigit19 b then some ⟨.int, stack⟩
  else if b = 0x74 then some ⟨.kw [0x72, 0x75, 0x65], stack⟩
  else if b = 0x66 then some ⟨.kw [0x61, 0x6C, 0x73, 0x65], stack⟩
  else if b = 0x6E then some ⟨.kw [0x75, 0x6C, 0x6C], stack⟩
  else none

def afterStep (stack : List Bool) (b : Byte) : Option PState :=
  if isWs b then some ⟨.after, stack⟩ else
  match stack with
  | [] => none
  | true :: st =>
    if b = 0x2C then some ⟨.arrNext, stack⟩ else if b = 0x5D then some ⟨.after, st⟩ else none
  | false :: st =>
    if b = 0x2C then some ⟨.objKey, stack⟩ else if b = 0x7D then some ⟨.after, st⟩ else none

def strEnd (key : Bool) (stack : List Bool) : PState :=
  if key then ⟨.objColon, stack⟩ else ⟨.after, stack⟩

def isE (b : Byte) : Bool := b == 0x65 || b == 0x45

def step (max : Nat) (s : PState) (b : Byte) : Option PState :=
  let st := s.stack
  match s.lex with
  | .top => if isWs b then some s else startValue max st b
  | .after => afterStep st b
  | .arrStart =>
    if isWs b then some s else if b = 0x5D then some ⟨.after, st.tail⟩ else startValue max st b
  | .arrNext => if isWs b then some s else startValue max st b
  | .objStart =>
    if isWs b then some s else if b = 0x7D then some ⟨.after, st.tail⟩
    else if b = 0x22 then some ⟨.str true, st⟩ else none
  | .objKey => if isWs b then some s else if b = 0x22 then some ⟨.str true, st⟩ else none
  | .objColon => if isWs b then some s else if b = 0x3A then some ⟨.objVal, st⟩ else none
  | .objVal => if isWs b then some s else startValue max st b
  | .str k =>
    if b = 0x22 then some (strEnd k st)
    else if b = 0x5C then some ⟨.esc k, st⟩
    else if b < 0x20 then none
    else if b ≤ 0x7F then some s
    else if 0xC2 ≤ b ∧ b ≤ 0xDF then some ⟨.utf8 k 1 0x80 0xBF, st⟩
    else if b = 0xE0 then some ⟨.utf8 k 2 0xA0 0xBF, st⟩
    else if b = 0xED then some ⟨.utf8 k 2 0x80 0x9F, st⟩
    else if 0xE1 ≤ b ∧ b ≤ 0xEF then some ⟨.utf8 k 2 0x80 0xBF, st⟩
    else if b = 0xF0 then some ⟨.utf8 k 3 0x90 0xBF, st⟩
    else if 0xF1 ≤ b ∧ b ≤ 0xF3 then some ⟨.utf8 k 3 0x80 0xBF, st⟩
    else if b = 0xF4 then some ⟨.utf8 k 3 0x80 0x8F, st⟩
    else none
  | .utf8 k n lo hi =>
    if lo ≤ b ∧ b ≤ hi then (if n ≤ 1 then some ⟨.str k, st⟩ else some ⟨.utf8 k (n - 1) 0x80 0xBF, st⟩)
    else none
  | .esc k =>
    if isSimpleEsc b then some ⟨.str k, st⟩ else if b = 0x75 then some ⟨.uni k 0 0, st⟩ else none
  | .uni k n v =>
    if isHex b then
      let v' := v * 16 + hexVal b
      -- `\uDC..` – `\uDF..` can only be a lone low surrogate
      if n = 1 ∧ 0xDC ≤ v' ∧ v' ≤ 0xDF then none
      else if n ≥ 3 then (if isHighSurr v' then some ⟨.hiDone k, st⟩ else some ⟨.str k, st⟩)
      else some ⟨.uni k (n + 1) v', st⟩
    else none
  | .hiDone k => if b = 0x5C then some ⟨.hiBs k, st⟩ else none
  | .hiBs k => if b = 0x75 then some ⟨.lo k 0, st⟩ else none
  | .lo k n =>
    if n = 0 then (if b = 0x44 ∨ b = 0x64 then some ⟨.lo k 1, st⟩ else none)
    else if n = 1 then (if isHex b ∧ 0xC ≤ hexVal b then some ⟨.lo k 2, st⟩ else none)
    else if n = 2 then (if isHex b then some ⟨.lo k 3, st⟩ else none)
    else (if isHex b then some ⟨.str k, st⟩ else none)
  | .minus =>
    if b = 0x30 then some ⟨.zero, st⟩ else if isDigit19 b then some ⟨.int, st⟩ else none
  | .zero =>
    if b = 0x2E then some ⟨.dot, st⟩ else if isE b then some ⟨.e, st⟩ else afterStep st b
  | .int =>
    if isDigit b then some s else if b = 0x2E then some ⟨.dot, st⟩
    else if isE b then some ⟨.e, st⟩ else afterStep st b
  | .dot => if isDigit b then some ⟨.frac, st⟩ else none
  | .frac => if isDigit b then some s else if isE b then some ⟨.e, st⟩ else afterStep st b
  | .e =>
    if b = 0x2B ∨ b = 0x2D then some ⟨.esign, st⟩ else if isDigit b then some ⟨.exp, st⟩ else none
  | .esign => if isDigit b then some ⟨.exp, st⟩ else none
  | .exp => if isDigit b then some s else afterStep st b
  | .kw r =>
    match r with
    | [] => afterStep st b
    | c :: r' => if b = c then (if r'.isEmpty then some ⟨.after, st⟩ else some ⟨.kw r', st⟩) else none

def accepting (s : PState) : Bool :=
  s.stack.isEmpty && (match s.lex with
    | .after | .zero | .int | .frac | .exp => true
    | _ => false)

def runFrom (max : Nat) : PState → Bytes → Option PState
  | s, [] => some s
  | s, b :: r =>
    match step max s b with
    | none => none
    | some s' => runFrom max s' r

def lvpFrom (max : Nat) : PState → Bytes → Nat → Nat × PState
  | s, [], n => (n, s)
  | s, b :: r, n =>
    match step max s b with
    | none => (n, s)
    | some s' => lvpFrom max s' r (n + 1)

/-- The automaton accepts `b`. -/
def acceptB (max : Nat) (b : Bytes) : Bool :=
  match runFrom max init b with
  | some s => accepting s
  | none => false

/-- The automaton survives `p`. -/
def viableB (max : Nat) (p : Bytes) : Bool := (runFrom max init p).isSome

/-- Length of the longest prefix of `b` the automaton survives. -/
def lvp (max : Nat) (b : Bytes) : Nat := (lvpFrom max init b 0).1

/-- State reached at the end of the longest viable prefix. -/
def lvpState (max : Nat) (b : Bytes) : PState := (lvpFrom max init b 0).2

/-! ### Constructive completion -/

def closers : List Bool → Bytes
  | [] => []
  | true :: st => 0x5D :: closers st
  | false :: st => 0x7D :: closers st

/-- What closes a string and, for a key, supplies `:0`. -/
def strClose (key : Bool) : Bytes := if key then [0x22, 0x3A, 0x30] else [0x22]

def loRest : Bytes := [0x5C, 0x75, 0x44, 0x43, 0x30, 0x30]   -- \uDC00

/-- Bytes that complete the current token / position up to "after a value". -/
def completeLex : Lex → Bytes
  | .top | .arrNext | .objVal | .minus | .dot | .e | .esign => [0x30]
  | .after | .arrStart | .objStart | .zero | .int | .frac | .exp => []
  | .objKey => [0x22, 0x22, 0x3A, 0x30]
  | .objColon => [0x3A, 0x30]
  | .str k => strClose k
  | .esc k => 0x6E :: strClose k
  | .uni k n v =>
    let fin := v * 16 ^ (4 - n)
    List.replicate (4 - n) 0x30 ++ (if isHighSurr fin then loRest else []) ++ strClose k
  | .hiDone k => loRest ++ strClose k
  | .hiBs k => loRest.drop 1 ++ strClose k
  | .lo k n => loRest.drop (2 + n) ++ strClose k
  | .utf8 k n lo _ => lo :: List.replicate (n - 1) 0x80 ++ strClose k
  | .kw r => r

/-- A suffix after which the automaton accepts (for every state reachable from `init`). -/
def complete (s : PState) : Bytes := completeLex s.lex ++ closers s.stack

end SV.Json.Pda
