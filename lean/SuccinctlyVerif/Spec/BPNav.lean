/-
Spec/BPNav — the remaining navigation operations of C04 as linear scans over a `List Bool`
(true = open), on top of `Spec/BP` (findClose / findOpen / enclose / excess) and `Spec/Bits`
(rankB / selectB).  Everything is "what a left-to-right or right-to-left excess scan over the
first `len` bits defines"; no directories, no tables.
-/
import SuccinctlyVerif.Spec.Bits
import SuccinctlyVerif.Spec.BP
namespace SV.BP

/-- Is there an open parenthesis at `p` (false out of range). -/
def isOpen (bs : List Bool) (p : Nat) : Bool := bs[p]? == some true

/-- Is there a close parenthesis at `p` (false out of range). -/
def isClose (bs : List Bool) (p : Nat) : Bool := bs[p]? == some false

/-- `rank1(p)`: opens among the first `p` bits (`p` beyond the end counts everything). -/
def rank1 (bs : List Bool) (p : Nat) : Nat := rankB true bs p

/-- `rank0(p)`: closes among the first `p` bits. -/
def rank0 (bs : List Bool) (p : Nat) : Nat := rankB false bs p

/-- `select1(k)`: position of the `k`-th open. -/
def select1 (bs : List Bool) (k : Nat) : Option Nat := selectB true bs k

/-- `select0(k)`: position of the `k`-th close. -/
def select0 (bs : List Bool) (k : Nat) : Option Nat := selectB false bs k

/-- `excess(p)`: opens minus closes among positions `0..=p`; 0 out of range (the documented
convention of `BalancedParens::excess`). -/
def excessAt (bs : List Bool) (p : Nat) : Int :=
  if p < bs.length then excess bs (p + 1) else 0

/-- A Rust `i32 as usize` cast on a 64-bit target (sign extension). -/
def i32AsUsize (e : Int) : Nat := if e < 0 then (e + 18446744073709551616).toNat else e.toNat

/-- `depth(p)`: the excess at `p` (number of enclosing opens including `p` itself); where the
excess is negative (more closes than opens so far — only in unbalanced sequences) the value is
what `excess as usize` yields. `none` out of range. -/
def depth (bs : List Bool) (p : Nat) : Option Nat :=
  if p < bs.length then some (i32AsUsize (excess bs (p + 1))) else none

/-- `first_child(p)`: `p + 1` when both `p` and `p + 1` are opens. -/
def firstChild (bs : List Bool) (p : Nat) : Option Nat :=
  if bs[p]? = some true ∧ bs[p + 1]? = some true then some (p + 1) else none

/-- `next_sibling(p)`: the position after the matching close of `p`, when that is an open. -/
def nextSibling (bs : List Bool) (p : Nat) : Option Nat :=
  match findClose bs p with
  | some c => if bs[c + 1]? = some true then some (c + 1) else none
  | none => none

/-- `subtree_size(p)`: number of nodes strictly inside the pair opened at `p`. -/
def subtreeSize (bs : List Bool) (p : Nat) : Option Nat :=
  (findClose bs p).map fun c => (c - p) / 2

/-- `parent(p)` = `enclose(p)`. -/
def parent (bs : List Bool) (p : Nat) : Option Nat := enclose bs p

/-- `find_close_from(start, e)`: first position `q ≥ start` at which the running excess, started at
`e ≥ 1` before `start`, drops to 0. -/
def findCloseFrom (bs : List Bool) (start : Nat) (e : Nat) : Option Nat :=
  if e = 0 then none else scanClose (bs.drop start) start (e - 1)


/-! ### block summaries (what the byte tables and the L0/L1/L2 index entries mean) -/

/-- +1 for an open, −1 for a close. -/
def delta (b : Bool) : Int := if b then 1 else -1

/-- Total excess of a bit list. -/
def totExc : List Bool → Int
  | [] => 0
  | b :: bs => delta b + totExc bs

/-- Minimum excess over all prefixes (including the empty one) of a bit list. -/
def minExc : List Bool → Int
  | [] => 0
  | b :: bs => min 0 (delta b + minExc bs)

/-- Maximum total excess over all suffixes (including the empty one): the maximum running excess
of a right-to-left scan. -/
def maxSufExc : List Bool → Int
  | [] => 0
  | b :: bs => max (maxSufExc bs) (delta b + totExc bs)

/-- Tail-recursive `selectB` for the driver (deep recursion on 262 144-element lists); equal to
`selectB` (`Proof/BP.lean`, `selectTR_eq`). -/
def selectTR (b : Bool) : List Bool → Nat → Nat → Option Nat
  | [], _, _ => none
  | x :: xs, i, k =>
    if x = b then
      match k with
      | 0 => some i
      | k + 1 => selectTR b xs (i + 1) k
    else selectTR b xs (i + 1) k

end SV.BP
