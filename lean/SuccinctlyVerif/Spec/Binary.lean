/-
Spec/Binary — what C31 appeals to: the little-endian byte string of a word vector, and the word
vector of a byte string whose length is a multiple of 8.  Pure arithmetic on the VALUES; a byte
string has no address here — which is exactly the property's point ("regardless of where the slice
starts in memory").
-/
namespace SV.Binary

abbrev Byte := BitVec 8
abbrev Word := BitVec 64

/-- Byte `j` (0 = least significant) of a word: `⌊w / 256^j⌋ mod 256`. -/
def byteOf (w : Word) (j : Nat) : Byte := BitVec.ofNat 8 (w.toNat / 256 ^ j % 256)

/-- The 8 bytes of a word, least significant first. -/
def leBytes (w : Word) : List Byte := (List.range 8).map (byteOf w)

/-- Serialized form of a word vector: the words' little-endian bytes, concatenated, no header. -/
def wordsBytes (ws : List Word) : List Byte := ws.flatMap leBytes

/-- The word whose little-endian bytes are `bs`: `Σ bs[j] · 256^j` (Horner form, mod 2^64). -/
def leWord (bs : List Byte) : Word :=
  bs.foldr (fun b acc => b.setWidth 64 + 256#64 * acc) 0#64

/-- Consecutive groups of 8 bytes read as little-endian words (`fuel` ≥ number of groups). -/
def groups : Nat → List Byte → List Word
  | 0, _ => []
  | fuel + 1, bs => if bs.length < 8 then [] else leWord (bs.take 8) :: groups fuel (bs.drop 8)

/-- The word vector of a byte string: defined iff the length is a multiple of 8. -/
def bytesWords (bs : List Byte) : Option (List Word) :=
  if bs.length % 8 = 0 then some (groups (bs.length / 8) bs) else none

end SV.Binary
