/-
Spec/YamlTree — data trees, presentations and the reference renderer of the generated YAML subset
(DESIGN §5 C14).  Import-free (linked into `svdriver`).

A pair (tree, presentation) is represented as ONE presentation-annotated tree `PNode`: its erasure
`PNode.tree` is the data tree, everything else is presentation.  Quantifying over all `PNode`s with
erasure `t` is quantifying over all presentations of `t`; no shape-matching side condition is needed.

Text is handled as `List Char` (Unicode scalar values); bytes are the UTF-8 encoding
(`List.utf8Encode`), produced/consumed only at the outermost level.  The renderer emits `'\n'` for
every line break; the stream-level presentation substitutes LF / CRLF / CR afterwards.
-/
namespace SV.YamlRef

abbrev Str := List Char

/-- Data tree: mappings with ordered string keys, sequences, strings, integers, booleans, null. -/
inductive Tree where
  | null
  | bool (b : Bool)
  | int (i : Int)
  | str (s : Str)
  | seq (xs : List Tree)
  | map (kvs : List (Str × Tree))

/-- Chomping indicator of a block scalar. -/
inductive Chomp where
  | strip | clip | keep
  deriving DecidableEq, Repr

/-- Presentation of a string scalar. -/
inductive SStyle where
  /-- plain (unquoted), single line -/
  | plain
  /-- `'…'`, `'` doubled -/
  | single
  /-- `"…"`; `short`: use the one-letter escapes (`\n`, `\t`, `\0`, `\a`, `\e`, `\N`, `\_`, `\L`, `\P`, `\/` …)
  where one exists, otherwise `\xNN`/`\uNNNN`/`\UNNNNNNNN`; `escUni`: also escape printable non-ASCII. -/
  | double (short : Bool) (escUni : Bool)
  /-- `|`: content indented by `ind ≥ 1` relative to the parent; `explicit`: write the indentation
  indicator digit. -/
  | literal (chomp : Chomp) (ind : Nat) (explicit : Bool)
  /-- `>`: as `literal`; additionally `folds` lists indices of single spaces of the string that are
  written as a line break (line folding). -/
  | folded (chomp : Chomp) (ind : Nat) (explicit : Bool) (folds : List Nat)
  deriving DecidableEq, Repr

/-- Lines between entries. -/
inductive Filler where
  | blank
  | comment (text : Str)
  deriving DecidableEq, Repr

/-- Per-entry presentation: filler lines before the entry, trailing comment on the entry's first line,
number of spaces after the `-` / `:` indicator minus one (0 ⇒ one space). -/
structure Meta where
  fill : List Filler := []
  trail : Option Str := none
  gap : Nat := 0
  deriving DecidableEq, Repr

/-- Style of a mapping key (always a single-line implicit key). -/
inductive KStyle where
  | plain | single | double (short : Bool) (escUni : Bool)
  deriving DecidableEq, Repr

mutual
/-- Presentation-annotated tree. -/
inductive PNode where
  /-- `variant % 5`: `null`, `Null`, `NULL`, `~`, (empty) -/
  | null (variant : Nat)
  /-- `variant % 3`: lower, Capitalised, UPPER -/
  | bool (b : Bool) (variant : Nat)
  /-- `variant % 5`: decimal, `+`decimal, `0x` hex, `0o` octal, zero-padded decimal -/
  | int (i : Int) (variant : Nat)
  | str (s : Str) (st : SStyle)
  /-- `flow`: `[a, b]` on one line (`pad`: spaces inside the brackets);
  block: entries at `parent indent + step` on following lines, or `compact` (first entry on the
  `- ` line of the enclosing sequence entry). -/
  | seq (flow : Bool) (step : Nat) (compact : Bool) (items : PItems)
  | map (flow : Bool) (step : Nat) (compact : Bool) (entries : PEntries)
  /-- `&name node` -/
  | anchored (name : Str) (n : PNode)
  /-- `*name`; `target` is the tree the alias stands for (admissible only if an anchor of that name
  holding exactly this tree is in scope). -/
  | alias (name : Str) (target : Tree)
inductive PItems where
  | nil
  | cons (m : Meta) (n : PNode) (rest : PItems)
inductive PEntries where
  | nil
  | cons (m : Meta) (key : Str) (ks : KStyle) (n : PNode) (rest : PEntries)
end

mutual
/-- Erasure: the data tree a presentation-annotated tree denotes. -/
def PNode.tree : PNode → Tree
  | .null _ => .null
  | .bool b _ => .bool b
  | .int i _ => .int i
  | .str s _ => .str s
  | .seq _ _ _ items => .seq items.trees
  | .map _ _ _ entries => .map entries.trees
  | .anchored _ n => n.tree
  | .alias _ t => t
def PItems.trees : PItems → List Tree
  | .nil => []
  | .cons _ n rest => n.tree :: rest.trees
def PEntries.trees : PEntries → List (Str × Tree)
  | .nil => []
  | .cons _ k _ n rest => (k, n.tree) :: rest.trees
end

/-- Line-break convention of a stream. -/
inductive Break where
  | lf | crlf | cr
  deriving DecidableEq, Repr

/-- One document of a stream. -/
structure PDoc where
  /-- filler lines before the document -/
  fill : List Filler := []
  /-- write `---` -/
  marker : Bool := false
  /-- write `...` after the document -/
  endMarker : Bool := false
  root : PNode
  rootMeta : Meta := {}

structure PStream where
  docs : List PDoc
  br : Break := .lf

/-! ## Character classes -/

def isDigit (c : Char) : Bool := '0' ≤ c && c ≤ '9'

/-- Characters written raw inside quoted / block / plain scalars: printable per YAML 1.2 §5.1,
minus tab, line breaks, NEL, LS/PS and BOM (those are always escaped in double quotes). -/
def isPrintable (c : Char) : Bool :=
  let n := c.toNat
  (0x20 ≤ n && n ≤ 0x7E) || (0xA0 ≤ n && n ≤ 0xD7FF && n != 0x2028 && n != 0x2029)
    || (0xE000 ≤ n && n ≤ 0xFFFD && n != 0xFEFF) || (0x10000 ≤ n && n ≤ 0x10FFFF)

/-- `c-indicator` -/
def isIndicator (c : Char) : Bool :=
  "-?:,[]{}#&*!|>'\"%@`".toList.contains c

def isFlowInd (c : Char) : Bool := ",[]{}".toList.contains c

/-! ## Core-schema resolution of plain scalars (YAML 1.2.2 §10.3.2) -/

inductive Resolved where
  | null | bool (b : Bool) | int (i : Int) | float | str
  deriving DecidableEq, Repr

def digitVal (c : Char) : Nat :=
  if '0' ≤ c && c ≤ '9' then c.toNat - '0'.toNat
  else if 'a' ≤ c && c ≤ 'f' then c.toNat - 'a'.toNat + 10
  else if 'A' ≤ c && c ≤ 'F' then c.toNat - 'A'.toNat + 10
  else 0

def isHexDigit (c : Char) : Bool := isDigit c || ('a' ≤ c && c ≤ 'f') || ('A' ≤ c && c ≤ 'F')
def isOctDigit (c : Char) : Bool := '0' ≤ c && c ≤ '7'

def natOfDigits (base : Nat) (ds : Str) : Nat := ds.foldl (fun a c => a * base + digitVal c) 0

/-- `[0-9]+` -/
def allDigits (s : Str) : Bool := !s.isEmpty && s.all isDigit

/-- `[-+]? ( \. [0-9]+ | [0-9]+ ( \. [0-9]* )? ) ( [eE] [-+]? [0-9]+ )?` -/
def isFloatSyntax (s : Str) : Bool :=
  let s := match s with | '-' :: r => r | '+' :: r => r | _ => s
  let ip := s.takeWhile isDigit
  let r := s.dropWhile isDigit
  let (hasFrac, fracDigits, r) := match r with
    | '.' :: r' => (true, (r'.takeWhile isDigit).length, r'.dropWhile isDigit)
    | _ => (false, 0, r)
  let mantOk := if ip.isEmpty then hasFrac && fracDigits > 0 else true
  let expOk := match r with
    | [] => true
    | e :: r' => (e == 'e' || e == 'E') &&
        allDigits (match r' with | '-' :: x => x | '+' :: x => x | _ => r')
  mantOk && expOk

def resolvePlain (s : Str) : Resolved :=
  if s = [] ∨ s = "null".toList ∨ s = "Null".toList ∨ s = "NULL".toList ∨ s = "~".toList then .null
  else if s = "true".toList ∨ s = "True".toList ∨ s = "TRUE".toList then .bool true
  else if s = "false".toList ∨ s = "False".toList ∨ s = "FALSE".toList then .bool false
  else
    match s with
    | '0' :: 'x' :: ds => if !ds.isEmpty && ds.all isHexDigit then .int (natOfDigits 16 ds) else .str
    | '0' :: 'o' :: ds => if !ds.isEmpty && ds.all isOctDigit then .int (natOfDigits 8 ds) else .str
    | '-' :: ds => if allDigits ds then .int (- (natOfDigits 10 ds : Int))
                   else if isFloatSyntax s then .float else if s = "-.inf".toList ∨ s = "-.Inf".toList ∨ s = "-.INF".toList then .float else .str
    | '+' :: ds => if allDigits ds then .int (natOfDigits 10 ds)
                   else if isFloatSyntax s then .float else if s = "+.inf".toList ∨ s = "+.Inf".toList ∨ s = "+.INF".toList then .float else .str
    | _ => if allDigits s then .int (natOfDigits 10 s)
           else if isFloatSyntax s then .float
           else if s = ".inf".toList ∨ s = ".Inf".toList ∨ s = ".INF".toList
                   ∨ s = ".nan".toList ∨ s = ".NaN".toList ∨ s = ".NAN".toList then .float
           else .str

/-! ## Plain-scalar safety -/

/-- No `": "`, no `" #"`, no trailing `:`; in flow context additionally no flow indicator. -/
def plainBodyOk (flow : Bool) : Str → Bool
  | [] => true
  | [c] => c != ':' && !(flow && isFlowInd c)
  | c :: d :: rest =>
    !(c == ':' && d == ' ') && !(c == ' ' && d == '#') && !(flow && isFlowInd c)
      && plainBodyOk flow (d :: rest)

/-- First-character rule (`ns-plain-first`): not an indicator, except `-`, `?`, `:` followed by a
non-space (flow: also non-flow-indicator) character. -/
def plainFirstOk (flow : Bool) : Str → Bool
  | [] => false
  | c :: rest =>
    if c == '-' || c == '?' || c == ':' then
      match rest with
      | [] => false
      | d :: _ => d != ' ' && !(flow && isFlowInd d)
    else !isIndicator c && c != ' '

/-- A string may be written as a single-line plain scalar in the given context *as text*
(independent of how it resolves). -/
def plainSafe (flow : Bool) (s : Str) : Bool :=
  s.all isPrintable && plainFirstOk flow s && s.getLast? != some ' ' && plainBodyOk flow s
    && !("---".toList.isPrefixOf s) && !("...".toList.isPrefixOf s)

/-! ## Scalar text -/

def hexDigitChar (n : Nat) : Char :=
  if n < 10 then Char.ofNat (n + 48) else Char.ofNat (n - 10 + 97)

/-- `width` lowercase hex digits of `n` (most significant first). -/
def hexFixed : Nat → Nat → Str
  | 0, _ => []
  | w + 1, n => hexFixed w (n / 16) ++ [hexDigitChar (n % 16)]

def numEscape (c : Char) : Str :=
  let n := c.toNat
  if n < 0x100 then '\\' :: 'x' :: hexFixed 2 n
  else if n < 0x10000 then '\\' :: 'u' :: hexFixed 4 n
  else '\\' :: 'U' :: hexFixed 8 n

/-- The one-letter escape of a character, if YAML defines one (other than `"`, `\`). -/
def shortEscape? (c : Char) : Option Char :=
  match c.toNat with
  | 0x00 => some '0' | 0x07 => some 'a' | 0x08 => some 'b' | 0x09 => some 't' | 0x0A => some 'n'
  | 0x0B => some 'v' | 0x0C => some 'f' | 0x0D => some 'r' | 0x1B => some 'e'
  | 0x85 => some 'N' | 0xA0 => some '_' | 0x2028 => some 'L' | 0x2029 => some 'P'
  | _ => none

/-- Escaped form of one character inside `"…"`. -/
def dqChar (short escUni : Bool) (c : Char) : Str :=
  if c == '"' then ['\\', '"'] else if c == '\\' then ['\\', '\\']
  else if isPrintable c && (c.toNat < 0x80 || !escUni) && !(short && c.toNat == 0xA0) then [c]
  else if short then
    match shortEscape? c with
    | some e => ['\\', e]
    | none => numEscape c
  else numEscape c

def dqText (short escUni : Bool) (s : Str) : Str :=
  '"' :: (s.flatMap (dqChar short escUni) ++ ['"'])

def sqText (s : Str) : Str :=
  '\'' :: (s.flatMap (fun c => if c == '\'' then ['\'', '\''] else [c]) ++ ['\''])

def spaces (n : Nat) : Str := List.replicate n ' '

/-- Split at `'\n'` (always at least one piece). -/
def splitNl : Str → List Str
  | [] => [[]]
  | c :: rest =>
    match splitNl rest with
    | [] => [[]]   -- unreachable
    | l :: ls => if c == '\n' then [] :: l :: ls else (c :: l) :: ls

def nullText (v : Nat) : Str :=
  match v % 5 with
  | 0 => "null".toList | 1 => "Null".toList | 2 => "NULL".toList | 3 => "~".toList | _ => []

def boolText (b : Bool) (v : Nat) : Str :=
  match b, v % 3 with
  | true, 0 => "true".toList | true, 1 => "True".toList | true, _ => "TRUE".toList
  | false, 0 => "false".toList | false, 1 => "False".toList | false, _ => "FALSE".toList

def natDigits (base : Nat) (n : Nat) : Str := (Nat.toDigits base n)

def intText (i : Int) (v : Nat) : Str :=
  match v % 5 with
  | 1 => if i ≥ 0 then '+' :: natDigits 10 i.toNat else '-' :: natDigits 10 i.natAbs
  | 2 => if i ≥ 0 then '0' :: 'x' :: natDigits 16 i.toNat else '-' :: natDigits 10 i.natAbs
  | 3 => if i ≥ 0 then '0' :: 'o' :: natDigits 8 i.toNat else '-' :: natDigits 10 i.natAbs
  | 4 => if i ≥ 0 then '0' :: '0' :: natDigits 10 i.toNat else '-' :: '0' :: natDigits 10 i.natAbs
  | _ => if i ≥ 0 then natDigits 10 i.toNat else '-' :: natDigits 10 i.natAbs

def keyText (k : Str) : KStyle → Str
  | .plain => k
  | .single => sqText k
  | .double sh eu => dqText sh eu k

def chompChar : Chomp → Str
  | .strip => ['-'] | .clip => [] | .keep => ['+']

/-- Replace the spaces at the listed indices by `'\n'`‑folds: a folded line break is written where a
single space stood (folded style only). -/
def applyFolds (folds : List Nat) (s : Str) : Str :=
  (s.zipIdx).map fun (c, i) => if folds.contains i then '\u0001' else c

/-- Folded style: a run of `k` newlines of the string is written as `k + 1` line breaks (the first
break of the run would otherwise fold into a space); a fold mark is written as a single break. -/
def foldBreaks (prevNl : Bool) : Str → Str
  | [] => []
  | c :: r =>
    if c == '\n' then (if prevNl then ['\n'] else ['\n', '\n']) ++ foldBreaks true r
    else (if c == '\u0001' then '\n' else c) :: foldBreaks false r

/-- Body lines of a block scalar (without indentation).  Literal: the lines of the string.  Folded:
a run of `k` newlines becomes `k+1`
breaks (`foldBreaks`), a fold mark becomes a single break.  The final line break of the string (clip/keep) is the
break that ends the last line, so it is dropped here; further trailing newlines (keep) stay as
empty lines. -/
def blockBodyLines (folded : Bool) (folds : List Nat) (chomp : Chomp) (s : Str) : List Str :=
  let s := if chomp == .strip then s else s.dropLast   -- the final '\n' is the line's own break
  if !folded then splitNl s
  else
    -- mark folds, then double every real newline except those in the trailing run (keep)
    let marked := applyFolds folds s
    let body := marked.reverse.dropWhile (· == '\n') |>.reverse
    let trailing := marked.length - body.length
    splitNl (foldBreaks false body ++ List.replicate trailing '\n')

def indentLine (n : Nat) (l : Str) : Str := if l.isEmpty then [] else spaces n ++ l

/-- Header + body of a block scalar whose parent entry is indented by `pn - 1` (`pn` = minimal
indentation of a child; `0` at the document root). -/
def blockScalarText (folded : Bool) (chomp : Chomp) (ind : Nat) (explicit : Bool) (folds : List Nat)
    (pn : Nat) (trail : Str) (s : Str) : Str :=
  let ci := pn + ind - 1
  let hdr := (if folded then '>' else '|') :: ((if explicit then natDigits 10 ind else []) ++ chompChar chomp)
  hdr ++ trail ++ ['\n'] ++
    (blockBodyLines folded folds chomp s).flatMap (fun l => indentLine ci l ++ ['\n'])

def trailText : Option Str → Str
  | none => []
  | some c => ' ' :: '#' :: c

def fillerText (n : Nat) : Filler → Str
  | .blank => ['\n']
  | .comment c => spaces n ++ ('#' :: c) ++ ['\n']

def fillText (n : Nat) (fs : List Filler) : Str := fs.flatMap (fillerText n)

/-! ## Flow rendering (single line) -/

def strFlowText (s : Str) : SStyle → Str
  | .plain => s
  | .single => sqText s
  | .double sh eu => dqText sh eu s
  | _ => dqText true false s   -- block scalar styles are not admissible in flow context

mutual
def PNode.flow : PNode → Str
  | .null v => nullText v
  | .bool b v => boolText b v
  | .int i v => intText i v
  | .str s st => strFlowText s st
  | .seq _ _ _ items => '[' :: (items.flow true ++ [']'])
  | .map _ _ _ entries => '{' :: (entries.flow true ++ ['}'])
  | .anchored a n => '&' :: (a ++ ' ' :: n.flow)
  | .alias a _ => '*' :: a
def PItems.flow (first : Bool) : PItems → Str
  | .nil => []
  | .cons m n rest => (if first then [] else [',']) ++ spaces (if first then m.gap else m.gap + 1) ++ n.flow ++ rest.flow false
def PEntries.flow (first : Bool) : PEntries → Str
  | .nil => []
  | .cons m k ks n rest =>
    (if first then [] else [',', ' ']) ++ keyText k ks ++ (':' :: spaces (m.gap + 1)) ++ n.flow ++ rest.flow false
end

/-! ## Block rendering -/

def PNode.isBlockColl : PNode → Bool
  | .seq false _ _ _ => true
  | .map false _ _ _ => true
  | _ => false

/-- Context of a value: after a mapping key, after a sequence dash, or document root. -/
inductive Ctx where
  | root | seq | map
  deriving DecidableEq, Repr

mutual
/-- Text that follows an indicator (`key:`, `-`, `---` or nothing at the root), up to and including
the final line break of the node.  `e` is the indentation of the entry that carries the indicator
(`pn = e + 1`, or `0` at the root, is the minimal child indentation); `col` is the column just after
the indicator. -/
def PNode.value (ctx : Ctx) (e : Nat) (col : Nat) (m : Meta) : PNode → Str
  | .null v =>
    (if v % 5 = 4 then [] else spaces (m.gap + 1) ++ nullText v) ++ trailText m.trail ++ ['\n']
  | .bool b v => spaces (m.gap + 1) ++ boolText b v ++ trailText m.trail ++ ['\n']
  | .int i v => spaces (m.gap + 1) ++ intText i v ++ trailText m.trail ++ ['\n']
  | .str s (.literal ch ind ex) =>
    spaces (m.gap + 1) ++ blockScalarText false ch ind ex [] (if ctx = .root then 0 else e + 1) (trailText m.trail) s
  | .str s (.folded ch ind ex folds) =>
    spaces (m.gap + 1) ++ blockScalarText true ch ind ex folds (if ctx = .root then 0 else e + 1) (trailText m.trail) s
  | .str s st => spaces (m.gap + 1) ++ strFlowText s st ++ trailText m.trail ++ ['\n']
  | .alias a _ => spaces (m.gap + 1) ++ ('*' :: a) ++ trailText m.trail ++ ['\n']
  | .anchored a n => spaces (m.gap + 1) ++ ('&' :: a) ++ n.value ctx e (col + m.gap + 1 + a.length + 1) { m with gap := 0 }
  | .seq true st c items => spaces (m.gap + 1) ++ (PNode.seq true st c items).flow ++ trailText m.trail ++ ['\n']
  | .map true st c entries => spaces (m.gap + 1) ++ (PNode.map true st c entries).flow ++ trailText m.trail ++ ['\n']
  | .seq false st c items =>
    if c then spaces (m.gap + 1) ++ items.block false (col + m.gap + 1)
    else trailText m.trail ++ ['\n'] ++ items.block true (if ctx = .root then 0 else e + st)
  | .map false st c entries =>
    if c then spaces (m.gap + 1) ++ entries.block false (col + m.gap + 1)
    else trailText m.trail ++ ['\n'] ++ entries.block true (if ctx = .root then 0 else e + st)
/-- Entries of a block sequence at indentation `n`; `indentFirst = false` for the compact form whose
first entry continues the parent's line. -/
def PItems.block (indentFirst : Bool) (n : Nat) : PItems → Str
  | .nil => []
  | .cons m x rest =>
    fillText n m.fill ++ (if indentFirst then spaces n else []) ++ ('-' :: x.value .seq n (n + 1) m) ++ rest.block true n
def PEntries.block (indentFirst : Bool) (n : Nat) : PEntries → Str
  | .nil => []
  | .cons m k ks x rest =>
    fillText n m.fill ++ (if indentFirst then spaces n else []) ++ keyText k ks
      ++ (':' :: x.value .map n (n + (keyText k ks).length + 1) m) ++ rest.block true n
end

/-- One document.  Without `---` the first character of the root's text (the space after the
absent indicator) is dropped. -/
def PDoc.text (d : PDoc) : Str :=
  fillText 0 d.fill ++
    (if d.marker then '-' :: '-' :: '-' :: d.root.value .root 0 3 d.rootMeta
     else
       let t := d.root.value .root 0 0 d.rootMeta
       if d.root.isBlockColl && d.rootMeta.trail.isNone then t.drop 1 else t.dropWhile (· == ' '))
    ++ (if d.endMarker then "...\n".toList else [])

def breakText : Break → Str
  | .lf => ['\n'] | .crlf => ['\r', '\n'] | .cr => ['\r']

def PStream.chars (s : PStream) : Str :=
  (s.docs.flatMap PDoc.text).flatMap fun c => if c == '\n' then breakText s.br else [c]

/-- `render`: the UTF-8 bytes of a presentation-annotated stream. -/
def render (s : PStream) : ByteArray := (String.ofList s.chars).toUTF8

end SV.YamlRef
