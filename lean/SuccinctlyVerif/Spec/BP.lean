/-
Spec/BP — balanced-parentheses operations as left-to-right / right-to-left excess scans over a
`List Bool` (true = open).  These are the "linear-scan definitions" C02/C04 appeal to.
-/
namespace SV.BP

/-- Scan forward from index `i` with `d` currently-open parentheses; the index of the first close
that finds `d = 0` (i.e. drives the excess negative). -/
def scanClose : List Bool → Nat → Nat → Option Nat
  | [], _, _ => none
  | true :: bs, i, d => scanClose bs (i + 1) (d + 1)
  | false :: bs, i, d => if d = 0 then some i else scanClose bs (i + 1) (d - 1)

/-- First close with no matching open to its left. -/
def findUnmatchedClose (bs : List Bool) : Option Nat := scanClose bs 0 0

/-- Matching close of the open at `p`; `none` if `p` is out of range, a close, or unmatched. -/
def findClose (bs : List Bool) (p : Nat) : Option Nat :=
  if bs[p]? = some true then scanClose (bs.drop (p + 1)) (p + 1) 0 else none

/-- Scan backward over `rev` (the bits before some position, nearest first) with `d` currently
unmatched closes; `i` is the index of the head of `rev` plus one. -/
def scanOpen : List Bool → Nat → Nat → Option Nat
  | [], _, _ => none
  | false :: bs, i, d => scanOpen bs (i - 1) (d + 1)
  | true :: bs, i, d => if d = 0 then some (i - 1) else scanOpen bs (i - 1) (d - 1)

/-- Matching open of the close at `p`. -/
def findOpen (bs : List Bool) (p : Nat) : Option Nat :=
  if bs[p]? = some false then scanOpen (bs.take p).reverse p 0 else none

/-- Nearest enclosing open of the open at `p` (the parent). -/
def enclose (bs : List Bool) (p : Nat) : Option Nat :=
  if bs[p]? = some true then scanOpen (bs.take p).reverse p 0 else none

/-- Excess (opens minus closes) of the first `i` bits. -/
def excess (bs : List Bool) (i : Nat) : Int :=
  ((bs.take i).count true : Int) - ((bs.take i).count false : Int)

end SV.BP
