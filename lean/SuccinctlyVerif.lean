-- Root of the `SuccinctlyVerif` library: specs, models, proofs and property theorems.
import SuccinctlyVerif.Spec.Bits
import SuccinctlyVerif.Model.Prim
import SuccinctlyVerif.Model.Words
