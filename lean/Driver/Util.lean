/-
Driver/Util — line-protocol helpers for the model driver (mirror of harness/src/util.rs).
-/
namespace SV.Drv

def hexDigit (c : Char) : Nat :=
  if '0' ≤ c ∧ c ≤ '9' then c.toNat - '0'.toNat
  else if 'a' ≤ c ∧ c ≤ 'f' then c.toNat - 'a'.toNat + 10
  else if 'A' ≤ c ∧ c ≤ 'F' then c.toNat - 'A'.toNat + 10
  else 0

def parseHexNat (s : String) : Nat :=
  s.foldl (fun acc c => acc * 16 + hexDigit c) 0

def parseWord (s : String) : BitVec 64 := BitVec.ofNat 64 (parseHexNat s)

def parseWords (s : String) : List (BitVec 64) :=
  if s == "-" then [] else (s.splitOn ",").map parseWord

def parseBytes (s : String) : List (BitVec 8) :=
  if s == "-" then []
  else
    let rec go : List Char → List (BitVec 8) → List (BitVec 8)
      | a :: b :: rest, acc => go rest (BitVec.ofNat 8 (hexDigit a * 16 + hexDigit b) :: acc)
      | _, acc => acc.reverse
    go s.toList []

def parseNat (s : String) : Nat := s.toNat?.getD 0

def parseNats (s : String) : List Nat :=
  if s == "-" then [] else (s.splitOn ",").map parseNat

def optStr : Option Nat → String
  | some n => toString n
  | none => "-"

def listStr (xs : List Nat) : String :=
  if xs.isEmpty then "-" else ",".intercalate (xs.map toString)

def hexNibble (n : Nat) : Char :=
  if n < 10 then Char.ofNat (n + '0'.toNat) else Char.ofNat (n - 10 + 'a'.toNat)

def hexOfNat (n : Nat) : String :=
  if n == 0 then "0" else
  let rec go (fuel n : Nat) (acc : List Char) : List Char :=
    match fuel with
    | 0 => acc
    | f + 1 => if n == 0 then acc else go f (n / 16) (hexNibble (n % 16) :: acc)
  String.ofList (go 64 n [])

def hexWords (ws : List (BitVec 64)) : String :=
  if ws.isEmpty then "-" else ",".intercalate (ws.map fun w => hexOfNat w.toNat)

def hexBytes (bs : List (BitVec 8)) : String :=
  if bs.isEmpty then "-" else
  String.ofList (bs.flatMap fun b => [hexNibble (b.toNat / 16), hexNibble (b.toNat % 16)])

end SV.Drv
