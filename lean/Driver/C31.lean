import SuccinctlyVerif.Spec.Binary
import SuccinctlyVerif.Model.Binary
import Driver.Util
namespace SV.Drv.C31
open SV SV.Drv SV.Binary SV.BinaryM

def outWords : Outcome (List Word) → String
  | .ok ws => hexWords ws
  | .panic => "PANIC"

def outTry : Outcome (Option (List Word)) → String
  | .ok (some ws) => hexWords ws
  | .ok none => "none"
  | .panic => "PANIC"

/-- Model answers of the three readers on a slice at address offset `a`. -/
def readersModel (a : Fin 8) (bs : List Byte) : String :=
  s!"{outWords (bytesToWords a bs)}|{outWords (bytesToWordsVec a bs)}|{outTry (tryBytesToWords a bs)}"

/-- What the property demands of the three readers — no address involved: a length that is a
multiple of 8 converts; otherwise the two asserting forms panic (documented) and the fallible
form answers `None`. -/
def readersSpec (bs : List Byte) : String :=
  match bytesWords bs with
  | some ws => s!"{hexWords ws}|{hexWords ws}|{hexWords ws}"
  | none => "PANIC|PANIC|none"

/-- `w2b`, `conv`: model, cross-checked against the address-free spec (`MODEL-SPEC` when the model
— i.e. the code as modelled — departs from it).  `json` / `bp` / `bv`: implementation-vs-
implementation glue (original vs rebuilt-from-serialized-parts, compared in-process by the
harness); the model side only states the expected verdict `EQ` (tools/props/C31.py canonicalises
the harness's `EQ n=… d=…`). -/
def exec (a : List String) : String :=
  match a with
  | ["w2b", ws] =>
    let ws := parseWords ws
    let bytes := wordsToBytes ws
    let m := s!"{hexBytes bytes}|{readersModel 0 bytes}"
    let h := hexWords ws
    let s := s!"{hexBytes (wordsBytes ws)}|{h}|{h}|{h}"
    if m ≠ s then s!"MODEL-SPEC {m} SPEC {s}" else m
  | ["conv", off, bytes] =>
    let bs := parseBytes bytes
    let off := parseNat off
    if h : off < 8 then
      let m := readersModel ⟨off, h⟩ bs
      let s := readersSpec bs
      if m ≠ s then s!"MODEL-SPEC {m} SPEC {s}" else m
    else "BAD-OFFSET"
  | ["json", _] => "EQ"
  | ["bp", _, _] => "EQ"
  | ["bv", _, _] => "EQ"
  | _ => "BAD-OP"

end SV.Drv.C31
