import SuccinctlyVerif.Spec.Binary
import SuccinctlyVerif.Model.Binary
import Driver.Util
namespace SV.Drv.C31
open SV SV.Drv SV.Binary SV.BinaryM

def outWords : Outcome (List Word) → String
  | .ok ws => hexWords ws
  | .panic => "PANIC"

def outTry : Outcome (Option (List Word)) → String
  | .ok (some ws) => hexWords ws
  | .ok none => "none"
  | .panic => "PANIC"

/-- Model answers of the two borrowed readers on a slice at address misalignment `a`. -/
def borrowedModel (a : Fin 8) (bs : List Byte) : String :=
  s!"{outWords (bytesToWords a bs)}|{outTry (tryBytesToWords a bs)}"

/-- What the property demands of the borrowed readers — no address involved: a length that is a
multiple of 8 converts; otherwise the asserting form panics (documented) and the fallible form
answers `None`. -/
def borrowedSpec (bs : List Byte) : String :=
  match bytesWords bs with
  | some ws => s!"{hexWords ws}|{hexWords ws}"
  | none => "PANIC|none"

/-- The copying reader per the spec (byte gather / documented panic). -/
def vecSpec (bs : List Byte) : String :=
  match bytesWords bs with
  | some ws => hexWords ws
  | none => "PANIC"

/-- `SemiIndex::from_bytes(ib, bp)` = two `bytes_to_words_vec` calls; panics if either does. -/
def semiModel (a1 a2 : Fin 8) (ib bp : List Byte) : String :=
  match bytesToWordsVec a1 ib, bytesToWordsVec a2 bp with
  | .ok x, .ok y => s!"{hexWords x};{hexWords y}"
  | _, _ => "PANIC"

def fin8 (off : Nat) : Fin 8 := ⟨off % 8, Nat.mod_lt _ (by decide)⟩

/-- `w2b`, `conv`, `vec`, `semi`: model, cross-checked against the address-free spec (`MODEL-SPEC`
when the model — i.e. the code as modelled — departs from it).  The placement `off` (0..15, relative
to a 16-aligned base) enters the model only as the address misalignment `off % 8`.
`json` / `bp` / `bv`: implementation-vs-implementation glue (original vs rebuilt-from-serialized-
parts, compared in-process by the harness); the model side only states the expected verdict `EQ`
(tools/props/C31.py canonicalises the harness's `EQ n=… d=…`). -/
def exec (a : List String) : String :=
  match a with
  | ["w2b", ws] =>
    let ws := parseWords ws
    let bytes := wordsToBytes ws
    let m := s!"{hexBytes bytes}|{outWords (bytesToWords 0 bytes)}|{outWords (bytesToWordsVec 0 bytes)}|{outTry (tryBytesToWords 0 bytes)}"
    let h := hexWords ws
    let s := s!"{hexBytes (wordsBytes ws)}|{h}|{h}|{h}"
    if m ≠ s then s!"MODEL-SPEC {m} SPEC {s}" else m
  | ["conv", off, bytes] =>
    let bs := parseBytes bytes
    let off := parseNat off
    if off < 16 then
      let m := borrowedModel (fin8 off) bs
      let s := borrowedSpec bs
      if m ≠ s then s!"MODEL-SPEC {m} SPEC {s}" else m
    else "BAD-OFFSET"
  | ["vec", off, bytes] =>
    let bs := parseBytes bytes
    let off := parseNat off
    if off < 16 then
      let m := outWords (bytesToWordsVec (fin8 off) bs)
      let s := vecSpec bs
      if m ≠ s then s!"MODEL-SPEC {m} SPEC {s}" else m
    else "BAD-OFFSET"
  | ["semi", o1, o2, ib, bp] =>
    let o1 := parseNat o1; let o2 := parseNat o2
    if o1 < 16 ∧ o2 < 16 then
      let m := semiModel (fin8 o1) (fin8 o2) (parseBytes ib) (parseBytes bp)
      let s := match bytesWords (parseBytes ib), bytesWords (parseBytes bp) with
        | some x, some y => s!"{hexWords x};{hexWords y}"
        | _, _ => "PANIC"
      if m ≠ s then s!"MODEL-SPEC {m} SPEC {s}" else s!"{m}|{m}"
    else "BAD-OFFSET"
  | ["json", _, _] => "EQ"
  | ["bp", _, _, _] => "EQ"
  | ["bv", _, _, _] => "EQ"
  | _ => "BAD-OP"

end SV.Drv.C31
