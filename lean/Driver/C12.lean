import SuccinctlyVerif.Spec.Lines
import SuccinctlyVerif.Model.Lines
import SuccinctlyVerif.Generated.C12
import Driver.Util
namespace SV.Drv.C12
open SV SV.Drv SV.Lines SV.LinesM

/-- `o<offset>` | `p<line>:<column>` | `s<line>` | `n` | `t` | `r<offset>` -/
def parseQuery (s : String) : Option Query :=
  let body := (s.drop 1).toString
  match s.toList.head? with
  | some 'o' => some (.lineCol (parseNat body))
  | some 'r' => some (.roundTrip (parseNat body))
  | some 's' => some (.lineStart (parseNat body))
  | some 'n' => some .lineCount
  | some 't' => some .textLen
  | some 'p' =>
    match body.splitOn ":" with
    | [l, c] => some (.toOffset (parseNat l) (parseNat c))
    | _ => none
  | _ => none

def ansStr : Answer → String
  | .lc l c => s!"{l}:{c}"
  | .opt o => optStr o
  | .num n => toString n
  | .rt l c o => s!"{l}:{c}>{optStr o}"
  | .panic => "PANIC"

def answersStr (as : List Answer) : String :=
  if as.isEmpty then "-" else ",".intercalate (as.map ansStr)

/-- The naive scan's answer is representable in `usize` (otherwise there is nothing to compare:
`to_line_column(usize::MAX)` on a one-line text has column 2^64). -/
def representable : Answer → Bool
  | .lc _ c => c < USIZE
  | .rt _ c _ => c < USIZE
  | _ => true

/-- `run <via> <text> <queries>`: the whole query history on one index, answered by the model
(`LinesM.run` from the empty cache with the generated `FORWARD_WALK_CAP`) and cross-checked, query
by query, against the stateless naive scan.  `via` (LineIndex / JsonIndex / YamlIndex) only selects
the Rust entry point; the mapping is the same.
`pos <text> <offset>`: spec only, `line:col`. -/
def exec (a : List String) : String :=
  match a with
  | ["run", _via, text, qs] =>
    let text := parseBytes text
    let toks := if qs == "-" then [] else qs.splitOn ","
    match toks.mapM parseQuery with
    | none => "BAD-QUERY"
    | some qs =>
      match build text with
      | none => "PANIC"
      | some ix =>
        let model := run Gen.FORWARD_WALK_CAP ix none qs
        let spec := qs.map (specAnswer text)
        let bad := (model.zip spec).any fun (m, s) => representable s && m != s
        if bad then s!"MODEL-SPEC {answersStr model} SPEC {answersStr spec}"
        else answersStr model
  | _ => "BAD-OP"

end SV.Drv.C12
