import Driver.C23
import SuccinctlyVerif.Model.JsonLocate
import SuccinctlyVerif.Model.JsonLocateBp
import SuccinctlyVerif.Model.JsonValidate
import SuccinctlyVerif.Generated.C08
/-!
Driver for C28. `doc <bytes>`: for every byte offset the model's expression / byte range / type and
the verdict the property demands: the printed expression, evaluated by the jq model (jq 1.7.1
dialect: the expression must be a jq expression) on the document, yields the value of the node the
offset denotes (`K`), else `F`; `at_offset` / `at_position` denote the token itself (`K`).
-/
namespace SV.Drv.C28
open SV SV.Drv SV.Jq SV.JsonLocate

def jqDialect : Dialect := { succinctly := false, ifNoElseNull := false, fromjsonPlain := false }

def bytesToString (bs : List (BitVec 8)) : Option String :=
  String.fromUTF8? (ByteArray.mk (bs.map fun b => UInt8.ofNat b.toNat).toArray)

def stringHex (s : String) : String :=
  hexBytes (s.toUTF8.toList.map fun b => BitVec.ofNat 8 b.toNat)

def slice (text : List (BitVec 8)) (n : PNode) : List (BitVec 8) :=
  (text.drop n.start).take (n.stop - n.start)

/-- the single value a program yields on a document (jq model) -/
def evalOne (env : Env JNum) (prog : String) (doc : JV JNum) : Option (JV JNum) :=
  match parseProgram prog false with
  | none => none
  | some e =>
    match eval jqDialect C23.fuelDefault e env doc .off with
    | some [.val v _] => some v
    | _ => none

partial def hasDupKeys (text : List (BitVec 8)) (n : PNode) : Bool :=
  let kids := n.kids
  (if n.isObj then
    let keys := (kids.zipIdx.filter fun (_, i) => i % 2 == 0).map fun (k, _) => keyChars text k
    let rec dup : List (Option (List Char)) → Bool
      | [] => false
      | k :: rest => rest.contains k || dup rest
    dup keys
   else false) || kids.any (hasDupKeys text)

def validDoc (b : List (BitVec 8)) : Bool :=
  match SV.Json.Model.validate SV.Gen.JSON_MAX_NESTING_DEPTH b with
  | .ok _ _ => true
  | _ => false

def answerDoc (text : List (BitVec 8)) : String :=
  if !validDoc text then "INVALID-DOC" else
  match scanDoc text, bytesToString text, C23.preludeJ with
  | some root, some s, some env =>
    if hasDupKeys text root then "DUP-KEYS" else
    match (readJson s : Option (JV JNum)) with
    | none => "MODEL-CANNOT-READ"
    | some doc =>
      let table := entries text (2 * text.length + 2) root []
      let _ := doc
      let _ := env
      -- function-by-function layer over the semi-index, cached per BP position
      let idx := Idx.build text
      let bpOf := (List.range text.length).map fun off => idx.findNodeAtOffset off
      let distinct := bpOf.eraseDups
      let perBp : List (Option Nat × Option (List Char × Nat × Nat × BitVec 8)) := distinct.map fun b =>
        (b, match b with
          | none => none
          | some bpPos =>
            match idx.pathToBp bpPos, idx.textPosition bpPos with
            | some expr, some start =>
              (match tokenEnd text start, text[start]? with
               | some stop, some c => some (expr, start, stop, c)
               | none, some c => some (expr, start, text.length, c)
               | _, none => none)
            | _, _ => none)
      let answers := (List.range text.length).map fun off =>
        let l2 : Option (List Char × Nat × Nat × BitVec 8) :=
          match perBp.find? (fun p => p.1 == bpOf.getD off none) with
          | some (_, r) => r
          | none => none
        match findEntry table text.length off with
        | none => if l2.isSome then s!"{off}:MODEL-SPEC" else s!"{off}:-"
        | some e =>
          let exprL := renderPath e.comps
          let expr := String.ofList exprL
          let agree := l2 == some (exprL, e.node.start, e.node.stop, e.node.first)
          let v := if qualifies e off then "KK" else "--"
          if !agree then s!"{off}:MODEL-SPEC" else
          s!"{off}:{stringHex expr}|{e.node.start},{e.node.stop}|{typeName e.node.first}|{v}"
      if answers.isEmpty then "-" else " ".intercalate answers
  | _, _, _ => "MODEL-CANNOT-READ"

/-- is the character part of a `.identifier` component that is not ASCII? -/
def hasNonAsciiDotKey (comps : List Comp) : Bool :=
  comps.any fun
    | .dotKey k => k.any fun c => c.toNat ≥ 128
    | _ => false

/-- `ev`: the verdict the property demands for the expression at one offset: `K` when the jq model
(jq 1.7.1 dialect) evaluates the expression to the denoted value; `U` when it is not a jq program
because a `.identifier` contains a non-ASCII letter; `F` otherwise. -/
def answerEv (text : List (BitVec 8)) (off : Nat) : String :=
  if !validDoc text then "INVALID-DOC" else
  match scanDoc text, bytesToString text, C23.preludeJ with
  | some root, some s, some env =>
    if hasDupKeys text root then "DUP-KEYS" else
    match (readJson s : Option (JV JNum)) with
    | none => "MODEL-CANNOT-READ"
    | some doc =>
      let table := entries text (2 * text.length + 2) root []
      match findEntry table text.length off with
      | none => "-"
      | some e =>
        let expr := String.ofList (renderPath e.comps)
        if !qualifies e off then s!"{stringHex expr} -" else
        let want := (bytesToString (slice text e.value)).bind fun t => (readJson t : Option (JV JNum))
        let v := match parseProgram expr false with
          | none => if hasNonAsciiDotKey e.comps then "U" else "F"
          | some _ =>
            match evalOne env expr doc, want with
            | some got, some w => if JV.eqv got w then "K" else "F"
            | _, _ => "F"
        s!"{stringHex expr} {v}"
  | _, _, _ => "MODEL-CANNOT-READ"

def exec (a : List String) : String :=
  match a with
  | ["doc", hex] => answerDoc (parseBytes hex)
  | ["ev", hex, off] => answerEv (parseBytes hex) (parseNat off)
  | ["cli", hex] =>
    let text := parseBytes hex
    if !validDoc text then "INVALID-DOC" else
    (match scanDoc text with
     | some root => if hasDupKeys text root then "DUP-KEYS" else "cli=OK"
     | none => "MODEL-CANNOT-READ")
  | ["dot", hex] =>
    (match bytesToString (parseBytes hex) with
     | some k => stringHex (String.ofList (renderPath [Comp.ofKey k.toList]))
     | none => "NOT-UTF8")
  | _ => "BAD-OP"

end SV.Drv.C28
