import SuccinctlyVerif.Spec.Utf8
import SuccinctlyVerif.Model.Escape
import Driver.Util
namespace SV.Drv.C09
open SV SV.Drv SV.Utf8 SV.Escape

/-- UTF-8 bytes → scalar values (driver-side helper for the cross-check of the byte-level writer). -/
def decodeUtf8 : Nat → List Byte → Option (List Nat)
  | 0, _ => none
  | _ + 1, [] => some []
  | f + 1, bs =>
    match decodeFirst bs with
    | none => none
    | some (cp, n) => (decodeUtf8 f (bs.drop n)).map (cp :: ·)

def hexStr (bs : List Byte) : String := hexBytes bs

def exec (a : List String) : String :=
  match a with
  | ["w", cps] =>
    let s := parseNats cps
    if !(s.all isScalar) then "BAD-INPUT" else
    let jq := writeJq s; let jqa := writeJqAscii s; let yqa := writeYqAscii s
    let yq := writeYq s
    -- spec cross-check: every body decodes back to the string; ASCII modes emit ASCII only
    let yqChars := decodeUtf8 (yq.length + 1) yq
    if decode jq ≠ some s ∨ decode jqa ≠ some s ∨ decode yqa ≠ some s ∨ yqChars.bind decode ≠ some s then "MODEL-SPEC roundtrip"
    else if !(jqa.all (· < 0x80)) ∨ !(yqa.all (· < 0x80)) then "MODEL-SPEC ascii"
    else if yq ≠ encodeAll (s.flatMap yqChar) then "MODEL-SPEC yqchar"
    else s!"jq={hexStr (encodeAll jq)} jqa={hexStr (encodeAll jqa)} yq={hexStr yq} yqa={hexStr (encodeAll yqa)}"
  | ["scan", bs, st] =>
    let bs := parseBytes bs; let st := parseNat st
    match scalarFind bs st with
    | none => "PANIC"
    | some sc =>
      let spec := firstEscapeSpec bs st
      let s2 := findWith sse2Scan bs st
      let a2 := findWith avx2Scan bs st
      if sc ≠ spec ∨ s2 ≠ spec ∨ a2 ≠ spec then s!"MODEL-SPEC {sc},{s2},{a2},{spec}"
      else s!"{sc},{s2},{a2},{s2},{a2},{a2}"
  | _ => "BAD-OP"

end SV.Drv.C09
