import Driver.C14
namespace SV.Drv.C26
open SV SV.Drv SV.YamlRef

/-- The stream is admissible, the harness rendered it as `render` does, and `loadRef` returns its trees. -/
def checkStream (br nd toks hex : String) : Except String (List Tree) :=
  match C14.parseStream br nd toks with
  | none => .error "BAD-REQUEST"
  | some ps =>
    if !admissible ps then .error "NOT-ADMISSIBLE"
    else if C14.hexOfBytes (render ps) != hex then .error "RENDER-MISMATCH"
    else match loadRef (render ps) with
      | .error e => .error ("MODEL-SPEC loadRef-error " ++ C14.errStr e)
      | .ok ts => if C14.canonDocs ts == C14.canonDocs ps.trees then .ok ts else .error "MODEL-SPEC tree"

def exec (a : List String) : String :=
  match a with
  | [op, _prog, _feat, br1, n1, t1, h1, br2, n2, t2, h2, js] =>
    if op != "run" && op != "nav" && op != "esc" then "BAD-OP" else
    match checkStream br1 n1 t1 h1, checkStream br2 n2 t2 h2 with
    | .error e, _ => e
    | _, .error e => e
    | .ok ta, .ok tb =>
      match readJson (C14.strOfHex js) with
      | none => "MODEL-SPEC json-unreadable"
      | some tj =>
        if C14.canonDocs ta == C14.canonDocs tb && C14.canonDocs ta == C14.canonDocs [tj] then "SAME"
        else "NOT-THE-SAME-TREE"
  | _ => "BAD-OP"

end SV.Drv.C26
