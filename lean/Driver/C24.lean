import Driver.C23
/-! Driver for C24: the jq-1.7.1 dialect of the model as oracle, replaying recorded jq behaviour.
`C24 case <id> <filter hex> <input hex> <expected hex>` → `REPRO` when the model reproduces the
recorded status/stdout(/message), `MODEL-MISMATCH …` when it does not, `OUT-OF-FRAGMENT` without
verdict. -/
namespace SV.Drv.C24
open SV SV.Drv SV.Jq

def jqDialect : Dialect := { succinctly := false, ifNoElseNull := false, fromjsonPlain := false }

/-- jq 1.7.1 spelling of a number on output -/
def jqPrint (n : JNum) : Option String :=
  match n.lit, n.repr with
  | some _, _ => JNum.print n
  | none, .int i => if i.natAbs ≤ 9007199254740992 then some (toString i) else none
  | none, .flt f =>
    if f.isNaN then some "null"
    else if f.isInf then some (if f < 0 then "-1.7976931348623157e+308" else "1.7976931348623157e+308")
    else some (jqFloatDisplay f)

def render (v : JV JNum) : Option String := v.render jqPrint

def errText (e : JV JNum) : Option String :=
  match e with
  | .str s => some s
  | e => (render e).map fun t => "(not a string): " ++ t

/-- (status, stdout, error message) of the model run -/
def modelRun (prog input : String) : Option (Nat × String × Option String) :=
  match C23.preludeJ, parseProgram prog, (readJson input : Option (JV JNum)) with
  | some env, some e, some v =>
    (match eval jqDialect 2000 e env v .off with
     | none => none
     | some outs =>
       let vals := outs.filterMap fun | .val x _ => some (render x) | _ => none
       if vals.any (·.isNone) then none else
       let out := String.join (vals.map fun o => o.getD "" ++ "\n")
       match terminatorOf outs with
       | none => some (0, out, none)
       | some (.err e) => (errText e).map fun m => (5, out, some m)
       | some (.halt c _) => some (c.toNat, out, none)
       | some _ => some (5, out, some "break"))
  | _, _, _ => none

/-- one input of a generated run: `none` = no oracle verdict (outside the fragment, or the program
touches a recorded difference between succinctly and jq 1.7.1: the two dialects of the model differ) -/
def oracleRun (prog input : String) : Option (List String × Option String) :=
  match C23.preludeJ, parseProgram prog false, parseProgram prog true, (readJson input : Option (JV JNum)) with
  | some env, some ej, some es, some v =>
    (match eval jqDialect C23.fuelDefault ej env v .off, eval {} C23.fuelDefault es env v .off with
     | some oj, some os =>
       if C23.runLine oj != C23.runLine os then none else
       let vals := oj.filterMap fun | .val x _ => some (render x) | _ => none
       if vals.any (·.isNone) then none else
       let outs := vals.map (·.getD "")
       (match terminatorOf oj with
        | none => some (outs, none)
        | some (.err e) =>
          (match e with
           | .str m => some (outs, some ("jq: error: " ++ m))
           | e => (render e).map fun t => (outs, some ("jq: error (not a string): " ++ t)))
        | some (.brk _) => some (outs, some "jq: error: break")
        | some (.halt _ _) => none
        | some _ => none)
     | _, _ => none)
  | _, _, _, _ => none

def containsSub (s sub : String) : Bool := (s.splitOn sub).length > 1

def exec (a0 : List String) : String :=
  -- `mcase` = `case` answered by the oracle only
  let a := match a0 with | "mcase" :: rest => "case" :: rest | a => a
  match a with
  | ["case", _, p, i, x] =>
    (match C23.hexToString p, C23.hexToString i, C23.hexToString x with
     | some prog, some input, some expected =>
       let (expMain, expErr) := match expected.splitOn "\n!" with
         | [m, e] => (m, e)
         | _ => (expected, "")
       let expStatus := (expMain.splitOn "\n").headD ""
       let expOut := (expMain.drop (expStatus.length + 1)).toString
       (match modelRun prog input with
        | none => "OUT-OF-FRAGMENT"
        | some (st, out, err) =>
          let okErr := match err with
            | some m => expErr.isEmpty || containsSub expErr m
            | none => expErr.isEmpty
          if toString st == expStatus && out == expOut && okErr then "REPRO"
          else s!"MODEL-MISMATCH status={st} out={hexBytes (out.toUTF8.toList.map fun b => BitVec.ofNat 8 b.toNat)} err={err.getD ""}")
     | _, _, _ => "BAD-HEX")
  | ["run", p, is] =>
    (match C23.hexToString p with
     | some prog =>
       let inputs := (is.splitOn ",").map C23.hexToString
       if inputs.any (·.isNone) then "BAD-HEX" else
       let runs := inputs.map fun i => oracleRun prog (i.getD "")
       if runs.any (·.isNone) then "OUT-OF-FRAGMENT divergent-or-unmodelled" else
       let runs := runs.map (·.getD ([], none))
       let segs := runs.map fun r => ";".intercalate r.1
       let errs := runs.filterMap (·.2)
       let lastErr := match runs.getLast? with | some r => r.2.isSome | none => false
       let st := if errs.isEmpty then "0" else if lastErr then "5" else "?"
       let errText := String.join (errs.map (· ++ "\n"))
       s!"S{st}|{"|".intercalate segs}|E:{hexBytes (errText.toUTF8.toList.map fun b => BitVec.ofNat 8 b.toNat)}"
     | none => "BAD-HEX")
  | _ => "BAD-OP"

end SV.Drv.C24
