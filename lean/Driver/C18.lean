import SuccinctlyVerif.Spec.YamlValPos
import Driver.C14
namespace SV.Drv.C18
open SV SV.Drv SV.YamlRef

def exec (a : List String) : String :=
  match a with
  -- a generated admissible stream must be accepted
  | ["acc", br, nd, toks, _feat, hex] =>
    if toks == "x" then
      -- a hand-written document: well-formed if the reference loader reads it
      (match loadRef (C14.bytesOfHex hex) with
       | .ok _ => "ACCEPT"
       | .error _ => "NOT-IN-REFERENCE-SUBSET")
    else
    match C14.parseStream br nd toks with
    | none => "BAD-REQUEST"
    | some ps =>
      if !admissible ps then "NOT-ADMISSIBLE"
      else if C14.hexOfBytes (render ps) != hex then "RENDER-MISMATCH"
      else "ACCEPT"
  -- position of the reported error offset
  | ["pos", hex, off] =>
    if off == "-" then "ACCEPT"
    else
      let bs := (C14.bytesOfHex hex).toList
      let (l, c) := YamlVPos.lineCol bs (parseNat off)
      s!"{l}:{c}"
  | _ => "BAD-OP"

end SV.Drv.C18
