import Driver.Util
/-
Driver/C27 — route independence. In the model, output is `print o r fmt (eval prog doc)` and the
streaming printer over the cursor model equals the printer over the owned value
(`SV.Props.C27.stream_eq_materialise`), so for every request the model's answer is `SAME`.
-/
namespace SV.Drv.C27

def exec (a : List String) : String :=
  match a with
  | [_tool, _cls, _flags, _prog, _docs] => "SAME"
  | _ => "BAD-OP"

end SV.Drv.C27
