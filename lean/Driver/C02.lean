import SuccinctlyVerif.Spec.Bits
import SuccinctlyVerif.Spec.BP
import SuccinctlyVerif.Model.Words
import SuccinctlyVerif.Model.Scan
import Driver.Util
namespace SV.Drv.C02
open SV SV.Drv

def scanStr : Option (Nat × Nat) → String
  | some (i, r) => s!"{i}:{r}"
  | none => "-"

/-- Answers of the *models*; every answer is additionally compared with the naive spec and the
driver reports `MODEL-SPEC` if a model disagrees with the spec on this input (cannot happen for
proved kernels; guards the not-yet-proved ones and the driver itself). -/
def exec (a : List String) : String :=
  match a with
  | ["sel", w, k] =>
    let x := parseWord w; let k := parseNat k
    let spec := selectInWordSpec x k
    let c := selectCtz x k; let b := selectBroadword x k; let p := selectPdep x k
    if c ≠ spec ∨ b ≠ spec ∨ p ≠ spec then s!"MODEL-SPEC {c},{b},{p},{spec}"
    else s!"{c},{b},{p},{spec}"
  | ["pop", w] =>
    let x := parseWord w
    let spec := popcount x
    let p := popcountPortable x
    if p ≠ spec ∨ popc x ≠ spec then s!"MODEL-SPEC {p},{popc x},{spec}" else s!"{p},{spec},{spec}"
  | ["selb", b, k] =>
    let bv := BitVec.ofNat 8 (parseNat b); let k := parseNat k
    let spec := selectInByteSpec bv k
    let m := selectInByteTable bv k
    if m ≠ spec then s!"MODEL-SPEC {m},{spec}" else toString m
  | ["blk", ws] =>
    let blk := parseWords ws
    let spec := (blk.map popcount).sum
    let p := blockPopcountPortable blk; let v := blockPopcountAvx2 blk
    if p ≠ spec ∨ v ≠ spec then s!"MODEL-SPEC {p},{v},{spec}" else s!"{p},{v}"
  | ["pops", ws] =>
    toString ((parseWords ws).map popcount).sum
  | ["scan", ws, st, rem] =>
    let ws := parseWords ws; let st := parseNat st; let rem := parseNat rem
    let m := scanSelect popc ws st rem
    let s := scanSelectScalar popc ws st rem
    if m ≠ s then s!"MODEL-SPEC {scanStr m};{scanStr s}" else s!"{scanStr m};{scanStr s}"
  | ["fuc", w] =>
    let x := parseWord w
    let m := findUnmatchedCloseInWord x
    let spec := (BP.findUnmatchedClose (wordBits x)).getD 64
    if m ≠ spec then s!"MODEL-SPEC {m},{spec}" else toString m
  | ["fcw", w, p] =>
    let x := parseWord w; let p := parseNat p
    let m := findCloseInWord x p
    -- spec side of `SV.Props.C02.find_close_in_word_eq`
    let spec : Option Nat :=
      if p ≥ 64 then none
      else if x.getLsbD p = false then some p
      else BP.findClose (wordBits x) p
    if m ≠ spec then s!"MODEL-SPEC {optStr m},{optStr spec}" else optStr m
  | _ => "BAD-OP"

end SV.Drv.C02
