import SuccinctlyVerif.Spec.Bits
import SuccinctlyVerif.Model.Words
import SuccinctlyVerif.Model.BitVec
import Driver.Util
namespace SV.Drv.C01
open SV SV.Drv SV.BV

/-- One operation token (`r1:<i>`, `r0:<i>`, `s1:<k>`, `s0:<k>`, `g:<i>`, `c1`, `c0`) answered by
the model built with per-word popcount `pc`. -/
def modelOp (pc : BitVec 64 → Nat) (b : BVec) (tok : String) : String :=
  match tok.splitOn ":" with
  | ["r1", i] => toString (rank1 pc b (parseNat i))
  | ["r0", i] => toString (rank0 pc b (parseNat i))
  | ["s1", k] => optStr (select1 b (parseNat k))
  | ["s0", k] => optStr (select0 pc b (parseNat k))
  | ["g", i] =>
    match get b (parseNat i) with
    | some true => "1"
    | some false => "0"
    | none => "P"
  | ["c1"] => toString (countOnes b)
  | ["c0"] => toString (countZeros b)
  | _ => "BAD-OP"

/-- The same token answered directly from the first `len` bits (naive spec). -/
def specOp (bits : List Bool) (tok : String) : String :=
  match tok.splitOn ":" with
  | ["r1", i] => toString (rankB true bits (parseNat i))
  | ["r0", i] => toString (rankB false bits (parseNat i))
  | ["s1", k] => optStr (selectB true bits (parseNat k))
  | ["s0", k] => optStr (selectB false bits (parseNat k))
  | ["g", i] =>
    match bits[parseNat i]? with
    | some true => "1"
    | some false => "0"
    | none => "P"
  | ["c1"] => toString (countB true bits)
  | ["c0"] => toString (countB false bits)
  | _ => "BAD-OP"

/-- `bv <words> <len> <rate> <ops>`: build with `with_config`, answer every op.  For vectors of at
most 64 words the answers are also computed from the naive spec and with the SWAR popcount as
`pc`; a difference is reported as `MODEL-SPEC` (cannot happen for the proved model). -/
def exec (a : List String) : String :=
  match a with
  | ["bv", ws, len, rate, ops] =>
    let ws := parseWords ws; let len := parseNat len; let rate := parseNat rate
    let toks := if ops == "-" then [] else ops.splitOn ","
    match withConfig popc ws len rate with
    | none => "PANIC"
    | some b =>
      let ans := ",".intercalate (toks.map (modelOp popc b))
      if ws.length ≤ 64 then
        let spec := ",".intercalate (toks.map (specOp (bitsOf ws len)))
        let ans2 := match withConfig popcountPortable ws len rate with
          | none => "PANIC"
          | some b2 => ",".intercalate (toks.map (modelOp popcountPortable b2))
        if ans ≠ spec ∨ ans2 ≠ spec then s!"MODEL-SPEC {ans} | {ans2} | {spec}" else ans
      else ans
  | _ => "BAD-OP"

end SV.Drv.C01
