import Driver.C14
namespace SV.Drv.C29
open SV SV.Drv SV.YamlRef

def exec (a : List String) : String :=
  match a with
  | ["loc", br, nd, toks, _feat, hex, offs] =>
    match C14.parseStream br nd toks with
    | none => "BAD-REQUEST"
    | some ps =>
      if !admissible ps then "NOT-ADMISSIBLE"
      else if C14.hexOfBytes (render ps) != hex then "RENDER-MISMATCH"
      else match loadRef (render ps) with
        | .error e => "MODEL-SPEC loadRef-error " ++ C14.errStr e
        | .ok ts =>
          if C14.canonDocs ts != C14.canonDocs ps.trees then "MODEL-SPEC tree"
          else s!"LOC-OK {(parseNats offs).length}"
  | _ => "BAD-OP"

end SV.Drv.C29
