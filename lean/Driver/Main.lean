import Driver.C02
open SV.Drv

def dispatch (line : String) : String :=
  match line.trimAscii.toString.splitOn " " with
  | "C02" :: rest => C02.exec rest
  | _ => "UNKNOWN-PROPERTY"

partial def loop (h : IO.FS.Stream) (out : IO.FS.Stream) : IO Unit := do
  let line ← h.getLine
  if line.isEmpty then return ()
  out.putStrLn (dispatch line)
  loop h out

def main : IO Unit := do
  let out ← IO.getStdout
  loop (← IO.getStdin) out
  out.flush
