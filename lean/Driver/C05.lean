import SuccinctlyVerif.Spec.JsonSemi
import SuccinctlyVerif.Model.JsonSemi
import Driver.Util
namespace SV.Drv.C05
open SV SV.Drv SV.JsonSemi

def stStr : St → String
  | .inJson => "J" | .inString => "S" | .inEscape => "E" | .inValue => "V"

def sstStr : SSt → String
  | .inJson => "J" | .inString => "S" | .inEscape => "E"

def showB {σ : Type} (f : σ → String) (b : Built σ) : String :=
  s!"{hexWords b.ib}|{hexWords b.bp}|{f b.st}"

/-- First engine in full, the others `=` when identical to the first, `-` when not present. -/
def compact (parts : List (Option String)) : String :=
  match parts with
  | some first :: rest =>
    ";".intercalate (first :: rest.map fun p =>
      match p with
      | none => "-"
      | some s => if s == first then "=" else s)
  | _ => "BAD"

def parseOps (s : String) : List String := if s == "-" then [] else s.splitOn "+"

def runBw (ops : List String) : Option BitWriter :=
  ops.foldlM (init := BitWriter.empty) fun w op =>
    let k := op.take 1 |>.toString
    let rest := op.drop 1 |>.toString
    if k == "b" then some (w.writeBit (rest == "1"))
    else if k == "w" then
      match rest.splitOn ":" with
      | [v, c] => some (w.writeBits (parseWord v) (parseNat c))
      | _ => none
    else if k == "z" then some (w.writeZeros (parseNat rest))
    else none

/-- The bit list an op sequence denotes (spec side of `bw`). -/
def bwBits (ops : List String) : List Bool :=
  ops.foldl (init := []) fun acc op =>
    let k := op.take 1 |>.toString
    let rest := op.drop 1 |>.toString
    if k == "b" then acc ++ [rest == "1"]
    else if k == "w" then
      match rest.splitOn ":" with
      | [v, c] => acc ++ (List.range (parseNat c)).map fun i => (parseWord v).getLsbD i
      | _ => acc
    else acc ++ List.replicate (parseNat rest) false

def maskStr {w : Nat} (c : CharClass w) : String :=
  ",".intercalate ([c.quotes, c.backslashes, c.opens, c.closes, c.delims, c.valueChars].map
    fun m => hexOfNat m.toNat)

def exec (a : List String) : String :=
  match a with
  | ["std", f, bs] =>
    let avx2 := f == "1"
    let b := parseBytes bs
    let spec := showB stStr (referenceWords b)
    let parts := [some (showB stStr (buildScalarStd b)), some (showB stStr (buildPfsmStd b)),
      if avx2 then some (showB stStr (buildAvx2Std b)) else none,
      some (showB stStr (buildSse2Std b)), some (showB stStr (buildDispatchStd avx2 b))]
    if parts.any (fun p => p.isSome ∧ p ≠ some spec) then s!"MODEL-SPEC {compact parts} spec={spec}"
    else compact parts
  | ["smp", f, bs] =>
    let avx2 := f == "1"
    let b := parseBytes bs
    let spec := showB sstStr (sreferenceWords b)
    let parts := [some (showB sstStr (buildScalarSimple b)),
      if avx2 then some (showB sstStr (buildAvx2Simple b)) else none,
      some (showB sstStr (buildSse2Simple b)), some (showB sstStr (buildDispatchSimple avx2 b))]
    if parts.any (fun p => p.isSome ∧ p ≠ some spec) then s!"MODEL-SPEC {compact parts} spec={spec}"
    else compact parts
  | ["cls", f, bs] =>
    let b := parseBytes bs
    let a32 := if f == "1" then maskStr (classifyChars 32 (b.take 32)) else "-"
    s!"{a32};{maskStr (classifyChars 16 (b.take 16))}"
  | ["bw", ops] =>
    let ops := parseOps ops
    match runBw ops with
    | none => "BAD-OP"
    | some w =>
      let bits := bwBits ops
      let r := s!"{hexWords w.finish};{w.len}"
      if w.finish ≠ pack bits ∨ w.len ≠ bits.length then s!"MODEL-SPEC {r} spec={hexWords (pack bits)};{bits.length}"
      else r
  | _ => "BAD-OP"

end SV.Drv.C05
