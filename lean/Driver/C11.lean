import SuccinctlyVerif.Model.JqOutput
import Driver.Util
/-
Driver/C11 — answers `C11 jq <flags> <prog> <nums> <exp> <docs>` with the model's stdout bytes.

  flags : comma list of c, i0..i7, tab, S, a, r, j, z (--raw-output0), seq, P (--preserve-input); `-` = none
  prog  : hex of the jq program text (one of the modelled shapes)
  nums  : `lit=spelling;…` – the number re-spelling table (`format_number_jq_compat` is property
          C10's subject; here it is the parameter `fmt`, fed by the harness). The driver checks the
          law the C11 theorems assume of `fmt` on every pair: both are RFC 8259 numbers and denote
          the same double (exact decimal → binary64 conversion below, no `Float`).
  exp   : expected-value digests for the harness oracle (ignored here)
  docs  : comma list of hex documents, fed to one process as a whitespace-separated stream
Answer: `rc=<n> route=<r> out=<hex | D:<len>:<fnv64>> READBACK-OK <SORTED-OK|->`.
-/
namespace SV.Drv.C11
open SV SV.Drv SV.JqOut

def hexB (s : String) : Bytes :=
  if s == "-" then [] else
  let rec go : List Char → List UInt8 → List UInt8
    | a :: b :: rest, acc => go rest (UInt8.ofNat (hexDigit a * 16 + hexDigit b) :: acc)
    | _, acc => acc.reverse
  go s.toList []

def toHex (bs : Bytes) : String :=
  if bs.isEmpty then "-" else
  String.ofList (bs.flatMap fun b => [hexNibble (b.toNat / 16), hexNibble (b.toNat % 16)])

def fnv64 (bs : Bytes) : UInt64 :=
  bs.foldl (fun h b => (h ^^^ b.toUInt64) * 0x100000001b3) 0xcbf29ce484222325

def hex16 (x : UInt64) : String :=
  String.ofList ((List.range 16).map fun i => hexNibble ((x.toNat >>> (4 * (15 - i))) % 16))

def outStr (bs : Bytes) : String :=
  if bs.length > 1024 then s!"D:{bs.length}:{hex16 (fnv64 bs)}" else toHex bs

def parseOpts (s : String) : Opts :=
  (s.splitOn ",").foldl (fun o t =>
    match t with
    | "c" => { o with compact := true }
    | "tab" => { o with tab := true }
    | "S" => { o with sortKeys := true }
    | "a" => { o with ascii := true }
    | "r" => { o with raw := true }
    | "j" => { o with join := true }
    | "z" => { o with raw0 := true }
    | "seq" => { o with seq := true }
    | "P" => { o with preserve := true }
    | _ => if t.startsWith "i" then { o with indent := some (parseNat (t.drop 1).toString) } else o) {}

/-! exact decimal literal → binary64 (round to nearest even), as (sign, significand, exponent) -/

structure Dec where
  neg : Bool
  mant : Nat
  exp : Int

/-- parse an RFC 8259 number (assumed valid) into sign · mant · 10^exp -/
def parseDec (s : Bytes) : Dec :=
  let (neg, s) := match s with
    | 0x2d :: r => (true, r)
    | _ => (false, s)
  let rec go (s : Bytes) (mant : Nat) (fracDigits : Nat) (inFrac : Bool) : Nat × Nat × Bytes :=
    match s with
    | [] => (mant, fracDigits, [])
    | b :: r =>
      if isDigit b then go r (mant * 10 + (b.toNat - 0x30)) (if inFrac then fracDigits + 1 else fracDigits) inFrac
      else if b == 0x2e then go r mant fracDigits true
      else (mant, fracDigits, b :: r)
  let (mant, fd, rest) := go s 0 0 false
  let e : Int := match rest with
    | _ :: r =>
      let (eneg, r) := match r with
        | 0x2d :: r' => (true, r')
        | 0x2b :: r' => (false, r')
        | _ => (false, r)
      let n : Nat := r.foldl (fun (acc : Nat) b => acc * 10 + (b.toNat - 0x30)) 0
      if eneg then - (n : Int) else (n : Int)
    | [] => 0
  ⟨neg, mant, e - (fd : Int)⟩

def numDigits (n : Nat) : Nat := (toString n).length

/-- round-half-even of num/den -/
def divRound (num den : Nat) : Nat :=
  let q := num / den
  let r := num % den
  if 2 * r < den then q else if 2 * r > den then q + 1 else if q % 2 == 0 then q else q + 1

/-- the double denoted by a decimal: `(neg, q, s)` meaning ±q·2^s with q < 2^53 canonical;
`(neg, 0, 0)` zero; `(neg, 1, 99999)` infinity -/
def toDouble (d : Dec) : Bool × Nat × Int :=
  if d.mant == 0 then (d.neg, 0, 0)
  else
    let mag : Int := (numDigits d.mant : Int) + d.exp
    if mag > 320 then (d.neg, 1, 99999)
    else if mag < -340 then (d.neg, 0, 0)
    else
      let (num, den) : Nat × Nat :=
        if d.exp ≥ 0 then (d.mant * 10 ^ d.exp.toNat, 1) else (d.mant, 10 ^ (-d.exp).toNat)
      -- k = floor(log2(num/den))
      let k0 : Int := (Nat.log2 num : Int) - (Nat.log2 den : Int)
      let ge (k : Int) : Bool := if k ≥ 0 then num ≥ den * 2 ^ k.toNat else num * 2 ^ (-k).toNat ≥ den
      let k : Int := if ge k0 then (if ge (k0 + 1) then k0 + 1 else k0) else k0 - 1
      let s : Int := (if k < -1022 then -1022 else k) - 52
      let q := if s ≥ 0 then divRound num (den * 2 ^ s.toNat) else divRound (num * 2 ^ (-s).toNat) den
      let (q, s) := if q == 2 ^ 53 then (2 ^ 52, s + 1) else (q, s)
      if q == 0 then (d.neg, 0, 0)
      else if s + 52 > 1023 then (d.neg, 1, 99999)
      else (d.neg, q, s)

def sameDouble (a b : Bytes) : Bool :=
  let x := toDouble (parseDec a)
  let y := toDouble (parseDec b)
  x.1 == y.1 && x.2.1 == y.2.1 && x.2.2 == y.2.2

def parseNums (s : String) : List (Bytes × Bytes) :=
  if s == "-" then [] else
  (s.splitOn ";").filterMap fun p =>
    match p.splitOn "=" with
    | [a, b] => some (a.toUTF8.toList, b.toUTF8.toList)
    | _ => none

def fmtOf (tbl : List (Bytes × Bytes)) (l : Bytes) : Bytes :=
  match tbl.find? (fun p => p.1 == l) with
  | some p => p.2
  | none => l

inductive Prog where
  | ident | parenIdent | iter | fieldA | collect | mapId
  deriving DecidableEq

def parseProg (s : String) : Option Prog :=
  match s with
  | "." => some .ident
  | "(.)|." => some .parenIdent
  | ".[]" => some .iter
  | ".a" => some .fieldA
  | "[.[]]" => some .collect
  | "map(.)" => some .mapId
  | _ => none

def lastOf (k : List Char) : List (Str × V) → Option V
  | [] => none
  | (k', x) :: fs => match lastOf k fs with
    | some y => some y
    | none => if k'.cs = k then some x else none

def children : V → Option (List V)
  | .arr xs => some xs
  | .obj fs => some ((collapse fs).map (·.2))
  | _ => none

/-- results of the modelled program shapes; `none` = jq runtime error (exit 5, no output) -/
def evalProg (p : Prog) (v : V) : Option (List V) :=
  match p with
  | .ident | .parenIdent => some [v]
  | .iter => children v
  | .fieldA => match v with
    | .obj fs => some [(lastOf ['a'] fs).getD .null]
    | .null => some [.null]
    | _ => none
  | .collect | .mapId => (children v).map fun xs => [.arr xs]

def routeOf (o : Opts) (p : Prog) : Route :=
  if !o.lazy then .mat
  else match p with
    | .ident => if o.fastOk then .fast else .cursor
    | .collect | .mapId => .ownedLazy
    | _ => .cursor

def routeName : Route → String
  | .fast => "fast" | .cursor => "lazy" | .ownedLazy => "lazy" | .mat => "mat"

def dropTrailWs (s : Bytes) : Bytes := (s.reverse.dropWhile isWs).reverse

/-- canonical text of a value for comparisons inside the driver -/
def showV (v : V) : Bytes := render { compact := true, unit := [], ascii := true, fmt := id } 0 (norm v)

mutual
  def sortedV : V → Bool
    | .arr xs => sortedL xs
    | .obj fs => sortedF none fs
    | _ => true
  def sortedL : List V → Bool
    | [] => true
    | x :: xs => sortedV x && sortedL xs
  def sortedF (prev : Option (List Char)) : List (Str × V) → Bool
    | [] => true
    | (k, x) :: fs =>
      (match prev with | some p => keyLt p k.cs | none => true) && sortedV x && sortedF (some k.cs) fs
end

def exec (a : List String) : String :=
  match a with
  | ["jq", flags, prog, nums, _exp, docs] =>
    let o := parseOpts flags
    let tbl := parseNums nums
    let fmt := fmtOf tbl
    match parseProg (String.ofList (hexB prog |>.map fun b => Char.ofNat b.toNat)) with
    | none => "BAD-PROG"
    | some p =>
      let route := routeOf o p
      -- law of `fmt` on the table
      let lawBad := tbl.find? fun (l, f) => !(validNum l && validNum f && sameDouble l f)
      match lawBad with
      | some (l, _) => s!"NUM-LAW-FAIL {toHex l}"
      | none =>
        let docsB := (docs.splitOn ",").map hexB
        let step (acc : Bytes × Nat × Bool × Bool) (d : Bytes) : Bytes × Nat × Bool × Bool :=
          let (out, rc, ok, srt) := acc
          match readSrc d with
          | .error _ => (out, 2, false, srt)
          | .ok v =>
            if !v.wf then (out, rc, false, srt) else
            match evalProg p v with
            | none => (out, 5, ok, srt)
            | some rs =>
              if route == .fast then (out ++ printFast (dropTrailWs (skipWs d)), rc, ok, srt)
              else
                rs.foldl (fun (acc : Bytes × Nat × Bool × Bool) r =>
                  let (out, rc, ok, srt) := acc
                  let bytes := print o route fmt r
                  -- the model's own read-back (theorem `print_read`, executed)
                  let rb := match o.rawOut, r with
                    | true, .str _ => true
                    | _, _ =>
                      match read (body o route fmt r) with
                      | .ok w => showV w == showV (canon o route fmt r)
                      | .error _ => false
                  let s := if o.sortKeys then sortedV (o.prep route r) else true
                  (out ++ bytes, rc, ok && rb, srt && s)) (out, rc, ok, srt)
        let (out, rc, ok, srt) := docsB.foldl step ([], 0, true, true)
        if !ok then s!"MODEL-SPEC rc={rc} out={outStr out}"
        else if !srt then s!"MODEL-SPEC unsorted out={outStr out}"
        else
          let sortedTok := if o.sortKeys then "SORTED-OK" else "-"
          s!"rc={rc} route={routeName route} out={outStr out} READBACK-OK {sortedTok}"
  | _ => "BAD-OP"

end SV.Drv.C11
