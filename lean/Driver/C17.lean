import SuccinctlyVerif.Spec.Bits
import SuccinctlyVerif.Model.Words
import SuccinctlyVerif.Model.YamlPos
import SuccinctlyVerif.Generated.C17
import Driver.Util
/-!
Driver for C17.  Request: `C17 <op> <route> <text_len> <starts> <ends> <bp> <lookups> [CLASS:…]`

* `op`: `get` (answers), `trace` (answers + stored cursor after every lookup), `build` (built
  tables), `chk` (verdict of the answers against the plain-list spec).
* `route`: `hook` (constructors) or `parts` (`YamlIndex::from_parts`; `bp` = `<len>:<hex words>`).
* lookups: `o<i>` open get, `e<i>` end get, `b<p>`/`c<p>` the same through a BP position
  (`rank1`), `f<p>` reverse lookup, `K<i>` `cursor_from(i).current()`, `N` `advance_one()`.
-/
namespace SV.Drv.C17
open SV SV.Drv SV.YamlPos

def rate : Nat := Gen.YAML_SELECT_SAMPLE_RATE

structure Sess where
  o : OpenPositions
  oc : Cursor
  e : EndPositions
  ec : Cursor
  ac : Option ACursor
  bpBits : List Bool

def ansStr : Ans → String
  | .val v => optStr v
  | .panic => "PANIC"

def curStr (c : Cursor) : String :=
  s!"@{c.nextOpenIdx}.{c.advCumulative}.{c.ibWordIdx}.{c.ibOnesBefore}.{c.lastIbArg}.{c.lastIbResult}"

def acStr (c : ACursor) : String :=
  s!"@{c.openIdx}.{c.textPos}.{c.advanceRank}.{c.ibWordIdx}.{hexOfNat c.ibRemainingBits.toNat}"

def parseBp (s : String) : List Bool :=
  match s.splitOn ":" with
  | [len, ws] => bitsOf (parseWords ws) (parseNat len)
  | _ => []

/-- One lookup: answer text, state text (for `trace`), new session. -/
def step (s : Sess) (item : String) : String × String × Sess :=
  let kind := item.front
  let n := parseNat (item.drop 1).toString
  let doOpen (i : Nat) : String × String × Sess :=
    let (a, c) := OpenPositions.get popc selectCtz rate s.o s.oc i
    (ansStr a, (match s.o with | .compact _ => curStr c | .dense _ => "@-"), { s with oc := c })
  let doEnd (i : Nat) : String × String × Sess :=
    let (a, c) := EndPositions.get popc selectCtz rate s.e s.ec i
    (ansStr a, (match s.e with | .compact _ => curStr c | .dense _ => "@-"), { s with ec := c })
  match kind with
  | 'o' => doOpen n
  | 'e' => doEnd n
  | 'b' => doOpen (rankB true s.bpBits n)
  | 'c' => doEnd (rankB true s.bpBits n)
  | 'f' =>
    match s.o with
    | .compact t => (optStr (findLastOpenAtTextPos popc selectCtz t n), "@", s)
    | .dense _ => ("x", "@", s)
  | 'K' =>
    match s.o with
    | .compact t =>
      let c := acursorFrom popc selectCtz rate t n
      (optStr (c.current t), acStr c, { s with ac := some c })
    | .dense _ => ("x", "@", s)
  | 'N' =>
    match s.o with
    | .compact t =>
      let c0 := s.ac.getD (acursor popc selectCtz rate t)
      let (v, c) := c0.advanceOne t
      (optStr v, acStr c, { s with ac := some c })
    | .dense _ => ("x", "@", s)
  | _ => ("BAD-LOOKUP", "@", s)

def runAll (s : Sess) : List String → List (String × String) → List (String × String)
  | [], acc => acc.reverse
  | it :: rest, acc =>
    let (a, st, s') := step s it
    runAll s' rest ((a, st) :: acc)

def tableStr (t : Table) : String :=
  s!"ib={hexWords t.ibWords} len={t.ibLen} ones={t.ibOnes} samples={listStr t.ibSelectSamples} " ++
  s!"adv={hexWords t.advanceWords} n={t.numOpens} arank={listStr t.advanceRank} irank={listStr t.ibRank}"

/-! ### the plain-list spec (same rules as the harness's in-process oracle) -/

def earlierNonzero (ends : List Nat) (i : Nat) : List Nat := (ends.take i).filter (· > 0)

/-- Expected answer of a lookup; `none` = not judged, `some (inl v)` = exactly `v`,
`some (inr vs)` = `none` or one of `vs`.  Third component: new iteration-cursor index. -/
def expect (starts ends : List Nat) (bp : List Bool) (oDense : Bool) (idx : Nat) (item : String) :
    Option (Sum (Option Nat) (List Nat)) × Nat :=
  let kind := item.front
  let n := parseNat (item.drop 1).toString
  let endExp (i : Nat) : Sum (Option Nat) (List Nat) :=
    match ends[i]? with
    | none => .inl none
    | some 0 => .inr (earlierNonzero ends i)
    | some e => .inl (some e)
  let len := starts.length
  match kind with
  | 'o' => (some (.inl starts[n]?), idx)
  | 'e' => (some (endExp n), idx)
  | 'b' => (some (.inl starts[rankB true bp n]?), idx)
  | 'c' => (some (endExp (rankB true bp n)), idx)
  | 'K' => if oDense then (none, idx) else
    let i := if n ≥ len then len else n
    (some (.inl starts[i]?), i)
  | 'N' => if oDense then (none, idx) else
    if idx + 1 ≥ len then (some (.inl none), len) else (some (.inl starts[idx + 1]?), idx + 1)
  | _ => (none, idx)

def judge (starts ends : List Nat) (bp : List Bool) (oDense : Bool) (textLen : Nat) :
    List String → List String → Nat → Nat → Option String → Nat × Option String
  | it :: its, a :: as, idx, nClass, other =>
    let (ex, idx') := expect starts ends bp oDense idx it
    let ok : Bool := match ex with
      | none => true
      | some (.inl v) => a == optStr v
      | some (.inr vs) => a == "-" || vs.any (fun v => a == toString v)
    if ok then judge starts ends bp oDense textLen its as idx' nClass other
    else
      let inClass : Bool := match ex with
        | some (.inl (some v)) => !oDense && v == textLen && textLen % 64 == 0 &&
            (it.front == 'o' || it.front == 'b' || it.front == 'K' || it.front == 'N')
        | _ => false
      if inClass then judge starts ends bp oDense textLen its as idx' (nClass + 1) other
      else
        let want := match ex with
          | some (.inl v) => optStr v
          | some (.inr vs) => "-|" ++ listStr vs
          | none => "?"
        judge starts ends bp oDense textLen its as idx' nClass (other <|> some s!"{it} got={a} want={want}")
  | _, _, _, nClass, other => (nClass, other)

def classTag : String := "CLASS:pos=len,len%64=0"

/-- The class of finding F4: compact open table, a recorded start equals `text_len`, `text_len % 64 = 0`. -/
def inClassReq (starts : List Nat) (textLen : Nat) : Bool :=
  isMonotonic starts && textLen % 64 == 0 && starts.any (· == textLen)

def exec (a : List String) : String :=
  match a with
  | op :: route :: tl :: ss :: es :: bp :: lk :: tag =>
    let textLen := parseNat tl
    let starts := parseNats ss
    let ends := parseNats es
    let tagged := tag == [classTag]
    if tag ≠ [] ∧ ¬ tagged then "BAD-TAG(model)"
    else if tagged ≠ inClassReq starts textLen then "BAD-TAG(model)"
    else if route ≠ "hook" ∧ route ≠ "parts" then "BAD-ROUTE"
    else
      let o := OpenPositions.build popc selectCtz rate starts textLen
      let e := EndPositions.build popc selectCtz rate ends textLen
      let bpBits := if route == "parts" then parseBp bp else []
      let s : Sess := { o := o, oc := Cursor.init, e := e, ec := Cursor.init, ac := none, bpBits := bpBits }
      let oDense := match o with | .dense _ => true | _ => false
      let hdr := (match o with | .compact _ => "c" | .dense _ => "d") ++
                 (match e with | .compact _ => "c" | .dense _ => "d")
      let items := if lk == "-" then [] else lk.splitOn ","
      match op with
      | "build" =>
        let os := match o with | .compact t => "c " ++ tableStr t | .dense v => "d " ++ listStr v
        let es := match e with | .compact t => "c " ++ tableStr t | .dense v => "d " ++ listStr v
        s!"o:{os};e:{es}"
      | "get" =>
        let r := runAll s items []
        if r.any (·.1 == "PANIC") then "PANIC" else
        hdr ++ " " ++ (if r.isEmpty then "-" else ",".intercalate (r.map (·.1)))
      | "trace" =>
        let r := runAll s items []
        if r.any (·.1 == "PANIC") then "PANIC" else
        hdr ++ " " ++ (if r.isEmpty then "-" else ",".intercalate (r.map fun p => p.1 ++ p.2))
      | "chk" =>
        if starts.any (· > textLen) ∨ ends.any (· > textLen) then "ORACLE-SKIP" else
        let r := runAll s items []
        if r.any (·.1 == "PANIC") then "PANIC" else
        match judge starts ends bpBits oDense textLen items (r.map (·.1)) 0 0 none with
        | (_, some msg) => s!"MODEL-SPEC other {msg}"
        | (0, none) => "ORACLE-OK"
        | (n, none) => s!"MODEL-SPEC class=pos=len,len%64=0 n={n}"
      | _ => "BAD-OP"
  | _ => "BAD-OP"

end SV.Drv.C17
