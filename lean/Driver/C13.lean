import SuccinctlyVerif.Spec.Utf8
import SuccinctlyVerif.Model.Utf8
import Driver.Util
namespace SV.Drv.C13
open SV SV.Drv SV.Utf8

def kindStr : ErrKind → String
  | .invalidLeadByte => "InvalidLeadByte"
  | .invalidContinuationByte => "InvalidContinuationByte"
  | .overlongEncoding => "OverlongEncoding"
  | .surrogateCodepoint => "SurrogateCodepoint"
  | .outOfRangeCodepoint => "OutOfRangeCodepoint"
  | .truncatedSequence => "TruncatedSequence"

def resStr : Option Utf8Error → String
  | none => "ok"
  | some e => s!"{kindStr e.kind}:{e.offset}:{e.line}:{e.column}"

def b01 (b : Bool) : String := if b then "1" else "0"

/-- Cross-check of the models against the spec on this input (cannot fail for proved parts):
every accept scan = `wellFormed`; scalar error = (first violated rule, valid prefix + index of the
offending continuation byte); line/column of the reported offset = `lineColLF`. -/
def specProblem (bs : List Byte) : Option String :=
  let wf := wellFormed bs
  let sc := validateScalar bs
  if sc.isNone ≠ wf then some "scalar-accept"
  else if bwAccepts bs ≠ wf then some "broadword-accept"
  else if avx2Accepts bs ≠ wf then some "avx2-accept"
  else match sc with
    | none => none
    | some e =>
      let n := validPrefixLen bs
      match firstViolation (bs.drop n) with
      | none => some "no-violation"
      | some (k, i) =>
        if k ≠ e.kind then some "kind"
        else if e.offset ≠ n + i then some "offset"
        else if (e.line, e.column) ≠ lineColLF bs e.offset then some "linecol"
        else none

def exec (a : List String) : String :=
  match a with
  -- the property's expectation: kind, offset = longest valid prefix, line/column of that offset
  | ["val", bs] =>
    let bs := parseBytes bs
    match specProblem bs with
    | some p => s!"MODEL-SPEC {p}"
    | none =>
      match validateScalar bs with
      | none => "ok"
      | some e =>
        let n := validPrefixLen bs
        let lc := lineColLF bs n
        s!"{kindStr e.kind} {n} {lc.1} {lc.2}"
  -- the code's documented behaviour, every engine, compared strictly
  | ["valx", bs] =>
    let bs := parseBytes bs
    match specProblem bs with
    | some p => s!"MODEL-SPEC {p}"
    | none =>
      s!"sc={resStr (validateScalar bs)} bw={resStr (validateBroadword bs)} simd={resStr (validateSimd bs)} disp={resStr (validateSimd bs)} bwacc={b01 (bwAccepts bs)} avx2={b01 (avx2Accepts bs)}"
  | ["lc", bs, off] =>
    let bs := parseBytes bs; let off := parseNat off
    match lineAndColumn bs off with
    | none => "PANIC"
    | some (l, c) => if (l, c) ≠ lineColLF bs off then s!"MODEL-SPEC {l},{c}" else s!"{l},{c}"
  | ["skip", bs, pos] =>
    let bs := parseBytes bs; let pos := parseNat pos
    let m := pos + skipAscii (bs.drop pos)
    let spec := pos + ((bs.drop pos).takeWhile (· < 0x80#8)).length
    if m ≠ spec then s!"MODEL-SPEC {m},{spec}" else toString m
  | ["seqlen", b] =>
    let b := BitVec.ofNat 8 (parseNat b)
    let m := sequenceLength b
    if m ≠ declaredLen b then s!"MODEL-SPEC {m}" else toString m
  | ["dec", bs] =>
    let bs := parseBytes bs
    let m := decodeCodePoint bs
    let spec := decodeFirst bs
    if (m.map fun p => (p.1.toNat, p.2)) ≠ spec then "MODEL-SPEC dec"
    else match m with
      | none => "-"
      | some (cp, n) => s!"{cp.toNat},{n}"
  | ["enc", cp] =>
    let n := parseNat cp
    let m := encodeCodePoint (BitVec.ofNat 32 n)
    let spec : Option (List Byte) := if isScalar n then some (encode n) else none
    if (m.map fun p => p.1.take p.2) ≠ spec then "MODEL-SPEC enc"
    else match m with
      | none => "-"
      | some (buf, len) => s!"{hexBytes buf} {len}"
  | _ => "BAD-OP"

end SV.Drv.C13
