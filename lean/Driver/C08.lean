import SuccinctlyVerif.Spec.Json
import SuccinctlyVerif.Spec.JsonPda
import SuccinctlyVerif.Model.JsonValidate
import SuccinctlyVerif.Generated.C08
import Driver.Util
namespace SV.Drv.C08
open SV SV.Drv SV.Json SV.Json.Model

def expStr : Expected → String
  | .value => "value" | .key => "key" | .colon => "colon"
  | .commaOrBrace => "comma-or-brace" | .commaOrBracket => "comma-or-bracket"

def reasonStr : Reason → String
  | .hex4 => "hex4" | .hexEof => "eof" | .minus => "minus" | .frac => "frac" | .exp => "exp"

def kindStr : Kind → String
  | .unexpectedCharacter e f => s!"UnexpectedCharacter:{expStr e}:{f}"
  | .unexpectedEof e => s!"UnexpectedEof:{expStr e}"
  | .trailingContent => "TrailingContent"
  | .unclosedString => "UnclosedString"
  | .invalidEscape c => s!"InvalidEscape:{c}"
  | .invalidUnicodeEscape r => s!"InvalidUnicodeEscape:{reasonStr r}"
  | .unpairedSurrogate c => s!"UnpairedSurrogate:{c}"
  | .controlCharacter b => s!"ControlCharacter:{b}"
  | .leadingZero => "LeadingZero"
  | .leadingPlus => "LeadingPlus"
  | .invalidNumber r => s!"InvalidNumber:{reasonStr r}"
  | .invalidKeyword f => s!"InvalidKeyword:{hexBytes f}"
  | .invalidUtf8 => "InvalidUtf8"
  | .nestingTooDeep l => s!"NestingTooDeep:{l}"

def errStr (e : Err) : String := s!"{kindStr e.kind} {e.offset} {e.line} {e.column}"

def resStr : Res Unit → String
  | .ok _ _ => "ok"
  | .err e => errStr e
  | .fuel => "MODEL-FUEL"

/-- Where the automaton stopped (coarse tag used to classify `offset-beyond-viable` reports). -/
def lexTag : Pda.Lex → String
  | .uni _ n _ => s!"uni{n}"
  | .lo _ n => s!"lo{n}"
  | .hiDone _ => "hiDone" | .hiBs _ => "hiBs"
  | .str _ => "str" | .esc _ => "esc" | .utf8 .. => "utf8"
  | .kw _ => "kw"
  | .top => "top" | .after => "after" | .arrStart => "arrStart" | .arrNext => "arrNext"
  | .objStart => "objStart" | .objKey => "objKey" | .objColon => "objColon" | .objVal => "objVal"
  | .minus => "minus" | .zero => "zero" | .int => "int" | .dot => "dot" | .frac => "frac"
  | .e => "e" | .esign => "esign" | .exp => "exp"

def maxDepth : Nat := SV.Gen.JSON_MAX_NESTING_DEPTH

/-- `v <bytes>`: the model's answer, cross-checked against the spec recogniser on every request:
acceptance must agree with the automaton, an error offset must not exceed the longest viable
prefix, line/column must be `lineCol` of the offset, and the longest viable prefix really is
viable (its constructive completion is accepted by automaton *and* model). Any difference is
answered as `SPEC-VIOLATION …` so that it shows as a disagreement with the implementation. -/
def exec (a : List String) : String :=
  match a with
  | ["v", hex] =>
    let b := parseBytes hex
    let r := validate maxDepth b
    let acc := Pda.acceptB maxDepth b
    let l := Pda.lvp maxDepth b
    let done := b.take l ++ Pda.complete (Pda.lvpState maxDepth b)
    let selfOk := Pda.acceptB maxDepth done &&
      (match validate maxDepth done with | .ok _ _ => true | _ => false)
    if !selfOk then s!"ORACLE-BROKEN completion-not-accepted lvp={l} model={resStr r}"
    else match r with
    | .fuel => "MODEL-FUEL"
    | .ok _ _ => if acc then "ok" else s!"SPEC-VIOLATION accepts-invalid lvp={l} model=ok"
    | .err e =>
      if acc then s!"SPEC-VIOLATION rejects-valid model={errStr e}"
      else if e.offset > l then s!"SPEC-VIOLATION offset-beyond-viable lvp={l} over={e.offset - l} at={lexTag (Pda.lvpState maxDepth b).lex} model={errStr e}"
      else if (e.line, e.column) ≠ lineCol b e.offset then
        s!"SPEC-VIOLATION linecol spec={(lineCol b e.offset).1},{(lineCol b e.offset).2} model={errStr e}"
      else errStr e
  | _ => "BAD-OP"

end SV.Drv.C08
