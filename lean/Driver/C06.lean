import SuccinctlyVerif.Model.JsonNav
import SuccinctlyVerif.Model.JsonNavFull
import Driver.Util
namespace SV.Drv.C06
open SV SV.Drv SV.JsonNav

def errStr : JErr → String
  | .invalidUtf8 => "eU" | .invalidNumber => "eN" | .invalidEscape => "eE" | .invalidUnicodeEscape => "eX"

def strRepr : Except JErr (List Byte) → String
  | .ok bs => "h" ++ hexBytes bs
  | .error e => errStr e

def i64Str : Option Int → String
  | some v => toString v
  | none => "!"

/-- number of fields / elements seen by repeated `uncons` -/
def countFields (x : Index) (p : Nat) : Nat := (objectFields x p).length

/-- short signature of a `StandardJson` value obtained from the cursor `c` (what `get`/`find` return) -/
def sig (x : Index) (c : Option Nat) : String :=
  match c with
  | none => "-"
  | some c =>
    match value x c with
    | .obj p => s!"O{countFields x p}"
    | .arr p => s!"A{(children x p).length}"
    | .str s => "S" ++ strRepr (asStr x s)
    | .num s => "N" ++ hexBytes (numberBytes x s)
    | .bool true => "T"
    | .bool false => "F"
    | .null => "Z"
    | .err _ => "E"

def selField (n i : Nat) : Bool := i < 24 || i + 4 ≥ n
def selElem (n i : Nat) : Bool := i < 16 || i + 2 ≥ n

def rangeStr : Option (Nat × Nat) → String
  | some (s, e) => s!"{s}-{e}"
  | none => "-"

def header (x : Index) (p : Nat) : String :=
  s!"@{p}:{optStr (textPosition x p)}:{rangeStr (textRange x p)}:p{optStr (parent x p)}n{optStr (nextSibling x p)}f{optStr (firstChild x p)}"

/-- Pre-order dump of the tree navigated from cursor `p`. -/
def dump (x : Index) : Nat → Nat → String
  | 0, _ => "(FUEL)"
  | fuel + 1, p =>
    let h := header x p
    match value x p with
    | .obj _ =>
      let fs := objectFields x p
      let n := fs.length
      let body := String.join (fs.map fun (k, v) => "{" ++ dump x fuel k ++ dump x fuel v ++ "}")
      let finds := String.join ((List.zip (List.range n) fs).filterMap fun (i, (k, _)) =>
        if selField n i then
          match value x k with
          | .str s =>
            match asStr x s with
            | .ok name =>
              let c := findCursor x p name
              some s!"?{i}={optStr c}/{sig x c}"
            | .error _ => some s!"?{i}=!"
          | _ => some s!"?{i}=!"
        else none)
      s!"(O{h}c{(children x p).length}" ++ body ++ finds ++ ")"
    | .arr _ =>
      let cs := children x p
      let n := cs.length
      let body := String.join (cs.map (dump x fuel))
      let gets := String.join ((List.range (n + 1)).filterMap fun i =>
        if selElem (n + 1) i then some s!"g{i}={sig x (elementsGet x p i)}/{sig x (elementsGetFast x p i)}" else none)
      s!"(A{h}c{n}" ++ body ++ gets ++ ")"
    | .str s =>
      let (e, esc) := rawAndEscaped x s
      s!"(S{h}={strRepr (asStr x s)}x{if esc then 1 else 0}r{e - s})"
    | .num s => s!"(N{h}={hexBytes (numberBytes x s)}i{i64Str (asI64 x s)})"
    | .bool true => s!"(T{h})"
    | .bool false => s!"(F{h})"
    | .null => s!"(Z{h})"
    | .err _ => s!"(E{h})"

def navDump (avx2 fast : Bool) (json : List Byte) : String :=
  let x := build avx2 fast json
  dump x (json.length + 2) 0

def exec (a : List String) : String :=
  match a with
  | ["nav", f, bs] =>
    let json := parseBytes bs
    let avx2 := f == "1"
    if json.length ≤ 1500 then
      let s := navDump avx2 false json
      let t := navDump avx2 true json
      -- the composed model (full BalancedParens / IB-select models of C04 / C07)
      let c := match buildComposed avx2 false json with
        | some x => dump x (json.length + 2) 0
        | none => "PANIC"
      if s ≠ t then s!"MODEL-SPEC {s} fast={t}"
      else if s ≠ c then s!"MODEL-SPEC {s} composed={c}"
      else s ++ " TREE-OK"
    else navDump avx2 (json.length > 3000) json ++ " TREE-OK"
  | ["dec", bs] => strRepr (decodeEscapes (parseBytes bs))
  | ["send", bs, st] =>
    let x : Index := ⟨(parseBytes bs).toArray, Prims.spec [] []⟩
    let s := parseNat st
    let (e, esc) := rawAndEscaped x s
    s!"{findStringEnd x s};{e};{if esc then 1 else 0};{strRepr (asStr x s)}"
  | ["nspan", bs, st] =>
    let x : Index := ⟨(parseBytes bs).toArray, Prims.spec [] []⟩
    toString (nestedNumberSpan x (parseNat st))
  | _ => "BAD-OP"

end SV.Drv.C06
