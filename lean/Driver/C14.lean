import SuccinctlyVerif.Spec.YamlRef
import Driver.Util
namespace SV.Drv.C14
open SV SV.Drv SV.YamlRef

/-! Wire format (see harness/src/c14.rs): a presentation-annotated stream is a comma-separated
prefix-notation token list; strings are hex of their UTF-8 bytes (`-` = empty). -/

def bytesOfHex (s : String) : ByteArray :=
  ByteArray.mk ((parseBytes s).map (fun b => UInt8.ofNat b.toNat)).toArray

def strOfHex (s : String) : Str :=
  match (bytesOfHex s).utf8Decode? with
  | some cs => cs.toList
  | none => []

def hexOfBytes (b : ByteArray) : String :=
  if b.size == 0 then "-" else
  String.ofList (b.toList.flatMap fun x => [hexNibble (x.toNat / 16), hexNibble (x.toNat % 16)])

def hexOfStr (s : Str) : String := hexOfBytes (String.ofList s).toUTF8

def digitAt (s : String) (i : Nat) : Nat := ((s.toList[i]?).getD '0').toNat - 48

def chompOfChar (c : Char) : Chomp := if c == 's' then .strip else if c == 'k' then .keep else .clip

/-- `m<gap>[;b|;c<hex>|;t<hex>]*` -/
def parseMeta (tok : String) : Meta :=
  let parts := (tok.drop 1).toString.splitOn ";"
  let gap := (parts.headD "0").toNat?.getD 0
  parts.tail.foldl (fun m p =>
    if p == "b" then { m with fill := m.fill ++ [.blank] }
    else if p.startsWith "c" then { m with fill := m.fill ++ [.comment (strOfHex (p.drop 1).toString)] }
    else if p.startsWith "t" then { m with trail := some (strOfHex (p.drop 1).toString) }
    else m) { gap := gap }

def parseStyle (st : String) : SStyle :=
  match st.toList with
  | ['p'] => .plain
  | ['s'] => .single
  | ['d', a, b] => .double (a == '1') (b == '1')
  | 'l' :: c :: i :: e :: _ => .literal (chompOfChar c) (i.toNat - 48) (e == '1')
  | 'f' :: c :: i :: e :: rest =>
    let folds := ((String.ofList rest).splitOn ";").filterMap String.toNat?
    .folded (chompOfChar c) (i.toNat - 48) (e == '1') folds
  | _ => .double true false

def parseKStyle (st : String) : KStyle :=
  match st.toList with
  | ['p'] => .plain
  | ['s'] => .single
  | ['d', a, b] => .double (a == '1') (b == '1')
  | _ => .double true false

def intOfString (s : String) : Int :=
  if s.startsWith "-" then - ((s.drop 1).toString.toNat?.getD 0 : Int) else (s.toNat?.getD 0 : Int)

mutual
def parseNode : Nat → List String → Option (PNode × List String)
  | 0, _ => none
  | _ + 1, [] => none
  | fuel + 1, tok :: rest =>
    let body := (tok.drop 1).toString
    match tok.toList.head? with
    | some 'N' => some (.null (body.toNat?.getD 0), rest)
    | some 'T' => some (.bool true (body.toNat?.getD 0), rest)
    | some 'F' => some (.bool false (body.toNat?.getD 0), rest)
    | some 'I' =>
      match body.splitOn ":" with
      | [i, v] => some (.int (intOfString i) (v.toNat?.getD 0), rest)
      | _ => none
    | some 'S' =>
      match body.splitOn ":" with
      | [st, h] => some (.str (strOfHex h) (parseStyle st), rest)
      | _ => none
    | some 'Q' =>
      match body.splitOn ":" with
      | [f, n] =>
        (parseItems fuel (n.toNat?.getD 0) rest).map fun (items, r) =>
          (.seq (digitAt f 0 == 1) (digitAt f 1) (digitAt f 2 == 1) items, r)
      | _ => none
    | some 'M' =>
      match body.splitOn ":" with
      | [f, n] =>
        (parseEntries fuel (n.toNat?.getD 0) rest).map fun (es, r) =>
          (.map (digitAt f 0 == 1) (digitAt f 1) (digitAt f 2 == 1) es, r)
      | _ => none
    | some 'A' => (parseNode fuel rest).map fun (n, r) => (.anchored (strOfHex body) n, r)
    | some 'R' => (parseNode fuel rest).map fun (n, r) => (.alias (strOfHex body) n.tree, r)
    | _ => none
def parseItems : Nat → Nat → List String → Option (PItems × List String)
  | 0, _, _ => none
  | _ + 1, 0, toks => some (.nil, toks)
  | fuel + 1, k + 1, m :: toks =>
    match parseNode fuel toks with
    | none => none
    | some (n, r) => (parseItems fuel k r).map fun (its, r') => (.cons (parseMeta m) n its, r')
  | _ + 1, _ + 1, [] => none
def parseEntries : Nat → Nat → List String → Option (PEntries × List String)
  | 0, _, _ => none
  | _ + 1, 0, toks => some (.nil, toks)
  | fuel + 1, k + 1, m :: key :: toks =>
    match ((key.drop 1).toString).splitOn ":" with
    | [ks, h] =>
      match parseNode fuel toks with
      | none => none
      | some (n, r) =>
        (parseEntries fuel k r).map fun (es, r') => (.cons (parseMeta m) (strOfHex h) (parseKStyle ks) n es, r')
    | _ => none
  | _ + 1, _ + 1, _ => none
end

def parseDocsW : Nat → Nat → List String → Option (List PDoc)
  | 0, _, _ => none
  | _ + 1, 0, _ => some []
  | fuel + 1, k + 1, d :: m :: toks =>
    match parseNode (toks.length + 1) toks with
    | none => none
    | some (n, r) =>
      let mt := parseMeta m
      (parseDocsW fuel k r).map fun ds =>
        { fill := mt.fill, marker := digitAt d 1 == 1, endMarker := digitAt d 2 == 1, root := n,
          rootMeta := { mt with fill := [] } } :: ds
  | _ + 1, _ + 1, _ => none

def parseStream (br : String) (ndocs : String) (toks : String) : Option PStream :=
  let ts := toks.splitOn ","
  let n := ndocs.toNat?.getD 0
  (parseDocsW (n + 1) n ts).map fun ds =>
    { docs := ds, br := if br == "c" then .crlf else if br == "r" then .cr else .lf }

/-! Canonical tree text: `n`, `t`/`f`, `i<dec>`, `s<hex>`, `[a,b]`, `{<hexkey>:v,…}`; documents
joined by `;` (`-` for an empty stream). -/

mutual
def canon : Tree → String
  | .null => "n"
  | .bool true => "t"
  | .bool false => "f"
  | .int i => "i" ++ toString i
  | .str s => "s" ++ hexOfStr s
  | .seq xs => "[" ++ canonList true xs ++ "]"
  | .map kvs => "{" ++ canonKVs true kvs ++ "}"
def canonList (first : Bool) : List Tree → String
  | [] => ""
  | x :: xs => (if first then "" else ",") ++ canon x ++ canonList false xs
def canonKVs (first : Bool) : List (Str × Tree) → String
  | [] => ""
  | (k, x) :: xs => (if first then "" else ",") ++ hexOfStr k ++ ":" ++ canon x ++ canonKVs false xs
end

def canonDocs (ts : List Tree) : String :=
  if ts.isEmpty then "-" else ";".intercalate (ts.map canon)

def errStr : Err → String
  | .utf8 => "utf8"
  | .unsupported w => "unsupported:" ++ w.replace " " "_"
  | .syntax w => "syntax:" ++ w.replace " " "_"
  | .fuel => "fuel"

def exec (a : List String) : String :=
  match a with
  -- load <br> <ndocs> <tokens> <features (informative)> <hex of rendered bytes>
  | ["load", br, nd, toks, _feat, hex] =>
    match parseStream br nd toks with
    | none => "BAD-REQUEST"
    | some ps =>
      if !admissible ps then "NOT-ADMISSIBLE" else
      let bytes := render ps
      if hexOfBytes bytes != hex then "RENDER-MISMATCH " ++ hexOfBytes bytes else
      match loadRef bytes with
      | .error e => "MODEL-SPEC loadRef-error " ++ errStr e
      | .ok ts =>
        let want := canonDocs ps.trees
        let got := canonDocs ts
        if got != want then "MODEL-SPEC " ++ got ++ " want " ++ want
        else
          -- JSON encoding of every document reads back to the tree
          let jsonOk := ts.all fun t => match readJson (toJson t) with | some t' => t'.beq t | none => false
          got ++ " TREE-OK " ++ (if jsonOk then "JSON-OK" else "MODEL-SPEC-JSON")
  -- cli …: same stream checks; the CLI must print one JSON value per document equal to the tree
  | ["cli", br, nd, toks, _feat, hex] =>
    match parseStream br nd toks with
    | none => "BAD-REQUEST"
    | some ps =>
      if !admissible ps then "NOT-ADMISSIBLE" else
      let bytes := render ps
      if hexOfBytes bytes != hex then "RENDER-MISMATCH " ++ hexOfBytes bytes else
      match loadRef bytes with
      | .error e => "MODEL-SPEC loadRef-error " ++ errStr e
      | .ok ts =>
        if canonDocs ts != canonDocs ps.trees then "MODEL-SPEC tree"
        else s!"CLI-OK {ts.length}"
  -- suite <id> <yaml hex> <expected json hex>: YAML Test Suite case
  | ["suite", _, yhex, jhex] =>
    match loadRef (bytesOfHex yhex) with
    | .error (.unsupported w) => "UNSUP " ++ w.replace " " "_"
    | .error e => "REF-ERROR " ++ errStr e
    | .ok ts =>
      match readJsonStream 10000 (strOfHex jhex) with
      | none => "UNSUP expected-json-outside-tree-type " ++ canonDocs ts
      | some want =>
        canonDocs ts ++ (if canonDocs want == canonDocs ts then " SUITE-OK" else " SUITE-DIFF want " ++ canonDocs want)
  -- raw <yaml hex>: loadRef on arbitrary bytes
  | ["raw", yhex] =>
    match loadRef (bytesOfHex yhex) with
    | .error e => "ERR " ++ errStr e
    | .ok ts => canonDocs ts
  | _ => "BAD-OP"

end SV.Drv.C14
