import SuccinctlyVerif.Spec.Bits
import SuccinctlyVerif.Model.JsonIb
import Driver.Util
namespace SV.Drv.C07
open SV SV.Drv SV.JsonIb

def parseTagged (s : String) : List Nat := parseNats (s.drop 2).toString

def specSelect (ws : List (BitVec 64)) (ibLen k : Nat) : Option Nat :=
  (selectB true (allBits ws) k).filter (· < ibLen)

def prefixCounts (bs : List Bool) : Array Nat :=
  (bs.foldl (fun (acc : Array Nat × Nat) b =>
    let c := if b then acc.2 + 1 else acc.2
    (acc.1.push c, c)) (#[0], 0)).1

def exec (a : List String) : String :=
  match a with
  | ["ibq", ws, ibLen, rs, ss, fs] =>
    let ws := parseWords ws; let ibLen := parseNat ibLen
    let rs := parseTagged rs; let ss := parseTagged ss
    let fs : List (Nat × Nat) :=
      let body := (fs.drop 2).toString
      if body == "-" then [] else (body.splitOn ",").map fun t =>
        match t.splitOn ":" with
        | [k, h] => (parseNat k, parseNat h)
        | _ => (0, 0)
    let bits := allBits ws
    let rank := buildIbRank ws
    let rOut := rs.map fun p => ibRank1With rank ws p
    let rSpec := rs.map fun p => rankB true bits p
    let sOut := ss.map fun k => ibSelect1With rank ws ibLen k
    let ks := (ss ++ fs.map (·.1)).eraseDups
    let specTab := ks.map fun k => (k, specSelect ws ibLen k)
    let spec := fun k => (specTab.lookup k).getD none
    let sSpec := ss.map spec
    let fOut := fs.map fun (k, h) => ibSelect1FromWith rank ws ibLen k h
    let fSpec := fs.map fun (k, _) => spec k
    let body := s!"r:{",".intercalate (rOut.map toString)};s:{",".intercalate (sOut.map optStr)};f:{",".intercalate (fOut.map optStr)}"
    if rOut ≠ rSpec ∨ sOut ≠ sSpec ∨ fOut ≠ fSpec then
      s!"MODEL-SPEC {body} spec=s:{",".intercalate (sSpec.map optStr)};f:{",".intercalate (fSpec.map optStr)}"
    else body
  | ["doc", text, ib, bp, bpLen, _starts, offs] =>
    let textLen := (if text == "-" then 0 else text.length / 2)
    let ws := parseWords ib
    let bpLen := parseNat bpLen
    let bpBits := bitsOf (parseWords bp) bpLen
    let pc := prefixCounts bpBits
    let bpRank1 : Nat → Nat := fun i => pc.getD (min i bpLen) 0
    let opens := (List.range bpLen).filter fun p => bpBits.getD p false
    let rank := buildIbRank ws
    let tps := opens.map fun p => ibSelect1FromWith rank ws textLen (bpRank1 p) (bpRank1 p / 8)
    let cs := (parseTagged offs).map fun o => cursorAtOffsetWith rank ws textLen textLen bpLen bpRank1 o
    s!"tp:{",".intercalate (tps.map optStr)};c:{",".intercalate (cs.map optStr)};ORACLE-OK"
  | _ => "BAD-OP"

end SV.Drv.C07
