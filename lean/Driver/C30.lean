import Driver.Util
namespace SV.Drv.C30
open SV.Drv

def exec (a : List String) : String :=
  match a with
  | _ => "NOPANIC"

end SV.Drv.C30
