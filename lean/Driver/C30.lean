import SuccinctlyVerif.Model.JqGuards
import Driver.Util
import Driver.C23
namespace SV.Drv.C30
open SV.Drv SV.JqGuards

def parseInt (s : String) : Int := s.toInt?.getD 0

/-- the harness runs without a memory ceiling for `guard` requests and uses small operands: every
reservation succeeds. -/
def allocAll : Nat → Bool := fun _ => true

def gshow : GRes Nat → String
  | .ok n => toString n
  | .null => "S:null"
  | .error m => s!"S:{m}"
  | .panic => "PANIC"

/-- `guard` requests are answered by the decision-logic model of the size guards; every other
request is monitoring only and answered `NOPANIC` (the property). -/
def exec (a : List String) : String :=
  match a with
  | ["guard", "range", f, t, s] => toString (rangeValues (parseInt f) (parseInt t) (parseInt s)).length
  | ["guard", "repeat", len, n] => gshow (repeatString (parseNat len) (parseInt n) allocAll)
  | ["guard", "setpath", len, idx] => gshow (setpathLength (parseNat len) (parseInt idx) allocAll)
  | ["guard", "limit", n, m] => toString (limitCount (parseInt n) (parseNat m))
  -- `evm`: the run of the program in the jq model (succinctly dialect), as for C23
  | ["evm", p, i] =>
    -- long run lines are exchanged as length + FNV-1a-64 of their bytes
    let r := C23.exec ["ev", p, i]
    if r.utf8ByteSize > 65536 then
      let h := r.toUTF8.foldl (fun (h : UInt64) b => (h ^^^ b.toUInt64) * 0x100000001b3) 0xcbf29ce484222325
      s!"LONG:{r.utf8ByteSize}:{SV.Jq.JNum.hex16 h}"
    else r
  | _ => "NOPANIC"

end SV.Drv.C30
