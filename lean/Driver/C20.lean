import SuccinctlyVerif.Spec.Dsv
import SuccinctlyVerif.Model.Dsv
import Driver.Util
namespace SV.Drv.C20
open SV SV.Drv SV.Dsv

def idxStr (r : List (BitVec 64) × List (BitVec 64)) : String :=
  s!"{hexWords r.1}/{hexWords r.2}"

def flag (s : String) (i : Nat) : Bool := (s.toList.getD i '0') == '1'

def byteOf (s : String) : Byte := BitVec.ofNat 8 (parseHexNat s)

def pairStr (p : BitVec 64 × BitVec 64) : String := s!"{hexOfNat p.1.toNat},{hexOfNat p.2.toNat}"

/-- The bit-serial oracle on one word: (outside mask, final state). -/
def serialToggle (carry qm : BitVec 64) : BitVec 64 × BitVec 64 :=
  let st := carry.getLsbD 0
  let out := wordOfBits ((List.range 64).map fun i => !(serialState qm st i))
  (out, if serialState qm st 63 then 1#64 else 0#64)

/--
`idx <flags> <d> <q> <n> <text>`: flags = three characters `avx2 bmi2 fast_bmi2` (`1`/`0`) naming the
engines the request drives; answer `scalar;sse2;avx2|-;bmi2|-;dispatch`, each `markers/newlines`.
`tog <flags> <carry> <qmask>`: `prefix_xor;out,carry (prefix-xor tail);out,carry (PDEP tail)|-`.
`dep <carry> <qmask> <addend>`: `toggle64_from_deposit` on an arbitrary addend; `next_carry`.
-/
def exec (a : List String) : String :=
  match a with
  | ["idx", fl, d, q, n, t] =>
    let d := byteOf d; let q := byteOf q; let n := byteOf n
    let text := parseBytes t
    let avx2 := flag fl 0; let bmi2 := flag fl 1; let fast := flag fl 2
    let spec := indexSpec d q n text
    let sc := buildIndexScalar d q n text
    let ss := buildIndexSse2 d q n text
    let av := buildIndexAvx2 d q n text
    let bm := buildIndexBmi2 d q n text
    let di := buildIndexDispatch fast avx2 d q n text
    let body := s!"{idxStr sc};{idxStr ss};{if avx2 then idxStr av else "-"};{if avx2 && bmi2 then idxStr bm else "-"};{idxStr di}"
    if sc ≠ spec ∨ ss ≠ spec ∨ av ≠ spec ∨ bm ≠ spec ∨ di ≠ spec then s!"MODEL-SPEC {body} spec={idxStr spec}"
    else body
  | ["tog", fl, c, qm] =>
    let c := parseWord c; let qm := parseWord qm
    let bmi2 := flag fl 1
    let p := togglePrefix c qm
    let b := toggleBmi2 c qm
    let s := serialToggle c qm
    let body := s!"{hexOfNat (Gen.prefix_xor qm).toNat};{pairStr p};{if bmi2 then pairStr b else "-"}"
    if p ≠ s ∨ b ≠ s then s!"MODEL-SPEC {body} serial={pairStr s}" else body
  | ["dep", c, qm, ad] =>
    let c := parseWord c; let qm := parseWord qm; let ad := parseWord ad
    s!"{pairStr (Gen.toggle64_from_deposit c qm ad)};{hexOfNat (Gen.next_carry c qm).toNat}"
  | _ => "BAD-OP"

end SV.Drv.C20
