import SuccinctlyVerif.Spec.EliasFano
import SuccinctlyVerif.Model.EliasFano
import Driver.Util
namespace SV.Drv.C03
open SV SV.Drv SV.EF

def R : Nat := Gen.EF_SELECT_SAMPLE_RATE

def o32 : Option Nat → String
  | some v => toString v
  | none => "-"

def dots (xs : List Nat) : String :=
  if xs.isEmpty then "-" else ".".intercalate (xs.map toString)

def predStr : Option (Nat × Nat) → String
  | some (i, x) => s!"{i}:{x}"
  | none => "-"

def obsStr (ret : String) (cur : Option Nat) (idx : Nat) (exh : Bool) : String :=
  s!"{ret}/{o32 cur}/{idx}/{if exh then 1 else 0}"

/-- Argument of an op token (`b17` → 17). -/
def argOf (op : String) : Nat := parseNat (op.drop 1).toString

/-- One operation on the model: `none` = the model panics. -/
def modelOp (ef : EliasFano) (c : Cursor) (op : String) : Option (Cursor × String) :=
  let cursorOp (r : Res (Cursor × Option Nat)) (withRet : Bool) : Option (Cursor × String) :=
    match r with
    | none => none
    | some (c', ret) =>
      match current ef c' with
      | none => none
      | some cur => some (c', obsStr (if withRet then o32 ret else "=") cur (index c') (isExhausted ef c'))
  match op.front with
  | 'a' => cursorOp (advanceOne ef c) true
  | 'b' => cursorOp (advanceBy R ef c (argOf op)) true
  | 's' => cursorOp (seek R ef c (argOf op)) true
  | 'f' => cursorOp ((cursorFrom R ef (argOf op)).map fun c' => (c', none)) false
  | 'z' => cursorOp (some (cursor ef, none)) false
  | 'c' => cursorOp ((current ef c).map fun r => (c, r)) true
  | 'i' => cursorOp (some (c, none)) false
  | 'e' => cursorOp (some (c, none)) false
  | 'g' => (get R ef (argOf op)).map fun r => (c, o32 r)
  | 'p' => (predecessor R ef (argOf op % 2 ^ 32)).map fun r => (c, predStr r)
  | 'l' => some (c, toString ef.len)
  | 'u' => some (c, toString ef.univ)
  | 't' => (toList ef).map fun xs => (c, dots xs)
  | _ => some (c, "BAD-OP")

/-- The same operation on the plain sequence (Spec/EliasFano). -/
def plainOp (vs : List Nat) (idx : Nat) (op : String) : Nat × String :=
  let obs (j : Nat) (ret : String) : Nat × String :=
    (j, obsStr ret vs[j]? j (decide (j ≥ vs.length)))
  match op.front with
  | 'a' => let j := EFSpec.goto vs (idx + 1); obs j (o32 vs[j]?)
  | 'b' => let j := EFSpec.goto vs (idx + argOf op); obs j (o32 vs[j]?)
  | 's' => let j := EFSpec.goto vs (argOf op); obs j (o32 vs[j]?)
  | 'f' => obs (EFSpec.goto vs (argOf op)) "="
  | 'z' => obs (EFSpec.goto vs 0) "="
  | 'c' => obs idx (o32 vs[idx]?)
  | 'i' => obs idx "="
  | 'e' => obs idx "="
  | 'g' => (idx, o32 vs[argOf op]?)
  | 'p' => (idx, predStr (EFSpec.predecessor vs (argOf op % 2 ^ 32)))
  | 'l' => (idx, toString vs.length)
  | 'u' => (idx, toString (EFSpec.universeOf vs))
  | 't' => (idx, dots vs)
  | _ => (idx, "BAD-OP")

/-- Run the session; accumulates answers in reverse. `bad` = first op where model ≠ plain spec
(cross-check). -/
def session (ef : EliasFano) (vs : List Nat) :
    List String → Nat → Cursor → Nat → List String → Option String →
      Option (List String × Option String)
  | [], _, _, _, acc, bad => some (acc.reverse, bad)
  | op :: ops, n, c, idx, acc, bad =>
    match modelOp ef c op with
    | none => none
    | some (c', ans) =>
      let (idx', want) := plainOp vs idx op
      let bad := if bad.isNone ∧ want ≠ ans then some s!"MODEL-SPEC@{n}:{want}" else bad
      session ef vs ops (n + 1) c' idx' (ans :: acc) bad

def exec (a : List String) : String :=
  match a with
  | ["run", seq, ops] =>
    let vs := parseNats seq
    let ops := if ops == "-" then [] else ops.splitOn ","
    match build R vs with
    | none => "PANIC"
    | some ef =>
      match session ef vs ops 0 (cursor ef) 0 [] none with
      | none => "PANIC"
      | some (answers, bad) =>
        let body := if answers.isEmpty then "-" else ",".intercalate answers
        match bad with
        | some b => s!"{body} {b}"
        | none => s!"{body} ORACLE-OK"
  | ["big", n, mul, idxs] =>
    -- arithmetic sequence `vs[j] = mul·j` of `n` elements (manual replays of the sample-truncation
    -- finding; far too long to run through the list model): answered from the plain sequence,
    -- to which the model is proved equal whenever `HighFits` holds.
    let n := parseNat n; let mul := parseNat mul
    let ans := (parseNats idxs).map fun i => if i < n then toString ((mul * i) % 2 ^ 32) else "-"
    s!"{",".intercalate ans} ORACLE-OK"
  | _ => "BAD-OP"

end SV.Drv.C03
