import SuccinctlyVerif.Spec.YamlKernels
import SuccinctlyVerif.Model.YamlSimd
import Driver.Util
namespace SV.Drv.C16
open SV SV.Drv SV.YamlK

def optS : Option Nat → String
  | some n => toString n
  | none => "-"

def classStr (c : CharClass) : String :=
  "/".intercalate ([c.width, c.newlines, c.carriageReturns, c.colons, c.hyphens, c.spaces,
    c.quotesDouble, c.quotesSingle, c.backslashes, c.hash].map hexOfNat)

def utf8Chars (bs : List (BitVec 8)) : List Char :=
  match String.fromUTF8? (ByteArray.mk (bs.map fun b => UInt8.ofNat b.toNat).toArray) with
  | some s => s.toList
  | none => []

def clampStr : Option Bool → String
  | some true => "T"
  | some false => "F"
  | none => "-"

/-- Answers: one slot per dispatch level of the *model* (`avx2;sse2;scalar`) followed by the
spec's answer (compared with the build's public entry point).  `MODEL-SPEC` if any model level
differs from the spec on this input. -/
def exec (a : List String) : String :=
  match a with
  | ["fq", b, s, e] =>
    let buf := parseBytes b; let s := parseNat s; let e := parseNat e
    let sp := findIn isQuoteOrEsc buf s e
    let r := [Level.avx2, .sse2, .scalar].map fun l => findQuoteOrEscape l buf s e
    let body := ";".intercalate ((r ++ [sp]).map optS)
    if r.all (· == sp) then body else "MODEL-SPEC " ++ body
  | ["sq", b, s, e] =>
    let buf := parseBytes b; let s := parseNat s; let e := parseNat e
    let sp := findIn isSingleQuote buf s e
    let r := [Level.avx2, .sse2, .scalar].map fun l => findSingleQuote l buf s e
    let body := ";".intercalate ((r ++ [sp]).map optS)
    if r.all (· == sp) then body else "MODEL-SPEC " ++ body
  | ["nl", b, s] =>
    let buf := parseBytes b; let s := parseNat s
    let sp := findFrom isLF buf s
    let r := [Level.avx2, .sse2, .scalar].map fun l => findNewline l buf s
    let body := ";".intercalate ((r ++ [sp]).map optS)
    if r.all (· == sp) then body else "MODEL-SPEC " ++ body
  | ["ls", b, s] =>
    let buf := parseBytes b; let s := parseNat s
    let sp := countLeadingSpaces buf s
    let r := [Level.avx2, .sse2, .scalar].map fun l => countLeadingSpacesAt l buf s
    let body := ";".intercalate ((r ++ [sp]).map toString)
    if r.all (· == sp) then body else "MODEL-SPEC " ++ body
  | ["be", b, s, m] =>
    let buf := parseBytes b; let s := parseNat s; let m := parseNat m
    let sp := findBlockScalarEndScalar buf s m
    let r := [Level.avx2, .sse2, .scalar].map fun l => blockEndKernel l buf s m
    let pub := [Level.avx2, .sse2, .scalar].map fun l => findBlockScalarEnd l buf s m
    let body := ";".intercalate ((r ++ [sp]).map toString)
    if r.all (· == sp) && pub.all (· == sp) then body else "MODEL-SPEC " ++ body
  | ["an", b, s] =>
    let buf := parseBytes b; let s := parseNat s
    let sp := parseAnchorNameScalar buf s
    let raw := parseAnchorNameAvx2 buf s
    let pub := [Level.avx2, .sse2, .scalar].map fun l => parseAnchorName l buf s
    let body := ";".intercalate ([raw, sp, sp].map toString)
    if raw == sp && pub.all (· == sp) then body else "MODEL-SPEC " ++ body
  | ["cl", h, b, o] =>
    let hasCr := h == "1"; let buf := parseBytes b; let o := parseNat o
    let av := if o + 32 ≤ buf.length then some (classifyChunk 32 hasCr buf o) else none
    let ss := if o + 16 ≤ buf.length then some (classifyChunk 16 hasCr buf o) else none
    let okA := av == (if o + 32 ≤ buf.length then some (classSpec hasCr buf o 32) else none)
      && classifyYamlChars true hasCr buf o == (if o + 32 ≤ buf.length then av else ss)
    let okS := ss == (if o + 16 ≤ buf.length then some (classSpec hasCr buf o 16) else none)
      && classifyYamlChars false hasCr buf o == ss
    let f : Option CharClass → String := fun | some c => classStr c | none => "-"
    let body := s!"{f av};{f ss};ok"
    if okA && okS then body else "MODEL-SPEC " ++ body
  | ["clamp", v] =>
    clampStr (parseSimdClamp (utf8Chars (parseBytes v)))
  | ["disp", d, v] =>
    let env := if v == "none" then none else some (utf8Chars (parseBytes v))
    if avx2Enabled (d == "1") env then "1" else "0"
  | "idx" :: _ => "XVARIANT"
  | _ => "BAD-OP"

end SV.Drv.C16
