import SuccinctlyVerif.Spec.YamlScalar
import SuccinctlyVerif.Model.YamlEmit
import SuccinctlyVerif.Model.YamlAnchor
import SuccinctlyVerif.Model.YamlBlock
import Driver.Util
namespace SV.Drv.C15
open SV SV.Drv SV.Yaml SV.Yaml.Emit

/-- hex (UTF-8 bytes, `-` = empty) → characters; invalid UTF-8 gives `none`. -/
def chars? (h : String) : Option (List Char) :=
  let bs := parseBytes h
  let ba := ByteArray.mk (bs.map (fun b => UInt8.ofNat b.toNat)).toArray
  (String.fromUTF8? ba).map String.toList

def hexOfChars (cs : List Char) : String :=
  let ba := (String.ofList cs).toUTF8
  if ba.size = 0 then "-" else
  String.ofList (ba.toList.flatMap fun b => [hexNibble (b.toNat / 16), hexNibble (b.toNat % 16)])

def scalarStr : Scalar → String
  | .null => "null"
  | .bool b => if b then "bool:true" else "bool:false"
  | .int n => s!"int:{n}"
  | .float .finite => "float:fin"
  | .float .posInf => "float:inf"
  | .float .negInf => "float:-inf"
  | .float .nan => "float:nan"
  | .str _ => "str"

def styleOf (s : String) : Style :=
  if s == "s" then .single else if s == "d" then .double else .other

def ctxValue (flow : Bool) : Ctx := if flow then .flowValue else .blockValue
def ctxKey (flow top : Bool) : Ctx := if flow then .flowKey else .blockKey top

def srcStyleOf (s : String) : SrcStyle :=
  if s == "d" then .doubleQuoted else if s == "s" then .singleQuoted
  else if s == "u" then .unquoted else .block

instance : Inhabited Anchor.Forest := ⟨.nil⟩

/-- Forest encoding `N<label>.<n|d<name>|a<name>>.<payload>[children]…` (see the harness). -/
partial def parseNodes (cs : List Char) : Anchor.Forest × List Char :=
  let num (cs : List Char) : Nat × List Char :=
    let ds := cs.takeWhile Char.isDigit
    (ds.foldl (fun a c => a * 10 + (c.toNat - 48)) 0, cs.dropWhile Char.isDigit)
  match cs with
  | 'N' :: r =>
    let (label, r) := num r
    let r := r.drop 1
    let (mark, r) : Anchor.Mark × List Char :=
      match r with
      | 'd' :: r' => let (n, r'') := num r'; (.declares n, r'')
      | 'a' :: r' => let (n, r'') := num r'; (.aliases n, r'')
      | _ :: r' => (.none, r')
      | [] => (.none, [])
    let r := r.drop 1
    let (payload, r) := num r
    let r := r.drop 1
    let (children, r) := parseNodes r
    let r := r.drop 1
    let (rest, r) := parseNodes r
    (.cons label mark payload children rest, r)
  | _ => (.nil, cs)

instance : Inhabited Block.Tree := ⟨.nil⟩

/-- Block-tree encoding `K<hexkey>S<hexval>;` / `K<hexkey>M[…]` (see the harness). -/
partial def parseBlock (cs : List Char) : Block.Tree × List Char :=
  match cs with
  | 'K' :: r =>
    let hx := r.takeWhile (fun c => c.isDigit || ('a' ≤ c && c ≤ 'f'))
    let r := r.dropWhile (fun c => c.isDigit || ('a' ≤ c && c ≤ 'f'))
    let key := (chars? (if hx.isEmpty then "-" else String.ofList hx)).getD []
    match r with
    | 'S' :: r' =>
      let hv := r'.takeWhile (fun c => c != ';')
      let r'' := (r'.dropWhile (fun c => c != ';')).drop 1
      let v := (chars? (if hv.isEmpty then "-" else String.ofList hv)).getD []
      let (rest, r3) := parseBlock r''
      (.cons key (some v) .nil rest, r3)
    | 'M' :: '[' :: r' =>
      let (ch, r2) := parseBlock r'
      let (rest, r3) := parseBlock (r2.drop 1)
      (.cons key none ch rest, r3)
    | _ => (.nil, r)
  | _ => (.nil, cs)

def lineText (l : Block.Line) : List Char :=
  List.replicate l.indent ' ' ++ l.key ++ [':'] ++
    (match l.value with | some v => ' ' :: v | none => [])

def evStr : Anchor.Ev → String
  | .decl n _ => s!"&{n}"
  | .alias n _ => s!"*{n}"

/-- Answers of the model.  Wherever the request asks for a re-read verdict the driver prints what
the property demands (`REREAD-OK` / `LOOP-OK`); the harness prints what the real loader did. -/
def exec (a : List String) : String :=
  let rev := currentRev
  match a with
  | ["rp", h] =>
    match chars? h with
    | none => "BAD-UTF8"
    | some s =>
      let m := resolvePlainRs s
      let sp := coreResolve s
      -- `resolve_plain_is_core_schema`: equal outside `deviates`
      if deviates s || m = sp then scalarStr m else s!"MODEL-SPEC {scalarStr m} spec={scalarStr sp}"
  | ["qv", h, st, fl, _ind] =>
    match chars? h with
    | none => "BAD-UTF8"
    | some s => s!"{hexOfChars (yamlQuoteStringWithStyle rev (fl == "1") s (styleOf st))} REREAD-OK"
  | ["qk", h, fl, _top, _ind] =>
    match chars? h with
    | none => "BAD-UTF8"
    | some s => s!"{hexOfChars (yamlQuoteKey rev (fl == "1") s)} REREAD-OK"
  | ["dq", h] =>
    match chars? h with
    | none => "BAD-UTF8"
    | some s => s!"{hexOfChars (yamlDoubleQuoteEscaped s)} REREAD-OK"
  | ["sq", h] =>
    match chars? h with
    | none => "BAD-UTF8"
    | some s =>
      if canSingleQuote s then s!"can=1 {hexOfChars (yamlSingleQuoteEscaped s)} REREAD-OK"
      else s!"can=0 {hexOfChars (yamlSingleQuoteEscaped s)} -"
  | ["snq", h] =>
    match chars? h with
    | none => "BAD-UTF8"
    | some s =>
      let b (x : Bool) := if x then "1" else "0"
      let ss := if s = [] then ['\'', '\''] else streamSmartQuoted rev s
      s!"nq={b (needsYamlQuoting rev s)} num={b (looksLikeYamlNumber s)} ss={hexOfChars ss}"
  | ["sdq", h] =>
    match chars? h with
    | none => "BAD-UTF8"
    | some s => s!"{hexOfChars (streamYamlDoubleQuoted s)} REREAD-OK"
  | ["ssq", h] =>
    match chars? h with
    | none => "BAD-UTF8"
    | some s => s!"{hexOfChars (streamYamlSingleQuoted s)}"
  | ["sbq", h] =>
    match chars? h with
    | none => "BAD-UTF8"
    | some s => s!"{hexOfChars (streamSmartQuoted rev s)} REREAD-OK"
  | ["ssv", _doc, st, h] =>
    -- the style decision of `stream_yaml_string_value` for a source scalar of style `st`
    -- decoding to `h` (the harness obtains both from a real document)
    match chars? h with
    | none => "BAD-UTF8"
    | some s => s!"{hexOfChars (streamStringValue rev (srcStyleOf st) s)} REREAD-OK"
  | ["sbl", _doc, ind, st, h] =>
    match chars? h with
    | none => "BAD-UTF8"
    | some s =>
      let k := streamIndentWidth (parseNat ind)
      match blockScalarDecision k k s with
      | none =>
        if st == "f" then hexOfChars (streamSmartQuoted rev s)
        else s!"{hexOfChars (streamSmartQuoted rev s)} REREAD-OK"
      | some e =>
        if st == "f" then hexOfChars (streamBlockFoldedHeader e s)
        else s!"{hexOfChars (streamBlockLiteral k e s)} REREAD-OK"
  | ["ind", n] =>
    let n := parseNat n
    s!"dom={domIndentWidth rev n} stream={streamIndentWidth n}"
  | ["anc", enc] =>
    let f := (parseNodes enc.toList).1
    let eqv : Anchor.Forest → Anchor.Forest → Bool := fun a b => a == b
    let evs := Anchor.emit (Anchor.enforce eqv f)
    let toks := if evs.isEmpty then "-" else ",".intercalate (evs.map evStr)
    -- `alias_sound`: sound whenever no mark lies below an alias node; otherwise computed
    let ok := Anchor.aliasOpaque f || Anchor.sound eqv evs
    s!"{toks} {if ok then "SOUND" else "UNSOUND"}"
  | ["blk", step, enc] =>
    let tr := (parseBlock enc.toList).1
    let ls := Block.emitLines rev (parseNat step) 0 tr
    let text := (ls.map lineText).intersperse ['\n'] |>.flatten
    s!"{hexOfChars text} LOAD-OK"
  | ["sloop", _doc, _ind] => "LOOP-OK"
  | ["cli", _doc, _prog, _ind] => "LOOP-OK"
  | ["cli", _doc, _prog, _ind, _flags] => "LOOP-OK"
  | _ => "BAD-OP"

end SV.Drv.C15
