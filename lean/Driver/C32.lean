import SuccinctlyVerif.Model.JsonSimple
import Driver.Util
namespace SV.Drv.C32
open SV SV.Drv SV.JsonSimple

def kidsStr : Option (List Nat) → String
  | none => "-"
  | some xs => "[" ++ ".".intercalate (xs.map toString) ++ "]"

def exec (a : List String) : String :=
  match a with
  | ["q", f, bs, ps] =>
    let json := parseBytes bs
    let ps := parseNats ps
    let x := build (f == "1") json
    let count := structuralCount x
    let head := s!"{count}|{listStr (structuralPositions x)}|{optStr (structuralPos x count)}|"
    let parts := ps.map fun p =>
      s!"{p}:{optStr (structuralIndex x p)}:{optStr (findClose x json p)}:{optStr (skipValue x json p)}:{kidsStr (children x json p)}"
    head ++ (if parts.isEmpty then "-" else ";".intercalate parts)
  | _ => "BAD-OP"

end SV.Drv.C32
