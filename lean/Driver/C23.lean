import SuccinctlyVerif.Model.JqPrelude
import Driver.Util
/-!
Driver for C23 (and the shared jq run used by C24/C25): one request = program text + input JSON
text, both hex; the answer is the canonical run line
`v1;v2;…;END` | `…;ERR:<payload>` | `…;BREAK` | `…;HALT:n`, or `OUT-OF-FRAGMENT` when the model has
no verdict (program outside the modelled fragment, fuel exhausted, unmodelled corner).
-/
namespace SV.Drv.C23
open SV SV.Drv SV.Jq

def hexToString (s : String) : Option String :=
  if s == "-" then some "" else
  let bs := (parseBytes s).map fun b => UInt8.ofNat b.toNat
  String.fromUTF8? (ByteArray.mk bs.toArray)

def fuelDefault : Nat := 400

def runLine (outs : List (Out JNum)) : String :=
  let parts := outs.map fun
    | .val v _ => v.canon
    | .err e => "ERR:" ++ e.canon
    | .brk _ => "BREAK"
    | .halt c _ => s!"HALT:{c}"
  let parts := if terminated outs then parts else parts ++ ["END"]
  ";".intercalate parts

def preludeJ : Option (Env JNum) := preludeEnv JNum

def runProgram (d : Dialect) (prog input : String) : String :=
  match preludeJ, parseProgram prog d.succinctly, (readJson input : Option (JV JNum)) with
  | some env, some e, some v =>
    (match eval d fuelDefault e env v .off with
     | some outs => runLine outs
     | none => "OUT-OF-FRAGMENT")
  | none, _, _ => "PRELUDE-BROKEN"
  | _, none, _ => "OUT-OF-FRAGMENT parse"
  | _, _, none => "OUT-OF-FRAGMENT input"

def exec (a : List String) : String :=
  match a with
  | ["ev", p, i] =>
    (match hexToString p, hexToString i with
     | some prog, some input => runProgram {} prog input
     | _, _ => "BAD-HEX")
  | ["txt", p, i] =>
    -- debugging aid: program and input as plain tokens without spaces
    runProgram {} p i
  | _ => "BAD-OP"

end SV.Drv.C23
