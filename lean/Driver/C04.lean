import SuccinctlyVerif.Spec.Bits
import SuccinctlyVerif.Spec.BP
import SuccinctlyVerif.Spec.BPNav
import SuccinctlyVerif.Model.BP
import Driver.Util
namespace SV.Drv.C04
open SV SV.Drv SV.BPM

def parseInt (s : String) : Int :=
  if s.startsWith "-" then - ((s.drop 1).toString.toNat?.getD 0 : Int) else (s.toNat?.getD 0 : Int)

def parseInts (s : String) : List Int :=
  if s == "-" then [] else (s.splitOn ",").map parseInt

def intsStr (xs : List Int) : String :=
  if xs.isEmpty then "-" else ",".intercalate (xs.map toString)

def natsStr (xs : List Nat) : String :=
  if xs.isEmpty then "-" else ",".intercalate (xs.map toString)

def boolStr (b : Bool) : String := if b then "1" else "0"

/-- constructor name → (owned?, select kind, has a select index at all) -/
def parseCtor (c : String) : Option (Bool × SelKind) :=
  match c.splitOn ":" with
  | ["new"] => some (true, .noSelect)
  | ["fw"] => some (false, .noSelect)
  | ["news"] => some (true, .withSelect)
  | ["fws"] => some (false, .withSelect)
  | ["newc"] => some (true, .csPoppy 256)
  | ["fwc"] => some (false, .csPoppy 256)
  | ["newcr", r] => some (true, .csPoppy (parseNat r))
  | ["fwcr", r] => some (false, .csPoppy (parseNat r))
  | _ => none

def isNoSelect : SelKind → Bool
  | .noSelect => true
  | _ => false


def selSamples : Sel → String
  | .none => ""
  | .withSelect _ => ""
  | .csPoppy s r => s!";{natsStr s.toList};{r}"

def indexStr (I : BP) : String :=
  let f (a : Array (Int × Int)) := (intsStr (a.toList.map Prod.fst), intsStr (a.toList.map Prod.snd))
  let (a0, b0) := f I.l0; let (a1, b1) := f I.l1; let (a2, b2) := f I.l2
  s!"{I.totalOnes};{a0};{b0};{a1};{b1};{a2};{b2};{natsStr I.rankL1.toList};" ++
    s!"{hexWords (I.rankL2.toList.map fun n => BitVec.ofNat 64 n)};{hexWords I.words.toList}" ++ selSamples I.sel

/-- Do the scalar-built and the SSE4.1-lane-built index agree? -/
def sameIndex (a b : BP) : Bool :=
  a.l1.toList == b.l1.toList && a.l2.toList == b.l2.toList

/-- spec min prefix excess (including the empty prefix) and total excess of a bit list -/
def specMinTot (bs : List Bool) : Int × Int :=
  bs.foldl (fun (acc : Int × Int) b =>
    let e := if b then acc.2 + 1 else acc.2 - 1
    (min acc.1 e, e)) (0, 0)

/-- spec max suffix excess scanning backwards and total -/
def specMaxRevTot (bs : List Bool) : Int × Int :=
  bs.reverse.foldl (fun (acc : Int × Int) b =>
    let e := if b then acc.2 + 1 else acc.2 - 1
    (max acc.1 e, e)) (0, 0)

/-- One answer of the model and of the spec for `op` at `p`, as strings. -/
def answers (I : BP) (bits : List Bool) (noSel : Bool) (op : String) (p : Nat) : String × String :=
  match op with
  | "rank1" => (toString (I.rank1 p), toString (BP.rank1 bits p))
  | "rank0" => (toString (I.rank0 p), toString (BP.rank0 bits p))
  | "excess" => (toString (I.excess p), toString (BP.excessAt bits p))
  | "depth" => (optStr (I.depth p), optStr (BP.depth bits p))
  | "sel1" => (optStr (I.select1 p), if noSel then "-" else optStr (BP.selectTR true bits 0 p))
  | "sel0" => (optStr (I.select0 p), optStr (BP.selectTR false bits 0 p))
  | "fc" => (optStr (I.findClose p), optStr (BP.findClose bits p))
  | "fo" => (optStr (I.findOpen p), optStr (BP.findOpen bits p))
  | "enc" => (optStr (I.enclose p), optStr (BP.enclose bits p))
  | "par" => (optStr (I.parent p), optStr (BP.parent bits p))
  | "fch" => (optStr (I.firstChild p), optStr (BP.firstChild bits p))
  | "nsib" => (optStr (I.nextSibling p), optStr (BP.nextSibling bits p))
  | "sub" => (optStr (I.subtreeSize p), optStr (BP.subtreeSize bits p))
  | "open" => (boolStr (I.isOpen p), boolStr (BP.isOpen bits p))
  | "close" => (boolStr (I.isClose p), boolStr (BP.isClose bits p))
  | _ =>
    match op.splitOn ":" with
    | ["fcf", e] =>
      let e := parseInt e
      let m := optStr (I.findCloseFrom p e)
      -- the linear-scan definition exists for a start excess ≥ 1 only
      (m, if e ≥ 1 then optStr (BP.findCloseFrom bits p e.toNat) else m)
    | _ => ("BAD-OP", "BAD-OP")

def exec (a : List String) : String :=
  match a with
  | ["bp", ctor, ws, len, op, ps] =>
    match parseCtor ctor with
    | none => "BAD-CTOR"
    | some (owned, k) =>
      let ws := parseWords ws; let len := parseNat len; let ps := parseNats ps
      match construct false owned ws len k, construct true owned ws len k with
      | some I, some J =>
        if !sameIndex I J then "MODEL-SSE index differs"
        else
          let bits := bitsOf ws len
          let noSel := isNoSelect k
          let ops := op.splitOn "+"
          let res := ops.map fun o => (o, ps.map fun p => (p, answers I bits noSel o p))
          let bad := res.findSome? fun (o, l) =>
            (l.find? fun (_, (m, s)) => m != s).map fun (p, (m, s)) => s!"MODEL-SPEC {o} {p} model={m} spec={s}"
          match bad with
          | some msg => msg
          | none =>
            let ones := bits.count true
            if I.totalOnes ≠ ones then s!"MODEL-SPEC total_ones model={I.totalOnes} spec={ones}"
            else
              let groups := res.map fun (_, l) => if l.isEmpty then "-" else ",".intercalate (l.map fun (_, (m, _)) => m)
              ";".intercalate (groups ++ [s!"n{I.len}/{I.totalOnes}/{I.len - I.totalOnes}"])
      | _, _ => "PANIC"
  | ["idx", ctor, ws, len] =>
    match parseCtor ctor with
    | none => "BAD-CTOR"
    | some (owned, k) =>
      let ws := parseWords ws; let len := parseNat len
      match construct false owned ws len k, construct true owned ws len k with
      | some I, some J => if !sameIndex I J then "MODEL-SSE index differs" else indexStr I
      | _, _ => "PANIC"
  | ["free", ws, len, op, ps] =>
    let ws := parseWords ws; let len := parseNat len; let ps := parseNats ps
    let bits := bitsOf ws len
    let wa := ws.toArray
    let one (o : String) (p : Nat) : String × String :=
      match o with
      | "fc" => (optStr (freeFindClose wa len p), optStr (BP.findClose bits p))
      | "fo" => (optStr (freeFindOpen wa len p), optStr (BP.findOpen bits p))
      | "enc" => (optStr (freeEnclose wa len p), optStr (BP.enclose bits p))
      | _ => ("BAD-OP", "BAD-OP")
    let res := (op.splitOn "+").map fun o => (o, ps.map fun p => (p, one o p))
    let bad := res.findSome? fun (o, l) =>
      (l.find? fun (_, (m, s)) => m != s).map fun (p, (m, s)) => s!"MODEL-SPEC free {o} {p} model={m} spec={s}"
    match bad with
    | some msg => msg
    | none =>
      ";".intercalate (res.map fun (_, l) => if l.isEmpty then "-" else ",".intercalate (l.map fun (_, (m, _)) => m))
  | ["surplus", ws, len, _op, ps] =>
    -- whole words beyond ⌈len/64⌉ (finding F1, repaired): model and linear-scan definition over the
    -- first `len` bits
    let ws := parseWords ws; let len := parseNat len; let ps := parseNats ps
    let bits := bitsOf ws len
    let wa := ws.toArray
    let res := ps.map fun p => (p, optStr (freeFindClose wa len p), optStr (BP.findClose bits p))
    match res.find? fun (_, m, s) => m != s with
    | some (p, m, s) => s!"MODEL-SPEC surplus fc {p} model={m} spec={s}"
    | none => if res.isEmpty then "-" else ",".intercalate (res.map fun (_, m, _) => m)
  | ["wk", w, vb] =>
    let w := parseWord w; let vb := parseNat vb
    let (m8, t16) := wordMinExcess w vb
    let (m32, t32) := wordMinExcessI32 w vb
    let (sm, st) := specMinTot ((wordBits w).take vb)
    if m8 ≠ sm ∨ t16 ≠ st ∨ m32 ≠ sm ∨ t32 ≠ st then s!"MODEL-SPEC wk {m8},{t16},{m32},{t32} spec={sm},{st}"
    else if vb = 64 then
      let (mu, tu) := wordMinExcessUnrolled w
      let (mx, tx) := wordMaxExcessRev w
      let (sx, sxt) := specMaxRevTot (wordBits w)
      if mu ≠ sm ∨ tu ≠ st ∨ mx ≠ sx ∨ tx ≠ sxt then s!"MODEL-SPEC wk64 {mu},{tu},{mx},{tx} spec={sm},{st},{sx},{sxt}"
      else s!"{m8},{t16},{m32},{t32},{mu},{tu},{mx},{tx}"
    else s!"{m8},{t16},{m32},{t32}"
  | ["fcw", w, sb, e, vb] =>
    let w := parseWord w; let sb := parseNat sb; let e := parseInt e; let vb := parseNat vb
    let m := findCloseInWordFast w sb e vb
    let s := if sb < vb ∧ e ≥ 1 then BP.scanClose (((wordBits w).take vb).drop sb) sb (e.toNat - 1) else none
    if m ≠ s then s!"MODEL-SPEC fcw model={optStr m} spec={optStr s}" else optStr m
  | ["l1b", mins, excs, n] =>
    let l0 := (parseInts mins).zip (parseInts excs); let n := parseNat n
    let s := padBlocks n (buildL1Sse l0); let r := padBlocks n (buildL1 l0)
    if s ≠ r then s!"MODEL-SSE l1 sse={intsStr (s.map Prod.fst)};{intsStr (s.map Prod.snd)} scalar={intsStr (r.map Prod.fst)};{intsStr (r.map Prod.snd)}"
    else s!"{intsStr (s.map Prod.fst)};{intsStr (s.map Prod.snd)}"
  | ["l2b", mins, excs, n] =>
    let l1 := (parseInts mins).zip (parseInts excs); let n := parseNat n
    let s := padBlocks n (buildL2Sse l1); let r := padBlocks n (buildL2 l1)
    if s ≠ r then s!"MODEL-SSE l2 sse={intsStr (s.map Prod.fst)};{intsStr (s.map Prod.snd)} scalar={intsStr (r.map Prod.fst)};{intsStr (r.map Prod.snd)}"
    else s!"{intsStr (s.map Prod.fst)};{intsStr (s.map Prod.snd)}"
  | _ => "BAD-OP"

end SV.Drv.C04
