import SuccinctlyVerif.Spec.Dsv
import SuccinctlyVerif.Model.DsvNav
import Driver.Util
namespace SV.Drv.C21
open SV SV.Drv SV.Dsv

def byteOf (s : String) : Byte := BitVec.ofNat 8 (parseHexNat s)

def rowStr (fs : List (List Byte)) : String := ",".intercalate (fs.map hexBytes)

def rowsStr (rs : List (List (List Byte))) : String :=
  if rs.isEmpty then "." else ";".intercalate (rs.map rowStr)

def cellStr : Option (List Byte) → String
  | none => "N"
  | some f => hexBytes f

/-- One entry of the random-access grid: fields of the row and `get(0..=nf+1)`. -/
def entryStr (fields : List (List Byte)) (get : Nat → Option (List Byte)) : String :=
  let cells := (List.range (fields.length + 2)).map fun c => cellStr (get c)
  s!"F:{rowStr fields}|G:{",".intercalate cells}"

/-- Random-access grid of the code model: rows `0..=R+1` (R = rows yielded by iteration). -/
def gridModel (c : Ctx) : String :=
  let r := c.rowStarts.length
  ";".intercalate ((List.range (r + 2)).map fun i =>
    match c.row i with
    | none => "N"
    | some st => entryStr (c.rowFields st) (c.get st))

def gridSpec (d q n : Byte) (text : List Byte) : String :=
  let rows := rowsSpec d q n text
  ";".intercalate ((List.range (rows.length + 2)).map fun i =>
    match rows[i]? with
    | none => "N"
    | some fs => entryStr fs (fun c => fs[c]?))

def b01 (b : Bool) : String := if b then "1" else "0"

def curOps (c : Ctx) : List String → Nat → List String → List String
  | [], _, acc => acc.reverse
  | op :: ops, pos, acc =>
    if op == "f" then
      let (p, ok) := c.nextField pos
      curOps c ops p (s!"f{b01 ok}@{p}" :: acc)
    else if op == "r" then
      let (p, ok) := c.nextRow pos
      curOps c ops p (s!"r{b01 ok}@{p}" :: acc)
    else if op == "c" then curOps c ops pos (hexBytes (c.currentField pos) :: acc)
    else if op == "e" then curOps c ops pos (b01 (c.atEnd pos) :: acc)
    else if op.startsWith "g" then
      let (p, ok) := c.gotoRow pos (parseNat (op.drop 1).toString)
      curOps c ops p (s!"g{b01 ok}@{p}" :: acc)
    else curOps c ops pos ("?" :: acc)

def optListStr (xs : List (Option Nat)) : String :=
  if xs.isEmpty then "-" else ",".intercalate (xs.map optStr)

/--
`rows  d q n text` — rows/fields by iteration (cursor model; = splitting spec by `Props.C21.fields_eq`);
`get   d q n text` — `Dsv::row(r)` for r in 0..=R+1 and `get(c)` for c in 0..=nf+1 (= spec by `cell_eq`);
`rowss d q n text` — `rows` with an explicit run-time cross-check of model vs spec (rows and grid);
`rowsc`/`getc`     — aliases of `rows`/`get` (old replay files);
`cur   d q n text ops` — a `DsvCursor` driven through an operation list;
`rs    words textlen is ks` — rank1/select1 of an index built from raw words (both bit vectors).
-/
def exec (a : List String) : String :=
  match a with
  | ["rs", ws, len, is, ks] =>
    let ix := Index.new (parseWords ws) (parseWords ws) (parseNat len)
    let is := parseNats is; let ks := parseNats ks
    let one (v : RankVec) : Option String :=
      let rs := is.map v.rank1
      if rs.any Option.isNone then none
      else some s!"{optListStr rs};{optListStr (ks.map v.select1)}"
    match one ix.markers, one ix.newlines with
    | some m, some n => s!"{m}|{n}"
    | _, _ => "PANIC"
  | [op, d, q, n, t] =>
    let d := byteOf d; let q := byteOf q; let n := byteOf n
    let text := parseBytes t
    let c := parse d q n text
    if op == "rows" || op == "rowsc" then rowsStr c.rows
    else if op == "get" || op == "getc" then gridModel c
    else if op == "rowss" then
      -- spec cross-check on demand (model = spec is `Props.C21.fields_eq` / `cell_eq`)
      let m := rowsStr c.rows
      let s := rowsStr (rowsSpec d q n text)
      if m ≠ s ∨ gridModel c ≠ gridSpec d q n text then s!"MODEL-SPEC {m} spec={s}" else m
    else "BAD-OP"
  | ["cur", d, q, n, t, ops] =>
    let c := parse (byteOf d) (byteOf q) (byteOf n) (parseBytes t)
    ",".intercalate (curOps c (if ops == "-" then [] else ops.splitOn ",") 0 [])
  | _ => "BAD-OP"

end SV.Drv.C21
