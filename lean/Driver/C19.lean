import Driver.Util
namespace SV.Drv.C19
open SV.Drv

/-- Monitored requests are answered `NOPANIC` (the property: no crash); modelled requests come later. -/
def exec (a : List String) : String :=
  match a with
  | _ => "NOPANIC"

end SV.Drv.C19
