import SuccinctlyVerif.Model.JsonTotal
import Driver.Util
namespace SV.Drv.C19
open SV.Drv SV.JsonTotal

def parseBytesA (s : String) : Bytes :=
  if s == "-" then #[] else
  let rec go : List Char → Bytes → Bytes
    | a :: b :: rest, acc => go rest (acc.push (UInt8.ofNat (hexDigit a * 16 + hexDigit b)))
    | _, acc => acc
  go s.toList #[]

def hexL (bs : List UInt8) : String :=
  if bs.isEmpty then "-" else
  String.ofList (bs.flatMap fun b => [hexNibble (b.toNat / 16), hexNibble (b.toNat % 16)])

def hexA (bs : Bytes) : String := hexL bs.toList

def errStr : JErr → String
  | .utf8 => "E:utf8"
  | .number => "E:number"
  | .escape => "E:escape"
  | .unicode => "E:unicode"

def show' {α} (f : α → String) : Res α → String
  | .ok a => f a
  | .err e => errStr e
  | .panic => "PANIC"

def kindStr : Kind → String
  | .obj => "obj" | .arr => "arr" | .str => "str" | .num => "num"
  | .true_ => "true" | .false_ => "false" | .null => "null" | .error => "err"

def acc (t : Bytes) (start : Nat) : String :=
  if start ≥ t.size then "BAD-START" else
  let raw := show' hexA (rawBytes t start)
  let rae := show' (fun (p : Bytes × Bool) => s!"{hexA p.1}:{if p.2 then 1 else 0}") (rawAndEscaped t start)
  let st := show' hexL (asStr t start)
  let num := show' hexA (numberRawBytes t start)
  let span := show' (fun (n : Nat) => toString n) (nestedNumberSpan t start)
  let kind := show' kindStr (valueKind t start)
  let range := show' (fun (r : Option (Nat × Nat)) => match r with | some (a, b) => s!"{a}..{b}" | none => "-") (textRange t start)
  let bytes := show' (fun (r : Option Bytes) => match r with | some b => hexA b | none => "none") (cursorRawBytes t start)
  s!"raw={raw};rae={rae};str={st};num={num};span={span};kind={kind};range={range};bytes={bytes}"

/-- the harness's walk: `current_field`, then `next_field`, until it answers false. -/
def dsvWalk (t : Bytes) (ms : List Nat) : Nat → Nat → List String → List String
  | 0, _, out => out.reverse
  | fuel + 1, pos, out =>
    let f := currentField t ms pos
    let out := s!"{pos}:{show' hexA f}" :: out
    if f.isPanic then out.reverse else
    let (p', more) := nextField t ms pos
    if more then dsvWalk t ms fuel p' out else out.reverse

/-- Modelled requests are answered by the partiality model; monitored requests (build + traversal +
printing, CLI, parser) are answered `NOPANIC` — the property itself. -/
def exec (a : List String) : String :=
  match a with
  | ["acc", t, s] => acc (parseBytesA t) (parseNat s)
  | ["esc", t] => show' hexL (decodeEscapes (parseBytesA t))
  | ["hex4", t] => show' (fun (n : Nat) => toString n) (parseHex4 (parseBytesA t))
  | ["dsvf", t, ms, _nl] =>
    let t := parseBytesA t
    let ms := (parseNats ms).filter (· < t.size)
    ",".intercalate (dsvWalk t ms (t.size + 3) 0 [])
  | _ => "NOPANIC"

end SV.Drv.C19
