import SuccinctlyVerif.Model.DsvCsv
import Driver.Util
namespace SV.Drv.C22
open SV SV.Drv SV.Dsv

def rowStr (fs : List (List Byte)) : String := ",".intercalate (fs.map hexBytes)

def rowsStr (rs : List (List (List Byte))) : String :=
  if rs.isEmpty then "." else ";".intercalate (rs.map rowStr)

def parseStrings (s : String) : List (List Byte) :=
  if s == "." then [] else (s.splitOn ",").map parseBytes

/--
`cli <d> <strings>`: the array of strings (hex, `,`-separated, `-` = empty string, `.` = empty
array) is formatted with `@csv` (d = 2c) / `@dsv(d)`, printed raw, and read back with
`--input-dsv d`.  Answer `<printed text>|<rows read back>`, `ERR` for an inadmissible delimiter.
Cheap run-time guard: for a non-empty array the rows read back are exactly `[xs]` (`MODEL-SPEC`
otherwise) — this is `Props.C22.csv_round_trip`.
-/
def exec (a : List String) : String :=
  match a with
  | ["cli", d, ss] =>
    let d : Byte := BitVec.ofNat 8 (parseHexNat d)
    let xs := parseStrings ss
    if !admissible d then "ERR" else
    let line := printedLine d xs
    let back := readDsv d line
    let body := s!"{hexBytes line}|{rowsStr back}"
    if !xs.isEmpty ∧ back ≠ [xs] then
      s!"MODEL-SPEC {body} spec={rowsStr (readDsvSpec d line)} want={rowsStr [xs]}"
    else body
  | _ => "BAD-OP"

end SV.Drv.C22
