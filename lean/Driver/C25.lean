import Driver.C23
/-! Driver for C25: runs the identity programs carried by the request through the model and prints
the run lines plus the model's own identity verdict. -/
namespace SV.Drv.C25
open SV SV.Drv SV.Jq

def exec (a : List String) : String :=
  match a with
  | ["id", ps, i] =>
    (match C23.hexToString ps, C23.hexToString i with
     | some progs, some input =>
       let runs := (progs.splitOn "\n").map fun p => C23.runProgram {} p input
       let ok := runs.all (· == "true;END")
       "|".intercalate runs ++ "|" ++ (if ok then "ID-OK" else "ID-FAIL")
     | _, _ => "BAD-HEX")
  | _ => "BAD-OP"

end SV.Drv.C25
