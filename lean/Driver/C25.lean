import Driver.C23
/-! Driver for C25: runs the identity programs carried by the request through the model and prints
the run lines plus the model's own identity verdict. -/
namespace SV.Drv.C25
open SV SV.Drv SV.Jq

def exec (a : List String) : String :=
  match a with
  | ["id", ps, i] =>
    (match C23.hexToString ps, C23.hexToString i with
     | some progs, some input =>
       let runs := (progs.splitOn "\n").map fun p => C23.runProgram {} p input
       let ok := runs.all (· == "true;END")
       "|".intercalate runs ++ "|" ++ (if ok then "ID-OK" else "ID-FAIL")
     | _, _ => "BAD-HEX")
  | ["ord", ps, i] =>
    -- order-sensitive programs on an array: the model's run lines; the model's own verdict is `ID-OK`
    -- exactly when its `sort` output is ordered under `JV.cmp` (proved: Props/C25 `sort_sorted_perm`)
    (match C23.hexToString ps, C23.hexToString i with
     | some progs, some input =>
       let runs := (progs.splitOn "\n").map fun p => C23.runProgram {} p input
       let ok : Bool :=
         match (readJson input : Option (JV JNum)) with
         | some (.arr xs) =>
           let s := JV.sort xs
           (s.zip (s.drop 1)).all fun (a, b) => JV.cmp a b != .gt
         | _ => false
       "|".intercalate runs ++ "|" ++ (if ok then "ID-OK" else "ID-FAIL")
     | _, _ => "BAD-HEX")
  | _ => "BAD-OP"

end SV.Drv.C25
