import SuccinctlyVerif.Spec.Dec
import SuccinctlyVerif.Model.NumFmt
import SuccinctlyVerif.Generated.C10
import Driver.Util
namespace SV.Drv.C10
open SV SV.Drv SV.Dec SV.NumFmt

def CAP : Nat := SV.Gen.JQ_MAX_RENDERED_MANTISSA_DIGITS

/-- hex of UTF-8 bytes → characters (`none` if not UTF-8). -/
def textOfHex (h : String) : Option Str :=
  let bs := parseBytes h
  let ba := ByteArray.mk (bs.map (fun b => UInt8.ofNat b.toNat)).toArray
  (String.fromUTF8? ba).map String.toList

def str (s : Str) : String := String.ofList s

def ostr : Option Str → String
  | some s => str s
  | none => "PANIC"

def parseInt (s : String) : Int :=
  match s.toList with
  | '-' :: r => - (parseNat (String.ofList r) : Int)
  | _ => (parseNat s : Int)

/-- the literals whose value the property speaks about: RFC 8259 numbers plus the two documented
reader leniencies (leading `.`, redundant leading zeros) and the directly-constructed leading `+`. -/
def accepted (s : Str) : Bool :=
  match fromNumberBytes s with
  | .literal _ _ => true
  | _ => false

/-- value oracle on the model side: reading the printed text gives the same exact decimal. -/
def valueSame (a b : Str) : Bool := decide (sameVal (parseDec a) (parseDec b))

def rtOf (c : FClass) : String :=
  match c with
  | .fin | .zero => "RT-OK"
  | _ => "RT-NA"

def exec (a : List String) : String :=
  match a with
  | ["i64", n] =>
    let v := parseInt n
    let w := writeI64 v
    let d := intDigits v
    match w with
    | some ws =>
      if readInt ws ≠ some v ∨ readInt d ≠ some v then s!"MODEL-SPEC {str ws} {str d}"
      else s!"{str ws} {str d} RT-OK"
    | none => "PANIC"
  | ["wf", _bits, disp] =>
    let d := disp.toList
    if !isPlainJsonNumber d then "CORE-GRAMMAR-FAIL" else
    let out := formatFloatWithFraction d
    if !valueSame out d then s!"MODEL-SPEC {str out}" else
    s!"{str out} RT-OK {if isJsonNumber out && out.contains '.' then "G-OK" else "G-FAIL"}"
  | ["yq", _bits, disp, sci] =>
    let d := disp.toList; let sc := sci.toList
    if !isPlainJsonNumber d || !isJsonNumber sc then "CORE-GRAMMAR-FAIL" else
    match formatFloatYq d sc, formatFloatYqYaml d sc, formatFloatYqYamlNested d sc with
    | some j, some y, some n =>
      -- spec cross-check: in the scientific branch the re-spelling denotes the same decimal as `sci`,
      -- in the ordinary branch the same decimal as `disp`
      let okv := (valueSame j sc || valueSame j d) && (valueSame y sc || valueSame y d)
      if !okv then s!"MODEL-SPEC {str j} {str y}" else
      let yk := resolvePlainKind y
      let nOk :=
        if "!!float ".toList.isPrefixOf n then (resolvePlainKind (n.drop 8) == .int) && n.drop 8 == y
        else (resolvePlainKind n == .float) && n == y
      let g := isJsonNumber j && (yk == .float || yk == .int) && nOk
      s!"{str j} {str y} RT-OK {if g then "G-OK" else "G-FAIL"} {str n}"
    | _, _, _ => "PANIC"
  | ["lit", h] =>
    match textOfHex h with
    | none => "NON-UTF8"
    | some s =>
      let out := formatNumberJqCompat CAP s
      let c := classify s
      let acc := accepted s || (match s with | '+' :: t => accepted t | _ => false)
      let g := if acc then (if isJsonNumber out then "G-OK" else "G-FAIL") else "G-NA"
      s!"{str out} {c.name} {rtOf c} {g}"
  | ["prev", h] =>
    -- stream_owned_value_json_jq (error-message preview) on from_number_bytes(h)
    match textOfHex h with
    | none => "NON-UTF8"
    | some s =>
      match fromNumberBytes s with
      | .literal (.float .nan) _ => "null"
      | .literal (.float .inf) t => str (formatNumberJqCompat CAP t)
      | .literal _ t => str (formatNumberJqCompatPreview CAP t)
      | _ => "-"
  | ["fnb", h, disp] =>
    match textOfHex h with
    | none => "NON-UTF8"
    | some s =>
      let v := fromNumberBytes s
      let out := toJsonNum CAP (isNegativeLit s) disp.toList v
      s!"{v.kind} {str out} {rtOf (classify s)}"
  | ["norm", h, cap] =>
    match textOfHex h with
    | none => "NON-UTF8"
    | some s =>
      if !(s.any isExpMarker) then "none" else
      let raw := s.takeWhile (fun c => !isExpMarker c)
      let expText := (s.dropWhile (fun c => !isExpMarker c)).drop 1
      let capO : Option Nat := if cap == "-" then none else some (parseNat cap)
      match normalizeExtreme raw expText capO with
      | .ok n => s!"ok {str n.mantissaStr} {n.newExp.value} {if n.newExp.isSaturated then 1 else 0} {n.digitCount}"
      | .error f => s!"err {f}"
  | ["tag", h] =>
    match textOfHex h with
    | none => "NON-UTF8"
    | some s => if needsExplicitFloatTag s then "1" else "0"
  | _ => "BAD-OP"

end SV.Drv.C10
