//! C17 — YAML position tables (`OpenPositions`/`AdvancePositions`, `EndPositions`/
//! `CompactEndPositions`, `YamlIndex::{from_parts, bp_to_text_pos, …}`) under arbitrary lookup
//! histories.  Request: `C17 <op> <route> <text_len> <starts> <ends> <bp> <lookups> [CLASS:…]`
//! (see lean/Driver/C17.lean for the grammar).
use crate::rng::Rng;
use crate::util::*;
use crate::Tier;
use std::collections::BTreeMap;
use succinctly::verif_hooks::{AdvancePositionsCursor, EndPositions, OpenPositions};
use succinctly::yaml::YamlIndex;

pub fn tables() -> Vec<(&'static str, String)> {
    Vec::new()
}

const CLASS_TAG: &str = "CLASS:pos=len,len%64=0";

fn parse_u32s(s: &str) -> Vec<u32> {
    if s == "-" {
        return Vec::new();
    }
    s.split(',').map(|t| t.parse::<u32>().expect("u32")).collect()
}

fn is_monotonic(v: &[u32]) -> bool {
    v.windows(2).all(|w| w[0] <= w[1])
}

fn in_class_req(starts: &[u32], text_len: usize) -> bool {
    is_monotonic(starts) && text_len % 64 == 0 && starts.iter().any(|&p| p as usize == text_len)
}

enum Tables {
    Hook(OpenPositions, EndPositions),
    Parts(Box<YamlIndex<Vec<u64>>>),
}

impl Tables {
    fn open(&self) -> &OpenPositions {
        match self {
            Tables::Hook(o, _) => o,
            Tables::Parts(ix) => ix.open_positions(),
        }
    }
    fn end(&self) -> &EndPositions {
        match self {
            Tables::Hook(_, e) => e,
            Tables::Parts(ix) => ix.verif_end_positions(),
        }
    }
}

fn cur_str(c: [usize; 6]) -> String {
    format!("@{}.{}.{}.{}.{}.{}", c[0], c[1], c[2], c[3], c[4], c[5])
}

fn ac_str(c: &AdvancePositionsCursor<'_>) -> String {
    let s = c.verif_state();
    format!("@{}.{}.{}.{}.{:x}", s[0], s[1], s[2], s[3], s[4])
}

fn open_state(o: &OpenPositions) -> String {
    match o {
        OpenPositions::Compact(ap) => cur_str(ap.verif_cursor_state()),
        OpenPositions::Dense(_) => "@-".into(),
    }
}

fn end_state(e: &EndPositions) -> String {
    match e {
        EndPositions::Compact(c) => cur_str(c.verif_cursor_state()),
        EndPositions::Dense(_) => "@-".into(),
    }
}

fn bp_rank1_naive(bp: &[u64], bp_len: usize, p: usize) -> usize {
    let p = p.min(bp_len);
    (0..p).filter(|&i| i / 64 < bp.len() && (bp[i / 64] >> (i % 64)) & 1 == 1).count()
}

/// Runs the lookups; returns (answer, state) per lookup.
fn run_all(t: &Tables, items: &[&str]) -> Vec<(String, String)> {
    let mut out = Vec::with_capacity(items.len());
    let mut ac: Option<AdvancePositionsCursor<'_>> = None;
    for it in items {
        let kind = it.as_bytes()[0];
        let n: usize = if it.len() > 1 { it[1..].parse::<usize>().expect("lookup arg") } else { 0 };
        let r = match kind {
            b'o' => {
                let v = match t {
                    Tables::Hook(o, _) => o.get(n).map(|p| p as usize),
                    Tables::Parts(ix) => ix.text_pos_by_open_idx(n),
                };
                (opt(v), open_state(t.open()))
            }
            b'e' => {
                let v = match t {
                    Tables::Hook(_, e) => e.get(n),
                    Tables::Parts(ix) => ix.text_end_pos_by_open_idx(n),
                };
                (opt(v), end_state(t.end()))
            }
            b'b' => match t {
                Tables::Parts(ix) => (opt(ix.bp_to_text_pos(n)), open_state(t.open())),
                // no BP on the hook route: rank1 of the empty vector is 0
                Tables::Hook(o, _) => (opt(o.get(0).map(|p| p as usize)), open_state(o)),
            },
            b'c' => match t {
                Tables::Parts(ix) => (opt(ix.bp_to_text_end_pos(n)), end_state(t.end())),
                Tables::Hook(_, e) => (opt(e.get(0)), end_state(e)),
            },
            b'f' => match t.open() {
                o @ OpenPositions::Compact(_) => (opt(o.find_last_open_at_text_pos(n)), "@".into()),
                OpenPositions::Dense(_) => ("x".into(), "@".into()),
            },
            b'K' => match t.open() {
                OpenPositions::Compact(ap) => {
                    let c = ap.cursor_from(n);
                    let r = (opt(c.current()), ac_str(&c));
                    ac = Some(c);
                    r
                }
                OpenPositions::Dense(_) => ("x".into(), "@".into()),
            },
            b'N' => match t.open() {
                OpenPositions::Compact(ap) => {
                    let mut c = ac.take().unwrap_or_else(|| ap.cursor());
                    let v = c.advance_one();
                    let r = (opt(v), ac_str(&c));
                    ac = Some(c);
                    r
                }
                OpenPositions::Dense(_) => ("x".into(), "@".into()),
            },
            _ => ("BAD-LOOKUP".into(), "@".into()),
        };
        out.push(r);
    }
    out
}

fn table_str(
    ib: &[u64],
    len: usize,
    ones: usize,
    samples: &[u32],
    adv: &[u64],
    n: usize,
    arank: &[u32],
    irank: &[u32],
) -> String {
    format!(
        "ib={} len={} ones={} samples={} adv={} n={} arank={} irank={}",
        hex_words(ib),
        len,
        ones,
        list(samples),
        hex_words(adv),
        n,
        list(arank),
        list(irank)
    )
}

enum Exp {
    Skip,
    Exact(Option<usize>),
    NoneOrOneOf(Vec<usize>),
}

/// The in-process plain-list oracle: the property statement evaluated on the recorded sequences.
fn judge(
    starts: &[u32],
    ends: &[u32],
    bp: &[u64],
    bp_len: usize,
    o_dense: bool,
    text_len: usize,
    items: &[&str],
    answers: &[(String, String)],
) -> String {
    let len = starts.len();
    let mut idx = 0usize;
    let mut n_class = 0usize;
    let mut other: Option<String> = None;
    let end_exp = |i: usize| -> Exp {
        match ends.get(i) {
            None => Exp::Exact(None),
            Some(0) => Exp::NoneOrOneOf(ends[..i].iter().filter(|&&e| e > 0).map(|&e| e as usize).collect()),
            Some(&e) => Exp::Exact(Some(e as usize)),
        }
    };
    let start_at = |i: usize| starts.get(i).map(|&p| p as usize);
    for (it, (a, _)) in items.iter().zip(answers.iter()) {
        let kind = it.as_bytes()[0];
        let n: usize = if it.len() > 1 { it[1..].parse::<usize>().unwrap() } else { 0 };
        let ex = match kind {
            b'o' => Exp::Exact(start_at(n)),
            b'e' => end_exp(n),
            b'b' => Exp::Exact(start_at(bp_rank1_naive(bp, bp_len, n))),
            b'c' => end_exp(bp_rank1_naive(bp, bp_len, n)),
            b'K' if !o_dense => {
                idx = if n >= len { len } else { n };
                Exp::Exact(start_at(idx))
            }
            b'N' if !o_dense => {
                if idx + 1 >= len {
                    idx = len;
                    Exp::Exact(None)
                } else {
                    idx += 1;
                    Exp::Exact(start_at(idx))
                }
            }
            _ => Exp::Skip,
        };
        let ok = match &ex {
            Exp::Skip => true,
            Exp::Exact(v) => *a == opt(*v),
            Exp::NoneOrOneOf(vs) => a == "-" || vs.iter().any(|v| *a == v.to_string()),
        };
        if ok {
            continue;
        }
        let in_class = match &ex {
            Exp::Exact(Some(v)) => {
                !o_dense && *v == text_len && text_len % 64 == 0 && matches!(kind, b'o' | b'b' | b'K' | b'N')
            }
            _ => false,
        };
        if in_class {
            n_class += 1;
        } else if other.is_none() {
            let want = match &ex {
                Exp::Exact(v) => opt(*v),
                Exp::NoneOrOneOf(vs) => format!("-|{}", list(vs)),
                Exp::Skip => "?".into(),
            };
            other = Some(format!("{it} got={a} want={want}"));
        }
    }
    match (n_class, other) {
        (_, Some(msg)) => format!("ORACLE-FAIL other {msg}"),
        (0, None) => "ORACLE-OK".into(),
        (n, None) => format!("ORACLE-FAIL class=pos=len,len%64=0 n={n}"),
    }
}

pub fn exec(a: &[&str]) -> String {
    if a.len() < 7 {
        return "BAD-OP".into();
    }
    let (op, route) = (a[0], a[1]);
    let text_len = num(a[2]);
    let starts = parse_u32s(a[3]);
    let ends = parse_u32s(a[4]);
    let tag = &a[7..];
    let tagged = tag.len() == 1 && tag[0] == CLASS_TAG;
    if !tag.is_empty() && !tagged {
        return "BAD-TAG(impl)".into();
    }
    if tagged != in_class_req(&starts, text_len) {
        return "BAD-TAG(impl)".into();
    }
    let (bp_len, bp): (usize, Vec<u64>) = if route == "parts" {
        let (l, w) = a[5].split_once(':').expect("bp = len:words");
        (num(l), parse_words(w))
    } else {
        (0, Vec::new())
    };
    let t = match route {
        "hook" => Tables::Hook(OpenPositions::build(&starts, text_len), EndPositions::build(&ends, text_len)),
        "parts" => Tables::Parts(Box::new(YamlIndex::from_parts(
            vec![0u64; text_len.div_ceil(64)],
            text_len,
            bp.clone(),
            bp_len,
            Vec::new(),
            0,
            starts.clone(),
            ends.clone(),
            Vec::new(),
            BTreeMap::new(),
            BTreeMap::new(),
            BTreeMap::new(),
        ))),
        _ => return "BAD-ROUTE".into(),
    };
    let o_dense = !t.open().is_compact();
    let hdr = format!(
        "{}{}",
        if o_dense { "d" } else { "c" },
        if matches!(t.end(), EndPositions::Compact(_)) { "c" } else { "d" }
    );
    let items: Vec<&str> = if a[6] == "-" { Vec::new() } else { a[6].split(',').collect() };
    match op {
        "build" => {
            let os = match t.open() {
                OpenPositions::Compact(ap) => {
                    let (ib, len, irank, samples, ones, adv, n, arank) = ap.verif_dump();
                    format!("c {}", table_str(&ib, len, ones, &samples, &adv, n, &arank, &irank))
                }
                OpenPositions::Dense(v) => format!("d {}", list(v)),
            };
            let es = match t.end() {
                EndPositions::Compact(c) => {
                    let (ib, len, samples, ones, adv, n, arank) = c.verif_dump();
                    format!("c {}", table_str(&ib, len, ones, &samples, &adv, n, &arank, &[]))
                }
                EndPositions::Dense(v) => format!("d {}", list(v)),
            };
            format!("o:{os};e:{es}")
        }
        "get" => {
            let r = run_all(&t, &items);
            let body = if r.is_empty() { "-".to_string() } else { r.iter().map(|p| p.0.clone()).collect::<Vec<_>>().join(",") };
            format!("{hdr} {body}")
        }
        "trace" => {
            let r = run_all(&t, &items);
            let body = if r.is_empty() {
                "-".to_string()
            } else {
                r.iter().map(|p| format!("{}{}", p.0, p.1)).collect::<Vec<_>>().join(",")
            };
            format!("{hdr} {body}")
        }
        "chk" => {
            if starts.iter().any(|&p| p as usize > text_len) || ends.iter().any(|&p| p as usize > text_len) {
                return "ORACLE-SKIP".into();
            }
            let r = run_all(&t, &items);
            judge(&starts, &ends, &bp, bp_len, o_dense, text_len, &items, &r)
        }
        _ => "BAD-OP".into(),
    }
}

// ------------------------------------------------------------------------------------------------
// generators

/// Monotone start positions: `n` entries, gaps drawn from a per-sequence profile, duplicates
/// (containers sharing the position of their first child) with probability `dup`/8.
fn gen_starts(r: &mut Rng, n: usize, max_gap: u64, dup: u64) -> Vec<u32> {
    let mut v = Vec::with_capacity(n);
    let mut pos = r.below(3) as u32;
    for i in 0..n {
        if i > 0 && !r.chance(dup, 8) {
            pos += r.range(1, max_gap) as u32;
        }
        v.push(pos);
    }
    v
}

/// End positions consistent with a parser: containers (zeros) interleaved, scalars end after their
/// start and at or before the next distinct start.
fn gen_ends(r: &mut Rng, starts: &[u32], text_len: usize, zero: u64) -> Vec<u32> {
    let n = starts.len();
    let mut v = Vec::with_capacity(n);
    for i in 0..n {
        if r.chance(zero, 8) {
            v.push(0);
            continue;
        }
        let next = starts[i + 1..].iter().copied().find(|&p| p > starts[i]).unwrap_or(text_len as u32);
        let hi = next.max(starts[i]).min(text_len as u32);
        let lo = starts[i].min(hi);
        v.push(r.range(lo as u64, hi as u64) as u32);
    }
    // make the non-zero ends non-decreasing (duplicate starts can give a decreasing pair)
    let mut prev = 0u32;
    for e in v.iter_mut() {
        if *e > 0 {
            if *e < prev {
                *e = prev;
            }
            prev = *e;
        }
    }
    v
}

fn gen_lookups(r: &mut Rng, n: usize, count: usize, parts_bp_len: Option<usize>, style: u64) -> Vec<String> {
    let mut out = Vec::with_capacity(count);
    let far = [n, n + 1, n + 63, n + 64, u32::MAX as usize, usize::MAX];
    let mut cur = [0usize; 2];
    let letters = ['o', 'e'];
    while out.len() < count {
        let which = match style {
            0 => 0,
            1 => 1,
            _ => r.usize_below(2),
        };
        let c = &mut cur[which];
        let idx = match r.below(16) {
            0..=8 => *c,                                     // sequential
            9 | 10 => *c + r.usize_below(5) + 1,             // small gap
            11 => *c + r.usize_below(n.max(1)),              // large gap
            12 => c.saturating_sub(r.usize_below(4) + 1),    // small backward jump
            13 => r.usize_below(n.max(1)),                   // random jump
            14 => c.saturating_sub(1),                       // repeat of the previous lookup
            _ => *r.pick(&far),                              // out of range
        };
        *c = if idx >= n { if r.chance(1, 2) { 0 } else { r.usize_below(n.max(1)) } } else { idx + 1 };
        match parts_bp_len {
            Some(bl) if r.chance(1, 4) => {
                let p = if r.chance(1, 8) { bl + r.usize_below(3) } else { r.usize_below(bl + 1) };
                out.push(format!("{}{}", if which == 0 { 'b' } else { 'c' }, p));
            }
            _ => out.push(format!("{}{}", letters[which], idx)),
        }
        if style >= 3 && r.chance(1, 12) {
            match r.below(4) {
                0 => out.push(format!("K{}", r.usize_below(n + 2))),
                1 | 2 => {
                    for _ in 0..r.usize_below(6) + 1 {
                        out.push("N".to_string());
                    }
                }
                _ => out.push(format!("f{}", r.usize_below(n * 4 + 70))),
            }
        }
    }
    out
}

/// A random balanced-parentheses word vector with exactly `n` opens (so `rank1` maps BP positions
/// of opens onto `0..n`).
fn gen_bp(r: &mut Rng, n: usize) -> (usize, Vec<u64>) {
    let len = 2 * n;
    let mut w = vec![0u64; len.div_ceil(64)];
    let (mut opens, mut excess) = (0usize, 0usize);
    for i in 0..len {
        let open = if opens == n { false } else if excess == 0 { true } else { r.chance(1, 2) };
        if open {
            w[i / 64] |= 1 << (i % 64);
            opens += 1;
            excess += 1;
        } else {
            excess -= 1;
        }
    }
    (len, w)
}

fn emit_case(
    r: &mut Rng,
    emit: &mut dyn FnMut(String),
    text_len: usize,
    starts: &[u32],
    ends: &[u32],
    n_lookups: usize,
    with_build: bool,
) {
    let n = starts.len().max(ends.len());
    let parts = r.chance(1, 3);
    let (route, bp_s, bp_len) = if parts {
        let (l, w) = gen_bp(r, n);
        ("parts", format!("{l}:{}", hex_words(&w)), Some(l))
    } else {
        ("hook", "-".to_string(), None)
    };
    let style = r.below(6);
    let lk = gen_lookups(r, n, n_lookups, bp_len, style);
    let lk_s = if lk.is_empty() { "-".to_string() } else { lk.join(",") };
    let tag = if in_class_req(starts, text_len) { format!(" {CLASS_TAG}") } else { String::new() };
    let head = format!("{route} {text_len} {} {} {bp_s}", list(starts), list(ends));
    if with_build {
        emit(format!("C17 build {head} -{tag}"));
    }
    let op = if r.chance(1, 2) { "trace" } else { "get" };
    emit(format!("C17 {op} {head} {lk_s}{tag}"));
    emit(format!("C17 chk {head} {lk_s}{tag}"));
}

pub fn gen(tier: Tier, r: &mut Rng, emit: &mut dyn FnMut(String)) {
    let rounds = if tier == Tier::Quick { 300 } else { 4_000 };
    let sizes: [usize; 24] = [0, 1, 2, 3, 5, 17, 63, 64, 65, 127, 128, 129, 255, 256, 257, 300, 511, 512, 513, 600, 767, 768, 769, 1030];
    for round in 0..rounds {
        let n = if r.chance(1, 4) { r.usize_below(40) } else { *r.pick(&sizes) };
        let n = if tier == Tier::Thorough && r.chance(1, 50) { n * 4 + r.usize_below(3) } else { n };
        let max_gap = *r.pick(&[1u64, 1, 2, 3, 6, 10, 40, 70, 200]);
        let dup = r.below(7);
        let mut starts = gen_starts(r, n, max_gap, dup);
        let last = starts.last().copied().unwrap_or(0) as usize;
        // text length: a node may start at text_len (e.g. an empty value at EOF); exercise every
        // residue of text_len mod 64 around that boundary
        let text_len = match r.below(8) {
            0 => last,
            1 => last.div_ceil(64) * 64,
            2 => last.div_ceil(64) * 64 + 63,
            3 => last + 1,
            4 => last + r.usize_below(64),
            5 => (last / 64 + 1) * 64,
            _ => last + r.usize_below(300),
        };
        let kind = round % 10;
        if kind == 0 && n > 0 {
            // the last node(s) start exactly at text_len
            let k = r.usize_below(3.min(n)) + 1;
            for s in starts.iter_mut().rev().take(k) {
                *s = text_len as u32;
            }
        }
        if kind == 1 && n >= 2 {
            // non-monotone (explicit keys): forces the dense variant
            let i = r.usize_below(n - 1);
            let j = i + 1 + r.usize_below(n - 1 - i);
            if starts[i] != starts[j] {
                starts.swap(i, j);
            }
        }
        let zero = *r.pick(&[0u64, 1, 3, 3, 5, 7, 8]);
        let mut ends = gen_ends(r, &starts, text_len, zero);
        if kind == 2 && n > 0 {
            // an end exactly at text_len (scalar ending at EOF)
            if let Some(e) = ends.iter_mut().rev().find(|e| **e > 0) {
                *e = text_len as u32;
            }
        }
        if kind == 3 && ends.len() >= 2 {
            // non-monotone ends: forces the dense end variant
            let i = r.usize_below(ends.len() - 1);
            let j = i + 1 + r.usize_below(ends.len() - 1 - i);
            ends.swap(i, j);
        }
        if kind == 4 {
            // independent end sequence (different length, leading zeros)
            let m = if r.chance(1, 2) { n } else { r.usize_below(n + 3) };
            let lead = r.usize_below(m + 1).min(5);
            let mut e = gen_starts(r, m, max_gap, dup);
            for (i, x) in e.iter_mut().enumerate() {
                if i < lead || r.chance(zero, 8) {
                    *x = 0;
                } else {
                    *x = (*x).max(1).min(text_len as u32);
                }
            }
            ends = e;
        }
        if kind == 5 && n > 0 && r.chance(1, 2) {
            // malformed stream: positions beyond text_len (outside the property's domain; model diff only)
            let k = r.usize_below(n);
            for s in starts.iter_mut().skip(k) {
                *s += text_len as u32 + r.below(130) as u32;
            }
            starts.sort_unstable();
            if r.chance(1, 2) {
                if let Some(e) = ends.iter_mut().rev().find(|e| **e > 0) {
                    *e = text_len as u32 + 1 + r.below(130) as u32;
                }
            }
        }
        let n_lookups = match r.below(4) {
            0 => r.usize_below(8),
            1 => n + 3,
            _ => (n * 2).min(400) + r.usize_below(30),
        };
        emit_case(r, emit, text_len, &starts, &ends, n_lookups, round % 4 == 0);
    }
}
