//! C25 — jq value identities, evaluated by both Rust evaluators on generated duplicate-free values
//! and every path. Request: `C25 id <identity programs, newline separated, hex> <value JSON hex>`;
//! each program must print `true`. Answer: the run line of every program (both evaluators, as in
//! C23) joined by `|`, then `ID-OK` / `ID-FAIL` (in-process verdict: every run is exactly `true`).
use crate::c23::{collapse_input, gen_family, FAMILY_FIXED, gen_json, run_full, run_generic, ORDER_PROGS};
use succinctly::jq::OwnedValue;
use crate::rng::Rng;
use crate::util::*;
use crate::Tier;
use succinctly::jq;

pub fn tables() -> Vec<(&'static str, String)> {
    vec![]
}

pub const IDENTITIES: &[&str] = &[
    // tojson | fromjson
    "(tojson | fromjson) == .",
    // to_entries | from_entries (objects, at every depth)
    "[.. | objects] | all(.[]; (to_entries | from_entries) == .)",
    // tostream / fromstream
    "[fromstream(tostream)] == [.]",
    // @base64 | @base64d on every string in the value (keys included)
    "[.. | strings, (objects | keys[])] | all(.[]; (@base64 | @base64d) == .)",
    // getpath defined for every path; setpath(p; getpath(p)) is the identity
    ". as $v | [paths] | all(.[]; . as $p | ($v | setpath($p; $v | getpath($p))) == $v)",
    // getpath(p) after setpath(p; x) is x
    ". as $v | [paths] | all(.[]; . as $p | ($v | setpath($p; \"Z\") | getpath($p)) == \"Z\")",
    // assignment changes exactly p (all sibling paths keep their values)
    ". as $v | [paths] as $ps | all($ps[]; . as $p | ($v | setpath($p; \"Z\")) as $w | all($ps[]; . as $q | if ($q | length) == ($p | length) and $q != $p and ($q[:-1] == $p[:-1]) then ($w | getpath($q)) == ($v | getpath($q)) else true end))",
    // sort: ordered permutation
    "[..] as $a | ($a | sort) as $s | ($s | length) == ($a | length) and all(range(0; ($s | length) - 1); $s[.] <= $s[. + 1]) and (($s | map(tojson) | sort) == ($a | map(tojson) | sort))",
    // unique: strictly increasing, same set
    "[..] as $a | ($a | unique) as $u | all(range(0; ($u | length) - 1); $u[.] < $u[. + 1]) and ($a - $u == []) and ($u - $a == [])",
    // the order is total on the values occurring: exactly one of <, ==, > for neighbours
    "[..] as $a | all(range(0; ($a | length) - 1); [$a[.] < $a[. + 1], $a[.] == $a[. + 1], $a[.] > $a[. + 1]] | map(select(.)) | length == 1)",
];

// ---- jq's total order, written independently of the implementation's comparator (Model/JqValue.lean
// `JV.cmp`: ranks; arrays lexicographic; objects by sorted key lists, then values in sorted-key order)
fn rank(v: &OwnedValue) -> u8 {
    match v {
        OwnedValue::Null => 0,
        OwnedValue::Bool(false) => 1,
        OwnedValue::Bool(true) => 2,
        OwnedValue::Int(_) | OwnedValue::Float(_) | OwnedValue::NumberLiteral(..) => 3,
        OwnedValue::String(_) => 4,
        OwnedValue::Array(_) => 5,
        OwnedValue::Object(_) => 6,
    }
}

pub fn model_cmp(a: &OwnedValue, b: &OwnedValue) -> std::cmp::Ordering {
    use std::cmp::Ordering::*;
    let (ra, rb) = (rank(a), rank(b));
    if ra != rb {
        return ra.cmp(&rb);
    }
    match (a, b) {
        (OwnedValue::String(x), OwnedValue::String(y)) => x.as_bytes().cmp(y.as_bytes()),
        (OwnedValue::Array(x), OwnedValue::Array(y)) => {
            for (p, q) in x.iter().zip(y.iter()) {
                let c = model_cmp(p, q);
                if c != Equal {
                    return c;
                }
            }
            x.len().cmp(&y.len())
        }
        (OwnedValue::Object(x), OwnedValue::Object(y)) => {
            let mut kx: Vec<&String> = x.keys().collect();
            let mut ky: Vec<&String> = y.keys().collect();
            kx.sort();
            ky.sort();
            let c = kx.cmp(&ky);
            if c != Equal {
                return c;
            }
            for k in kx {
                let c = model_cmp(&x[k], &y[k]);
                if c != Equal {
                    return c;
                }
            }
            Equal
        }
        _ if ra == 3 => {
            let (x, y) = (a.as_f64().unwrap_or(f64::NAN), b.as_f64().unwrap_or(f64::NAN));
            match (a.as_i64(), b.as_i64()) {
                (Some(i), Some(j)) if !matches!(a, OwnedValue::Float(_)) && !matches!(b, OwnedValue::Float(_)) => i.cmp(&j),
                _ => {
                    if x.is_nan() {
                        Less
                    } else if y.is_nan() {
                        Greater
                    } else {
                        x.partial_cmp(&y).unwrap_or(Equal)
                    }
                }
            }
        }
        _ => Equal,
    }
}

fn values_of(prog: &str, input: &[u8]) -> Option<Vec<OwnedValue>> {
    use succinctly::jq::eval_generic::{self, GenericResult};
    let expr = jq::parse(prog).ok()?;
    let index = succinctly::json::JsonIndex::build(input);
    let r = eval_generic::eval_with_cursor(&expr, index.root(input));
    if matches!(r, GenericResult::Error(_) | GenericResult::Partial(..)) {
        return None;
    }
    Some(r.collect_owned())
}

/// the in-process order oracle: the outputs of `sort`, `unique`, `min`, `max`, `group_by(.)`, `<`, `>`
/// on the input array are checked against `model_cmp` (never against the implementation's comparator)
fn order_oracle(input: &[u8]) -> bool {
    use std::cmp::Ordering::*;
    let Some(items) = values_of(".", input).and_then(|v| v.into_iter().next()).and_then(|v| v.as_array().cloned()) else {
        return false;
    };
    let arr = |p: &str| values_of(p, input).and_then(|v| v.into_iter().next()).and_then(|v| v.as_array().cloned());
    let one = |p: &str| values_of(p, input).and_then(|v| v.into_iter().next());
    let key = |v: &OwnedValue| v.to_json();
    let mut want: Vec<String> = items.iter().map(key).collect();
    want.sort();
    let mut ok = true;
    for p in ["sort", "sort_by(.)", "reverse | sort"] {
        let Some(s) = arr(p) else { return false };
        ok &= s.windows(2).all(|w| model_cmp(&w[0], &w[1]) != Greater);
        let mut got: Vec<String> = s.iter().map(key).collect();
        got.sort();
        ok &= got == want;
    }
    for p in ["unique", "unique_by(.)"] {
        let Some(u) = arr(p) else { return false };
        ok &= u.windows(2).all(|w| model_cmp(&w[0], &w[1]) == Less);
        ok &= items.iter().all(|x| u.iter().any(|y| model_cmp(x, y) == Equal));
    }
    if !items.is_empty() {
        let (Some(mn), Some(mx)) = (one("min"), one("max")) else { return false };
        ok &= items.iter().all(|x| model_cmp(&mn, x) != Greater && model_cmp(&mx, x) != Less);
    }
    if let Some(g) = arr("group_by(.)") {
        let groups: Vec<Vec<OwnedValue>> = g.iter().filter_map(|x| x.as_array().cloned()).collect();
        ok &= groups.iter().all(|gr| gr.windows(2).all(|w| model_cmp(&w[0], &w[1]) == Equal));
        ok &= groups.windows(2).all(|w| !w[0].is_empty() && !w[1].is_empty() && model_cmp(&w[0][0], &w[1][0]) == Less);
    } else {
        return false;
    }
    // < and > on every ordered pair
    let Some(lt) = arr("[.[] as $a | .[] as $b | $a < $b]") else { return false };
    let Some(gt) = arr("[.[] as $a | .[] as $b | $a > $b]") else { return false };
    let mut idx = 0;
    for a in &items {
        for b in &items {
            let c = model_cmp(a, b);
            ok &= lt.get(idx) == Some(&OwnedValue::Bool(c == Less));
            ok &= gt.get(idx) == Some(&OwnedValue::Bool(c == Greater));
            idx += 1;
        }
    }
    ok
}

pub fn exec(a: &[&str]) -> String {
    match a[0] {
        // ord <programs hex> <array hex>: run lines of the order-sensitive programs (both evaluators) and
        // the in-process order oracle
        "ord" => {
            let progs = String::from_utf8(parse_bytes(a[1])).expect("utf8");
            let input = parse_bytes(a[2]);
            let mut parts = Vec::new();
            for p in progs.split('\n') {
                let Ok(expr) = jq::parse(p) else {
                    parts.push("PARSE-ERROR".to_string());
                    continue;
                };
                let f = std::panic::catch_unwind(|| run_full(&expr, &input)).unwrap_or_else(|_| "PANIC".into());
                let g = std::panic::catch_unwind(|| run_generic(&expr, &input)).unwrap_or_else(|_| "PANIC".into());
                parts.push(if f == g { f } else { format!("EVALS-DISAGREE full={f} generic={g}") });
            }
            let ok = std::panic::catch_unwind(|| order_oracle(&input)).unwrap_or(false);
            format!("{}|{}", parts.join("|"), if ok { "ID-OK" } else { "ID-FAIL" })
        }
        "id" => {
            let progs = String::from_utf8(parse_bytes(a[1])).expect("utf8");
            let input = parse_bytes(a[2]);
            let mut parts = Vec::new();
            let mut ok = true;
            for p in progs.split('\n') {
                let Ok(expr) = jq::parse(p) else {
                    parts.push("PARSE-ERROR".to_string());
                    ok = false;
                    continue;
                };
                let f = std::panic::catch_unwind(|| run_full(&expr, &input)).unwrap_or_else(|_| "PANIC".into());
                let g = std::panic::catch_unwind(|| run_generic(&expr, &input)).unwrap_or_else(|_| "PANIC".into());
                if f != "true;END" || g != "true;END" {
                    ok = false;
                }
                parts.push(if f == g { f } else { format!("EVALS-DISAGREE full={f} generic={g}") });
            }
            format!("{}|{}", parts.join("|"), if ok { "ID-OK" } else { "ID-FAIL" })
        }
        _ => "BAD-OP".into(),
    }
}

pub fn gen(tier: Tier, r: &mut Rng, emit: &mut dyn FnMut(String)) {
    let n = if tier == Tier::Quick { 1_500 } else { 40_000 };
    // the order class: object families over one key set with permuted insertion orders
    let oprogs = ORDER_PROGS.join("\n");
    emit(format!("C25 ord {} {}", hex_bytes(oprogs.as_bytes()), hex_bytes(FAMILY_FIXED.as_bytes())));
    for _ in 0..(if tier == Tier::Quick { 300 } else { 10_000 }) {
        let v = gen_family(r);
        emit(format!("C25 ord {} {}", hex_bytes(oprogs.as_bytes()), hex_bytes(v.as_bytes())));
    }
    let progs = IDENTITIES.join("\n");
    for i in 0..n {
        let raw = gen_json(r, 2 + (i % 3) as u32);
        // the identities are stated for duplicate-free values: collapse duplicate keys first
        let v = collapse_input(raw.as_bytes()).unwrap_or(raw);
        emit(format!("C25 id {} {}", hex_bytes(progs.as_bytes()), hex_bytes(v.as_bytes())));
    }
}
