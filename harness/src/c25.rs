//! C25 — jq value identities, evaluated by both Rust evaluators on generated duplicate-free values
//! and every path. Request: `C25 id <identity programs, newline separated, hex> <value JSON hex>`;
//! each program must print `true`. Answer: the run line of every program (both evaluators, as in
//! C23) joined by `|`, then `ID-OK` / `ID-FAIL` (in-process verdict: every run is exactly `true`).
use crate::c23::{collapse_input, gen_json, run_full, run_generic};
use crate::rng::Rng;
use crate::util::*;
use crate::Tier;
use succinctly::jq;

pub fn tables() -> Vec<(&'static str, String)> {
    vec![]
}

pub const IDENTITIES: &[&str] = &[
    // tojson | fromjson
    "(tojson | fromjson) == .",
    // to_entries | from_entries (objects, at every depth)
    "[.. | objects] | all(.[]; (to_entries | from_entries) == .)",
    // tostream / fromstream
    "[fromstream(tostream)] == [.]",
    // @base64 | @base64d on every string in the value (keys included)
    "[.. | strings, (objects | keys[])] | all(.[]; (@base64 | @base64d) == .)",
    // getpath defined for every path; setpath(p; getpath(p)) is the identity
    ". as $v | [paths] | all(.[]; . as $p | ($v | setpath($p; $v | getpath($p))) == $v)",
    // getpath(p) after setpath(p; x) is x
    ". as $v | [paths] | all(.[]; . as $p | ($v | setpath($p; \"Z\") | getpath($p)) == \"Z\")",
    // assignment changes exactly p (all sibling paths keep their values)
    ". as $v | [paths] as $ps | all($ps[]; . as $p | ($v | setpath($p; \"Z\")) as $w | all($ps[]; . as $q | if ($q | length) == ($p | length) and $q != $p and ($q[:-1] == $p[:-1]) then ($w | getpath($q)) == ($v | getpath($q)) else true end))",
    // sort: ordered permutation
    "[..] as $a | ($a | sort) as $s | ($s | length) == ($a | length) and all(range(0; ($s | length) - 1); $s[.] <= $s[. + 1]) and (($s | map(tojson) | sort) == ($a | map(tojson) | sort))",
    // unique: strictly increasing, same set
    "[..] as $a | ($a | unique) as $u | all(range(0; ($u | length) - 1); $u[.] < $u[. + 1]) and ($a - $u == []) and ($u - $a == [])",
    // the order is total on the values occurring: exactly one of <, ==, > for neighbours
    "[..] as $a | all(range(0; ($a | length) - 1); [$a[.] < $a[. + 1], $a[.] == $a[. + 1], $a[.] > $a[. + 1]] | map(select(.)) | length == 1)",
];

pub fn exec(a: &[&str]) -> String {
    match a[0] {
        "id" => {
            let progs = String::from_utf8(parse_bytes(a[1])).expect("utf8");
            let input = parse_bytes(a[2]);
            let mut parts = Vec::new();
            let mut ok = true;
            for p in progs.split('\n') {
                let Ok(expr) = jq::parse(p) else {
                    parts.push("PARSE-ERROR".to_string());
                    ok = false;
                    continue;
                };
                let f = std::panic::catch_unwind(|| run_full(&expr, &input)).unwrap_or_else(|_| "PANIC".into());
                let g = std::panic::catch_unwind(|| run_generic(&expr, &input)).unwrap_or_else(|_| "PANIC".into());
                if f != "true;END" || g != "true;END" {
                    ok = false;
                }
                parts.push(if f == g { f } else { format!("EVALS-DISAGREE full={f} generic={g}") });
            }
            format!("{}|{}", parts.join("|"), if ok { "ID-OK" } else { "ID-FAIL" })
        }
        _ => "BAD-OP".into(),
    }
}

pub fn gen(tier: Tier, r: &mut Rng, emit: &mut dyn FnMut(String)) {
    let n = if tier == Tier::Quick { 1_500 } else { 40_000 };
    let progs = IDENTITIES.join("\n");
    for i in 0..n {
        let raw = gen_json(r, 2 + (i % 3) as u32);
        // the identities are stated for duplicate-free values: collapse duplicate keys first
        let v = collapse_input(raw.as_bytes()).unwrap_or(raw);
        emit(format!("C25 id {} {}", hex_bytes(progs.as_bytes()), hex_bytes(v.as_bytes())));
    }
}
