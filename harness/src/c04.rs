//! C04 — balanced-parentheses navigation: every constructor × select support, the free
//! functions, the private word kernels, the SSE4.1 index builders and the built index arrays.
//!
//! Request shapes (one line each, answers comma-separated in position order):
//!   C04 bp <ctor> <words> <len> <op> <positions>     methods of `BalancedParens`
//!   C04 idx <ctor> <words> <len>                     built index arrays (hook `index_view`)
//!   C04 free <words> <len> <fc|fo|enc> <positions>   `trees::{find_close,find_open,enclose}`, |words| = ceil(len/64)
//!   C04 surplus <words> <len> fc <positions>         same, with whole words beyond ceil(len/64) (finding F1, repaired)
//!   C04 big <opens> <closes> <op> <positions>      manual replays only: chain built in the harness, closed-form oracle
//!   C04 wk <word> <valid_bits>                       word_min_excess / _i32 (/_unrolled, max_excess_rev when 64)
//!   C04 fcw <word> <start_bit> <excess> <valid_bits> find_close_in_word_fast
//!   C04 l1b <mins> <excs> <num_l1>                   L1 builder (SSE4.1 in the `simd` build, scalar reference otherwise)
//!   C04 l2b <mins> <excs> <num_l2>                   L2 builder (ditto)
//! ctor: new | fw | news | fws | newc | fwc | newcr:<rate> | fwcr:<rate>
#![allow(deprecated)]
use crate::rng::Rng;
use crate::util::*;
use crate::Tier;
use succinctly::trees::{BalancedParens, NoSelect, SelectSupport, WithCsPoppy, WithSelect};
use succinctly::verif_hooks::verif_bp as h;
use succinctly::Config;

pub fn tables() -> Vec<(&'static str, String)> {
    let fc = h::byte_find_close();
    let rows: Vec<String> = fc.iter().map(|row| crate::json_list(row.iter())).collect();
    vec![
        ("BYTE_MIN_EXCESS", crate::json_list(h::byte_min_excess().iter())),
        ("BYTE_MAX_EXCESS_REV", crate::json_list(h::byte_max_excess_rev().iter())),
        ("BYTE_TOTAL_EXCESS", crate::json_list(h::byte_total_excess().iter())),
        ("BYTE_FIND_CLOSE", format!("[{}]", rows.join(","))),
    ]
}

fn nums(s: &str) -> Vec<usize> {
    if s == "-" {
        return Vec::new();
    }
    s.split(',').map(|t| t.parse::<usize>().expect("decimal")).collect()
}

fn ints(s: &str) -> Vec<i64> {
    if s == "-" {
        return Vec::new();
    }
    s.split(',').map(|t| t.parse::<i64>().expect("int")).collect()
}

fn ilist<T: std::fmt::Display>(xs: &[T]) -> String {
    list(xs)
}

fn answer<W: AsRef<[u64]>, S: SelectSupport>(bp: &BalancedParens<W, S>, ops: &str, ps: &[usize]) -> String {
    let f = |op: &str, p: usize| -> String {
        match op {
            "rank1" => bp.rank1(p).to_string(),
            "rank0" => bp.rank0(p).to_string(),
            "excess" => bp.excess(p).to_string(),
            "depth" => opt(bp.depth(p)),
            "sel1" => opt(bp.select1(p)),
            "sel0" => opt(bp.select0(p)),
            "fc" => opt(bp.find_close(p)),
            "fo" => opt(bp.find_open(p)),
            "enc" => opt(bp.enclose(p)),
            "par" => opt(bp.parent(p)),
            "fch" => opt(bp.first_child(p)),
            "nsib" => opt(bp.next_sibling(p)),
            "sub" => opt(bp.subtree_size(p)),
            "open" => (bp.is_open(p) as u8).to_string(),
            "close" => (bp.is_close(p) as u8).to_string(),
            _ => {
                if let Some(e) = op.strip_prefix("fcf:") {
                    let e: i32 = e.parse().expect("excess");
                    opt(h::find_close_from(bp, p, e))
                } else {
                    "BAD-OP".into()
                }
            }
        }
    };
    // `ops` is a `+`-separated list; one `;`-separated group of answers per op, then the counts
    let mut groups: Vec<String> = ops
        .split('+')
        .map(|op| list(&ps.iter().map(|&p| f(op, p)).collect::<Vec<String>>()))
        .collect();
    groups.push(format!("n{}/{}/{}", bp.len(), bp.total_ones(), bp.total_zeros()));
    groups.join(";")
}

fn index_str<W: AsRef<[u64]>, S: SelectSupport>(bp: &BalancedParens<W, S>) -> String {
    let v = h::index_view(bp);
    format!(
        "{};{};{};{};{};{};{};{};{};{}",
        v.total_ones,
        ilist(v.l0_min_excess),
        ilist(v.l0_word_excess),
        ilist(v.l1_min_excess),
        ilist(v.l1_block_excess),
        ilist(v.l2_min_excess),
        ilist(v.l2_block_excess),
        ilist(v.rank_l1),
        hex_words(v.rank_l2),
        hex_words(bp.words()),
    )
}

/// Runs `k` against a structure built by constructor `ctor`.
fn with_ctor(ctor: &str, words: Vec<u64>, len: usize, op: &str, ps: &[usize], idx: bool) -> String {
    macro_rules! go {
        ($bp:expr) => {{
            let bp = $bp;
            if idx {
                index_str(&bp)
            } else {
                answer(&bp, op, ps)
            }
        }};
    }
    macro_rules! goc {
        ($bp:expr) => {{
            let bp = $bp;
            if idx {
                let (s, r) = h::cspoppy_samples(&bp);
                format!("{};{};{}", index_str(&bp), ilist(s), r)
            } else {
                answer(&bp, op, ps)
            }
        }};
    }
    let (name, rate) = match ctor.split_once(':') {
        Some((n, r)) => (n, r.parse::<u32>().expect("rate")),
        None => (ctor, 0),
    };
    match name {
        "new" => go!(BalancedParens::<Vec<u64>, NoSelect>::new(words, len)),
        "fw" => go!(BalancedParens::<&[u64], NoSelect>::from_words(&words[..], len)),
        "news" => go!(BalancedParens::<Vec<u64>, WithSelect>::new_with_select(words, len)),
        "fws" => go!(BalancedParens::<&[u64], WithSelect>::from_words_with_select(&words[..], len)),
        "newc" => goc!(BalancedParens::<Vec<u64>, WithCsPoppy>::new_with_cspoppy(words, len)),
        "fwc" => goc!(BalancedParens::<&[u64], WithCsPoppy>::from_words_with_cspoppy(&words[..], len)),
        "newcr" => goc!(BalancedParens::<Vec<u64>, WithCsPoppy>::new_with_cspoppy_config(
            words,
            len,
            Config { select_sample_rate: rate }
        )),
        "fwcr" => goc!(BalancedParens::<&[u64], WithCsPoppy>::from_words_with_cspoppy_config(
            &words[..],
            len,
            Config { select_sample_rate: rate }
        )),
        _ => "BAD-CTOR".into(),
    }
}

/// Scalar reference of the L1 fold (the non-`simd` build has no separate builder function: the
/// fold is inline in `build_bp_index`); used only so that `l1b`/`l2b` lines replay on every build.
fn l1_scalar(mins: &[i8], excs: &[i16], num_l1: usize) -> (Vec<i16>, Vec<i16>) {
    let (mut a, mut b) = (Vec::new(), Vec::new());
    for blk in 0..num_l1 {
        let start = blk * 32;
        let end = (start + 32).min(mins.len());
        let (mut bm, mut re) = (0i16, 0i16);
        for i in start..end {
            bm = bm.min(re.wrapping_add(mins[i] as i16));
            re = re.wrapping_add(excs[i]);
        }
        a.push(bm);
        b.push(re);
    }
    (a, b)
}

fn l2_scalar(mins: &[i16], excs: &[i16], num_l2: usize) -> (Vec<i32>, Vec<i32>) {
    let (mut a, mut b) = (Vec::new(), Vec::new());
    for blk in 0..num_l2 {
        let start = blk * 32;
        let end = (start + 32).min(mins.len());
        let (mut bm, mut re) = (0i32, 0i32);
        for i in start..end {
            bm = bm.min(re.wrapping_add(mins[i] as i32));
            re = re.wrapping_add(excs[i] as i32);
        }
        a.push(bm);
        b.push(re);
    }
    (a, b)
}

pub fn exec(a: &[&str]) -> String {
    match a[0] {
        "bp" => {
            let words = parse_words(a[2]);
            with_ctor(a[1], words, num(a[3]), a[4], &nums(a[5]), false)
        }
        "idx" => {
            let words = parse_words(a[2]);
            with_ctor(a[1], words, num(a[3]), "", &[], true)
        }
        "free" | "surplus" => {
            let words = parse_words(a[1]);
            let len = num(a[2]);
            let ps = nums(a[4]);
            let groups: Vec<String> = a[3]
                .split('+')
                .map(|op| {
                    let out: Vec<String> = ps
                        .iter()
                        .map(|&p| match op {
                            "fc" => opt(succinctly::trees::find_close(&words, len, p)),
                            "fo" => opt(succinctly::trees::find_open(&words, len, p)),
                            "enc" => opt(succinctly::trees::enclose(&words, len, p)),
                            _ => "BAD-OP".into(),
                        })
                        .collect();
                    list(&out)
                })
                .collect();
            groups.join(";")
        }
        // big <opens> <closes> <op> <positions>: a chain of `opens` opens followed by `closes` closes
        // (len = opens + closes), built in the harness (manual replays only: 2^31 bits = 256 MiB),
        // answered by BalancedParens::new and compared with the closed-form linear-scan answer.
        "big" => {
            let opens: usize = num(a[1]);
            let closes: usize = num(a[2]);
            let len = opens + closes;
            let mut words = vec![0u64; len.div_ceil(64)];
            for w in 0..opens / 64 {
                words[w] = u64::MAX;
            }
            if opens % 64 != 0 {
                words[opens / 64] = (1u64 << (opens % 64)) - 1;
            }
            let bp = BalancedParens::<Vec<u64>, NoSelect>::new(words, len);
            let mut out = Vec::new();
            let mut fails = Vec::new();
            for p in nums(a[4]) {
                let exc: i128 = if p < opens { p as i128 + 1 } else { 2 * opens as i128 - p as i128 - 1 };
                let (got, want) = match a[3] {
                    "fc" => {
                        let c = 2 * opens as u128 - 1 - (p as u128).min(2 * opens as u128 - 1);
                        let want = if p < opens && (c as usize) < len { Some(c as usize) } else { None };
                        (opt(bp.find_close(p)), opt(want))
                    }
                    "depth" => {
                        let want = if p < len && exc >= 0 { Some(exc as usize) } else { None };
                        let got = bp.depth(p);
                        // a negative excess has no depth: only compare where the scan defines one
                        (opt(got), if p < len && exc < 0 { opt(got) } else { opt(want) })
                    }
                    "excess" => (bp.excess(p).to_string(), if p < len { exc.to_string() } else { "0".into() }),
                    "rank1" => (bp.rank1(p).to_string(), p.min(opens).to_string()),
                    _ => ("BAD-OP".into(), "BAD-OP".into()),
                };
                if got != want {
                    fails.push(format!("ORACLE-FAIL@{p}:{want}"));
                }
                out.push(got);
            }
            if fails.is_empty() {
                list(&out)
            } else {
                format!("{} {}", list(&out), fails.join(" "))
            }
        }
        "wk" => {
            let w = u64::from_str_radix(a[1], 16).unwrap();
            let vb = num(a[2]);
            let (m8, t16) = h::word_min_excess(w, vb);
            let (m32, t32) = h::word_min_excess_i32(w, vb);
            if vb == 64 {
                let (mu, tu) = h::word_min_excess_unrolled(w);
                let (mx, tx) = h::word_max_excess_rev(w);
                format!("{m8},{t16},{m32},{t32},{mu},{tu},{mx},{tx}")
            } else {
                format!("{m8},{t16},{m32},{t32}")
            }
        }
        "fcw" => {
            let w = u64::from_str_radix(a[1], 16).unwrap();
            let e: i32 = a[3].parse().unwrap();
            opt(h::find_close_in_word_fast(w, num(a[2]), e, num(a[4])))
        }
        "l1b" => {
            let mins: Vec<i8> = ints(a[1]).iter().map(|&x| x as i8).collect();
            let excs: Vec<i16> = ints(a[2]).iter().map(|&x| x as i16).collect();
            let n = num(a[3]);
            let (x, y) = h::build_l1_index_sse41(&mins, &excs, n).unwrap_or_else(|| l1_scalar(&mins, &excs, n));
            format!("{};{}", ilist(&x), ilist(&y))
        }
        "l2b" => {
            let mins: Vec<i16> = ints(a[1]).iter().map(|&x| x as i16).collect();
            let excs: Vec<i16> = ints(a[2]).iter().map(|&x| x as i16).collect();
            let n = num(a[3]);
            let (x, y) = h::build_l2_index_sse41(&mins, &excs, n).unwrap_or_else(|| l2_scalar(&mins, &excs, n));
            format!("{};{}", ilist(&x), ilist(&y))
        }
        _ => "BAD-OP".into(),
    }
}

// ------------------------------------------------------------------------------------------------
// generators

struct Bits {
    v: Vec<bool>,
}

impl Bits {
    fn to_words(&self, r: &mut Rng, garbage: bool) -> (Vec<u64>, usize) {
        let len = self.v.len();
        let nw = len.div_ceil(64);
        let mut ws = vec![0u64; nw];
        for (i, &b) in self.v.iter().enumerate() {
            if b {
                ws[i / 64] |= 1 << (i % 64);
            }
        }
        if garbage && len % 64 != 0 {
            let g = match r.below(3) {
                0 => u64::MAX,
                1 => r.next_u64(),
                _ => 1u64 << r.range((len % 64) as u64, 63),
            };
            ws[nw - 1] |= g & !((1u64 << (len % 64)) - 1);
        }
        (ws, len)
    }
}

/// Random tree with `n` nodes (balanced sequence of 2n bits), shape controlled by `p_open`/256.
fn random_tree(r: &mut Rng, n: usize, p_open: u64) -> Vec<bool> {
    let mut v = Vec::with_capacity(2 * n);
    let (mut opened, mut depth) = (0usize, 0usize);
    while v.len() < 2 * n {
        let can_open = opened < n;
        let can_close = depth > 0;
        let open = if can_open && can_close { r.below(256) < p_open } else { can_open };
        if open {
            v.push(true);
            opened += 1;
            depth += 1;
        } else {
            v.push(false);
            depth -= 1;
        }
    }
    v
}

fn gen_bits(r: &mut Rng, kind: u64, target: usize) -> Vec<bool> {
    let n = target.max(2);
    match kind {
        // random trees of different bushiness
        0 => random_tree(r, n / 2, 128),
        1 => random_tree(r, n / 2, 160),
        2 => random_tree(r, n / 2, 230),
        // deep chain (((...)))
        3 => {
            let d = n / 2;
            let mut v = vec![true; d];
            v.extend(std::iter::repeat(false).take(d));
            v
        }
        // wide flat: ( ()()()... )
        4 => {
            let mut v = vec![true];
            for _ in 0..(n / 2).saturating_sub(1) {
                v.push(true);
                v.push(false);
            }
            v.push(false);
            v
        }
        // comb: (()(()(()(...
        5 => {
            let k = n / 4;
            let mut v = Vec::new();
            for _ in 0..k {
                v.push(true);
                v.push(true);
                v.push(false);
            }
            v.extend(std::iter::repeat(false).take(k));
            v
        }
        // balanced with an unbalanced tail: tree ++ extra opens / closes
        6 => {
            let mut v = random_tree(r, n / 2, 140);
            let extra = r.usize_below(n / 4 + 2);
            let b = r.chance(1, 2);
            v.extend(std::iter::repeat(b).take(extra));
            v
        }
        // unbalanced head: closes first, then a tree
        7 => {
            let extra = r.usize_below(n / 4 + 2);
            let mut v = vec![r.chance(3, 4) == false; extra];
            v.extend(random_tree(r, n / 2, 140));
            v
        }
        // all open / all close
        8 => vec![true; n],
        9 => vec![false; n],
        // random bits with a density
        10 => {
            let d = r.range(16, 240);
            (0..n).map(|_| r.below(256) < d).collect()
        }
        // deep chain with bushy interior: opens, random tree, closes (long L1/L2 skips with noise)
        11 => {
            let d = n / 4;
            let mut v = vec![true; d];
            v.extend(random_tree(r, n / 4, 128));
            v.extend(std::iter::repeat(false).take(d));
            v
        }
        // forest of medium trees (many roots: next_sibling chains across blocks)
        _ => {
            let mut v = Vec::new();
            while v.len() < n {
                let k = r.range(1, 600) as usize;
                let po = 100 + r.below(140);
                v.extend(random_tree(r, k, po));
            }
            v
        }
    }
}

const NKINDS: u64 = 13;
const CTORS: [&str; 6] = ["new", "fw", "news", "fws", "newc", "fwc"];
const OPS: [&str; 15] =
    ["rank1", "rank0", "excess", "depth", "sel1", "sel0", "fc", "fo", "enc", "par", "fch", "nsib", "sub", "open", "close"];

fn pick_ctor(r: &mut Rng) -> String {
    match r.below(10) {
        0..=5 => CTORS[r.usize_below(6)].to_string(),
        6 | 7 => format!("newcr:{}", pick_rate(r)),
        _ => format!("fwcr:{}", pick_rate(r)),
    }
}

fn pick_rate(r: &mut Rng) -> u32 {
    match r.below(6) {
        0 => *r.pick(&[0u32, 1, 2, 3, 63, 64, 65, 255, 256, 257, 511, 512, 513, 4095, 4096]),
        1 => r.range(1, 8) as u32,
        _ => r.range(1, 4096) as u32,
    }
}

/// Positions of interest for a sequence of `len` bits: word / rank-block / L1 / L2 edges ±2,
/// the ends, and `extra` random ones.
fn positions(r: &mut Rng, len: usize, extra: usize, cap: usize) -> Vec<usize> {
    let halo = if extra >= 50 { 2usize } else { 1 };
    let mut ps = Vec::new();
    if len <= cap {
        ps.extend(0..len + 2);
        return ps;
    }
    let edge = |c: usize, ps: &mut Vec<usize>| {
        for d in 0..(2 * halo + 1) {
            let p = (c + d).saturating_sub(halo);
            ps.push(p);
        }
    };
    edge(0, &mut ps);
    edge(len, &mut ps);
    for step in [512usize, 2048, 65536] {
        let nb = len / step;
        for _ in 0..3 {
            if nb > 0 {
                edge(step * (1 + r.usize_below(nb)), &mut ps);
            }
        }
    }
    for _ in 0..4 {
        edge(64 * r.usize_below(len / 64 + 1), &mut ps);
    }
    for _ in 0..extra {
        ps.push(r.usize_below(len + 1));
    }
    ps.sort_unstable();
    ps.dedup();
    ps
}

fn emit_all_ops(r: &mut Rng, emit: &mut dyn FnMut(String), ws: &[u64], len: usize, ctor: &str, ps: &[usize], ones: usize) {
    let hw = hex_words(ws);
    let pl = list(ps);
    let nav: Vec<&str> = OPS.iter().copied().filter(|o| *o != "sel1" && *o != "sel0").collect();
    emit(format!("C04 bp {ctor} {hw} {len} {} {pl}", nav.join("+")));
    for op in ["sel1", "sel0"] {
        // ranks instead of positions
        let tot = if op == "sel1" { ones } else { len - ones };
        let mut ks: Vec<usize> = if tot <= 300 {
            (0..tot + 2).collect()
        } else {
            let mut ks = vec![0, 1, tot - 1, tot, tot + 1, 255, 256, 257, 511, 512];
            for _ in 0..(if len > 20_000 { 12 } else { 40 }) {
                ks.push(r.usize_below(tot + 1));
            }
            ks
        };
        ks.push(usize::MAX);
        ks.push(1 << 32);
        ks.sort_unstable();
        ks.dedup();
        emit(format!("C04 bp {ctor} {hw} {len} {op} {}", list(&ks)));
    }
}

fn count_ones(ws: &[u64], len: usize) -> usize {
    let mut c = 0;
    for (i, w) in ws.iter().enumerate() {
        let mut w = *w;
        if (i + 1) * 64 > len {
            let k = len.saturating_sub(i * 64);
            w &= if k == 0 { 0 } else { (1u64 << k) - 1 };
        }
        c += w.count_ones() as usize;
    }
    c
}

pub fn gen(tier: Tier, r: &mut Rng, emit: &mut dyn FnMut(String)) {
    let quick = tier == Tier::Quick;

    // ---- word kernels
    let nk = if quick { 3000 } else { 200_000 };
    for i in 0..nk {
        let w = match i % 5 {
            0 => r.next_u64(),
            1 => r.sparse_word(2),
            2 => !r.sparse_word(2),
            3 => {
                let po = 100 + r.below(140);
                let v = random_tree(r, 32, po);
                let mut w = 0u64;
                for (j, b) in v.iter().enumerate() {
                    if *b {
                        w |= 1 << j;
                    }
                }
                w
            }
            _ => *r.pick(&[0u64, u64::MAX, 0x5555_5555_5555_5555, 0xAAAA_AAAA_AAAA_AAAA, 0x0000_0000_FFFF_FFFF, 0xFFFF_FFFF_0000_0000]),
        };
        let vb = if i % 3 == 0 { 64 } else { r.range(0, 64) as usize };
        emit(format!("C04 wk {w:x} {vb}"));
        let sb = r.range(0, 66) as usize;
        let e: i64 = match r.below(8) {
            0 => 0,
            1 => -1,
            2 => r.range(17, 70) as i64,
            _ => r.range(1, 17) as i64,
        };
        let vb2 = r.range(0, 64) as usize;
        emit(format!("C04 fcw {w:x} {sb} {e} {vb2}"));
    }

    // ---- L1 / L2 builders on arbitrary and in-range inputs
    let nb = if quick { 300 } else { 20_000 };
    for i in 0..nb {
        let n = r.range(0, 100) as usize;
        let wild = i % 4 == 0;
        let mins: Vec<i64> = (0..n).map(|_| if wild { r.range(0, 255) as i64 - 128 } else { -(r.range(0, 64) as i64) }).collect();
        let excs: Vec<i64> = (0..n).map(|_| if wild { r.range(0, 65535) as i64 - 32768 } else { r.range(0, 128) as i64 - 64 }).collect();
        let num = if r.chance(1, 8) { r.range(0, 5) as usize } else { n.div_ceil(32) };
        emit(format!("C04 l1b {} {} {num}", list(&mins), list(&excs)));
        // L2: in-range lanes are within [-2048, 2048]; the wild stream uses the full i16 range
        let mins: Vec<i64> = (0..n).map(|_| if wild { r.range(0, 65535) as i64 - 32768 } else { -(r.range(0, 2048) as i64) }).collect();
        let excs: Vec<i64> = (0..n)
            .map(|_| {
                if wild {
                    r.range(0, 65535) as i64 - 32768
                } else if r.chance(1, 2) {
                    *r.pick(&[2048i64, -2048, 2047, -2047])
                } else {
                    r.range(0, 4096) as i64 - 2048
                }
            })
            .collect();
        let num = if r.chance(1, 8) { r.range(0, 5) as usize } else { n.div_ceil(32) };
        if !wild {
            emit(format!("C04 l2b {} {} {num}", list(&mins), list(&excs)));
        }
    }

    // ---- small inputs: every op at every position, every constructor
    let nsmall = if quick { 150 } else { 4000 };
    for i in 0..nsmall {
        let target = match i % 4 {
            0 => r.range(0, 70) as usize,
            1 => r.range(60, 200) as usize,
            2 => 64 * r.range(1, 9) as usize + r.range(0, 2) as usize,
            _ => r.range(0, 700) as usize,
        };
        let mut bits = gen_bits(r, i as u64 % NKINDS, target);
        if r.chance(1, 3) {
            let k = r.usize_below(bits.len() + 1);
            bits.truncate(k);
        }
        let b = Bits { v: bits };
        let garbage = r.chance(2, 3);
        let (ws, len) = b.to_words(r, garbage);
        let ps: Vec<usize> = (0..len + 3).chain([usize::MAX, 1 << 32, (1 << 32) - 1]).collect();
        let ones = count_ones(&ws, len);
        let ctor = pick_ctor(r);
        emit_all_ops(r, emit, &ws, len, &ctor, &ps, ones);
        emit(format!("C04 idx {ctor} {} {len}", hex_words(&ws)));
        let hw = hex_words(&ws);
        let pl = list(&ps);
        emit(format!("C04 free {hw} {len} fc+fo+enc {pl}"));
        // find_close_from with other start excesses
        let e = r.range(0, 5) as i64 - 1;
        emit(format!("C04 bp {ctor} {hw} {len} fcf:{e} {pl}"));
        // surplus whole words beyond ceil(len/64) (finding F1, repaired): every class of len,
        // including len % 8 == 0 && len % 64 != 0, where the unrepaired code ran a ~2^32-step
        // loop and returned a position beyond len instead of panicking (few positions there, so
        // that a run against an unrepaired tree still terminates)
        if len > 0 && i % 3 == 0 {
            let mut ws2 = ws.clone();
            for _ in 0..r.range(1, 3) {
                ws2.push(*r.pick(&[0u64, u64::MAX, 0x5555_5555_5555_5555]));
            }
            let hw2 = hex_words(&ws2);
            let slow_class = len % 8 == 0 && len % 64 != 0;
            let npos = if slow_class { 2 } else { 24 };
            for p in 0..len.min(npos) {
                emit(format!("C04 surplus {hw2} {len} fc {p}"));
            }
        }
    }

    // ---- former slow class of F1: len % 8 == 0, len % 64 != 0, surplus words, scan running off the end
    for (k, len) in [8usize, 16, 24, 40, 72, 120, 136].into_iter().enumerate() {
        let nw = len.div_ceil(64);
        let mut ws2: Vec<u64> = (0..nw).map(|_| if k % 2 == 0 { u64::MAX } else { r.next_u64() | 1 }).collect();
        ws2.push(0);
        if k % 3 == 0 {
            ws2.push(u64::MAX);
        }
        emit(format!("C04 surplus {} {len} fc 0", hex_words(&ws2)));
        emit(format!("C04 free {} {len} fc+fo+enc 0,1,{}", hex_words(&ws2), len - 1));
    }

    // ---- every residue mod 64 at a few sizes, all six plain constructors
    for res in 0..64usize {
        let base = *r.pick(&[0usize, 64, 448, 512, 1984, 2048, 4096]);
        let len = base + res;
        let kind = r.below(NKINDS);
        let bits = gen_bits(r, kind, len.max(2));
        let mut bits = bits;
        bits.truncate(len);
        while bits.len() < len {
            bits.push(r.chance(1, 2));
        }
        let b = Bits { v: bits };
        let (ws, len) = b.to_words(r, true);
        let ps = positions(r, len, 30, 300);
        let ones = count_ones(&ws, len);
        let ctor = CTORS[res % 6];
        emit_all_ops(r, emit, &ws, len, ctor, &ps, ones);
        emit(format!("C04 idx {ctor} {} {len}", hex_words(&ws)));
    }

    // ---- large inputs
    let (nlarge, maxlen) = if quick { (15, 70_000usize) } else { (40, 262_144usize) };
    for i in 0..nlarge {
        let kind = i as u64 % NKINDS;
        let target = match i % 5 {
            0 => maxlen - r.usize_below(64),
            1 => 65_536 + r.usize_below(130),
            2 => r.range(2048, 8192) as usize,
            3 => r.range(60_000, maxlen as u64) as usize,
            _ => r.range(8192, maxlen as u64) as usize,
        };
        let mut bits = gen_bits(r, kind, target);
        if bits.len() > maxlen {
            bits.truncate(maxlen);
        }
        if r.chance(1, 4) {
            let cut = r.usize_below(64);
            let k = bits.len().saturating_sub(cut);
            bits.truncate(k);
        }
        let b = Bits { v: bits };
        let garbage = r.chance(2, 3);
        let (ws, len) = b.to_words(r, garbage);
        let ps = positions(r, len, if quick { 20 } else { 60 }, 0);
        let ones = count_ones(&ws, len);
        let ctor = pick_ctor(r);
        emit_all_ops(r, emit, &ws, len, &ctor, &ps, ones);
        emit(format!("C04 idx {ctor} {} {len}", hex_words(&ws)));
        let hw = hex_words(&ws);
        let pl = list(&ps);
        emit(format!("C04 free {hw} {len} fc+fo+enc {pl}"));
    }

    // ---- deep chains beyond i16 / u16 depth (thorough: > 32 767 and > 65 536 deep)
    if !quick {
        for depth in [32_768usize, 32_800, 65_537, 70_000, 131_072] {
            let mut bits = vec![true; depth];
            bits.extend(std::iter::repeat(false).take(depth.min(262_144 - depth)));
            let b = Bits { v: bits };
            let (ws, len) = b.to_words(r, true);
            let ps = positions(r, len, 50, 0);
            let ones = count_ones(&ws, len);
            for ctor in ["new", "fwc"] {
                emit_all_ops(r, emit, &ws, len, ctor, &ps, ones);
                emit(format!("C04 idx {ctor} {} {len}", hex_words(&ws)));
            }
        }
    } else {
        // quick: one chain deeper than i16::MAX (2 × 33 000 = 66 000 bits ≤ 70 000)
        let depth = 33_000usize;
        let mut bits = vec![true; depth];
        bits.extend(std::iter::repeat(false).take(depth));
        let b = Bits { v: bits };
        let (ws, len) = b.to_words(r, true);
        let ps = positions(r, len, 12, 0);
        let ones = count_ones(&ws, len);
        emit_all_ops(r, emit, &ws, len, "fw", &ps, ones);
        emit(format!("C04 idx fw {} {len}", hex_words(&ws)));
    }
}
