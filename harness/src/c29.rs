//! C29 — yq-locate expressions evaluate to the located YAML node.
//!
//! `loc <br> <ndocs> <tokens> <features> <hex> <offsets>`: a generated stream and byte offsets inside
//! scalars / keys (chosen by the generator from its renderer's token table).  For every offset the
//! library's `locate_offset_detailed` expression is evaluated by `succinctly yq -s` (documents
//! collected into an array) and must yield the node's value (for a key: the value the key names);
//! `at_offset` must yield the token's own value; `succinctly yq-locate --offset` must print the
//! library's expression.  Answer: `LOC-OK <n>` or `LOC-DIFF …`.
use crate::c14::yamlgen::*;
use crate::rng::Rng;
use crate::util::*;
use crate::Tier;
use std::io::Write;
use std::process::{Command, Stdio};
use succinctly::yaml::{locate_offset_detailed, YamlIndex};

pub fn tables() -> Vec<(&'static str, String)> {
    vec![]
}

fn run_cli(args: &[&str], input: &[u8]) -> (i32, String, String) {
    let Ok(cli) = std::env::var("SV_CLI") else { return (-2, String::new(), "NO-CLI".into()) };
    let Ok(mut ch) = Command::new(cli).args(args).env("NO_COLOR", "1").stdin(Stdio::piped()).stdout(Stdio::piped()).stderr(Stdio::piped()).spawn() else {
        return (-3, String::new(), "SPAWN-FAILED".into());
    };
    let mut si = ch.stdin.take().unwrap();
    let b = input.to_vec();
    let w = std::thread::spawn(move || {
        let _ = si.write_all(&b);
    });
    let out = ch.wait_with_output().unwrap();
    let _ = w.join();
    (out.status.code().unwrap_or(-1), String::from_utf8_lossy(&out.stdout).into_owned(), String::from_utf8_lossy(&out.stderr).into_owned())
}

/// byte offset in the final rendering of every char index of the LF text (plus the end)
fn byte_offsets(lf: &str, br: Break) -> Vec<usize> {
    let bl = break_text(br).len();
    let mut v = Vec::with_capacity(lf.len() + 1);
    let mut o = 0;
    for c in lf.chars() {
        v.push(o);
        o += if c == '\n' { bl } else { c.len_utf8() };
    }
    v.push(o);
    v
}

fn at_path<'a>(docs: &'a [Tree], path: &[PathElem]) -> Option<&'a Tree> {
    let mut cur: Option<&Tree> = None;
    for (i, p) in path.iter().enumerate() {
        cur = Some(match (i, p, cur) {
            (0, PathElem::Idx(d), _) => docs.get(*d)?,
            (_, PathElem::Idx(k), Some(Tree::Seq(xs))) => xs.get(*k)?,
            (_, PathElem::Key(k), Some(Tree::Map(kvs))) => &kvs.iter().find(|e| &e.0 == k)?.1,
            _ => return None,
        });
    }
    cur
}

fn c(t: &Tree) -> String {
    let mut o = String::new();
    canon(t, &mut o);
    o
}

pub fn exec(a: &[&str]) -> String {
    match a[0] {
        "loc" => {
            let ps = parse_stream(a[1], a[2], a[3]);
            let bytes = parse_bytes(a[5]);
            let offs: Vec<usize> = if a[6] == "-" { vec![] } else { a[6].split(',').map(|x| x.parse().unwrap()).collect() };
            let (lf, toks) = render_lf(&ps);
            let bo = byte_offsets(&lf, ps.br);
            let docs: Vec<Tree> = ps.docs.iter().map(|d| d.root.tree()).collect();
            let index = match YamlIndex::build(&bytes) {
                Ok(i) => i,
                Err(e) => return format!("LOC-DIFF build:{e:?}").replace(' ', "_"),
            };
            let mut exprs = Vec::new();
            let mut want_node = Vec::new();
            let mut want_tok = Vec::new();
            for &off in &offs {
                let Some(t) = toks.iter().find(|t| bo[t.start] <= off && off < bo[t.end]) else { return format!("BAD-OFFSET {off}") };
                let Some(node) = at_path(&docs, &t.path) else { return format!("BAD-PATH {off}") };
                let Some(res) = locate_offset_detailed(&index, &bytes, off) else { return format!("LOC-DIFF offset={off} locate=None") };
                exprs.push(res.expression);
                want_node.push(node.clone());
                want_tok.push(if t.is_key {
                    match t.path.last() {
                        Some(PathElem::Key(k)) => Tree::Str(k.clone()),
                        _ => return "BAD-KEY".into(),
                    }
                } else {
                    node.clone()
                });
            }
            if offs.is_empty() {
                return "LOC-OK 0".into();
            }
            // 1. the expressions, evaluated over the slurped stream
            let prog = format!("[{}]", exprs.iter().map(|e| format!("(try ({e}) catch \"<error>\")")).collect::<Vec<_>>().join(","));
            let (rc, out, err) = run_cli(&["yq", "-s", "-o", "json", "-I", "0", &prog], &bytes);
            let got = read_json(out.trim());
            let Some(Tree::Seq(got)) = got else {
                return format!("LOC-DIFF eval rc={rc} out={} err={}", out.chars().take(80).collect::<String>(), err.chars().take(120).collect::<String>()).replace(|c: char| c.is_whitespace(), "_");
            };
            for i in 0..offs.len() {
                if got.get(i) != Some(&want_node[i]) {
                    return format!("LOC-DIFF offset={} expr={} got={} want={}", offs[i], hex_bytes(exprs[i].as_bytes()), got.get(i).map(c).unwrap_or_default(), c(&want_node[i]));
                }
            }
            // 2. at_offset yields the token's own value
            let prog2 = format!("[{}]", offs.iter().map(|o| format!("at_offset({o})")).collect::<Vec<_>>().join(","));
            let (rc2, out2, err2) = run_cli(&["yq", "-o", "json", "-I", "0", &prog2], &bytes);
            let first = out2.lines().next().unwrap_or("");
            let Some(Tree::Seq(got2)) = read_json(first) else {
                return format!("LOC-DIFF at_offset rc={rc2} out={} err={}", out2.chars().take(80).collect::<String>(), err2.chars().take(120).collect::<String>()).replace(|c: char| c.is_whitespace(), "_");
            };
            for i in 0..offs.len() {
                if got2.get(i) != Some(&want_tok[i]) {
                    return format!("LOC-DIFF at_offset={} got={} want={}", offs[i], got2.get(i).map(c).unwrap_or_default(), c(&want_tok[i]));
                }
            }
            // 3. the CLI prints the library's expression (first offset)
            // (one spawn more: done for a deterministic quarter of the requests)
            if bytes.len() % 4 != 0 {
                return format!("LOC-OK {}", offs.len());
            }
            let path = std::env::temp_dir().join(format!("svc29-{}.yaml", std::process::id()));
            if std::fs::write(&path, &bytes).is_ok() {
                let (_, out3, err3) = run_cli(&["yq-locate", path.to_str().unwrap(), "--offset", &offs[0].to_string()], b"");
                let _ = std::fs::remove_file(&path);
                if out3.trim_end_matches('\n') != exprs[0] {
                    return format!("LOC-DIFF cli-expr={} lib-expr={} err={}", hex_bytes(out3.trim().as_bytes()), hex_bytes(exprs[0].as_bytes()), err3.chars().take(60).collect::<String>()).replace(|c: char| c.is_whitespace(), "_");
                }
            }
            format!("LOC-OK {}", offs.len())
        }
        _ => "BAD-OP".into(),
    }
}

fn plain(s: &str) -> PNode {
    PNode::Str(s.to_string(), SStyle::Plain)
}

/// A nested block node of depth `d` ending in a scalar: mappings (`a:\n  b:\n    c: 1`) and sequences mixed.
fn nest(r: &mut Rng, d: usize, ctx: Ctx) -> PNode {
    if d == 0 {
        return if r.chance(1, 2) { PNode::Int(r.below(100) as i64, 0) } else { plain("x") };
    }
    let compact = ctx == Ctx::Seq && r.chance(1, 2);
    if r.chance(1, 4) {
        let mut items = vec![(Meta::default(), nest(r, d - 1, Ctx::Seq))];
        if !compact && r.chance(1, 3) {
            items.push((Meta::default(), plain("y")));
        }
        PNode::Seq { flow: false, step: if ctx == Ctx::Map && r.chance(1, 2) { 0 } else { 2 }, compact, items }
    } else {
        let k = (*r.pick(&["a", "b", "c", "k", "name"])).to_string();
        let mut entries = vec![(Meta::default(), k, KStyle::Plain, nest(r, d - 1, Ctx::Map))];
        if !compact && r.chance(1, 3) {
            entries.push((Meta::default(), "z".to_string(), KStyle::Plain, plain("t")));
        }
        PNode::Map { flow: false, step: 2, compact, entries }
    }
}

/// Streams with 60–400 nodes: padding entries (`pNN: x`) of varying number between nested mappings /
/// sequences, so that runs of nodes starting at one text position (a block collection and its first
/// key or entry) fall on every phase of the 64-node words of the position index.
pub fn big_stream(r: &mut Rng) -> PStream {
    let target = r.range(60, 400) as usize;
    let dense = r.chance(1, 2);
    let root_seq = r.chance(1, 3);
    let mut nodes = 1usize;
    let mut entries: Vec<(Meta, String, KStyle, PNode)> = Vec::new();
    let mut i = 0usize;
    // a first run of padding so that the first nested block lands anywhere in the first words
    let mut pad = r.range(0, 40) as usize;
    while nodes < target {
        if pad > 0 {
            pad -= 1;
            entries.push((Meta::default(), format!("p{i:02}"), KStyle::Plain, plain("x")));
            nodes += 2;
        } else {
            let d = r.range(1, 4) as usize;
            entries.push((Meta::default(), format!("n{i}"), KStyle::Plain, nest(r, d, Ctx::Map)));
            nodes += 2 + 2 * d;
            pad = if dense { r.range(0, 3) as usize } else { r.range(0, 34) as usize };
        }
        i += 1;
    }
    let root = if root_seq {
        // a sequence of small mappings (`- pNN: x`)
        let mut items: Vec<(Meta, PNode)> = Vec::new();
        let mut cur: Vec<(Meta, String, KStyle, PNode)> = Vec::new();
        for e in entries {
            // a multi-line entry ends its (compact) mapping
            let multi = !matches!(e.3, PNode::Str(..) | PNode::Int(..));
            cur.push(e);
            if multi || r.chance(1, 3) {
                items.push((Meta::default(), PNode::Map { flow: false, step: 2, compact: true, entries: std::mem::take(&mut cur) }));
            }
        }
        if !cur.is_empty() {
            items.push((Meta::default(), PNode::Map { flow: false, step: 2, compact: true, entries: cur }));
        }
        PNode::Seq { flow: false, step: 2, compact: false, items }
    } else {
        PNode::Map { flow: false, step: 2, compact: false, entries }
    };
    PStream { docs: vec![PDoc { fill: vec![], marker: r.chance(1, 4), end_marker: false, root, root_meta: Meta::default() }], br: *r.pick(&[Break::Lf, Break::Lf, Break::Crlf]) }
}

pub fn gen(tier: Tier, r: &mut Rng, emit: &mut dyn FnMut(String)) {
    // large documents: every token's first byte is queried
    for _ in 0..(if tier == Tier::Quick { 10 } else { 150 }) {
        let ps = big_stream(r);
        if features(&ps) != "-" && features(&ps) != "len64" {
            continue;
        }
        let (lf, toks) = render_lf(&ps);
        let bo = byte_offsets(&lf, ps.br);
        let mut offs: Vec<usize> = toks.iter().filter(|t| bo[t.end] > bo[t.start]).map(|t| bo[t.start]).collect();
        offs.dedup();
        offs.truncate(450);
        emit(format!("C29 loc {} - {} {}", stream_wire(&ps), hex_bytes(&render(&ps)), list(&offs)));
    }
    let n = if tier == Tier::Quick { 16 } else { 400 };
    let mut made = 0;
    let mut attempts = 0;
    while made < n && attempts < n * 40 {
        attempts += 1;
        let o = match attempts % 3 {
            0 => GenOpts { block_scalars: false, comments: true, breaks: true, anchors: false, multidoc: true, max_depth: 4 },
            1 => GenOpts { block_scalars: true, comments: false, breaks: false, anchors: false, multidoc: false, max_depth: 4 },
            _ => ALL,
        };
        let ps = {
            let mut g = Gen::new(r, o);
            g.stream()
        };
        if features(&ps) != "-" {
            continue;
        }
        let keys = all_keys(&ps);
        // a NUL cannot be passed in a command-line argument
        if keys.iter().any(|k| k.contains('\0')) {
            continue;
        }
        // keys the locator writes in dot notation although they are not ASCII identifiers
        let dot = |k: &String| {
            let mut cs = k.chars();
            match cs.next() {
                Some(c) if c.is_alphabetic() || c == '_' => cs.all(|c| c.is_alphanumeric() || c == '_'),
                _ => false,
            }
        };
        let feat = if keys.iter().any(|k| dot(k) && !k.is_ascii()) { "nonascii-dot-key" } else { "-" };
        let (lf, toks) = render_lf(&ps);
        if toks.is_empty() {
            continue;
        }
        let bo = byte_offsets(&lf, ps.br);
        let mut offs = Vec::new();
        for t in &toks {
            let (s, e) = (bo[t.start], bo[t.end]);
            if e == s {
                continue; // empty token (empty null / empty plain): no byte inside it
            }
            offs.push(s);
            if e - s > 2 {
                offs.push(s + r.usize_below(e - s));
            }
            offs.push(e - 1);
        }
        offs.dedup();
        if offs.is_empty() {
            continue;
        }
        offs.truncate(60);
        emit(format!("C29 loc {} {} {} {}", stream_wire(&ps), feat, hex_bytes(&render(&ps)), list(&offs)));
        made += 1;
    }
}
