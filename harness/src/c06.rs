//! C06 — `JsonIndex` navigation: the whole navigated tree of generated valid documents is dumped
//! (pre-order s-expression) and compared with the Lean model's dump; an in-process reference parser
//! gives an independent verdict (`TREE-OK` / `TREE-DIFF`). Text-level kernels (`decode_escapes`,
//! string end, `nested_number_span`) are driven on arbitrary bytes.
use crate::rng::Rng;
use crate::util::*;
use crate::Tier;
use succinctly::json::light::{JsonCursor, JsonError, StandardJson};
use succinctly::json::JsonIndex;
use succinctly::verif_hooks as h;

fn has_avx2() -> bool {
    std::arch::is_x86_feature_detected!("avx2")
}

pub fn tables() -> Vec<(&'static str, String)> {
    Vec::new()
}

fn err_str(e: JsonError) -> &'static str {
    match e {
        JsonError::InvalidUtf8 => "eU",
        JsonError::InvalidNumber => "eN",
        JsonError::InvalidEscape => "eE",
        JsonError::InvalidUnicodeEscape => "eX",
    }
}

fn str_repr<S: AsRef<str>>(r: Result<S, JsonError>) -> String {
    match r {
        Ok(s) => format!("h{}", hex_bytes(s.as_ref().as_bytes())),
        Err(e) => err_str(e).to_string(),
    }
}

type Cur<'a> = JsonCursor<'a, Vec<u64>>;
type Val<'a> = StandardJson<'a, Vec<u64>>;

fn sig(v: Option<Val<'_>>) -> String {
    match v {
        None => "-".into(),
        Some(StandardJson::Object(f)) => {
            let mut n = 0;
            let mut f = f;
            while let Some((_, rest)) = f.uncons() {
                n += 1;
                f = rest;
            }
            format!("O{n}")
        }
        Some(StandardJson::Array(e)) => {
            let mut n = 0;
            let mut e = e;
            while let Some((_, rest)) = e.uncons_cursor() {
                n += 1;
                e = rest;
            }
            format!("A{n}")
        }
        Some(StandardJson::String(s)) => format!("S{}", str_repr(s.as_str())),
        Some(StandardJson::Number(n)) => format!("N{}", hex_bytes(n.raw_bytes())),
        Some(StandardJson::Bool(true)) => "T".into(),
        Some(StandardJson::Bool(false)) => "F".into(),
        Some(StandardJson::Null) => "Z".into(),
        Some(StandardJson::Error(_)) => "E".into(),
    }
}

fn sel_field(n: usize, i: usize) -> bool {
    i < 24 || i + 4 >= n
}
fn sel_elem(n: usize, i: usize) -> bool {
    i < 16 || i + 2 >= n
}

fn header(c: &Cur<'_>) -> String {
    let range = match c.text_range() {
        Some((s, e)) => format!("{s}-{e}"),
        None => "-".into(),
    };
    format!(
        "@{}:{}:{}:p{}n{}f{}",
        c.bp_position(),
        opt(c.text_position()),
        range,
        opt(c.parent().map(|x| x.bp_position())),
        opt(c.next_sibling().map(|x| x.bp_position())),
        opt(c.first_child().map(|x| x.bp_position()))
    )
}

fn dump(c: &Cur<'_>, out: &mut String) {
    let hd = header(c);
    match c.value() {
        StandardJson::Object(fields) => {
            let nchildren = c.children().count();
            out.push_str(&format!("(O{hd}c{nchildren}"));
            let mut all = Vec::new();
            let mut f = fields;
            while let Some((field, rest)) = f.uncons() {
                all.push(field);
                f = rest;
            }
            for field in &all {
                out.push('{');
                dump(&field.key_cursor(), out);
                dump(&field.value_cursor(), out);
                out.push('}');
            }
            let n = all.len();
            for (i, field) in all.iter().enumerate() {
                if !sel_field(n, i) {
                    continue;
                }
                let name = match field.key() {
                    StandardJson::String(s) => s.as_str().ok().map(|x| x.into_owned()),
                    _ => None,
                };
                match name {
                    Some(name) => {
                        let cur = fields.find_cursor(&name);
                        let val = fields.find(&name);
                        // `find` and `find_cursor` must agree: the signature is taken from `find`,
                        // the cursor from `find_cursor`, and the model derives both from one cursor.
                        out.push_str(&format!("?{i}={}/{}", opt(cur.map(|x| x.bp_position())), sig(val)));
                    }
                    None => out.push_str(&format!("?{i}=!")),
                }
            }
            out.push(')');
        }
        StandardJson::Array(elems) => {
            let kids: Vec<Cur<'_>> = c.children().collect();
            let n = kids.len();
            out.push_str(&format!("(A{hd}c{n}"));
            for k in &kids {
                dump(k, out);
            }
            for i in 0..=n {
                if sel_elem(n + 1, i) {
                    out.push_str(&format!("g{i}={}/{}", sig(elems.get(i)), sig(elems.get_fast(i))));
                }
            }
            out.push(')');
        }
        StandardJson::String(s) => {
            let (raw, esc) = s.raw_and_escaped();
            out.push_str(&format!("(S{hd}={}x{}r{})", str_repr(s.as_str()), esc as u8, raw.len()));
        }
        StandardJson::Number(n) => {
            let i = match n.as_i64() {
                Ok(v) => v.to_string(),
                Err(_) => "!".into(),
            };
            out.push_str(&format!("(N{hd}={}i{i})", hex_bytes(n.raw_bytes())));
        }
        StandardJson::Bool(true) => out.push_str(&format!("(T{hd})")),
        StandardJson::Bool(false) => out.push_str(&format!("(F{hd})")),
        StandardJson::Null => out.push_str(&format!("(Z{hd})")),
        StandardJson::Error(_) => out.push_str(&format!("(E{hd})")),
    }
}

// ------------------------------------------------------------------------------------------------
// independent reference reader (strict RFC 8259 + paired surrogates) used as in-process oracle
// ------------------------------------------------------------------------------------------------

#[derive(Debug)]
enum RefKind {
    Null,
    Bool(bool),
    Num,
    Str(Option<Vec<u8>>), // decoded UTF-8, None when an escape is a lone surrogate
    Arr(Vec<RefNode>),
    Obj(Vec<(RefNode, RefNode)>),
}
#[derive(Debug)]
struct RefNode {
    start: usize,
    end: usize,
    kind: RefKind,
}

struct P<'a> {
    t: &'a [u8],
    i: usize,
}

impl<'a> P<'a> {
    fn ws(&mut self) {
        while self.i < self.t.len() && matches!(self.t[self.i], b' ' | b'\t' | b'\n' | b'\r') {
            self.i += 1;
        }
    }
    fn hex4(&mut self) -> Option<u32> {
        if self.i + 4 > self.t.len() {
            return None;
        }
        let s = std::str::from_utf8(&self.t[self.i..self.i + 4]).ok()?;
        if !s.bytes().all(|b| b.is_ascii_hexdigit()) {
            return None;
        }
        self.i += 4;
        u32::from_str_radix(s, 16).ok()
    }
    fn string(&mut self) -> Option<RefNode> {
        let start = self.i;
        if self.t.get(self.i) != Some(&b'"') {
            return None;
        }
        self.i += 1;
        let mut out: Option<Vec<u8>> = Some(Vec::new());
        loop {
            let b = *self.t.get(self.i)?;
            match b {
                b'"' => {
                    self.i += 1;
                    break;
                }
                b'\\' => {
                    self.i += 1;
                    let e = *self.t.get(self.i)?;
                    self.i += 1;
                    let ch = match e {
                        b'"' => '"',
                        b'\\' => '\\',
                        b'/' => '/',
                        b'b' => '\u{8}',
                        b'f' => '\u{c}',
                        b'n' => '\n',
                        b'r' => '\r',
                        b't' => '\t',
                        b'u' => {
                            let hi = self.hex4()?;
                            if (0xD800..0xDC00).contains(&hi) {
                                // must be followed by \uDC00..DFFF
                                if self.t.get(self.i) == Some(&b'\\') && self.t.get(self.i + 1) == Some(&b'u') {
                                    let save = self.i;
                                    self.i += 2;
                                    match self.hex4() {
                                        Some(lo) if (0xDC00..0xE000).contains(&lo) => {
                                            char::from_u32(0x10000 + ((hi - 0xD800) << 10) + (lo - 0xDC00))?
                                        }
                                        _ => {
                                            self.i = save;
                                            out = None;
                                            continue;
                                        }
                                    }
                                } else {
                                    out = None;
                                    continue;
                                }
                            } else if (0xDC00..0xE000).contains(&hi) {
                                out = None;
                                continue;
                            } else {
                                char::from_u32(hi)?
                            }
                        }
                        _ => return None,
                    };
                    if let Some(o) = out.as_mut() {
                        let mut buf = [0u8; 4];
                        o.extend_from_slice(ch.encode_utf8(&mut buf).as_bytes());
                    }
                }
                0..=0x1f => return None,
                _ => {
                    if let Some(o) = out.as_mut() {
                        o.push(b);
                    }
                    self.i += 1;
                }
            }
        }
        if let Some(o) = &out {
            std::str::from_utf8(o).ok()?;
        }
        Some(RefNode { start, end: self.i, kind: RefKind::Str(out) })
    }
    fn number(&mut self) -> Option<RefNode> {
        let start = self.i;
        if self.t.get(self.i) == Some(&b'-') {
            self.i += 1;
        }
        match self.t.get(self.i)? {
            b'0' => self.i += 1,
            b'1'..=b'9' => {
                while self.i < self.t.len() && self.t[self.i].is_ascii_digit() {
                    self.i += 1;
                }
            }
            _ => return None,
        }
        if self.t.get(self.i) == Some(&b'.') {
            self.i += 1;
            let s = self.i;
            while self.i < self.t.len() && self.t[self.i].is_ascii_digit() {
                self.i += 1;
            }
            if self.i == s {
                return None;
            }
        }
        if matches!(self.t.get(self.i), Some(b'e') | Some(b'E')) {
            self.i += 1;
            if matches!(self.t.get(self.i), Some(b'+') | Some(b'-')) {
                self.i += 1;
            }
            let s = self.i;
            while self.i < self.t.len() && self.t[self.i].is_ascii_digit() {
                self.i += 1;
            }
            if self.i == s {
                return None;
            }
        }
        Some(RefNode { start, end: self.i, kind: RefKind::Num })
    }
    fn lit(&mut self, s: &[u8], kind: RefKind) -> Option<RefNode> {
        if self.t[self.i..].starts_with(s) {
            let start = self.i;
            self.i += s.len();
            Some(RefNode { start, end: self.i, kind })
        } else {
            None
        }
    }
    fn value(&mut self, depth: usize) -> Option<RefNode> {
        if depth > 2000 {
            return None;
        }
        match *self.t.get(self.i)? {
            b'"' => self.string(),
            b't' => self.lit(b"true", RefKind::Bool(true)),
            b'f' => self.lit(b"false", RefKind::Bool(false)),
            b'n' => self.lit(b"null", RefKind::Null),
            b'[' => {
                let start = self.i;
                self.i += 1;
                let mut xs = Vec::new();
                self.ws();
                if self.t.get(self.i) == Some(&b']') {
                    self.i += 1;
                    return Some(RefNode { start, end: self.i, kind: RefKind::Arr(xs) });
                }
                loop {
                    self.ws();
                    xs.push(self.value(depth + 1)?);
                    self.ws();
                    match *self.t.get(self.i)? {
                        b',' => self.i += 1,
                        b']' => {
                            self.i += 1;
                            return Some(RefNode { start, end: self.i, kind: RefKind::Arr(xs) });
                        }
                        _ => return None,
                    }
                }
            }
            b'{' => {
                let start = self.i;
                self.i += 1;
                let mut fs = Vec::new();
                self.ws();
                if self.t.get(self.i) == Some(&b'}') {
                    self.i += 1;
                    return Some(RefNode { start, end: self.i, kind: RefKind::Obj(fs) });
                }
                loop {
                    self.ws();
                    let k = self.string()?;
                    self.ws();
                    if self.t.get(self.i) != Some(&b':') {
                        return None;
                    }
                    self.i += 1;
                    self.ws();
                    let v = self.value(depth + 1)?;
                    fs.push((k, v));
                    self.ws();
                    match *self.t.get(self.i)? {
                        b',' => self.i += 1,
                        b'}' => {
                            self.i += 1;
                            return Some(RefNode { start, end: self.i, kind: RefKind::Obj(fs) });
                        }
                        _ => return None,
                    }
                }
            }
            b'-' | b'0'..=b'9' => self.number(),
            _ => None,
        }
    }
}

fn ref_parse(t: &[u8]) -> Option<RefNode> {
    let mut p = P { t, i: 0 };
    p.ws();
    let v = p.value(0)?;
    p.ws();
    if p.i == t.len() {
        Some(v)
    } else {
        None
    }
}

/// Does the navigated tree under `c` equal the reference tree `r`?
fn agrees(c: &Cur<'_>, r: &RefNode, text: &[u8]) -> bool {
    if c.text_position() != Some(r.start) || c.text_range() != Some((r.start, r.end)) {
        return false;
    }
    if c.raw_bytes() != Some(&text[r.start..r.end]) {
        return false;
    }
    match (&r.kind, c.value()) {
        (RefKind::Null, StandardJson::Null) => true,
        (RefKind::Bool(b), StandardJson::Bool(x)) => *b == x,
        (RefKind::Num, StandardJson::Number(n)) => n.raw_bytes() == &text[r.start..r.end],
        (RefKind::Str(d), StandardJson::String(s)) => match (d, s.as_str()) {
            (Some(d), Ok(x)) => x.as_bytes() == &d[..] && s.raw_bytes() == &text[r.start..r.end],
            (None, Err(_)) => true,
            _ => false,
        },
        (RefKind::Arr(xs), StandardJson::Array(elems)) => {
            let kids: Vec<Cur<'_>> = c.children().collect();
            if kids.len() != xs.len() || elems.count() != xs.len() {
                return false;
            }
            kids.iter().zip(xs).all(|(k, x)| k.parent().map(|p| p.bp_position()) == Some(c.bp_position()) && agrees(k, x, text))
        }
        (RefKind::Obj(fs), StandardJson::Object(fields)) => {
            let mut f = fields;
            let mut i = 0;
            while let Some((field, rest)) = f.uncons() {
                if i >= fs.len() || !agrees(&field.key_cursor(), &fs[i].0, text) || !agrees(&field.value_cursor(), &fs[i].1, text) {
                    return false;
                }
                i += 1;
                f = rest;
            }
            if i != fs.len() {
                return false;
            }
            // lookup by name returns the last field with that (decoded) name
            if fs.iter().all(|(k, _)| matches!(&k.kind, RefKind::Str(Some(_)))) {
                for (k, _) in fs.iter().take(40) {
                    if let RefKind::Str(Some(name)) = &k.kind {
                        let last = fs.iter().rev().find(|(k2, _)| matches!(&k2.kind, RefKind::Str(Some(n2)) if n2 == name)).unwrap();
                        let name = std::str::from_utf8(name).unwrap();
                        match fields.find_cursor(name) {
                            Some(cur) if cur.text_position() == Some(last.1.start) => {}
                            _ => return false,
                        }
                    }
                }
            }
            true
        }
        _ => false,
    }
}

pub fn exec(a: &[&str]) -> String {
    match a[0] {
        // nav <avx2:0|1> <bytes> -> dump of the navigated tree + oracle verdict
        "nav" => {
            if (a[1] == "1") != has_avx2() {
                return "HOST-AVX2-MISMATCH".into();
            }
            let text = parse_bytes(a[2]);
            let idx = JsonIndex::build(&text);
            let root = idx.root(&text);
            let mut out = String::new();
            dump(&root, &mut out);
            let verdict = match ref_parse(&text) {
                Some(r) => {
                    if agrees(&root, &r, &text) {
                        "TREE-OK"
                    } else {
                        "TREE-DIFF"
                    }
                }
                None => "TREE-NA",
            };
            format!("{out} {verdict}")
        }
        // dec <bytes> -> decode_escapes
        "dec" => str_repr(h::verif_decode_escapes(&parse_bytes(a[1]))),
        // send <bytes> <start> -> find_string_end;raw end;escaped;as_str
        "send" => {
            let text = parse_bytes(a[1]);
            let start = num(a[2]);
            let s = h::verif_string_at(&text, start);
            let (raw, esc) = s.raw_and_escaped();
            format!("{};{};{};{}", h::verif_string_end(&text, start), start + raw.len(), esc as u8, str_repr(s.as_str()))
        }
        // nspan <bytes> <start> -> nested_number_span
        "nspan" => {
            let text = parse_bytes(a[1]);
            h::verif_nested_number_span(&text, num(a[2])).to_string()
        }
        _ => "BAD-OP".into(),
    }
}

// ------------------------------------------------------------------------------------------------
// generator of valid documents
// ------------------------------------------------------------------------------------------------

struct G<'r> {
    r: &'r mut Rng,
    ws: u64,      // probability (in 1/8) of whitespace in a gap
    dup: u64,     // probability (in 1/8) of drawing a key from the small pool
    max_depth: u32,
}

const KEYS: &[&str] = &["a", "b", "k", "id", "\\u0061", "a\\/b", "\u{e9}", ""];

impl G<'_> {
    fn gap(&mut self, out: &mut Vec<u8>) {
        if self.r.below(8) < self.ws {
            for _ in 0..self.r.range(1, 3) {
                out.push(*self.r.pick(b" \t\n\r"));
            }
        }
    }
    fn string(&mut self, out: &mut Vec<u8>) {
        out.push(b'"');
        let n = match self.r.below(10) {
            0 => 0,
            1 => self.r.below(60),
            _ => self.r.below(8),
        };
        for _ in 0..n {
            match self.r.below(20) {
                0 => {
                    out.push(b'\\');
                    out.push(*self.r.pick(b"\"\\/bfnrt"));
                }
                1 => {
                    // BMP non-surrogate \uXXXX, mixed case hex
                    let cp = loop {
                        let c = self.r.below(0x10000) as u32;
                        if !(0xD800..0xE000).contains(&c) {
                            break c;
                        }
                    };
                    let s = if self.r.chance(1, 2) { format!("\\u{cp:04x}") } else { format!("\\u{cp:04X}") };
                    out.extend_from_slice(s.as_bytes());
                }
                2 => {
                    let hi = 0xD800 + self.r.below(0x400);
                    let lo = 0xDC00 + self.r.below(0x400);
                    out.extend_from_slice(format!("\\u{hi:04x}\\u{lo:04X}").as_bytes());
                }
                3 => {
                    let c = *self.r.pick(&['é', 'ß', '€', '漢', '😀', '𝄞', '\u{7f}', '\u{80}', '\u{7ff}', '\u{800}', '\u{ffff}', '\u{10000}', '\u{10ffff}']);
                    let mut b = [0u8; 4];
                    out.extend_from_slice(c.encode_utf8(&mut b).as_bytes());
                }
                4 => out.push(*self.r.pick(b"{}[]:, ")),
                5 if self.r.chance(1, 40) => {
                    // lone surrogate escape: grammatical JSON whose string cannot be decoded
                    let s = 0xD800 + self.r.below(0x800);
                    out.extend_from_slice(format!("\\u{s:04x}").as_bytes());
                }
                _ => out.push(*self.r.pick(b"abcdefxyzABC0123456789_-+.eE")),
            }
        }
        out.push(b'"');
    }
    fn number(&mut self, out: &mut Vec<u8>) {
        match self.r.below(12) {
            0 => out.extend_from_slice(b"0"),
            1 => out.extend_from_slice(b"-0"),
            2 => out.extend_from_slice(*self.r.pick(&[&b"9223372036854775807"[..], b"-9223372036854775808", b"9223372036854775808", b"-9223372036854775809", b"18446744073709551616"])),
            _ => {
                if self.r.chance(1, 3) {
                    out.push(b'-');
                }
                if self.r.chance(1, 6) {
                    out.push(b'0');
                } else {
                    out.push(*self.r.pick(b"123456789"));
                    let maxd = if self.r.chance(1, 10) { 25 } else { 5 };
                    for _ in 0..self.r.below(maxd) {
                        out.push(*self.r.pick(b"0123456789"));
                    }
                }
                if self.r.chance(1, 3) {
                    out.push(b'.');
                    for _ in 0..self.r.range(1, 5) {
                        out.push(*self.r.pick(b"0123456789"));
                    }
                }
                if self.r.chance(1, 4) {
                    out.push(*self.r.pick(b"eE"));
                    if self.r.chance(1, 2) {
                        out.push(*self.r.pick(b"+-"));
                    }
                    for _ in 0..self.r.range(1, 3) {
                        out.push(*self.r.pick(b"0123456789"));
                    }
                }
            }
        }
    }
    fn key(&mut self, out: &mut Vec<u8>) {
        if self.r.below(8) < self.dup {
            out.push(b'"');
            out.extend_from_slice(self.r.pick(KEYS).as_bytes());
            out.push(b'"');
        } else {
            self.string(out);
        }
    }
    fn value(&mut self, out: &mut Vec<u8>, budget: &mut i64, depth: u32) {
        *budget -= 1;
        let leaf = *budget <= 0 || depth >= self.max_depth || self.r.chance(2, 5);
        if leaf {
            match self.r.below(8) {
                0 => out.extend_from_slice(b"true"),
                1 => out.extend_from_slice(b"false"),
                2 => out.extend_from_slice(b"null"),
                3 | 4 => self.number(out),
                5 => out.extend_from_slice(if self.r.chance(1, 2) { b"[" } else { b"{" }),
                _ => self.string(out),
            }
            // empty containers
            match out.last() {
                Some(b'[') => {
                    self.gap(out);
                    out.push(b']')
                }
                Some(b'{') => {
                    self.gap(out);
                    out.push(b'}')
                }
                _ => {}
            }
            return;
        }
        let n = 1 + self.r.below(6);
        if self.r.chance(1, 2) {
            out.push(b'[');
            for i in 0..n {
                if i > 0 {
                    out.push(b',');
                }
                self.gap(out);
                self.value(out, budget, depth + 1);
                self.gap(out);
            }
            out.push(b']');
        } else {
            out.push(b'{');
            for i in 0..n {
                if i > 0 {
                    out.push(b',');
                }
                self.gap(out);
                self.key(out);
                self.gap(out);
                out.push(b':');
                self.gap(out);
                self.value(out, budget, depth + 1);
                self.gap(out);
            }
            out.push(b'}');
        }
    }
    fn doc(&mut self, nodes: i64) -> Vec<u8> {
        let mut out = Vec::new();
        self.gap(&mut out);
        let mut b = nodes;
        self.value(&mut out, &mut b, 0);
        self.gap(&mut out);
        out
    }
}

/// A chain nested `depth` deep (mixing arrays and objects) around a small value.
fn deep_doc(r: &mut Rng, depth: usize) -> Vec<u8> {
    let mut open = Vec::new();
    let mut close = Vec::new();
    for _ in 0..depth {
        match r.below(3) {
            0 => {
                open.extend_from_slice(b"[");
                close.push(b"]".to_vec());
            }
            1 => {
                open.extend_from_slice(b"{\"k\":");
                close.push(b"}".to_vec());
            }
            _ => {
                open.extend_from_slice(b"[1, ");
                close.push(b" ,\"z\"]".to_vec());
            }
        }
    }
    open.extend_from_slice(*r.pick(&[&b"null"[..], b"[]", b"{}", b"\"x\"", b"-1.5e3"]));
    for c in close.iter().rev() {
        open.extend_from_slice(c);
    }
    open
}

fn emit_nav(emit: &mut dyn FnMut(String), text: &[u8]) {
    let f = if has_avx2() { 1 } else { 0 };
    emit(format!("C06 nav {f} {}", hex_bytes(text)));
}

pub fn gen(tier: Tier, r: &mut Rng, emit: &mut dyn FnMut(String)) {
    let quick = tier == Tier::Quick;
    // hand-picked documents
    for s in [
        &b"null"[..], b" true ", b"\n-0.0e+0\t", b"\"\"", b"[]", b"{}", b"[ ]", b"{\r}", b"[[]]", b"[{}]",
        b"{\"a\":1,\"a\":2,\"b\":3,\"a\":4}", b"{\"\\u0061\":1,\"a\":2}", b"[\"\\ud83d\\ude00\",\"\\u00e9\\n\"]",
        b"{\"k\":[1,{\"k\":[]},\"]\"],\"z\":\"}\"}", b"[\"\\ud800\"]", b"[1,2,3,4,5,6,7,8,9,10,11,12,13,14,15,16,17,18,19,20]",
    ] {
        emit_nav(emit, s);
    }
    // nesting 0..=400
    let depths: Vec<usize> = if quick { vec![0, 1, 2, 3, 31, 32, 33, 63, 64, 65, 127, 128, 129, 200, 400] } else { (0..=400).collect() };
    for d in depths {
        let t = deep_doc(r, d);
        emit_nav(emit, &t);
    }
    // generated documents
    let n = if quick { 700 } else { 40_000 };
    for i in 0..n {
        let nodes = match i % 7 {
            0 => 1,
            1 => 4,
            2 => 10,
            3 => 30,
            4 => 80,
            5 => 200,
            _ => 500,
        };
        let mut g = G { ws: r.below(9), dup: r.below(7), max_depth: *r.pick(&[2u32, 4, 8, 16, 40]), r };
        let t = g.doc(nodes);
        emit_nav(emit, &t);
    }
    // a few large documents (thorough): up to ~1 MB
    if !quick {
        for nodes in [20_000i64, 60_000, 150_000] {
            let mut g = G { ws: 2, dup: 2, max_depth: 30, r };
            let t = g.doc(nodes);
            emit_nav(emit, &t);
        }
    }
    // text-level kernels on arbitrary bytes
    let m = if quick { 3000 } else { 300_000 };
    const SOUP: &[u8] = b"\\\\\\uuUdD89aAfF0123\"/bfnrtx \xc3\xa9\xf0\x9f\x98\x80\xed\xa0\x80\xff";
    for i in 0..m {
        let len = match i % 4 {
            0 => r.usize_below(4),
            1 => r.usize_below(8),
            _ => r.usize_below(16),
        };
        const PIECES: &[&[u8]] = &[
            b"a", b"Z", b" ", b"/", b"\xc3\xa9", b"\xe2\x82\xac", b"\xf0\x9f\x98\x80", b"\\\\", b"\\\"", b"\\/", b"\\b", b"\\f",
            b"\\n", b"\\r", b"\\t", b"\\u0041", b"\\u00e9", b"\\uD7FF", b"\\ue000", b"\\uFFFF", b"\\ud83d\\ude00",
            b"\\uDBFF\\uDFFF", b"\\u", b"\\", b"u", b"d", b"8", b"0", b"\"",
        ];
        let mut b: Vec<u8> = Vec::new();
        for _ in 0..len {
            if r.chance(1, 12) {
                b.push(*r.pick(SOUP));
            } else {
                let pc: &[u8] = *r.pick(PIECES);
                b.extend_from_slice(pc);
            }
        }
        if i % 3 == 0 {
            // plant well-formed pieces
            let piece: &[u8] = *r.pick(&[&b"\\ud83d\\ude00"[..], b"\\uD800\\uDC00", b"\\udbff\\udfff", b"\\ud800\\u0041", b"\\udc00", b"\\u00e9", b"\\uFFFF", b"\\n", b"\\ud83d\\ude0", b"\\ud83d\\", b"\\ud83d"]);
            let p = r.usize_below(b.len() + 1);
            b.splice(p..p, piece.iter().copied());
        }
        emit(format!("C06 dec {}", hex_bytes(&b)));
        let mut t = vec![b'"'];
        t.extend_from_slice(&b);
        if r.chance(2, 3) {
            t.push(b'"');
            t.extend_from_slice(b" ,1");
        }
        emit(format!("C06 send {} 0", hex_bytes(&t)));
        let nb: Vec<u8> = (0..r.usize_below(12)).map(|_| *r.pick(b"0123456789.eE+--,] x")).collect();
        let st = r.usize_below(nb.len() + 2);
        emit(format!("C06 nspan {} {st}", hex_bytes(&nb)));
    }
}
