//! C22 — `succinctly jq -r '@csv'` / `'@dsv("d")'` piped into `succinctly jq --input-dsv d`,
//! driving the freshly built CLI binary (path in `SV_CLI`).  Cases are batched per delimiter:
//! one formatting process whose stdout is fed unchanged to one reading process; sentinel arrays
//! delimit the cases.  A request that is not in the batch cache (replay) runs the two processes
//! for that single case.
use crate::rng::Rng;
use crate::util::*;
use crate::Tier;
use std::collections::HashMap;
use std::io::Write;
use std::process::{Command, Stdio};
use std::sync::Mutex;

pub fn tables() -> Vec<(&'static str, String)> {
    vec![]
}

static CACHE: Mutex<Option<HashMap<String, String>>> = Mutex::new(None);

const SENT: &str = "@@SENT@@";

fn cli_path() -> String {
    std::env::var("SV_CLI").unwrap_or_else(|_| "succinctly".to_string())
}

fn run_cli(args: &[&str], stdin: &[u8]) -> Option<Vec<u8>> {
    let mut child = Command::new(cli_path())
        .arg("jq")
        .args(args)
        .env("NO_COLOR", "1")
        .env("TZ", "UTC")
        .env("HOME", "/nonexistent")
        .stdin(Stdio::piped())
        .stdout(Stdio::piped())
        .stderr(Stdio::null())
        .spawn()
        .expect("spawn succinctly (SV_CLI)");
    let mut si = child.stdin.take().unwrap();
    let data = stdin.to_vec();
    let t = std::thread::spawn(move || {
        let _ = si.write_all(&data);
    });
    let out = child.wait_with_output().expect("wait");
    let _ = t.join();
    if out.status.success() {
        Some(out.stdout)
    } else {
        None
    }
}

fn json_string(s: &[u8]) -> String {
    let s = std::str::from_utf8(s).expect("valid utf-8 case");
    let mut o = String::from("\"");
    for c in s.chars() {
        match c {
            '"' => o.push_str("\\\""),
            '\\' => o.push_str("\\\\"),
            c if (c as u32) < 0x20 => o.push_str(&format!("\\u{:04x}", c as u32)),
            c => o.push(c),
        }
    }
    o.push('"');
    o
}

fn json_array(xs: &[Vec<u8>]) -> String {
    format!("[{}]", xs.iter().map(|x| json_string(x)).collect::<Vec<_>>().join(","))
}

fn parse_strings(s: &str) -> Vec<Vec<u8>> {
    if s == "." {
        vec![]
    } else {
        s.split(',').map(parse_bytes).collect()
    }
}

fn program(d: u8) -> String {
    if d == b',' {
        "@csv".to_string()
    } else {
        let esc = match d {
            b'\\' => "\\\\".to_string(),
            b'"' => "\\\"".to_string(),
            b'\n' => "\\n".to_string(),
            b'\r' => "\\r".to_string(),
            c => (c as char).to_string(),
        };
        format!("@dsv(\"{esc}\")")
    }
}

/// Parse the reader's output (`-c 'map(explode)'`): one line per row, `[[97,98],[]]`.
fn parse_exploded(line: &str) -> Option<Vec<Vec<u8>>> {
    let l = line.trim();
    let inner = l.strip_prefix('[')?.strip_suffix(']')?;
    let mut fields = Vec::new();
    let mut rest = inner;
    while !rest.is_empty() {
        let r = rest.strip_prefix('[')?;
        let end = r.find(']')?;
        let mut s = String::new();
        if end > 0 {
            for n in r[..end].split(',') {
                s.push(char::from_u32(n.trim().parse().ok()?)?);
            }
        }
        fields.push(s.into_bytes());
        rest = &r[end + 1..];
        rest = rest.strip_prefix(',').unwrap_or(rest);
    }
    Some(fields)
}

fn rows_str(rows: &[Vec<Vec<u8>>]) -> String {
    if rows.is_empty() {
        return ".".into();
    }
    rows.iter()
        .map(|r| r.iter().map(|f| hex_bytes(f)).collect::<Vec<_>>().join(","))
        .collect::<Vec<_>>()
        .join(";")
}

/// Stage 2 for one delimiter: feed the formatted text `o1` (cases separated by sentinel records)
/// to `--input-dsv d` and split both streams at the sentinels. `None` if the sentinel structure of
/// either stream is broken (caller falls back to single runs).
fn read_back(d: u8, n_cases: usize, o1: &[u8]) -> Option<Vec<String>> {
    let dchar = (d as char).to_string();
    let o2 = match run_cli(&["--input-dsv", &dchar, "-c", "map(explode)"], o1) {
        Some(o) => o,
        None => return Some((0..n_cases).map(|_| "ERR".to_string()).collect()),
    };
    // split the formatted text at sentinel records
    let sent_line = format!("\"{SENT}\"\n").into_bytes();
    let mut texts: Vec<Vec<u8>> = Vec::new();
    let mut cur: Vec<u8> = Vec::new();
    let mut i = 0;
    while i < o1.len() {
        let at_line_start = i == 0 || o1[i - 1] == b'\n';
        if at_line_start && o1[i..].starts_with(&sent_line) {
            texts.push(std::mem::take(&mut cur));
            i += sent_line.len();
        } else {
            cur.push(o1[i]);
            i += 1;
        }
    }
    if !cur.is_empty() || texts.len() != n_cases {
        return None;
    }
    // split the rows read back at sentinel rows
    let o2s = String::from_utf8(o2).ok()?;
    let mut groups: Vec<Vec<Vec<Vec<u8>>>> = Vec::new();
    let mut g: Vec<Vec<Vec<u8>>> = Vec::new();
    for line in o2s.lines() {
        let row = parse_exploded(line)?;
        if row.len() == 1 && row[0] == SENT.as_bytes() {
            groups.push(std::mem::take(&mut g));
        } else {
            g.push(row);
        }
    }
    if !g.is_empty() || groups.len() != n_cases {
        return None;
    }
    Some(texts.iter().zip(groups.iter()).map(|(t, g)| format!("{}|{}", hex_bytes(t), rows_str(g))).collect())
}

/// Run a batch of arrays through format | read for one delimiter (two processes).
fn run_batch(d: u8, cases: &[Vec<Vec<u8>>]) -> Option<Vec<String>> {
    let mut input = String::new();
    for c in cases {
        input.push_str(&json_array(c));
        input.push('\n');
        input.push_str(&format!("[\"{SENT}\"]\n"));
    }
    let prog = program(d);
    let o1 = match run_cli(&["-r", &prog], input.as_bytes()) {
        Some(o) => o,
        None => return Some(cases.iter().map(|_| "ERR".to_string()).collect()),
    };
    read_back(d, cases.len(), &o1)
}

const GROUP: &str = "@@GROUP@@";

/// Format the cases of *all* delimiter groups in one process: every input is `[d, array]`, the
/// program dispatches on `d` to `@csv` / `@dsv("d")`; a `null` input prints the group separator.
/// Returns the formatted text per group, or `None` if the stream does not split as expected.
fn format_all(groups: &[(u8, Vec<Vec<Vec<u8>>>)]) -> Option<Vec<Vec<u8>>> {
    let mut prog = String::from("if . == null then \"@@GROUP@@\" else (.[0] as $d | .[1] | ");
    let mut input = String::new();
    for (k, (d, cases)) in groups.iter().enumerate() {
        let dj = json_string(&[*d]);
        prog.push_str(&format!("{} $d == {dj} then {} ", if k == 0 { "if" } else { "elif" }, program(*d)));
        for c in cases {
            input.push_str(&format!("[{dj},{}]\n[{dj},[\"{SENT}\"]]\n", json_array(c)));
        }
        input.push_str("null\n");
    }
    prog.push_str("else error(\"no such delimiter\") end) end");
    let o = run_cli(&["-r", &prog], input.as_bytes())?;
    let sep = format!("{GROUP}\n").into_bytes();
    let mut out: Vec<Vec<u8>> = Vec::new();
    let mut cur: Vec<u8> = Vec::new();
    let mut i = 0;
    while i < o.len() {
        let at_line_start = i == 0 || o[i - 1] == b'\n';
        if at_line_start && o[i..].starts_with(&sep) {
            out.push(std::mem::take(&mut cur));
            i += sep.len();
        } else {
            cur.push(o[i]);
            i += 1;
        }
    }
    if !cur.is_empty() || out.len() != groups.len() {
        return None;
    }
    Some(out)
}

fn run_single(d: u8, xs: &[Vec<u8>]) -> String {
    let dchar = (d as char).to_string();
    let prog = program(d);
    let mut input = json_array(xs);
    input.push('\n');
    let Some(o1) = run_cli(&["-r", &prog], input.as_bytes()) else {
        return "ERR".into();
    };
    let Some(o2) = run_cli(&["--input-dsv", &dchar, "-c", "map(explode)"], &o1) else {
        return "ERR".into();
    };
    let Ok(o2s) = String::from_utf8(o2) else {
        return "BAD-UTF8".into();
    };
    let mut rows = Vec::new();
    for line in o2s.lines() {
        match parse_exploded(line) {
            Some(r) => rows.push(r),
            None => return format!("BAD-OUTPUT {}", hex_bytes(line.as_bytes())),
        }
    }
    format!("{}|{}", hex_bytes(&o1), rows_str(&rows))
}

pub fn exec(a: &[&str]) -> String {
    match a[0] {
        // cli <d> <strings>
        "cli" => {
            let key = a.join(" ");
            if let Some(m) = CACHE.lock().unwrap().as_ref() {
                if let Some(v) = m.get(&key) {
                    return v.clone();
                }
            }
            let d = u8::from_str_radix(a[1], 16).unwrap();
            run_single(d, &parse_strings(a[2]))
        }
        _ => "BAD-OP".into(),
    }
}

fn gen_string(r: &mut Rng, d: u8) -> Vec<u8> {
    let len = match r.below(6) {
        0 => 0,
        1 => 1,
        _ => r.usize_below(12),
    };
    let mut s = String::new();
    for _ in 0..len {
        let c = match r.below(12) {
            0 => '"',
            1 => d as char,
            2 => '\n',
            3 => '\r',
            4 => ' ',
            5 => ',',
            6 => *r.pick(&['é', 'ß', '日', '本', '😀', '\u{fffd}', '\u{7f}', '\u{80}', '\u{2028}']),
            7 => *r.pick(&['\t', '\\', '\'', ';', '|', '\u{1}', '\u{1f}', '/']),
            _ => *r.pick(&['a', 'b', 'x', '1', '0', 'Z']),
        };
        s.push(c);
    }
    // quote-heavy shapes: leading/trailing/doubled quotes
    match r.below(10) {
        0 => s.insert(0, '"'),
        1 => s.push('"'),
        2 => {
            s.insert(0, '"');
            s.push('"');
        }
        3 => s.push_str("\"\""),
        _ => {}
    }
    s.into_bytes()
}

/// A long string free of the delimiter and of LF (so whole 64-byte chunks of the printed line
/// lie inside one quoted field and hold nothing to mark), optionally with quotes / CR inside.
fn gen_long_string(r: &mut Rng, d: u8) -> Vec<u8> {
    let len = match r.below(5) {
        0 => 60 + r.usize_below(11),
        1 => 120 + r.usize_below(16),
        2 => 190 + r.usize_below(11),
        3 => 250 + r.usize_below(60),
        _ => 64 + r.usize_below(200),
    };
    let fancy = r.chance(1, 2);
    let mut s = Vec::with_capacity(len + 8);
    for _ in 0..len {
        let b = if fancy && r.chance(1, 25) {
            *r.pick(&[b'"', b'\r'])
        } else {
            *r.pick(&[b'x', b'y', b' ', b'1', b'.', b'Q'])
        };
        s.push(if b == d { b'z' } else { b });
    }
    s
}

/// An array with one long string as first / middle / last element, the others short; the short
/// prefix elements vary the alignment of the long field.
fn gen_long_case(r: &mut Rng, d: u8) -> Vec<Vec<u8>> {
    let k = r.range(1, 5) as usize;
    let at = r.usize_below(k);
    (0..k)
        .map(|i| {
            if i == at {
                gen_long_string(r, d)
            } else if r.chance(1, 3) {
                vec![b'p'; r.usize_below(64)]
            } else {
                gen_string(r, d)
            }
        })
        .collect()
}

fn req_line(d: u8, xs: &[Vec<u8>]) -> String {
    let ss = if xs.is_empty() { ".".to_string() } else { xs.iter().map(|x| hex_bytes(x)).collect::<Vec<_>>().join(",") };
    format!("C22 cli {d:02x} {ss}")
}

pub fn gen(tier: Tier, r: &mut Rng, emit: &mut dyn FnMut(String)) {
    let quick = tier == Tier::Quick;
    // every printable ASCII delimiter other than the quote (thorough); the quick tier keeps the
    // common ones plus a seed-dependent sample, because every delimiter costs two CLI processes
    let mut delims: Vec<u8> = (0x20u8..0x7f).filter(|&c| c != b'"').collect();
    if quick {
        let mut keep: Vec<u8> = vec![b',', b';', b'|', b' ', b'\\', b'\'', b'a', b'0'];
        while keep.len() < 16 {
            let c = *r.pick(&delims);
            if !keep.contains(&c) {
                keep.push(c);
            }
        }
        delims = keep;
    }
    let per_delim = if quick { 36 } else { 400 };
    let mut all: Vec<(u8, Vec<Vec<Vec<u8>>>)> = Vec::new();
    for &d in &delims {
        let n = if d == b',' { per_delim * 6 } else { per_delim };
        let mut cases = Vec::new();
        for i in 0..n {
            let k = match i % 7 {
                0 => 1,
                1 => 2,
                2 => 20,
                _ => r.range(1, 20) as usize,
            };
            cases.push((0..k).map(|_| gen_string(r, d)).collect::<Vec<_>>());
        }
        for _ in 0..(n / 3).max(8) {
            cases.push(gen_long_case(r, d));
        }
        // fixed boundary cases
        cases.push(vec![vec![]]);
        cases.push(vec![vec![], vec![]]);
        cases.push(vec![vec![d]]);
        cases.push(vec![b"\"".to_vec()]);
        cases.push(vec![b"\"\"".to_vec(), vec![b'\n'], vec![d, b'"', d]]);
        cases.push(vec![b"a\nb".to_vec(), b"c\r\nd".to_vec(), vec![]]);
        cases.push(vec![]); // the empty array (outside the property; tied to the model only)
        all.push((d, cases));
    }
    // inadmissible delimiters: rejected by --input-dsv
    all.push((b'"', vec![vec![b"a".to_vec()]]));
    all.push((b'\n', vec![vec![b"a".to_vec()]]));
    all.push((b'\r', vec![vec![b"a".to_vec()]]));
    // control-character delimiters that the rule admits
    all.push((b'\t', (0..per_delim).map(|_| (0..r.range(1, 6)).map(|_| gen_string(r, b'\t')).collect()).collect()));
    all.push((0x01, (0..4).map(|_| (0..r.range(1, 6)).map(|_| gen_string(r, 1)).collect()).collect()));

    let mut cache = HashMap::new();
    let mut order = Vec::new();
    // one formatting process for all admissible delimiters, then one reader per delimiter
    let adm: Vec<(u8, Vec<Vec<Vec<u8>>>)> =
        all.iter().filter(|(d, _)| !matches!(*d, b'"' | b'\n' | b'\r')).cloned().collect();
    let formatted = format_all(&adm);
    for (d, cases) in &all {
        let pre = formatted.as_ref().and_then(|f| adm.iter().position(|(x, _)| x == d).map(|k| &f[k]));
        let answers = match pre.and_then(|o1| read_back(*d, cases.len(), o1)).or_else(|| run_batch(*d, cases)) {
            Some(a) => a,
            None => cases.iter().map(|c| run_single(*d, c)).collect(),
        };
        for (c, ans) in cases.iter().zip(answers) {
            let line = req_line(*d, c);
            cache.insert(line["C22 ".len()..].to_string(), ans);
            order.push(line);
        }
    }
    *CACHE.lock().unwrap() = Some(cache);
    for line in order {
        emit(line);
    }
}
