//! C15 — yq never emits YAML it cannot read back.
//!
//! Leg 1 (decision level): the quoting functions of the DOM emitter (binary crate, reached through
//! the `SUCCINCTLY_VERIF_HOOK=yq-quote` line server of the CLI built with `verif-hooks`), the
//! streaming emitter's decision functions (library hooks) and `resolve_plain`, each on adversarial
//! strings; every emitted scalar text is re-loaded in-process with the real loader inside a
//! one-scalar document and must give back the original string (`REREAD-OK` / `REREAD-FAIL got=…`).
//! Leg 1b: in-process streaming loop (`sloop`, `ssv`) over generated documents.
//! Leg 2 (end to end): generated documents × write programs × `--indent` through the CLI (`cli`).
use crate::rng::Rng;
use crate::util::*;
use crate::Tier;
use std::collections::HashMap;
use std::io::{BufRead, BufReader, Write};
use std::process::{Child, ChildStdin, ChildStdout, Command, Stdio};
use std::sync::Mutex;
use succinctly::jq::document::IndentSpec;
use succinctly::verif_hooks::yaml_emit as ye;
use succinctly::yaml::{resolve_plain, ResolvedScalar, YamlIndex, YamlString, YamlValue};

fn repo_dir() -> String {
    std::env::var("VERIF_REPO").unwrap_or_else(|_| "/repo".to_string())
}

/// Marker of the source revision of `yaml_quote_string`: 1 when the function consults
/// `resolve_plain` (the `fix:` commit), 0 otherwise. Read from the working tree on every run.
pub fn tables() -> Vec<(&'static str, String)> {
    let src = std::fs::read_to_string(format!("{}/src/bin/succinctly/yq_runner.rs", repo_dir())).unwrap_or_default();
    let rev = match src.find("\nfn yaml_quote_string(") {
        Some(p) => {
            let body = &src[p + 1..];
            let end = body[1..].find("\nfn ").map(|e| e + 1).unwrap_or(body.len());
            i32::from(body[..end].contains("resolve_plain("))
        }
        None => -1,
    };
    vec![("C15_QUOTE_REV", format!("[{rev}]"))]
}

// ---------------------------------------------------------------- CLI access

fn cli_path() -> String {
    std::env::var("SV_CLI").unwrap_or_else(|_| "/verif/.build/target-cli/release/succinctly".to_string())
}

struct Server {
    _child: Child,
    stdin: ChildStdin,
    stdout: BufReader<ChildStdout>,
}

static SERVER: Mutex<Option<Server>> = Mutex::new(None);

fn quote_server(req: &str) -> String {
    let mut g = SERVER.lock().unwrap_or_else(|e| e.into_inner());
    for _attempt in 0..2 {
        if g.is_none() {
            let mut child = match Command::new(cli_path())
                .env("SUCCINCTLY_VERIF_HOOK", "yq-quote")
                .stdin(Stdio::piped())
                .stdout(Stdio::piped())
                .stderr(Stdio::null())
                .spawn()
            {
                Ok(c) => c,
                Err(e) => return format!("NO-CLI {e}"),
            };
            let stdin = child.stdin.take().unwrap();
            let stdout = BufReader::new(child.stdout.take().unwrap());
            *g = Some(Server { _child: child, stdin, stdout });
        }
        let s = g.as_mut().unwrap();
        let mut line = String::new();
        let ok = writeln!(s.stdin, "{req}").is_ok() && s.stdin.flush().is_ok() && s.stdout.read_line(&mut line).map(|n| n > 0).unwrap_or(false);
        if ok {
            return line.trim_end().to_string();
        }
        *g = None; // server died (panic in the quoting function?) — restart once
    }
    "HOOK-DIED".to_string()
}

fn run_cli(args: &[&str], input: &[u8]) -> (i32, Vec<u8>, Vec<u8>) {
    let mut child = match Command::new(cli_path())
        .args(args)
        .env("NO_COLOR", "1")
        .env("RUST_BACKTRACE", "0")
        .env_remove("SUCCINCTLY_VERIF_HOOK")
        .stdin(Stdio::piped())
        .stdout(Stdio::piped())
        .stderr(Stdio::piped())
        .spawn()
    {
        Ok(c) => c,
        Err(e) => return (-1, Vec::new(), format!("spawn: {e}").into_bytes()),
    };
    {
        let mut si = child.stdin.take().unwrap();
        let _ = si.write_all(input);
    }
    match child.wait_with_output() {
        Ok(o) => (o.status.code().unwrap_or(-2), o.stdout, o.stderr),
        Err(e) => (-1, Vec::new(), format!("wait: {e}").into_bytes()),
    }
}

// ---------------------------------------------------------------- in-process loader oracle

fn load_json(doc: &[u8]) -> Result<String, String> {
    let idx = YamlIndex::build(doc).map_err(|e| format!("{e:?}"))?;
    Ok(idx.root(doc).to_json_document())
}

/// Decode a JSON string literal starting at `b[i] == '"'`; returns (decoded, index after the closing quote).
fn json_str(b: &[u8], mut i: usize) -> Option<(String, usize)> {
    if b.get(i) != Some(&b'"') {
        return None;
    }
    i += 1;
    let mut out: Vec<u16> = Vec::new();
    let mut raw: Vec<u8> = Vec::new();
    let flush = |raw: &mut Vec<u8>, out: &mut Vec<u16>| {
        if !raw.is_empty() {
            out.extend(String::from_utf8_lossy(raw).encode_utf16());
            raw.clear();
        }
    };
    loop {
        let c = *b.get(i)?;
        match c {
            b'"' => {
                flush(&mut raw, &mut out);
                return Some((String::from_utf16_lossy(&out), i + 1));
            }
            b'\\' => {
                flush(&mut raw, &mut out);
                let e = *b.get(i + 1)?;
                i += 2;
                match e {
                    b'n' => out.push(10),
                    b't' => out.push(9),
                    b'r' => out.push(13),
                    b'b' => out.push(8),
                    b'f' => out.push(12),
                    b'/' => out.push(b'/' as u16),
                    b'\\' => out.push(b'\\' as u16),
                    b'"' => out.push(b'"' as u16),
                    b'u' => {
                        let h = std::str::from_utf8(b.get(i..i + 4)?).ok()?;
                        out.push(u16::from_str_radix(h, 16).ok()?);
                        i += 4;
                    }
                    _ => return None,
                }
            }
            _ => {
                raw.push(c);
                i += 1;
            }
        }
    }
}

/// `got` = `prefix` + JSON string decoding to `s` (+ `mid` + the same string again, if `mid` is given) + `suffix`?
fn expect_json(got: &str, prefix: &str, s: &str, mid: Option<&str>, suffix: &str) -> bool {
    let g = got.trim_end().as_bytes();
    if !g.starts_with(prefix.as_bytes()) {
        return false;
    }
    let Some((d, mut i)) = json_str(g, prefix.len()) else { return false };
    if d != s {
        return false;
    }
    if let Some(m) = mid {
        if !g[i..].starts_with(m.as_bytes()) {
            return false;
        }
        let Some((d2, j)) = json_str(g, i + m.len()) else { return false };
        if d2 != s {
            return false;
        }
        i = j;
    }
    &g[i..] == suffix.as_bytes()
}

fn verdict(doc: &str, prefix: &str, s: &str, mid: Option<&str>, suffix: &str) -> String {
    match load_json(doc.as_bytes()) {
        Ok(j) => {
            if expect_json(&j, prefix, s, mid, suffix) {
                "REREAD-OK".to_string()
            } else {
                format!("REREAD-FAIL got={}", hex_bytes(j.trim_end().as_bytes()))
            }
        }
        Err(e) => format!("REREAD-FAIL got=error:{}", e.replace(' ', "_").chars().take(60).collect::<String>()),
    }
}

fn unhex(s: &str) -> Option<String> {
    if s != "-" && (s.len() % 2 != 0 || !s.bytes().all(|b| b.is_ascii_hexdigit())) {
        return None; // e.g. `HOOK-DIED`, `NO-CLI …`
    }
    String::from_utf8(parse_bytes(s)).ok()
}

fn value_verdict(text: &str, s: &str, flow: bool, indent: usize) -> String {
    let pad = " ".repeat(indent);
    let (open, close, popen, pclose) = if indent == 0 { ("", "", "", "") } else { ("p:\n", "", "{\"p\":", "}") };
    let _ = close;
    if flow {
        let doc = format!("{open}{pad}k: {{a: {text}, b: [{text}]}}\n");
        verdict(&doc, &format!("{popen}{{\"k\":{{\"a\":"), s, Some(",\"b\":["), &format!("]}}}}{pclose}"))
    } else {
        let doc = format!("{open}{pad}k: {text}\n");
        verdict(&doc, &format!("{popen}{{\"k\":"), s, None, &format!("}}{pclose}"))
    }
}

fn key_verdict(text: &str, s: &str, flow: bool, top: bool, indent: usize) -> String {
    if flow {
        let doc = format!("p: {{{text}: 1, z: 2}}\n");
        verdict(&doc, "{\"p\":{", s, None, ":1,\"z\":2}}")
    } else if top {
        let doc = format!("a0: 0\n{text}: 1\n");
        verdict(&doc, "{\"a0\":0,", s, None, ":1}")
    } else {
        let pad = " ".repeat(indent.max(1));
        let doc = format!("p:\n{pad}a0: 0\n{pad}{text}: 1\n");
        verdict(&doc, "{\"p\":{\"a0\":0,", s, None, ":1}}")
    }
}

fn resolved_str(r: ResolvedScalar) -> String {
    match r {
        ResolvedScalar::Null => "null".into(),
        ResolvedScalar::Bool(b) => format!("bool:{b}"),
        ResolvedScalar::Int(n) => format!("int:{n}"),
        ResolvedScalar::Float(f) => {
            if f.is_nan() {
                "float:nan".into()
            } else if f == f64::INFINITY {
                "float:inf".into()
            } else if f == f64::NEG_INFINITY {
                "float:-inf".into()
            } else {
                "float:fin".into()
            }
        }
        ResolvedScalar::Str => "str".into(),
    }
}

/// (style letter, decoded value) of the string value of key `k` of the first document.
fn src_scalar(doc: &[u8]) -> Option<(&'static str, String)> {
    let idx = YamlIndex::build(doc).ok()?;
    let root = idx.root(doc);
    let YamlValue::Sequence(docs) = root.value() else { return None };
    let (first, _) = docs.uncons()?;
    let YamlValue::Mapping(fields) = first else { return None };
    let v = fields.find("k")?;
    let YamlValue::String(s) = v else { return None };
    let st = match &s {
        YamlString::DoubleQuoted { .. } => "d",
        YamlString::SingleQuoted { .. } => "s",
        YamlString::Unquoted { .. } => "u",
        YamlString::BlockLiteral { .. } => "l",
        YamlString::BlockFolded { .. } => "f",
    };
    let dec = s.as_str().ok()?.into_owned();
    Some((st, dec))
}

fn stream_width(n: usize) -> usize {
    if n == 0 {
        2
    } else {
        n.max(2)
    }
}

fn stream_doc(doc: &[u8], indent: usize) -> Result<String, String> {
    // Each document is streamed on its own (`stream_yaml_as_document`) and the documents are
    // joined by `---` lines, as the CLI's identity path does.
    let idx = YamlIndex::build(doc).map_err(|e| format!("{e:?}"))?;
    let spec = IndentSpec::spaces(stream_width(indent));
    let mut out = String::new();
    let YamlValue::Sequence(mut docs) = idx.root(doc).value() else { return Err("root".into()) };
    let mut first = true;
    while let Some((cur, rest)) = docs.uncons_cursor() {
        if !first {
            out.push_str("---\n");
        }
        first = false;
        cur.stream_yaml_as_document(&mut out, spec, false).map_err(|e| format!("{e:?}"))?;
        out.push('\n');
        docs = rest;
    }
    Ok(out)
}

// ---------------------------------------------------------------- alias / anchor order

/// Every `*name` outside quotes/comments must be preceded, in the same document, by `&name`.
fn alias_order_ok(yaml: &str) -> Result<(), String> {
    let mut declared: Vec<String> = Vec::new();
    for line in yaml.split('\n') {
        if line == "---" || line.starts_with("--- ") || line == "..." {
            declared.clear();
        }
        let b: Vec<char> = line.chars().collect();
        let mut i = 0;
        let mut quote: Option<char> = None;
        let mut prev = ' ';
        // block-scalar content lines cannot be told apart cheaply; names are alphanumeric, so a
        // false positive needs `*word` at a token start inside text — the generator avoids that.
        while i < b.len() {
            let c = b[i];
            match quote {
                Some('"') => {
                    if c == '\\' {
                        i += 1;
                    } else if c == '"' {
                        quote = None;
                    }
                }
                Some(_) => {
                    if c == '\'' {
                        quote = None;
                    }
                }
                None => {
                    let at_token = prev == ' ' || prev == '[' || prev == '{' || prev == ',';
                    if c == '#' && prev == ' ' {
                        break;
                    } else if (c == '"' || c == '\'') && at_token {
                        quote = Some(c);
                    } else if (c == '&' || c == '*') && at_token {
                        let name: String = b[i + 1..].iter().take_while(|x| x.is_alphanumeric() || **x == '_').collect();
                        if !name.is_empty() {
                            if c == '&' {
                                declared.push(name);
                            } else if !declared.contains(&name) {
                                return Err(name);
                            }
                        }
                    }
                }
            }
            prev = c;
            i += 1;
        }
    }
    Ok(())
}

// ---------------------------------------------------------------- end-to-end CLI loop

static CLI_CACHE: Mutex<Option<HashMap<String, String>>> = Mutex::new(None);

/// Class of an alias printed before its anchor: the input declares the name more than once
/// (`redeclared-anchor`), exactly once (`anchor-outside-result`: the declaration exists but was not
/// printed), or never.
fn alias_class(doc: &[u8], name: &str) -> &'static str {
    let d = String::from_utf8_lossy(doc);
    let pat = format!("&{name}");
    let n = d.match_indices(&pat).filter(|(i, _)| !d[i + pat.len()..].starts_with(|c: char| c.is_alphanumeric() || c == '_')).count();
    match n {
        0 => "undeclared",
        1 => "anchor-outside-result",
        _ => "redeclared-anchor",
    }
}

/// `got` and `want` (JSON texts) differ only in the length of runs of `\n` escapes and the input
/// has a keep-chomped folded scalar (`>+`): the pinned-to-yq "+1" trailing quirk of
/// `stream_yaml_block_scalar` (tests/yq_cli_tests.rs `test_block_scalar_folded_keep_style_preserved`).
fn folded_keep_only(doc: &[u8], got: &str, want: &str) -> bool {
    fn squash(s: &str) -> String {
        let mut o = String::new();
        let mut rest = s;
        while let Some(p) = rest.find("\\n") {
            o.push_str(&rest[..p]);
            o.push_str("\\n");
            rest = &rest[p + 2..];
            while rest.starts_with("\\n") {
                rest = &rest[2..];
            }
        }
        o.push_str(rest);
        o
    }
    let d = String::from_utf8_lossy(doc);
    let has_folded_keep = d.match_indices('>').any(|(i, _)| {
        let r = d[i + 1..].as_bytes();
        r.first() == Some(&b'+') || (r.first().is_some_and(u8::is_ascii_digit) && r.get(1) == Some(&b'+'))
    });
    has_folded_keep && got != want && squash(got) == squash(want)
}

/// Loader-defect shape K7: the first key of a compact sequence-item mapping has its value deferred
/// to the following lines (`- key:`) and that value is a multi-line PLAIN scalar; the loader keeps
/// only its first line and reads the continuation line as a further key (`- d:\n   u\n   v` loads as
/// {"d":"u"}, and with a following key as {"d":"u","v":"k1"}) — C14 domain.
fn seq_first_key_multiline_plain(doc: &[u8]) -> bool {
    let text = String::from_utf8_lossy(doc);
    let lines: Vec<&str> = text.split('\n').collect();
    let plain_cont = |l: &str, min_indent: usize| -> bool {
        let t = l.trim_start();
        let ind = l.len() - t.len();
        !t.is_empty()
            && ind > min_indent
            && !t.contains(": ")
            && !t.ends_with(':')
            && !t.starts_with(|c: char| "-?|>&*![{\"'#%@`".contains(c))
    };
    (0..lines.len().saturating_sub(2)).any(|i| {
        let l = lines[i];
        let t = l.trim_start();
        let dash_col = l.len() - t.len();
        let body = match t.find(" #") {
            Some(p) => t[..p].trim_end(),
            None => t.trim_end(),
        };
        t.starts_with("- ") && body.ends_with(':') && plain_cont(lines[i + 1], dash_col) && plain_cont(lines[i + 2], dash_col)
    })
}

fn is_pure_path(prog: &str) -> bool {
    !prog.is_empty() && prog.chars().all(|c| c.is_alphanumeric() || "._[]\" ".contains(c))
}

/// `flags`: letters of output-shaping options applied to the YAML run — `S` --sort-keys (also given
/// to both JSON runs, so the comparison is by value), `P` --prettyPrint, `N` --no-doc (single
/// documents only), `T` --tab.
fn cli_loop(doc: &[u8], prog: &str, indent: usize, flags: &str) -> String {
    let ind = indent.to_string();
    let sort = flags.contains('S');
    let mut jargs: Vec<&str> = vec!["yq", "-o", "json", "-I", "0"];
    if sort {
        jargs.push("-S");
    }
    let mut jrun = jargs.clone();
    jrun.push(prog);
    let (rc2, j_out, _) = run_cli(&jrun, doc);
    if indent > 7 {
        // clap rejects --indent outside 0..=7: no YAML is printed at all
        let (rc1, y_out, _) = run_cli(&["yq", "-I", &ind, prog], doc);
        return if rc1 != 0 && y_out.is_empty() { "LOOP-OK".into() } else { "LOOP-FAIL indent-range-accepted".into() };
    }
    if rc2 == -1 {
        return "LOOP-FAIL no-cli (binary missing or not executable)".into();
    }
    if rc2 != 0 {
        return "SKIP-ERR".into();
    }
    let mut yargs: Vec<&str> = vec!["yq", "-I", &ind];
    for (c, a) in [('S', "-S"), ('P', "-P"), ('N', "-N"), ('T', "--tab")] {
        if flags.contains(c) {
            yargs.push(a);
        }
    }
    yargs.push(prog);
    let (rc1, y_out, y_err) = run_cli(&yargs, doc);
    if rc1 != 0 {
        return format!("LOOP-FAIL yaml-run rc={rc1} err={}", hex_bytes(&y_err[..y_err.len().min(80)]));
    }
    let y_txt = String::from_utf8_lossy(&y_out).into_owned();
    // a result that is a bare string is printed raw (K1): `*x` there is text, not an alias
    let raw_string_result = String::from_utf8_lossy(&j_out).split('\n').any(|l| l.starts_with('"'));
    if let (Err(name), false) = (alias_order_ok(&y_txt), raw_string_result) {
        let route = if prog == "." { "identity" } else if is_pure_path(prog) { "nav" } else { "write" };
        // the anchor IS printed, but after the alias (a reordering emitter: `--sort-keys`)
        let printed_later = y_txt.match_indices(&format!("&{name}")).any(|(i, m)| {
            !y_txt[i + m.len()..].starts_with(|c: char| c.is_alphanumeric() || c == '_')
        });
        let cls = if seq_first_key_multiline_plain(doc) {
            "loader-K7"
        } else if printed_later && alias_class(doc, &name) == "anchor-outside-result" {
            // declared once in the input and printed, but after the alias
            "anchor-after-alias"
        } else {
            alias_class(doc, &name)
        };
        return format!("ALIAS-FAIL {cls} route={route} name={name} out={}", hex_bytes(&y_out[..y_out.len().min(300)]));
    }
    let mut jreload = jargs.clone();
    jreload.push(".");
    let (rc3, r_out, r_err) = run_cli(&jreload, &y_out);
    let want = String::from_utf8_lossy(&j_out).trim_end().to_string();
    // `-o json -I 0` prints one result per line: some result is a bare string scalar
    let root_scalar = want.split('\n').any(|l| l.starts_with('"'));
    // `--tab` indents with tab characters, which YAML does not allow as indentation
    let tag = if root_scalar { "root-scalar-raw" } else if flags.contains('T') { "tab-indent" } else { "value" };
    if rc3 != 0 {
        return format!(
            "LOOP-FAIL {tag} reload-error out={} err={}",
            hex_bytes(&y_out[..y_out.len().min(300)]),
            hex_bytes(&r_err[..r_err.len().min(80)])
        );
    }
    let got = String::from_utf8_lossy(&r_out).trim_end().to_string();
    if got == want {
        "LOOP-OK".into()
    } else {
        let tag = if folded_keep_only(doc, &got, &want) {
            "folded-keep-extra-break"
        } else if seq_first_key_multiline_plain(doc) {
            "loader-K7"
        } else {
            tag
        };
        format!(
            "LOOP-FAIL {tag} out={} got={} want={}",
            hex_bytes(&y_out[..y_out.len().min(300)]),
            hex_bytes(&got.as_bytes()[..got.len().min(200)]),
            hex_bytes(&want.as_bytes()[..want.len().min(200)])
        )
    }
}

fn cli_indent_probe(n: usize) -> String {
    let ind = n.to_string();
    let width = |out: &[u8]| -> String {
        let t = String::from_utf8_lossy(out);
        match t.split('\n').nth(1) {
            Some(l) => (l.len() - l.trim_start_matches(' ').len()).to_string(),
            None => "?".into(),
        }
    };
    let (_, dom, _) = run_cli(&["yq", "-I", &ind, ".a.b = 1"], b"a:\n  b: 0\n");
    let (_, st, _) = run_cli(&["yq", "-I", &ind, "."], b"a:\n  b:\n    c: 0\n");
    format!("dom={} stream={}", width(&dom), width(&st))
}

// ---------------------------------------------------------------- exec

pub fn exec(a: &[&str]) -> String {
    match a[0] {
        "rp" => match unhex(a[1]) {
            Some(s) => resolved_str(resolve_plain(&s)),
            None => "BAD-UTF8".into(),
        },
        // qv <hex> <style s|d|o> <flow> <indent>
        "qv" => {
            let Some(s) = unhex(a[1]) else { return "BAD-UTF8".into() };
            let style = match a[2] {
                "s" => "single",
                "d" => "double",
                _ => "-",
            };
            let r = quote_server(&format!("v {} {} {}", a[1], style, a[3]));
            let Some(text) = unhex(&r) else { return r };
            format!("{r} {}", value_verdict(&text, &s, a[3] == "1", num(a[4])))
        }
        // qk <hex> <flow> <top> <indent>
        "qk" => {
            let Some(s) = unhex(a[1]) else { return "BAD-UTF8".into() };
            let r = quote_server(&format!("k {} - {}", a[1], a[2]));
            let Some(text) = unhex(&r) else { return r };
            format!("{r} {}", key_verdict(&text, &s, a[2] == "1", a[3] == "1", num(a[4])))
        }
        "dq" => {
            let Some(s) = unhex(a[1]) else { return "BAD-UTF8".into() };
            let r = quote_server(&format!("d {}", a[1]));
            let Some(text) = unhex(&r) else { return r };
            format!("{r} {}", value_verdict(&text, &s, false, 0))
        }
        "sq" => {
            let Some(s) = unhex(a[1]) else { return "BAD-UTF8".into() };
            let can = quote_server(&format!("c {}", a[1]));
            let r = quote_server(&format!("s {}", a[1]));
            let Some(text) = unhex(&r) else { return r };
            if can == "1" {
                format!("can=1 {r} {}", value_verdict(&text, &s, false, 0))
            } else {
                format!("can={can} {r} -")
            }
        }
        "snq" => {
            let Some(s) = unhex(a[1]) else { return "BAD-UTF8".into() };
            let mut ss = String::new();
            let _ = succinctly::jq::stream::stream_yaml_string(&mut ss, &s);
            format!(
                "nq={} num={} ss={}",
                u8::from(ye::needs_yaml_quoting(&s)),
                u8::from(ye::looks_like_yaml_number(&s)),
                hex_bytes(ss.as_bytes())
            )
        }
        "sdq" => {
            let Some(s) = unhex(a[1]) else { return "BAD-UTF8".into() };
            let text = ye::double_quoted(&s);
            format!("{} {}", hex_bytes(text.as_bytes()), value_verdict(&text, &s, false, 0))
        }
        "ssq" => {
            let Some(s) = unhex(a[1]) else { return "BAD-UTF8".into() };
            hex_bytes(ye::single_quoted(&s).as_bytes())
        }
        "sbq" => {
            let Some(s) = unhex(a[1]) else { return "BAD-UTF8".into() };
            let text = ye::block_scalar_quoted(&s);
            format!("{} {}", hex_bytes(text.as_bytes()), value_verdict(&text, &s, false, 0))
        }
        // ssv <hexdoc> <style> <hexdecoded>
        "ssv" => {
            let doc = parse_bytes(a[1]);
            let Some((st, dec)) = src_scalar(&doc) else { return "SKIP-INVALID".into() };
            if st != a[2] || hex_bytes(dec.as_bytes()) != a[3] {
                return format!("BAD-REQ st={st} dec={}", hex_bytes(dec.as_bytes()));
            }
            let out = match stream_doc(&doc, 2) {
                Ok(o) => o,
                Err(e) => return format!("STREAM-ERR {e}"),
            };
            let Some(text) = out.strip_prefix("k: ") else { return format!("UNEXPECTED out={}", hex_bytes(out.as_bytes())) };
            let text = text.strip_suffix('\n').unwrap_or(text);
            let want = load_json(&doc).unwrap_or_default();
            let v = match load_json(out.as_bytes()) {
                Ok(j) if j == want => "REREAD-OK".to_string(),
                Ok(j) => format!("REREAD-FAIL got={}", hex_bytes(j.trim_end().as_bytes())),
                Err(e) => format!("REREAD-FAIL got=error:{}", e.replace(' ', "_")),
            };
            format!("{} {v}", hex_bytes(text.as_bytes()))
        }
        // anc <forest encoding>: enforce_anchor_soundness + emit_yaml_value on a constructed table
        "anc" => {
            let r = quote_server(&format!("e {}", a[1]));
            let Some(text) = unhex(&r) else { return r };
            let toks: Vec<String> = text
                .split_whitespace()
                .filter(|w| (w.starts_with("&n") || w.starts_with("*n")) && w[2..].chars().all(|c| c.is_ascii_digit()) && w.len() > 2)
                .map(|w| format!("{}{}", &w[..1], &w[2..]))
                .collect();
            let ok = alias_order_ok(&text).is_ok() && load_json(format!("{text}\n").as_bytes()).is_ok();
            format!("{} {}", if toks.is_empty() { "-".to_string() } else { toks.join(",") }, if ok { "SOUND" } else { "UNSOUND" })
        }
        // blk <step> <tree>: emit_yaml_value on a nested string mapping; text + in-process reload
        "blk" => {
            let r = quote_server(&format!("b {} {}", a[1], a[2]));
            let Some(text) = unhex(&r) else { return r };
            let v = match load_json(format!("{text}\n").as_bytes()) {
                Ok(j) => {
                    let jb = j.trim_end().as_bytes().to_vec();
                    let mut ji = 0;
                    let mut ei = 0;
                    if json_matches_tree(a[2].as_bytes(), &mut ei, &jb, &mut ji) && ji == jb.len() {
                        "LOAD-OK".to_string()
                    } else {
                        format!("LOAD-FAIL got={}", hex_bytes(&jb[..jb.len().min(300)]))
                    }
                }
                Err(e) => format!("LOAD-FAIL error={}", e.replace(' ', "_")),
            };
            format!("{r} {v}")
        }
        "ind" => cli_indent_probe(num(a[1])),
        // sbl <hexdoc> <indent> <style l|f> <hexdecoded>: the block-scalar arm of stream_yaml_value on
        // the document `k: <block scalar>\nc: after`; literal: emitted header+body and re-read verdict,
        // folded: the header line (or the quoted fallback) only
        "sbl" => {
            let doc = parse_bytes(a[1]);
            let Some((st, dec)) = src_scalar(&doc) else { return "SKIP-INVALID".into() };
            if st != a[3] || hex_bytes(dec.as_bytes()) != a[4] {
                return format!("BAD-REQ st={st} dec={}", hex_bytes(dec.as_bytes()));
            }
            let out = match stream_doc(&doc, num(a[2])) {
                Ok(o) => o,
                Err(e) => return format!("STREAM-ERR {e}"),
            };
            let Some(x) = out.strip_prefix("k: ").and_then(|s| s.strip_suffix("\nc: after\n")) else {
                return format!("UNEXPECTED out={}", hex_bytes(out.as_bytes()));
            };
            if st == "f" {
                let shown = if x.starts_with('>') { x.split('\n').next().unwrap_or("") } else { x };
                return hex_bytes(shown.as_bytes());
            }
            let want = load_json(&doc).unwrap_or_default();
            let v = match load_json(out.as_bytes()) {
                Ok(j) if j == want => "REREAD-OK".to_string(),
                Ok(j) => format!("REREAD-FAIL got={}", hex_bytes(j.trim_end().as_bytes())),
                Err(e) => format!("REREAD-FAIL got=error:{}", e.replace(' ', "_")),
            };
            format!("{} {v}", hex_bytes(x.as_bytes()))
        }
        // sloop <hexdoc> <indent>
        "sloop" => {
            let doc = parse_bytes(a[1]);
            let Ok(want) = load_json(&doc) else { return "SKIP-INVALID".into() };
            let out = match stream_doc(&doc, num(a[2])) {
                Ok(o) => o,
                Err(e) => return format!("LOOP-FAIL stream-error {e}"),
            };
            if let Err(name) = alias_order_ok(&out) {
                let cls = if seq_first_key_multiline_plain(&doc) { "loader-K7" } else { alias_class(&doc, &name) };
                return format!("ALIAS-FAIL {cls} route=identity name={name} out={}", hex_bytes(out.as_bytes()));
            }
            match load_json(out.as_bytes()) {
                Ok(got) if got == want => "LOOP-OK".into(),
                Ok(got) => format!(
                    "LOOP-FAIL {} out={} got={} want={}",
                    if folded_keep_only(&doc, &got, &want) {
                        "folded-keep-extra-break"
                    } else if seq_first_key_multiline_plain(&doc) {
                        "loader-K7"
                    } else {
                        "value"
                    },
                    hex_bytes(out.as_bytes()),
                    hex_bytes(got.as_bytes()),
                    hex_bytes(want.as_bytes())
                ),
                Err(e) => format!("LOOP-FAIL out={} reload-error={}", hex_bytes(out.as_bytes()), e.replace(' ', "_")),
            }
        }
        // cli <hexdoc> <hexprog> <indent>
        "cli" => {
            let key = a.join(" ");
            if let Some(m) = CLI_CACHE.lock().unwrap_or_else(|e| e.into_inner()).as_ref() {
                if let Some(v) = m.get(&key) {
                    return v.clone();
                }
            }
            let doc = parse_bytes(a[1]);
            let Some(prog) = unhex(a[2]) else { return "BAD-UTF8".into() };
            cli_loop(&doc, &prog, num(a[3]), a.get(4).copied().unwrap_or("-"))
        }
        _ => "BAD-OP".into(),
    }
}

// ---------------------------------------------------------------- generators

const INDICATORS: &[&str] = &["-", "?", ":", ",", "[", "]", "{", "}", "#", "&", "*", "!", "|", ">", "'", "\"", "%", "@", "`"];
const WORDS: &[&str] = &["null", "true", "false", "yes", "no", "on", "off", "~", "y", "n", ".inf", ".nan", "-.inf", "+.inf", "inf", "nan", "infinity", "-inf", "+nan", ".Infinity", "<<", "=", "!!str"];
const NUMS: &[&str] = &[
    "0", "1", "-1", "+1", "007", "-0", "+0", "12345", "9223372036854775807", "9223372036854775808", "-9223372036854775808",
    "-9223372036854775809", "99999999999999999999", "0x1F", "0x1f", "0X1F", "0x", "0xG", "0x7fffffffffffffff", "0x8000000000000000",
    "0xffffffffffffffffff", "-0x1F", "+0x1F", "0x+1", "0x-1", "0o17", "0o", "0o8", "0O17", "0o777777777777777777777", "0o1777777777777777777777",
    "-0o17", "0b101", "1_000", "1.", "1.0", "1.50", ".5", "+.5", "-.5", ".", "..", "1.2.3", "1e5", "1E5", "1e+5", "1e-5", "1e", "1e+",
    "e5", ".e5", "1.e5", ".5e3", "-.5e-3", "1e308", "1e309", "1.7976931348623157e308", "1.7976931348623158e308", "1.7976931348623159e308",
    "179769313486231570814527423731704356798070567525844996598917476803157260780028538760589558632766878171540458953514382464234321326889464182768467546703537516986049910576551282076245490090389328944075868508455133942304583236903222948165808559332123348274797826204144723168738177180919299881250404026184124858368",
    "179769313486231580793728971405303415079934132710037826936173778980444968292764750946649017977587207096330286416692887910946555547851940402630657488671505820681908902000708383676273854845817711531764475730270069855571366959622842914819860834936475292719074168444365510704342711559699508093042880177904174497791",
    "1e400", "1e-400", "1e99999999999999999999", "0.0", "-0.0", "0e0", "00", "1:2", "12:30:45", "2001-12-14", "1,000", "١٢", "１",
];
const UNI: &[&str] = &[
    "é", "😀", "\u{85}", "\u{2028}", "\u{2029}", "\u{feff}", "\u{a0}", "\u{212a}", "\u{130}", "\u{fffe}", "\u{ffff}", "\u{d7ff}",
    "\u{e000}", "\u{10ffff}", "\u{7f}", "\u{80}", "\u{9f}", "ｎ", "日本",
];

fn rand_case(r: &mut Rng, w: &str) -> String {
    match r.below(4) {
        0 => w.to_string(),
        1 => w.to_uppercase(),
        2 => {
            let mut c = w.chars();
            match c.next() {
                Some(f) => f.to_uppercase().collect::<String>() + c.as_str(),
                None => String::new(),
            }
        }
        _ => w.chars().map(|c| if r.chance(1, 2) { c.to_ascii_uppercase() } else { c }).collect(),
    }
}

fn mix(r: &mut Rng) -> String {
    const ALPHA: &[&str] = &[
        "-", "?", ":", ",", "[", "]", "{", "}", "#", "&", "*", "!", "|", ">", "'", "\"", "%", "@", "`", " ", " ", " ", "\t", "\n", "\r", "\\", "a", "b", "x",
        "0", "1", ".", "e", "E", "+", "~", "<", "=", "_", "o", "é", "\u{85}", "\u{2028}", "\u{feff}", "\u{1}", "\u{7f}", "\u{0}",
    ];
    let n = r.range(1, 7);
    (0..n).map(|_| *r.pick(ALPHA)).collect()
}

fn adversarial(r: &mut Rng) -> String {
    match r.below(13) {
        0 => {
            let i = *r.pick(INDICATORS);
            let i2 = *r.pick(INDICATORS);
            match r.below(9) {
                0 => i.to_string(),
                1 => format!("{i}x"),
                2 => format!("x{i}"),
                3 => format!("x{i}y"),
                4 => format!("{i} x"),
                5 => format!("x {i}"),
                6 => format!("x{i} y"),
                7 => format!("{i}{i2}"),
                _ => format!("x {i}y"),
            }
        }
        1 => {
            let ws = *r.pick(&[" ", "  ", "\t", " \t", "\t "]);
            match r.below(5) {
                0 => format!("{ws}x"),
                1 => format!("x{ws}"),
                2 => format!("x{ws}y"),
                3 => ws.to_string(),
                _ => format!("{ws}x{ws}"),
            }
        }
        2 => r
            .pick(&[
                "a: b", "a #b", "a:b", "a#b", ":x", "x:", "- x", "-x", "? x", "?x", ": x", "a : b", "a:\tb", "a\t#b", "a::b", "a: ", " #", "#", "a #", "-", "- ", "--", "-\tx", "?", ":",
                "::", ":-", "-:", "?:", "-#", "a:#", "a,: b",
            ])
            .to_string(),
        3 => r.pick(&["---", "...", "--- x", "... x", "---x", "...x", "--- ", "... ", "....", "----", "...\tx", "%YAML 1.2", "%TAG", "%"]).to_string(),
        4 => {
            let w0 = *r.pick(WORDS);
            let w = rand_case(r, w0);
            match r.below(6) {
                0 => format!(" {w}"),
                1 => format!("{w} "),
                2 => format!("{w}x"),
                _ => w,
            }
        }
        5 => {
            let n = r.pick(NUMS).to_string();
            match r.below(8) {
                0 => format!("+{n}"),
                1 => format!("-{n}"),
                2 => format!("{n} "),
                3 => format!(" {n}"),
                4 => format!("{n}x"),
                _ => n,
            }
        }
        6 => r.pick(&["", "\n", "a\nb", "a\n", "\na", "a\r\nb", "a\rb", "a\n\nb", "a\tb", "\ta", "a\t", "a\n b", "a \nb"]).to_string(),
        7 => {
            let u = *r.pick(UNI);
            match r.below(5) {
                0 => u.to_string(),
                1 => format!("{u}x"),
                2 => format!("x{u}"),
                3 => format!("x{u}y"),
                _ => {
                    let w = *r.pick(WORDS);
                    format!("{u}{w}")
                }
            }
        }
        8 => {
            let c = char::from_u32(if r.chance(1, 4) { r.range(0x7f, 0x9f) as u32 } else { r.below(0x20) as u32 }).unwrap();
            match r.below(4) {
                0 => c.to_string(),
                1 => format!("{c}x"),
                2 => format!("x{c}"),
                _ => format!("x{c}y"),
            }
        }
        9 => r.pick(&["'", "\"", "\\", "it's", "say \"hi\"", "a\\b", "\\n", "'x'", "\"x\"", "''", "\"\"", "a'", "a\"", "\\", "x\\", "\\x41", "\\u0041"]).to_string(),
        10 => r.pick(&["a,b", "a, b", "a]b", "a[b", "a{b", "a}b", "x]", "x}", "x,", "[x]", "{x}", "{a: b}", "[a, b]", ":,", "a:,b", "-,", "?]"]).to_string(),
        11 => {
            // digit strings / numeric look-alikes built at random
            const NA: &[&str] = &["0", "1", "9", ".", "e", "E", "+", "-", "x", "o", "_", "f", "F", "a", "7", "8"];
            let n = r.range(1, 8);
            (0..n).map(|_| *r.pick(NA)).collect()
        }
        _ => mix(r),
    }
}

fn hx(s: &str) -> String {
    hex_bytes(s.as_bytes())
}

// ---- documents for the loops

const KEYS: &[&str] = &["a", "b", "c", "d", "k1", "key", "x y", "n"];
const PLAIN_VALUES: &[&str] = &[
    "1", "-2", "3.5", "0x1F", "0o17", "true", "false", "null", "~", "word", "two words", "a,b", "a, b", "x]", "u}", "http://x/y", "a#b", "-x", "1_000",
    ".5", "+.inf", ".nan", "yes", "12:30", "2001-12-14", "é", "😀", "a:b",
];
const QUOTED_VALUES: &[&str] = &[
    "\" x\"", "\"0x1F\"", "\"true\"", "\"null\"", "\"a: b\"", "\"a #b\"", "\"- x\"", "\"\"", "''", "' x '", "'it''s'", "'0o17'", "'+.inf'", "\"tab\\there\"", "\"nl\\nx\"",
    "\"q\\\"q\"", "'a, b'", "\"x]\"", "'[z'", "\"\\u00e9\"", "\"\\x01\"", "'#c'", "\"*x\"", "'&y'", "\"!t\"", "'|'", "\">x\"", "'%a'", "\"@a\"", "'`a'", "\"1\"", "'1.0'", "\"~\"",
    "\"<<\"", "\"... x\"", "'--- y'", "\"k\\t\"",
];

struct DocGen<'a> {
    r: &'a mut Rng,
    anchors: Vec<String>,
    out: String,
    budget: i32,
}

impl<'a> DocGen<'a> {
    fn scalar(&mut self, ind: usize, allow_block: bool) {
        self.budget -= 1;
        let c = self.r.below(if allow_block { 12 } else { 9 });
        match c {
            0..=3 => { let v = *self.r.pick(PLAIN_VALUES); self.out.push_str(v) },
            4..=6 => { let v = *self.r.pick(QUOTED_VALUES); self.out.push_str(v) },
            7 => {
                // anchored scalar or alias
                if !self.anchors.is_empty() && self.r.chance(1, 2) {
                    let a = self.anchors[self.r.usize_below(self.anchors.len())].clone();
                    self.out.push_str(&format!("*{a}"));
                } else {
                    let name = format!("n{}", self.anchors.len());
                    let v = *self.r.pick(PLAIN_VALUES);
                    self.out.push_str(&format!("&{name} {v}"));
                    self.anchors.push(name);
                }
            }
            8 => {
                // multi-line flow scalars
                let pad = " ".repeat(ind + 2);
                match self.r.below(3) {
                    0 => self.out.push_str(&format!("'x\n\n{pad}y'")),
                    1 => self.out.push_str(&format!("\"m\n{pad}n\"")),
                    _ => self.out.push_str(&format!("u\n{pad}v")),
                }
            }
            _ => {
                // block scalars
                let half = self.r.chance(1, 2);
                let s = gen_block_scalar(self.r, ind, half);
                self.out.push_str(&s);
            }
        }
    }

    fn flow(&mut self, depth: usize) {
        self.budget -= 1;
        if self.r.chance(1, 2) {
            let n = self.r.below(4);
            self.out.push('[');
            for i in 0..n {
                if i > 0 {
                    self.out.push_str(", ");
                }
                self.flow_item(depth);
            }
            self.out.push(']');
        } else {
            let n = self.r.below(4);
            self.out.push('{');
            for i in 0..n {
                if i > 0 {
                    self.out.push_str(", ");
                }
                self.out.push_str(&format!("f{i}: "));
                self.flow_item(depth);
            }
            self.out.push('}');
        }
    }

    fn flow_item(&mut self, depth: usize) {
        if depth < 2 && self.r.chance(1, 5) {
            self.flow(depth + 1);
        } else {
            match self.r.below(3) {
                0 => {
                    let v = *self.r.pick(&["1", "w", "true", "x y", "0x1F", "a:b", "-1", "null"]);
                    self.out.push_str(v)
                }
                1 => {
                    let v = *self.r.pick(&["\"a, b\"", "'x]'", "\" x\"", "\"0x1F\"", "''", "\"[z\"", "'u}'"]);
                    self.out.push_str(v)
                }
                _ => {
                    if !self.anchors.is_empty() && self.r.chance(1, 2) {
                        let a = self.anchors[self.r.usize_below(self.anchors.len())].clone();
                        self.out.push_str(&format!("*{a}"));
                    } else {
                        let name = format!("n{}", self.anchors.len());
                        self.out.push_str(&format!("&{name} v{}", self.anchors.len()));
                        self.anchors.push(name);
                    }
                }
            }
        }
    }

    fn comment(&mut self) {
        if self.r.chance(1, 6) {
            self.out.push_str(" # c");
        }
    }

    /// A block node whose first line starts at the current position; following lines at `ind`.
    fn node(&mut self, ind: usize, depth: usize, coll: bool) {
        let pad = " ".repeat(ind);
        let kind = if coll { self.r.below(5) } else if depth >= 4 || self.budget <= 0 { 9 } else { self.r.below(10) };
        match kind {
            0..=2 => {
                // mapping
                let n = self.r.range(1, 4) as usize;
                let mut used: Vec<&str> = Vec::new();
                for i in 0..n {
                    let key = *self.r.pick(KEYS);
                    if used.contains(&key) {
                        continue;
                    }
                    if !used.is_empty() {
                        self.out.push('\n');
                        if self.r.chance(1, 8) {
                            self.out.push_str(&format!("{pad}# between\n"));
                        }
                        self.out.push_str(&pad);
                    }
                    let _ = i;
                    used.push(key);
                    self.out.push_str(key);
                    self.out.push(':');
                    self.value(ind, depth);
                }
            }
            3..=4 => {
                let n = self.r.range(1, 3) as usize;
                for i in 0..n {
                    if i > 0 {
                        self.out.push('\n');
                        self.out.push_str(&pad);
                    }
                    self.out.push('-');
                    // compact nested node or scalar
                    if self.r.chance(1, 3) && depth < 4 {
                        self.out.push(' ');
                        self.node(ind + 2, depth + 1, true);
                    } else {
                        self.out.push(' ');
                        self.scalar(ind, true);
                        self.comment();
                    }
                }
            }
            _ => {
                self.scalar(ind.saturating_sub(2), false);
            }
        }
    }

    /// After `key:` — either an inline value or a nested block on following lines.
    fn value(&mut self, ind: usize, depth: usize) {
        match if depth >= 4 { 0 } else { self.r.below(8) } {
            0..=3 => {
                self.out.push(' ');
                self.scalar(ind, true);
                self.comment();
            }
            4 => {
                self.out.push(' ');
                self.flow(0);
                self.comment();
            }
            5 if !self.anchors.is_empty() => {
                let a = self.anchors[self.r.usize_below(self.anchors.len())].clone();
                self.out.push_str(&format!(" *{a}"));
            }
            _ => {
                // nested block collection, maybe anchored
                let anchored = self.r.chance(1, 4);
                if anchored {
                    let name = format!("n{}", self.anchors.len());
                    self.out.push_str(&format!(" &{name}"));
                    self.anchors.push(name);
                }
                let step = *self.r.pick(&[2usize, 2, 2, 4, 1, 3]);
                self.out.push('\n');
                self.out.push_str(&" ".repeat(ind + step));
                // only collections here
                let save = self.budget;
                let start = self.out.len();
                self.node(ind + step, depth + 1, anchored);
                let _ = (save, start);
            }
        }
    }
}

fn gen_doc(r: &mut Rng) -> String {
    let mut g = DocGen { r, anchors: Vec::new(), out: String::new(), budget: 14 };
    let docs = if g.r.chance(1, 8) { 2 } else { 1 };
    for d in 0..docs {
        if d > 0 || g.r.chance(1, 8) {
            g.out.push_str("---\n");
            g.anchors.clear();
        }
        if g.r.chance(1, 8) {
            g.out.push_str("# head\n");
        }
        // top-level: mapping most of the time
        let n = g.r.range(1, 4) as usize;
        let mut used: Vec<&str> = Vec::new();
        for _ in 0..n {
            let key = *g.r.pick(KEYS);
            if used.contains(&key) {
                continue;
            }
            if !used.is_empty() {
                g.out.push('\n');
            }
            used.push(key);
            g.out.push_str(key);
            g.out.push(':');
            g.value(0, 0);
        }
        g.out.push('\n');
    }
    g.out
}

const ADV_FOR_PROGS: &[&str] = &[
    " x", "x ", "0x1F", "0o17", "+.inf", ".5", "1e3", "true", "null", "~", "a, b", "x]", "u}", "[z", "- x", "a: b", "a #b", "", "it's", "q\"q", "a\\b", "tab\there",
    "nl\nx", "<<", "... x", "--- y", "|", ">x", "%a", "@a", "`a", ",a", "k\t", "é", "*x", "&y", "!t", "#c", "word", "two words", "a:b", "-x", "1_000", "\u{1}",
];

fn jq_str(s: &str) -> String {
    let mut o = String::from("\"");
    for c in s.chars() {
        match c {
            '"' => o.push_str("\\\""),
            '\\' => o.push_str("\\\\"),
            '\n' => o.push_str("\\n"),
            '\t' => o.push_str("\\t"),
            '\r' => o.push_str("\\r"),
            c if (c as u32) < 0x20 || !c.is_ascii() => {
                let mut b = [0u16; 2];
                for u in c.encode_utf16(&mut b) {
                    o.push_str(&format!("\\u{:04x}", u));
                }
            }
            c => o.push(c),
        }
    }
    o.push('"');
    o
}

fn gen_prog(r: &mut Rng) -> String {
    let path = |r: &mut Rng| -> String {
        let k = *r.pick(&["a", "b", "c", "d", "k1", "key", "n"]);
        match r.below(6) {
            0 => format!(".{k}"),
            1 => {
                let k2 = *r.pick(&["a", "b", "f0", "k1"]);
                format!(".{k}.{k2}")
            }
            2 => format!(".{k}[0]"),
            3 => format!(".{k}[1]"),
            4 => ".[\"x y\"]".to_string(),
            _ => {
                let k2 = *r.pick(&["a", "b", "c"]);
                format!(".{k}.{k2}[0]")
            }
        }
    };
    let adv = |r: &mut Rng| jq_str(*r.pick(ADV_FOR_PROGS));
    match r.below(14) {
        0 => ".".to_string(),
        1 => path(r),
        2 | 3 | 4 => format!("{} = {}", path(r), adv(r)),
        5 => format!("{} |= {}", path(r), adv(r)),
        6 => format!("del({})", path(r)),
        7 => format!(". * {{\"m\": {{\"s\": {}}}}}", adv(r)),
        8 => format!(".[{}] = 1", adv(r)),
        9 => format!(".zz = {{{}: {}}}", adv(r), adv(r)),
        10 => format!("{} = [{}, {}]", path(r), adv(r), adv(r)),
        11 => format!("{} |= . * {{\"q\": {}}}", path(r), adv(r)),
        12 => (*r.pick(&[".new = 1", ".m0", ".m0.m1", ".l0", ".l0[0]", ".m0.m1.m2", ".s0", ".m0 | .", ".c = \"x\"", "del(.c)"])).to_string(),
        _ => format!("{} = 2", path(r)),
    }
}

/// A block scalar (header and content lines, no final line break) for a node whose parent line is
/// indented `n`: literal or folded × strip/clip/keep × explicit indentation indicator 1–9 or none;
/// content: 0–3 leading blank lines, a first non-blank line with 0–4 extra leading spaces (only
/// with an indicator), interior more-indented lines, blank lines, 0–3 trailing blank lines.
fn gen_block_scalar(r: &mut Rng, n: usize, simple: bool) -> String {
    let style = *r.pick(&["|", ">"]);
    let chomp = *r.pick(&["", "-", "+"]);
    let digit: Option<usize> = if simple || r.chance(1, 2) { None } else { Some(r.range(1, 9) as usize) };
    let base = n + digit.unwrap_or(*r.pick(&[1usize, 2, 2, 3, 4]));
    let mut s = String::from(style);
    // indicator order: digit then chomping, or chomping then digit (both legal)
    match (digit, r.chance(1, 4)) {
        (Some(d), false) => s.push_str(&format!("{d}{chomp}")),
        (Some(d), true) => s.push_str(&format!("{chomp}{d}")),
        (None, _) => s.push_str(chomp),
    }
    let lead = if simple { 0 } else { r.below(4) };
    for _ in 0..lead {
        s.push('\n');
        // a leading blank line may carry spaces up to the content indentation
        if r.chance(1, 4) {
            s.push_str(&" ".repeat(r.usize_below(base + 1)));
        }
    }
    let words = ["foo", "bar", "0x1F", "x: y", "x #c", "- i", "a b", "é", "tab\there", "-", "'q'", "\"d\""];
    let first_extra = if digit.is_some() { r.below(5) as usize } else { 0 };
    let nlines = if !simple && r.chance(1, 12) { 0 } else { r.range(1, 4) as usize };
    for i in 0..nlines {
        s.push('\n');
        if i > 0 && r.chance(1, 5) {
            continue; // interior blank line
        }
        let extra = if i == 0 { first_extra } else { *r.pick(&[0usize, 0, 0, 1, 2, 4]) };
        s.push_str(&" ".repeat(base + extra));
        let w: &str = words[r.usize_below(words.len())];
        s.push_str(w);
        if r.chance(1, 12) {
            s.push(' '); // trailing space: disqualifies block style on re-emission
        }
    }
    let trail = if simple { 0 } else { r.below(4) };
    for _ in 0..trail {
        s.push('\n');
    }
    s
}

/// A small document built around block scalars: at nesting depth 0–4 under mappings and/or as
/// sequence items, followed by a sibling so that the scalar's end is delimited.
fn gen_block_scalar_doc(r: &mut Rng) -> String {
    let depth = r.below(5) as usize;
    let mut out = String::new();
    let mut ind = 0usize;
    for d in 0..depth {
        let step = *r.pick(&[2usize, 2, 2, 1, 3, 4]);
        if r.chance(1, 3) {
            // sequence level: `key:` then `- ` items one step deeper (or at the same column)
            out.push_str(&format!("{}l{d}:\n", " ".repeat(ind)));
            let seq_ind = if r.chance(1, 3) { ind } else { ind + step };
            out.push_str(&format!("{}- h{d}: 1\n", " ".repeat(seq_ind)));
            ind = seq_ind + 2;
        } else {
            out.push_str(&format!("{}m{d}:\n", " ".repeat(ind)));
            ind += step;
        }
    }
    let pad = " ".repeat(ind);
    let n_entries = r.range(1, 3);
    for e in 0..n_entries {
        if r.chance(1, 3) {
            // as sequence items under a key
            out.push_str(&format!("{pad}s{e}:\n"));
            let items = r.range(1, 2);
            for _ in 0..items {
                out.push_str(&format!("{pad}- {}\n", gen_block_scalar(r, ind, false)));
            }
        } else {
            out.push_str(&format!("{pad}a{e}: {}\n", gen_block_scalar(r, ind, false)));
        }
    }
    out.push_str(&format!("{pad}c: after\n"));
    out
}

/// Documents for the option matrix: anchors and aliases whose declaration order differs from the
/// sorted key order, in block and flow mappings / sequences (one-line, and multi-line with trailing
/// comments on entries, which switch the DOM emitter from flow to sorted block rendering), merge
/// keys, nested combinations.  Returns the document and the top-level keys it uses.
fn gen_anchor_order_doc(r: &mut Rng) -> (String, Vec<&'static str>) {
    const POOL: &[&str] = &["z", "y", "x", "m", "k", "d", "b", "a"];
    fn keys(r: &mut Rng, n: usize) -> Vec<&'static str> {
        let mut ks: Vec<&'static str> = Vec::new();
        while ks.len() < n {
            let k = POOL[r.usize_below(POOL.len())];
            if !ks.contains(&k) {
                ks.push(k);
            }
        }
        // mostly descending (declaration order opposite to sorted order), sometimes random
        if r.chance(2, 3) {
            ks.sort();
            ks.reverse();
        }
        ks
    }
    struct St {
        scalars: Vec<String>, // anchors on scalars
        maps: Vec<String>,    // anchors on mappings
        next: usize,
    }
    // one entry value written inline (flow-safe): scalar, anchored scalar, alias, small flow map
    fn inline(r: &mut Rng, st: &mut St) -> String {
        match r.below(7) {
            0 | 1 if !st.scalars.is_empty() => format!("*{}", st.scalars[r.usize_below(st.scalars.len())]),
            2 | 3 => {
                let n = format!("a{}", st.next);
                st.next += 1;
                st.scalars.push(n.clone());
                format!("&{n} {}", r.range(1, 9))
            }
            4 => {
                let n = format!("a{}", st.next);
                st.next += 1;
                st.maps.push(n.clone());
                format!("&{n} {{p: {}, q: w}}", r.range(1, 9))
            }
            5 if !st.maps.is_empty() => format!("*{}", st.maps[r.usize_below(st.maps.len())]),
            _ => (*r.pick(&["1", "v", "true", "two words"])).to_string(),
        }
    }
    fn container(r: &mut Rng, st: &mut St, ind: usize, depth: usize, out: &mut String) {
        let pad = " ".repeat(ind);
        let n = r.range(2, 4) as usize;
        let ks = keys(r, n);
        match r.below(6) {
            // block mapping
            0 | 1 => {
                for k in &ks {
                    if depth < 2 && r.chance(1, 4) {
                        out.push_str(&format!("\n{pad}{k}:"));
                        container(r, st, ind + 2, depth + 1, out);
                    } else if !st.maps.is_empty() && r.chance(1, 5) {
                        let m = st.maps[r.usize_below(st.maps.len())].clone();
                        out.push_str(&format!("\n{pad}{k}:\n{pad}  <<: *{m}\n{pad}  own: 1"));
                    } else {
                        out.push_str(&format!("\n{pad}{k}: {}", inline(r, st)));
                        if r.chance(1, 4) {
                            out.push_str(" # c");
                        }
                    }
                }
            }
            // one-line flow mapping
            2 => {
                let items: Vec<String> = ks.iter().map(|k| format!("{k}: {}", inline(r, st))).collect();
                out.push_str(&format!(" {{{}}}", items.join(", ")));
            }
            // multi-line flow mapping, trailing comments on entries
            3 => {
                out.push_str(" {");
                for (i, k) in ks.iter().enumerate() {
                    let v = inline(r, st);
                    let comma = if i + 1 < ks.len() { "," } else { "" };
                    let c = if r.chance(1, 2) { " # d" } else { "" };
                    out.push_str(&format!("\n{pad}  {k}: {v}{comma}{c}"));
                }
                out.push_str(&format!("\n{pad}}}"));
            }
            // block sequence
            4 => {
                for _ in 0..n {
                    out.push_str(&format!("\n{pad}- {}", inline(r, st)));
                    if r.chance(1, 4) {
                        out.push_str(" # c");
                    }
                }
            }
            // flow sequence, one-line or multi-line with a comment
            _ => {
                if r.chance(1, 2) {
                    let items: Vec<String> = (0..n).map(|_| inline(r, st)).collect();
                    out.push_str(&format!(" [{}]", items.join(", ")));
                } else {
                    out.push_str(" [");
                    for i in 0..n {
                        let v = inline(r, st);
                        let comma = if i + 1 < n { "," } else { "" };
                        let c = if r.chance(1, 2) { " # d" } else { "" };
                        out.push_str(&format!("\n{pad}  {v}{comma}{c}"));
                    }
                    out.push_str(&format!("\n{pad}]"));
                }
            }
        }
    }
    let mut st = St { scalars: Vec::new(), maps: Vec::new(), next: 0 };
    let ntop = r.range(2, 4) as usize;
    let top = keys(r, ntop);
    let mut out = String::new();
    for (i, k) in top.iter().enumerate() {
        if i > 0 {
            out.push('\n');
        }
        out.push_str(&format!("{k}:"));
        if r.chance(1, 4) {
            out.push_str(&format!(" {}", inline(r, &mut st)));
        } else {
            container(r, &mut st, 2, 0, &mut out);
        }
    }
    out.push_str("\nt: 1\n");
    (out, top)
}

fn gen_option_prog(r: &mut Rng, top: &[&str]) -> String {
    let k = top[r.usize_below(top.len())];
    let k2 = *r.pick(&["z", "a", "m", "p", "own", "new"]);
    match r.below(12) {
        0 | 1 => ".".to_string(),
        2 => format!(".{k}"),
        3 | 4 => ".c = 1".to_string(),
        5 => format!(".{k}.{k2} = 5"),
        6 => "del(.t)".to_string(),
        7 => format!(".{k} |= ."),
        8 => ". * {\"n\": {\"s\": 1}}".to_string(),
        9 => format!("del(.{k}.{k2})"),
        10 => ".t |= 2".to_string(),
        _ => format!(".{k}[0] = 7"),
    }
}

/// Does the JSON text at `j[*ji..]` denote the mapping encoded at `e[*ei..]` (entries up to `]`)?
fn json_matches_tree(e: &[u8], ei: &mut usize, j: &[u8], ji: &mut usize) -> bool {
    fn hexstr(e: &[u8], ei: &mut usize) -> String {
        let s = *ei;
        while *ei < e.len() && e[*ei].is_ascii_hexdigit() {
            *ei += 1;
        }
        String::from_utf8(parse_bytes(std::str::from_utf8(&e[s..*ei]).unwrap_or("-")).to_vec()).unwrap_or_default()
    }
    if j.get(*ji) != Some(&b'{') {
        return false;
    }
    *ji += 1;
    let mut first = true;
    while *ei < e.len() && e[*ei] == b'K' {
        *ei += 1;
        let key = hexstr(e, ei);
        if !first {
            if j.get(*ji) != Some(&b',') {
                return false;
            }
            *ji += 1;
        }
        first = false;
        let Some((k, n)) = json_str(j, *ji) else { return false };
        if k != key || j.get(n) != Some(&b':') {
            return false;
        }
        *ji = n + 1;
        match e.get(*ei) {
            Some(b'S') => {
                *ei += 1;
                let v = hexstr(e, ei);
                *ei += 1;
                let Some((s, n)) = json_str(j, *ji) else { return false };
                if s != v {
                    return false;
                }
                *ji = n;
            }
            Some(b'M') => {
                *ei += 2;
                if !json_matches_tree(e, ei, j, ji) {
                    return false;
                }
                *ei += 1;
            }
            _ => return false,
        }
    }
    if j.get(*ji) != Some(&b'}') {
        return false;
    }
    *ji += 1;
    true
}

/// Random nested string mapping in the `blk` encoding: distinct keys per mapping, adversarial
/// keys and values.
fn gen_block(r: &mut Rng, depth: usize, out: &mut String) {
    let n = r.range(1, 4) as usize;
    let mut used: Vec<String> = Vec::new();
    for _ in 0..n {
        let key = if r.chance(1, 2) { (*r.pick(&["a", "b", "key", "x y", "k1", "n"])).to_string() } else { adversarial(r) };
        if used.contains(&key) {
            continue;
        }
        used.push(key.clone());
        out.push('K');
        out.push_str(&key.bytes().map(|b| format!("{b:02x}")).collect::<String>());
        if depth < 3 && r.chance(1, 3) {
            out.push_str("M[");
            gen_block(r, depth + 1, out);
            out.push(']');
        } else {
            let v = adversarial(r);
            out.push('S');
            out.push_str(&v.bytes().map(|b| format!("{b:02x}")).collect::<String>());
            out.push(';');
        }
    }
}

/// Random (value tree, anchor table) in the forest encoding, with no mark below an alias node.
/// Object children get increasing distinct labels, array children their index, so the model's
/// ordered value equality coincides with `OwnedValue`'s.
fn gen_forest(r: &mut Rng, depth: usize, under_alias: bool, names: u64, arr: bool, out: &mut String) {
    let n = r.range(if depth == 0 { 2 } else { 0 }, 4) as usize;
    let mut label = 0u64;
    for i in 0..n {
        label = if arr { i as u64 } else { label + r.range(1, 2) };
        let mark = if under_alias {
            "n".to_string()
        } else {
            match r.below(5) {
                0 | 1 => format!("d{}", r.below(names)),
                2 | 3 => format!("a{}", r.below(names)),
                _ => "n".to_string(),
            }
        };
        let kind = if depth >= 3 { 0 } else { r.below(4) };
        let payload = match kind {
            1 => 9,
            2 => 8,
            _ => r.range(1, 3),
        };
        out.push_str(&format!("N{label}.{mark}.{payload}["));
        if payload >= 8 {
            gen_forest(r, depth + 1, under_alias || mark.starts_with('a'), names, payload == 8, out);
        }
        out.push(']');
    }
}

/// Source renderings of a words-joined string for the `ssv` op.
fn gen_src_scalar(r: &mut Rng) -> String {
    let words: Vec<&str> = (0..r.range(1, 3)).map(|_| *r.pick(&["ab", "c1", "x-y", "w:z", "q#r", "it", "0x1F", "-", "d"])).collect();
    let style = r.below(3);
    let mut s = String::new();
    for (i, w) in words.iter().enumerate() {
        if i > 0 {
            match r.below(4) {
                0 => s.push(' '),
                1 => s.push_str("\n  "),
                2 => s.push_str("\n\n  "),
                _ => s.push_str("\n\n\n  "),
            }
        }
        s.push_str(w);
    }
    match style {
        0 => format!("k: '{}'\n", s.replace('\'', "''")),
        1 => format!("k: \"{}\"\n", s),
        _ => format!("k: {}\n", s),
    }
}

pub fn gen(tier: Tier, r: &mut Rng, emit: &mut dyn FnMut(String)) {
    let quick = tier == Tier::Quick;
    // ---- leg 1: decision functions on adversarial strings
    let n_str = if quick { 2000 } else { 20_000 };
    let mut strings: Vec<String> = Vec::new();
    // deterministic boundary set first
    for i in INDICATORS {
        for t in [format!("{i}"), format!("{i}x"), format!("x{i}"), format!("x{i}y"), format!("{i} x"), format!("x {i}"), format!("x{i} y"), format!("x {i}y")] {
            strings.push(t);
        }
    }
    for w in WORDS {
        strings.push(w.to_string());
        strings.push(w.to_uppercase());
    }
    for n in NUMS {
        strings.push(n.to_string());
    }
    for u in UNI {
        strings.push(u.to_string());
        strings.push(format!("x{u}y"));
    }
    for c in 0..0x20u32 {
        strings.push(format!("a{}b", char::from_u32(c).unwrap()));
    }
    for _ in 0..n_str {
        strings.push(adversarial(r));
    }
    for s in &strings {
        let h = hx(s);
        emit(format!("C15 rp {h}"));
        for flow in [0, 1] {
            let ind = r.below(9);
            emit(format!("C15 qv {h} o {flow} {ind}"));
            let ind = r.below(9);
            let top = u8::from(ind == 0);
            emit(format!("C15 qk {h} {flow} {top} {ind}"));
        }
        emit(format!("C15 qv {h} s 0 {}", r.below(9)));
        emit(format!("C15 qv {h} d {} {}", r.below(2), r.below(9)));
        emit(format!("C15 dq {h}"));
        emit(format!("C15 sq {h}"));
        emit(format!("C15 snq {h}"));
        emit(format!("C15 sdq {h}"));
        emit(format!("C15 ssq {h}"));
        emit(format!("C15 sbq {h}"));
    }
    for n in 0..=8 {
        if n <= 7 {
            emit(format!("C15 ind {n}"));
        }
    }
    // ---- anchor-soundness pass on constructed (value tree, anchor table)
    let n_anc = if quick { 1500 } else { 30_000 };
    for _ in 0..n_anc {
        let mut enc = String::new();
        let names = r.range(1, 3);
        gen_forest(r, 0, false, names, false, &mut enc);
        if !enc.is_empty() {
            emit(format!("C15 anc {enc}"));
        }
    }
    // ---- DOM block layout on constructed nested string mappings, indent step 1..7
    let n_blk = if quick { 1200 } else { 20_000 };
    for _ in 0..n_blk {
        let mut enc = String::new();
        gen_block(r, 0, &mut enc);
        emit(format!("C15 blk {} {enc}", r.range(1, 7)));
    }
    // ---- leg 1b: streaming emitter in process
    let n_ssv = if quick { 600 } else { 8_000 };
    for _ in 0..n_ssv {
        let doc = gen_src_scalar(r);
        if let Some((st, dec)) = src_scalar(doc.as_bytes()) {
            emit(format!("C15 ssv {} {st} {}", hx(&doc), hx(&dec)));
        }
    }
    let n_sbl = if quick { 1500 } else { 30_000 };
    for _ in 0..n_sbl {
        let doc = format!("k: {}\nc: after\n", gen_block_scalar(r, 0, false));
        // (a content-less scalar with an explicit indicator makes the loader drop the next entry —
        // a loader-side defect, C14 domain; such documents are not used here)
        if !load_json(doc.as_bytes()).is_ok_and(|j| j.contains("\"c\":\"after\"")) {
            continue;
        }
        if let Some((st, dec)) = src_scalar(doc.as_bytes()) {
            if st == "l" || st == "f" {
                emit(format!("C15 sbl {} {} {st} {}", hx(&doc), r.below(9), hx(&dec)));
            }
        }
    }
    let n_docs = if quick { 1200 } else { 15_000 };
    let mut docs: Vec<String> = Vec::new();
    let mut tries = 0;
    while docs.len() < n_docs && tries < n_docs * 4 {
        tries += 1;
        let d = if tries % 3 == 0 { gen_block_scalar_doc(r) } else { gen_doc(r) };
        // documents of the loader-defect shape K7 are not generated (a corpus line keeps the shape
        // under its known finding)
        if load_json(d.as_bytes()).is_ok() && !seq_first_key_multiline_plain(d.as_bytes()) {
            docs.push(d);
        }
    }
    for d in &docs {
        emit(format!("C15 sloop {} {}", hx(d), r.below(9)));
    }
    // ---- leg 2: CLI end to end (batched over worker threads, results cached for `exec`)
    let n_cli = if quick { 450 } else { 4_000 };
    let mut reqs: Vec<String> = Vec::new();
    for i in 0..n_cli {
        let d = &docs[r.usize_below(docs.len().max(1)) % docs.len().max(1)];
        let p = gen_prog(r);
        let ind = if i % 40 == 0 { 8 } else { r.below(8) };
        reqs.push(format!("cli {} {} {ind}", hx(d), hx(&p)));
    }
    // option matrix × both emit paths on anchor-order documents
    let n_opt = if quick { 400 } else { 6_000 };
    let mut made = 0;
    let mut tries = 0;
    while made < n_opt && tries < n_opt * 4 {
        tries += 1;
        let (d, top) = gen_anchor_order_doc(r);
        if load_json(d.as_bytes()).is_err() {
            continue;
        }
        made += 1;
        let p = gen_option_prog(r, &top);
        let flags = *r.pick(&["S", "S", "S", "SP", "P", "N", "SN", "-", "SPN", "T"]);
        reqs.push(format!("cli {} {} {} {flags}", hx(&d), hx(&p), r.below(8)));
    }
    // the general documents under the flags as well
    for _ in 0..(n_opt / 4) {
        let d = &docs[r.usize_below(docs.len())];
        let multi = d.contains("\n---") || d.starts_with("---");
        let flags = if multi { *r.pick(&["S", "P", "SP"]) } else { *r.pick(&["S", "P", "SP", "N", "SN"]) };
        let p = gen_prog(r);
        reqs.push(format!("cli {} {} {} {flags}", hx(d), hx(&p), r.below(8)));
    }
    let workers = 8;
    let results: Vec<(String, String)> = std::thread::scope(|sc| {
        let chunks: Vec<Vec<String>> = (0..workers).map(|w| reqs.iter().skip(w).step_by(workers).cloned().collect()).collect();
        let hs: Vec<_> = chunks
            .into_iter()
            .map(|ch| {
                sc.spawn(move || {
                    ch.into_iter()
                        .map(|q| {
                            let a: Vec<&str> = q.split(' ').collect();
                            let doc = parse_bytes(a[1]);
                            let prog = unhex(a[2]).unwrap_or_default();
                            let fl = a.get(4).copied().unwrap_or("-").to_string();
                            let res = std::panic::catch_unwind(|| cli_loop(&doc, &prog, num(a[3]), &fl)).unwrap_or_else(|_| "PANIC".into());
                            (q, res)
                        })
                        .collect::<Vec<_>>()
                })
            })
            .collect();
        hs.into_iter().flat_map(|h| h.join().unwrap_or_default()).collect()
    });
    {
        let mut g = CLI_CACHE.lock().unwrap_or_else(|e| e.into_inner());
        let m = g.get_or_insert_with(HashMap::new);
        for (q, v) in results {
            m.insert(q, v);
        }
    }
    for q in &reqs {
        emit(format!("C15 {q}"));
    }
}
