//! C30 — jq programs never crash the process.
//!
//! Monitoring only (the driver answers `NOPANIC`; `tools/props/C30.py` compares the
//! panic/abort bit and drops `NONTERM`):
//!
//! * `parse <program>`            `jq::parse` / `parse_program`, jq and yq modes, in-process
//! * `ev <program> <input>`       parse + both evaluators + printing, in-process (`catch_unwind`, wall-clock guard)
//! * `evx <program> <input>`      the same in a child process under `ulimit -v` (allocation failure = abort is visible)
//! * `cli <jq|yq> <program> <input>`  the CLI binary under `ulimit -v`: exit status ∈ {0,1,2,3,5}
//! * `evm <program> <input>`      both evaluators in a child process under `ulimit -v`, answered with the C23 run line
//!                                (outputs in canonical JSON, then `END` / `ERR:<payload>` / `BREAK` / `HALT:n`): diffed
//!                                with `Model/Jq` through the driver where the model has a verdict ("ends with outputs
//!                                and/or a jq error" is checked against the model), crash bit otherwise
//! * `guard <op> <args>`          the size guards as the implementation computes them (diffed exactly
//!                                against `Model/JqGuards.lean`): `range`, `repeat`, `setpath`, `implode`
use crate::c19::{cli, guarded, isolated, Fnv};
use crate::rng::Rng;
use crate::util::*;
use crate::Tier;
use succinctly::jq::document::IndentSpec;
use succinctly::json::JsonIndex;

pub fn tables() -> Vec<(&'static str, String)> {
    Vec::new()
}

/// Address-space ceiling for child processes (KiB): 3 GiB.
pub const ULIMIT_KIB: u64 = 3 * 1024 * 1024;
/// Programs that run longer than this are classified "does not terminate" and discarded.
pub const NONTERM_SECS: u64 = 3;

fn parse_only(src: &str) -> String {
    use succinctly::jq::{parse, parse_program, parse_program_with_mode, parse_with_mode, ParserMode};
    let a = parse(src).is_ok();
    let b = parse_program(src).is_ok();
    let c = parse_with_mode(src, ParserMode::Yq).is_ok();
    let d = parse_program_with_mode(src, ParserMode::Yq).is_ok();
    format!("{} {}{}{}{}", if a || b || c || d { "OK" } else { "ERR" }, a as u8, b as u8, c as u8, d as u8)
}

fn digest_owned(h: &mut Fnv, vs: &[succinctly::jq::OwnedValue]) {
    h.num(vs.len() as u64);
    for v in vs.iter().take(64) {
        let s = v.to_json();
        h.num(s.len() as u64);
        h.bytes(&s.as_bytes()[..s.len().min(4096)]);
    }
}

fn eval_all(prog: &str, input: &[u8]) -> String {
    use succinctly::jq::{self, eval_generic, JqSemantics, QueryResult, YqSemantics};
    let mut h = Fnv::new();
    let expr = match jq::parse(prog) {
        Ok(e) => e,
        Err(e) => {
            h.bytes(e.to_string().as_bytes());
            return format!("ERR parse {:016x}", h.0);
        }
    };
    let idx = JsonIndex::build(input);
    let root = idx.root(input);
    // full evaluator, jq semantics
    let r: QueryResult<Vec<u64>> = jq::eval::<Vec<u64>, JqSemantics>(&expr, root);
    let mut errs = 0u32;
    match r {
        QueryResult::Error(e) => {
            errs += 1;
            h.bytes(e.to_string().as_bytes());
        }
        other => {
            errs += other.is_error() as u32;
            digest_owned(&mut h, &other.collect_owned());
        }
    }
    // full evaluator, yq semantics
    let r: QueryResult<Vec<u64>> = jq::eval::<Vec<u64>, YqSemantics>(&expr, root);
    match r {
        QueryResult::Error(e) => h.bytes(e.to_string().as_bytes()),
        other => digest_owned(&mut h, &other.collect_owned()),
    }
    // generic (CLI) evaluator + streaming printers
    let g = eval_generic::eval_with_cursor(&expr, root);
    errs += g.is_error() as u32;
    let mut s = String::new();
    let r = g.stream_json(&mut s, IndentSpec::COMPACT, false, |o| {
        use core::fmt::Write;
        o.write_char('\n')
    });
    h.num(r.is_ok() as u64);
    h.num(s.len() as u64);
    h.bytes(&s.as_bytes()[..s.len().min(1 << 16)]);
    let mut y = String::new();
    let r = g.stream_yaml(&mut y, IndentSpec::spaces(2), true, |o| {
        use core::fmt::Write;
        o.write_char('\n')
    });
    h.num(r.is_ok() as u64);
    h.num(y.len() as u64);
    digest_owned(&mut h, &g.collect_owned());
    format!("OK {:016x} e={errs}", h.0)
}

/// The guards exactly as the implementation applies them, observed through the public evaluator on
/// `null` input: the answer is the *size* of what was built (or the error class).
fn guard(a: &[&str]) -> String {
    use succinctly::jq::{self, JqSemantics, OwnedValue, QueryResult};
    let prog = match a[0] {
        // range <from> <to> <step>  (integers)  -> number of values produced
        "range" => format!("[range({};{};{})] | length", a[1], a[2], a[3]),
        // repeat <len> <n>: ("x" * len) * n  -> length of the string (or null)
        "repeat" => format!("(\"{}\" * {}) | if . == null then \"null\" else length end", "x".repeat(num(a[1])), a[2]),
        // setpath <len> <idx>: array of len nulls, setpath([idx]; 1) | length
        "setpath" => format!("[range({})] | try (setpath([{}]; 1) | length) catch .", a[1], a[2]),
        // limit <n> <m>: [limit(n; range(m))] | length
        "limit" => format!("[limit({}; range({}))] | length", a[1], a[2]),
        _ => return "BAD-OP".into(),
    };
    let Ok(expr) = jq::parse(&prog) else { return "ERR parse".into() };
    let input = b"null";
    let idx = JsonIndex::build(input);
    let r: QueryResult<Vec<u64>> = jq::eval::<Vec<u64>, JqSemantics>(&expr, idx.root(input));
    match r {
        QueryResult::Error(e) => format!("E:{e}"),
        other => {
            let vs = other.collect_owned();
            match vs.first() {
                Some(OwnedValue::Int(n)) => n.to_string(),
                Some(OwnedValue::String(s)) => format!("S:{s}"),
                Some(v) => v.to_json(),
                None => "-".into(),
            }
        }
    }
}

/// Evaluate a batch of (program, input) pairs in one child process under the memory ceiling.
fn ev_batch(items: &[(String, String)]) -> String {
    let mut spawns = 0usize;
    let mut nonterm = 0usize;
    let mut errs = 0usize;
    let mut work = vec![(0usize, items.len())];
    while let Some((lo, hi)) = work.pop() {
        if lo >= hi {
            continue;
        }
        let exe = match std::env::current_exe() {
            Ok(e) => e,
            Err(_) => return "HARNESS-ERROR current_exe".into(),
        };
        let mut cmd = std::process::Command::new("sh");
        cmd.arg("-c").arg(format!("ulimit -v {ULIMIT_KIB}; exec \"$0\" replay")).arg(&exe);
        let mut input = String::new();
        for (p, i) in &items[lo..hi] {
            input.push_str(&format!("C30 ev {p} {i}\n"));
        }
        spawns += 1;
        // generous: a batch that merely runs slowly on a loaded host must not be bisected
        let budget = NONTERM_SECS * 10 + (hi - lo) as u64 / 2;
        let out = match crate::c19::run_child(cmd, input.as_bytes(), budget) {
            Ok(o) => o,
            Err(e) => return format!("HARNESS-ERROR {e}"),
        };
        let died = out.timed_out || out.signal.is_some() || out.code != Some(0);
        if died {
            if hi - lo == 1 {
                if out.timed_out {
                    nonterm += 1;
                    continue;
                }
                let what = match out.signal {
                    Some(sg) => format!("ABORT SIGNAL:{sg} {}", crate::c19::panic_site(&out.stderr)),
                    None => format!("ABORT EXIT:{}", out.code.unwrap_or(-1)),
                };
                return format!("{what} @{lo} {} {}", items[lo].0, items[lo].1);
            }
            let mid = lo + (hi - lo) / 2;
            work.push((mid, hi));
            work.push((lo, mid));
            continue;
        }
        let text = String::from_utf8_lossy(&out.stdout);
        let mut k = lo;
        for line in text.lines() {
            let Some((_, ans)) = line.split_once('\t') else { continue };
            if ans.starts_with("PANIC") || ans.starts_with("ABORT") || ans.starts_with("TIMEOUT") {
                return format!("{ans} @{k} {} {}", items[k.min(hi - 1)].0, items[k.min(hi - 1)].1);
            }
            if ans.starts_with("NONTERM") {
                nonterm += 1;
            }
            if ans.starts_with("ERR") {
                errs += 1;
            }
            k += 1;
        }
        if k != hi {
            return format!("HARNESS-ERROR batch answered {} of {} lines", k - lo, hi - lo);
        }
    }
    format!("OK n={} nonterm={nonterm} parse_errors={errs} spawns={spawns}", items.len())
}

/// Several programs through one CLI process.
fn cli_multi(tool: &str, progs: &[String], input: &[u8]) -> String {
    let mut spawns = 0usize;
    let mut nonterm = 0usize;
    let mut worst = 0i32;
    let mut work = vec![(0usize, progs.len())];
    while let Some((lo, hi)) = work.pop() {
        if lo >= hi {
            continue;
        }
        let combined = if hi - lo == 1 {
            progs[lo].clone()
        } else {
            progs[lo..hi].iter().map(|p| format!("(try ({p}) catch \"E\")")).collect::<Vec<_>>().join(", ")
        };
        spawns += 1;
        let budget = NONTERM_SECS * 6;
        let r = if tool == "yq" {
            cli(&["yq", "-o", "json", "--", &combined], input, budget, Some(ULIMIT_KIB))
        } else {
            cli(&["jq", "-c", "--", &combined], input, budget, Some(ULIMIT_KIB))
        };
        let mut bad = r.starts_with("PANIC") || r.starts_with("ABORT");
        let timed_out = r == "TIMEOUT";
        if let Some(rest) = r.strip_prefix("EXIT:") {
            let code: i32 = rest.split(' ').next().unwrap_or("").parse().unwrap_or(-1);
            if ![0, 1, 2, 3, 5].contains(&code) {
                bad = true;
            }
            worst = worst.max(code);
        }
        if timed_out {
            // a combined program that does not finish is discarded as a whole ("does not terminate" is
            // outside the property); bisecting it would cost a time-out per level
            nonterm += hi - lo;
            continue;
        }
        if bad {
            if hi - lo == 1 {
                return format!("{} @{lo} {}", if r.starts_with("EXIT:") { format!("ABORT {r}") } else { r }, hex_bytes(progs[lo].as_bytes()));
            }
            let mid = lo + (hi - lo) / 2;
            work.push((mid, hi));
            work.push((lo, mid));
        }
    }
    format!("EXIT:{worst} n={} nonterm={nonterm} spawns={spawns}", progs.len())
}

// ------------------------------------------------------------------------------------------------
// persistent isolated worker: one child process (under `ulimit -v`) answers many requests
// ------------------------------------------------------------------------------------------------
//
// A process start costs 100–300 ms on this host, so one child per `evm` request dominated the
// thorough tier.  The child is this harness (`svharness replay`) given the single request
// `C30 serve <fifo-in> <fifo-out>`; it then answers request lines read from `fifo-in` on `fifo-out`
// (flushed per line) until the pipe closes.  If it dies (abort, allocation failure, stack overflow)
// the request being served is answered `ABORT SIGNAL:<n> …` and a fresh child is started for the
// next one; if it does not answer in time it is killed and the request is `NONTERM`.

struct IsoServer {
    child: std::process::Child,
    to_child: std::fs::File,
    answers: std::sync::mpsc::Receiver<String>,
    stderr_tail: std::sync::Arc<std::sync::Mutex<Vec<u8>>>,
    dir: std::path::PathBuf,
    _stdin: std::process::ChildStdin,
}

static SERVER: std::sync::Mutex<Option<IsoServer>> = std::sync::Mutex::new(None);
static SERVER_SEQ: std::sync::atomic::AtomicU64 = std::sync::atomic::AtomicU64::new(0);

fn start_server() -> Result<IsoServer, String> {
    use std::io::{BufRead, Read, Write};
    use std::process::Stdio;
    let dir = std::env::temp_dir().join(format!(
        "svh-srv-{}-{}",
        std::process::id(),
        SERVER_SEQ.fetch_add(1, std::sync::atomic::Ordering::Relaxed)
    ));
    std::fs::create_dir_all(&dir).map_err(|e| format!("tmpdir: {e}"))?;
    let fin = dir.join("in");
    let fout = dir.join("out");
    let st = std::process::Command::new("mkfifo").arg(&fin).arg(&fout).status().map_err(|e| format!("mkfifo: {e}"))?;
    if !st.success() {
        return Err("mkfifo failed".into());
    }
    let exe = std::env::current_exe().map_err(|e| format!("current_exe: {e}"))?;
    let mut cmd = std::process::Command::new("sh");
    cmd.arg("-c").arg(format!("ulimit -v {ULIMIT_KIB}; exec \"$0\" replay")).arg(&exe);
    cmd.stdin(Stdio::piped()).stdout(Stdio::null()).stderr(Stdio::piped());
    let mut child = cmd.spawn().map_err(|e| format!("spawn: {e}"))?;
    let mut stdin = child.stdin.take().unwrap();
    writeln!(stdin, "C30 serve {} {}", fin.display(), fout.display()).map_err(|e| format!("write: {e}"))?;
    let _ = stdin.flush();
    let stderr_tail = std::sync::Arc::new(std::sync::Mutex::new(Vec::new()));
    {
        let mut se = child.stderr.take().unwrap();
        let tail = stderr_tail.clone();
        std::thread::spawn(move || {
            let mut chunk = [0u8; 4096];
            loop {
                match se.read(&mut chunk) {
                    Ok(0) | Err(_) => break,
                    Ok(n) => {
                        if let Ok(mut t) = tail.lock() {
                            t.extend_from_slice(&chunk[..n]);
                            let len = t.len();
                            if len > 8192 {
                                t.drain(..len - 8192);
                            }
                        }
                    }
                }
            }
        });
    }
    // open order mirrors the child's: request pipe first, answer pipe second
    let to_child = std::fs::OpenOptions::new().write(true).open(&fin).map_err(|e| format!("open in: {e}"))?;
    let from_child = std::fs::File::open(&fout).map_err(|e| format!("open out: {e}"))?;
    let (tx, rx) = std::sync::mpsc::channel();
    std::thread::spawn(move || {
        let rd = std::io::BufReader::new(from_child);
        for line in rd.lines() {
            match line {
                Ok(l) => {
                    if tx.send(l).is_err() {
                        break;
                    }
                }
                Err(_) => break,
            }
        }
    });
    Ok(IsoServer { child, to_child, answers: rx, stderr_tail, dir, _stdin: stdin })
}

fn stop_server(mut s: IsoServer) -> Option<std::process::ExitStatus> {
    let _ = s.child.kill();
    let st = s.child.wait().ok();
    let _ = std::fs::remove_dir_all(&s.dir);
    st
}

/// Answer `request` (a full request line) in the persistent isolated child.
pub fn served(request: &str, secs: u64) -> String {
    use std::io::Write;
    use std::os::unix::process::ExitStatusExt;
    let mut g = SERVER.lock().unwrap_or_else(|e| e.into_inner());
    if g.is_none() {
        match start_server() {
            Ok(s) => *g = Some(s),
            Err(e) => return format!("HARNESS-ERROR {e}"),
        }
    }
    let srv = g.as_mut().unwrap();
    let sent = writeln!(srv.to_child, "{request}").and_then(|_| srv.to_child.flush());
    let answer = if sent.is_ok() {
        srv.answers.recv_timeout(std::time::Duration::from_secs(secs))
    } else {
        Err(std::sync::mpsc::RecvTimeoutError::Disconnected)
    };
    match answer {
        Ok(a) => a,
        Err(std::sync::mpsc::RecvTimeoutError::Timeout) => {
            if let Some(s) = g.take() {
                stop_server(s);
            }
            "TIMEOUT".into()
        }
        Err(std::sync::mpsc::RecvTimeoutError::Disconnected) => {
            // the child died while serving this request
            let s = g.take().unwrap();
            let tail = s.stderr_tail.clone();
            let mut child = s.child;
            let st = child.wait().ok();
            let _ = std::fs::remove_dir_all(&s.dir);
            let msg = crate::c19::panic_site(&tail.lock().map(|t| t.clone()).unwrap_or_default());
            match st {
                Some(st) if st.signal().is_some() => format!("ABORT SIGNAL:{} {msg}", st.signal().unwrap()),
                Some(st) => format!("ABORT EXIT:{} {msg}", st.code().unwrap_or(-1)),
                None => format!("ABORT EXIT:? {msg}"),
            }
        }
    }
}

/// Body of the `serve` request in the child: answer request lines from `fin` on `fout` until EOF.
fn serve(fin: &str, fout: &str) -> String {
    use std::io::{BufRead, Write};
    crate::c19::install_hook();
    let Ok(rd) = std::fs::File::open(fin) else { return "HARNESS-ERROR serve open in".into() };
    let Ok(mut wr) = std::fs::OpenOptions::new().write(true).open(fout) else { return "HARNESS-ERROR serve open out".into() };
    let rd = std::io::BufReader::new(rd);
    for line in rd.lines() {
        let Ok(line) = line else { break };
        let toks: Vec<&str> = line.trim_end().split(' ').collect();
        let ans = if toks.len() >= 2 && toks[0] == "C30" && toks[1] != "serve" {
            let args: Vec<&str> = toks[1..].to_vec();
            match std::panic::catch_unwind(|| exec(&args)) {
                Ok(s) => s,
                Err(_) => format!("PANIC {}", crate::c19::last_panic()),
            }
        } else {
            "BAD-REQUEST".to_string()
        };
        let ans: String = ans.chars().map(|c| if c == '\n' { ' ' } else { c }).collect();
        if writeln!(wr, "{ans}").and_then(|_| wr.flush()).is_err() {
            break;
        }
    }
    if let Some(dir) = std::path::Path::new(fin).parent() {
        let _ = std::fs::remove_dir_all(dir);
    }
    "SERVED".into()
}

pub fn exec(a: &[&str]) -> String {
    match a[0] {
        "parse" => match String::from_utf8(parse_bytes(a[1])) {
            Ok(s) => guarded(20, move || parse_only(&s)),
            Err(_) => "BAD-UTF8".into(),
        },
        "ev" => {
            let Ok(p) = String::from_utf8(parse_bytes(a[1])) else { return "BAD-UTF8".into() };
            let input = parse_bytes(a[2]);
            let r = guarded(NONTERM_SECS, move || eval_all(&p, &input));
            if r == "TIMEOUT" {
                "NONTERM".into()
            } else {
                r
            }
        }
        // evmi: in-process body of `evm` (the C23 machinery: both evaluators, canonical run line)
        "evmi" => {
            // long run lines are exchanged as length + FNV-1a-64 of their bytes (child pipes are bounded)
            let r = crate::c23::exec(&["ev", a[1], a[2]]);
            if r.len() > 65536 {
                let mut h: u64 = 0xcbf29ce484222325;
                for b in r.as_bytes() {
                    h = (h ^ *b as u64).wrapping_mul(0x100000001b3);
                }
                format!("LONG:{}:{h:016x}", r.len())
            } else {
                r
            }
        }
        "serve" => serve(a[1], a[2]),
        "evm" => {
            let r = served(&format!("C30 evmi {} {}", a[1], a[2]), NONTERM_SECS + 2);
            if r == "TIMEOUT" {
                "NONTERM".into()
            } else {
                r
            }
        }
        "evx" => {
            let r = isolated(&format!("C30 ev {} {}", a[1], a[2]), NONTERM_SECS + 2, Some(ULIMIT_KIB));
            if r == "TIMEOUT" {
                "NONTERM".into()
            } else {
                r
            }
        }
        // evb <prog>:<input>,<prog>:<input>,…  — one child process (ulimit -v) for the whole batch,
        // bisected when the child dies or the batch times out
        "evb" => {
            let items: Vec<(String, String)> =
                a[1].split(',').filter_map(|it| it.split_once(':')).map(|(p, i)| (p.to_string(), i.to_string())).collect();
            ev_batch(&items)
        }
        // clim <jq|yq> <prog>,<prog>,… <input> — the programs combined into one
        // `(try (P1) catch "E"), (try (P2) catch "E"), …` so that one CLI process evaluates all of them;
        // bisected when the process crashes or times out
        "clim" => {
            let progs: Vec<String> = a[2].split(',').filter_map(|h| String::from_utf8(parse_bytes(h)).ok()).collect();
            let input = parse_bytes(a[3]);
            cli_multi(a[1], &progs, &input)
        }
        "cli" => {
            let Ok(p) = String::from_utf8(parse_bytes(a[2])) else { return "BAD-UTF8".into() };
            if p.contains('\0') {
                return "EXIT:2 nul".into();
            }
            let input = parse_bytes(a[3]);
            let tool = if a[1] == "yq" { "yq" } else { "jq" };
            let r = if tool == "yq" {
                cli(&["yq", "-o", "json", "--", &p], &input, NONTERM_SECS, Some(ULIMIT_KIB))
            } else {
                cli(&["jq", "-c", "--", &p], &input, NONTERM_SECS, Some(ULIMIT_KIB))
            };
            if r == "TIMEOUT" {
                return "NONTERM".into();
            }
            // exit status must be one of jq's documented codes
            if let Some(rest) = r.strip_prefix("EXIT:") {
                let code: i32 = rest.split(' ').next().unwrap_or("").parse().unwrap_or(-1);
                if ![0, 1, 2, 3, 5].contains(&code) {
                    return format!("ABORT {r}");
                }
            }
            r
        }
        "guard" => {
            let args: Vec<String> = a[1..].iter().map(|s| s.to_string()).collect();
            guarded(20, move || {
                let v: Vec<&str> = args.iter().map(String::as_str).collect();
                guard(&v)
            })
        }
        _ => "BAD-OP".into(),
    }
}

// ------------------------------------------------------------------------------------------------
// generators
// ------------------------------------------------------------------------------------------------

const LEX: &[&str] = &[
    ".", "..", ".[", "]", "[", "(", ")", "{", "}", "|", ",", ":", ";", "?", "//", "+", "-", "*", "/", "%", "=", "|=", "+=", "-=", "*=", "/=", "%=", "//=", "==", "!=",
    "<", "<=", ">", ">=", "and", "or", "not", "if", "then", "elif", "else", "end", "try", "catch", "reduce", "foreach", "as", "def", "label", "break", "import", "include",
    "$x", "$__loc__", "$ENV", "$", "@base64", "@base64d", "@json", "@text", "@csv", "@tsv", "@html", "@uri", "@sh", "@", "@x", ".a", ".a.b", ".[0]", ".[1:2]", ".[-1:]", ".[:]",
    ".\"a\"", ".[\"a\"]", "\"", "\"a\"", "\"\\(", "\"\\(.)\"", "\"a\\(1+2)b\"", "\"\\n\\t\\u00e9\"", "\"\\ud800\"", "\"\\u\"", "\"\\x\"", "\"\\", "\\(", "\\", "0", "1", "-1", "1e19", "1e308",
    "1e999", ".5", "1.", "0x10", "nan", "infinite", "-0", "9007199254740993", "null", "true", "false", "empty", "error", "length", "keys", "map(", "select(", "path(", "range(",
    "limit(", "first(", "input", "inputs", "env", "recurse", "tojson", "fromjson", "tostring", "tonumber", "explode", "implode", "ltrimstr(", "splits(", "test(", "sub(", "getpath(",
    "setpath(", "del(", "to_entries", "with_entries(", "walk(", "f", "f:", "def f: f;", "def f(g): g;", " ", "\n", "\t", "#c\n", "#", "é", "中", "😀", "\u{a0}", "\u{200b}", "\u{FEFF}",
    ".é", ".\"é\"", "$é", "@é", "\"😀\"", "?//", "reduce . as $x (0; .+$x)", "foreach . as $x (0; .+$x; .)", ". as [$a, $b] |", ". as {a: $x} |", "`", "'", "~", "^", "&", "!",
    "..?", ".[]?", "..a", "...", ".[", ".[]", "[]", "{}", "{a:1}", "{(.a):1}", "{\"a\":", "{$x}", "{@base64: 1}", "ltrimstr(\"a\")", "$__prog_args", "getpath([\"a\"])", "@base64 \"x\\(.)\"",
    "limit(3; repeat(1))", "label $out |", "break $out", "try error catch .", ".. |= .", "input_line_number", "halt", "halt_error", "halt_error(5)", "ascii", "@json \"\\(.)\"", "tojson|fromjson",
    "splits(\"a\";\"g\")", "test(\"(\")", "test(\"\\\\\")", "sub(\"(?<x>a)\";\"\\(.x)\")", "ascii_downcase", "getpath([1e9])", "1 as $x | $x", "-(1)", "-.", "--1", "1 - -1", ".a-1", ".a-b",
];

/// Truncated / malformed escapes as a class: every escape-like fragment (`\u` + 0–4 hex digits, half
/// surrogate pairs, `\(` unterminated, lone backslash, unknown escape) directly followed by end of
/// input and by 1/2/3/4-byte characters, inside plain strings, interpolations, object keys, format
/// strings and bracket indices; plus every prefix truncation of valid programs that contain strings,
/// escapes and interpolations, bare and followed by a multi-byte character.
pub fn escape_programs() -> Vec<String> {
    let contexts: &[&str] = &["\"", "\"ab", "\"é", "\"a\\(", "\"\\(1)", "{\"", "{\"a\":\"", "@base64 \"", "@json \"x\\(.)", ".[\"", ".\"", "\"\\u00e9", "1 as $x | \"", "\"\\(\""];
    let escapes: &[&str] = &[
        "\\u", "\\u1", "\\u12", "\\u123", "\\u1234", "\\uD", "\\ud8", "\\ud83", "\\ud83d", "\\ud83d\\", "\\ud83d\\u", "\\ud83d\\ud", "\\ud83d\\ude0",
        "\\ud83d\\ude00", "\\udc00", "\\uzzzz", "\\u+123", "\\u 123", "\\(", "\\(1", "\\(\"", "\\(\"\\u1", "\\", "\\x", "\\x4", "\\0", "\\\"", "\\n", "\\/",
    ];
    let followers: &[&str] = &["", "\"", "é", "中", "😀", "é\"", "中\"", "😀\"", "a\"", "\u{7f}", "\u{80}", "1é", "12中", "123😀", "g", ")\"", ")"];
    let mut v = Vec::new();
    for c in contexts {
        for e in escapes {
            for f in followers {
                v.push(format!("{c}{e}{f}"));
            }
        }
    }
    let valid: &[&str] = &[
        "\"a\\u00e9b\\ud83d\\ude00c\"", "\"x\\(1 + 2)y\\(\"in\\u0041ner\")z\"", "{\"k\\u0041\": \"v\\n\", (\"a\" + \"b\"): 1}", "@base64 \"p\\(.a)q\\u0042\"", ".[\"a\\u0062\"] | .\"c\\td\"",
        "\"\\(\"\\(\"\\u0031\")\")\"", "if . == \"\\u00e9\" then \"\\\\\" else \"\\\"\" end", "\"é\\u4e2d中\\ud83d\\ude00😀\" | test(\"\\\\u\")", "def f: \"\\(.)\\u0021\"; [f, @json \"\\(f)\"]", "$__loc__ | \"\\(.file)\\u003a\\(.line)\"",
        "\"a\" as $x | \"\\($x)\\u0062\" | ltrimstr(\"\\u0061\")", "{(\"\\u006b\"): \"\\(1)\"} | .[\"k\"]", "\"\\b\\f\\n\\r\\t\\/\\\\\\\"\\u0000\"",
    ];
    for p in valid {
        for (i, _) in p.char_indices().skip(1) {
            let t = &p[..i];
            v.push(t.to_string());
            for f in ["é", "中", "😀", "\"", "1中"] {
                v.push(format!("{t}{f}"));
            }
        }
        v.push(p.to_string());
    }
    v
}

pub fn program_soup(r: &mut Rng) -> String {
    let n = if r.chance(1, 16) { r.range(20, 120) } else { r.range(0, 12) };
    let mut s = String::new();
    for _ in 0..n {
        s.push_str(*r.pick(LEX));
        if r.chance(1, 3) {
            s.push(' ');
        }
    }
    if r.chance(1, 12) {
        // raw random characters including non-ASCII and controls
        for _ in 0..r.range(1, 6) {
            let c = match r.below(4) {
                0 => char::from_u32(r.range(0x20, 0x7e) as u32).unwrap(),
                1 => char::from_u32(r.range(0xa0, 0x2ff) as u32).unwrap(),
                2 => *r.pick(&['\u{1}', '\u{7f}', '\u{85}', '\u{2028}', '\u{FFFD}', '\u{10FFFF}', '\u{D7FF}', '\u{E000}']),
                _ => char::from_u32(r.range(0x1F300, 0x1F64F) as u32).unwrap(),
            };
            let at = if s.is_empty() { 0 } else { let mut i = r.usize_below(s.len() + 1); while !s.is_char_boundary(i) { i -= 1; } i };
            s.insert(at, c);
        }
    }
    s
}

const EXTREME: &[&str] = &[
    "infinite", "-infinite", "nan", "1e19", "-1e19", "-0", "0", "1e308", "-1e308", "1e309", "-1", "1", "2", "9007199254740993", "9223372036854775807", "-9223372036854775808",
    "9223372036854775808", "18446744073709551616", "1e10", "1e12", "1e18", "4294967296", "2147483648", "-2147483649", "0.5", "-0.5", "1.7", "1e-320", "5e-324", "1e1000", "1e9", "65536",
    "1114112", "1114111", "55296", "57343", "-55296", "1e100", "3", "100000", "100001", "10000", "10001", "255", "256", "257", "383", "384", "385", "1000",
];

/// Templates: `#` is replaced by an extreme operand.
const TEMPLATES: &[&str] = &[
    "\"x\" * #", "# * \"ab\"", "\"\" * #", "(\"abc\" * #) | length", "[limit(3; range(#))]", "[limit(3; range(#; #))]", "[limit(3; range(#; #; #))]",
    "[range(#)] | length", "[range(0; #; #)] | length", "[range(#; #; #)] | length", "[limit(#; repeat(1))] | length", "[limit(3; repeat(#))]", "first(range(#))",
    "[limit(#; range(10))]", "setpath([#]; 1)", "setpath([#, #]; 1)", "try setpath([#]; 1) catch .", ".[#] = 1", ".[#] |= 1", "[1,2,3] | .[#] = 9",
    "[1,2,3] | .[#:#] = [9]", "[1,2,3] | .[#:#]", "\"abcdef\" | .[#:#]", ".[#:#]", ".[#]", "[1,2,3] | .[#]", "[1,2,3] | del(.[#])", "[1,2,3] | del(.[#:#])",
    "[1,2,3] | getpath([#])", "[#] | implode", "[#, #] | implode", "try ([#] | implode) catch .", "[[#]] | implode", "\"a,b\" | [splits(\", *\")]",
    "\"abc\" | ltrimstr(#)", "# | tostring", "# | tojson", "# | @text", "# | @json", "[#] | @csv", "[#] | @tsv", "# | @base64", "\"#\" | @base64d",
    "\"!!!#\" | try @base64d catch .", "# | floor", "# | sqrt", "# | pow(.; #)", "pow(#; #)", "log2", "# | exp10", "# | significand", "# | logb", "# | gamma",
    "# | frexp", "# | ldexp(.; #)", "# | scalb(.; #)", "# | nearbyint", "# | trunc", "# | round", "# | ceil", "# | abs", "# | tostring | tonumber", "# % #", "# / #",
    "# * #", "# + #", "# - #", "-(#)", "# % 0", "1 % #", "# / 0", "try (# % 0) catch .", "5 % #", "# | tojson | fromjson", "[#] | sort", "[#, #] | unique",
    "[#, #] | min", "[#,#] | add", "# | splits(\"a\")?", "# as $x | [$x, $x] | add", "[limit(5; # | recurse(. * 2; . < 1e300))]", "[limit(3; # | recurse(. + 1))]",
    "# | [limit(3; while(true; . * 2))]", "[limit(3; # | until(false; . + 1))]? // 0", "reduce range(#) as $i (0; . + 1)", "def f: f; first(f)?",
    "def f: f; limit(1; f)", "def f: [f]; first(f)", "def f(x): f(x + 1); first(f(0))", "def f: def g: f; g; limit(1; f)", "def f: 1, f; [limit(#; f)] | length",
    "def f: 1, f; first(f)", "def r: if . > 0 then . - 1 | r else . end; # | r", "def r: if . < # then . + 1 | r else . end; 0 | r", "[limit(3; def f: 1, f; f)]",
    "last(range(#))", "[range(#)] | add", "[range(100000)] | map(. * #) | add", "nth(#; range(10))", "nth(#; range(#))", "[.[]?] | .[#:]", "ascii(#)?", "# | ascii?",
    "[#] | implode | explode", "\"x\" * # | length", "\"x\" * 1e10 | length", "\"ab\" * 1e19", "\"ab\" * 9223372036854775807", "\"\" * 9223372036854775807 | length",
    "\"abc\" * 4611686018427387904", "[\"x\" * 100000] | .[0] * 100000 | length", "\"x\" * 100000 | . * 100000 | length",
    "[range(100000)] | map(tostring) | join(\",\") | length", "[limit(20; repeat(\"x\" * 1000))] | add | length", "\"x\" * 1000 | [limit(#; repeat(.))] | length",
    "tojson * #", "[.] * #", "{} * #", "null * #", "# * null", "{a:1} * {a:#}", "indices(#)", "[1,2,1] | indices(#)", "\"aXbX\" | indices(\"X\") | .[#]", "splits(#)?",
    "test(#)?", "[match(\"\"; \"g\")] | length", "\"aaa\" | [match(\"a*?\"; \"g\")] | length", "\"x\" * 1000 | [match(\"x*\"; \"g\")] | length",
    "\"x\" * 5000 | sub(\"(?<a>x)\"; \"\\(.a)\\(.a)\"; \"g\") | length", "\"x\" * 30 | test(\"(x+x+)+y\")", "\"a\" | test(\"(\" * 1000)?",
    "\"a\" | test(\"a{1000000}\")?", "\"a\" | test(\"(a{1000}){1000}\")?", "@sh \"\\(#)\"", "@uri \"\\(#)\"", "@html \"\\(#)\"", "ltrimstr(#)", "# | ltrimstr(\"a\")",
    "# | ascii_downcase?", "# | explode?", "# | @base32d?", "# | todate?", "# | strftime(\"%Y\")?", "# | gmtime?", "# | mktime?", "[#,0,1,1,1,1,0,0] | mktime?",
    "[#,#,#,#,#,#,#,#] | todate?", "# | localtime?", "# | strflocaltime(\"%c\")?", "\"#\" | strptime(\"%s\")?", "# | dateadd(\"seconds\"; #)?", "# | tojson | .[#:#]",
    "input?", "[inputs]?", "$ENV | length", "env.PATH?", "# | getpath([#])?", "[paths(#)]?", "to_entries?", "with_entries(.value += #)?", "from_entries?",
    "# | from_entries?", "[{key:#, value:#}] | from_entries?", "[#] | group_by(.)", "[#] | flatten(#)?", "[[[1]]] | flatten(#)?", "[1] | combinations(#)?",
    "[[1,2],[3,4]] | [combinations] | length", "[range(12)] | map([1,2]) | [limit(3; combinations)]", "[limit(3; [1,2] | combinations(#))]?",
    "# | tostring | ascii_downcase | ltrimstr(\"1\") | tonumber?", "getpath([#, #, #])?", "paths(..)?", "[limit(5; ..)]", "# | splits(\"\")?",
    "\"abc\" | [splits(\"\")]", "\"abc\" | sub(\"\"; \"x\"; \"g\")", "\"abc\" | [scan(\"\")] | length", "# | bsearch(#)?", "[1,2,3] | bsearch(#)",
    "[range(10)] | .[#:#] |= [#]", "[range(10)] | .[2:4] = [range(#)]?", "[range(10)] | del(.[#,#])", "[range(10)] | to_entries | map(select(.key < #)) | length",
    "input_line_number", "$__loc__", "# | tojson | tojson | tojson | length", "[#] | transpose?", "[[#]] | transpose?", "[[1],[1,2,3]] | transpose", "[[]] * # ?",
    "# | ascii?", "# | @base64d?", "# | ltrimstr(#)?", "# | trimstr(#)?", "# | abs?", "# | toarray?", "# | have_literal_numbers?", "# | getpath([\"a\"])?",
    "# | has(#)?", "[1] | has(#)", "{} | has(#)?", "# | in([1])?", "# | contains(#)?", "# | inside(#)?", "# | limit(#; 1, 2)", "[limit(#; 1, 2, 3)]",
    "[first(range(#; #))]", "[range(#; #)] | length", "until(. > #; . + 1)?", "[.[]? | numbers | . * #]", "[.. | numbers | pow(.; #)]", "[.. | strings | . * #]?",
    "[.. | arrays | .[#:#]]", "[.. | strings | .[#:#]]", "tostream | tojson", "[tostream] | fromstream(.[])", "fromstream(1 | truncate_stream([[0],#],[[1,0],#]))?",
    "getpath([#]) = 1", "paths |= .", "delpaths([[#]])", "delpaths([[#, #]])?", "to_entries | from_entries?", "[splits(#; #)]?", "ascii_downcase?", "@base64d?",
    "implode?", "tojson", "error(#)?", "try error(#) catch .", "try error catch .", "error(null)?", "try error({a:#}) catch .a", ".. |= (numbers | . * #)?",
    "limit(#; .[]?)", "first(.[]?)", "[.[]?][#]", "$__prog_name?", "splits(\"a\"; null)?", "ascii(65)?", "@json \"\\(#)\\(#)\"", "\"\\(#)\" * 3",
    "[#] | tojson | fromjson | .[0] == #", "# | . as $x | [range(3)] | map($x)", "# as [$a] | $a", "# as {a: $a} | $a", ". as [$a, [$b]] | [$a, $b]",
    "[#] | .[0] as $x | $x | tostring", "label $f | range(#) | ., break $f", "[label $f | range(10) | ., (select(. == #) | break $f)]", "getpath([\"a\", #, \"b\"]) = 1",
    "[.[]?] | sort_by(#)", "[.[]?] | group_by(#)?", "[.[]?] | unique_by(#)", "[.[]?] | min_by(#), max_by(#)", "[#, nan, -0, 0, null] | sort",
    "[nan] | sort | .[0] | isnan", "[#] | map(isinfinite, isnan, isnormal)", "# | tojson | test(\"e\")", "[limit(3; # | tostring | explode | .[])]",
    "(# | tostring) * 1000 | length", "# | significand?, drem(.; #)?, ldexp(.; 2)?", "[#, #] | (.[0] | frexp)?", "# | trunc | tostring",
    "# | @text | tonumber? // \"x\"", "{(# | tostring): 1}", "{\"a\": #} | .a", "{a: #} | tojson", "{a: #} | to_entries", "[{a: #}] | (.[0].a) |= . + 1",
    "{} | .a.b.c[#] = 1 | tojson | length", "null | [.[#]?, .a?]", "null | .[#:#]", "null | .[#:#] = [1]?", "null | setpath([#:#]; 1)?",
];

/// Programs that build a value nested deeper than the documented tree-depth limits (kept apart so that
/// a batch never hides other programs behind them).
const DEEP_TEMPLATES: &[&str] = &[
    "reduce range(1000) as $i ([]; [.])  | tojson | length", "reduce range(#) as $i (null; [.]) | tojson | length",
    "reduce range(300) as $i (null; {a: .}) | tojson | length", "reduce range(400) as $i (null; [.]) | tostring | length",
    "reduce range(400) as $i (null; [.]) | [..] | length", "reduce range(400) as $i (null; [.]) | flatten", "reduce range(400) as $i (null; [.]) | tojson | fromjson",
    "reduce range(400) as $i (null; [.]) | walk(.)", "reduce range(400) as $i (null; [.]) | . == .", "reduce range(400) as $i (null; [.]) | [paths] | length",
    "reduce range(400) as $i (null; [.]) | tostream", "reduce range(400) as $i (null; [.]) | sort", "reduce range(400) as $i (null; [.]) | @json",
    "reduce range(400) as $i (null; [.])", "reduce range(400) as $i (null; {a: .})", "[limit(400; repeat(\"[\"))] | add | fromjson?",
    "[limit(#; repeat(\"[\"))] | add | try fromjson catch \"e\"",
];

const INPUTS: &[&str] = &[
    "null", "0", "1", "-1", "\"abc\"", "\"\"", "[]", "{}", "[1,2,3]", "{\"a\":1,\"b\":[1,2,{\"c\":null}]}", "[[1,[2]],{\"a\":[3]},\"s\",null,true,1.5]", "1e400", "-0", "9007199254740993",
    "\"\\ud83d\\ude00\\u00e9\"", "[1e308,-1e308,5e-324,1e-400]", "{\"a\":{\"a\":{\"a\":{\"a\":{\"a\":null}}}}}", "[\"a\",\"b\",\"a,b\",\"a\\\"b\"]", "true", "123456789012345678901234567890", "[0,1,2,3,4,5,6,7,8,9]",
    "\"aGVsbG8=\"", "\"2015-03-05T23:51:47Z\"", "1425599507", "[2015,2,5,23,51,47,4,63]", "{\"key\":\"k\",\"value\":1}", "[[1,2],[3,4]]", "\"a,b, c\"",
];

pub fn fill(r: &mut Rng, t: &str) -> String {
    let mut out = String::new();
    for c in t.chars() {
        if c == '#' {
            out.push_str(*r.pick(EXTREME));
        } else {
            out.push(c);
        }
    }
    out
}

/// Small random well-formed program built from the templates.
fn composed(r: &mut Rng) -> String {
    let t = *r.pick(TEMPLATES);
    let a = fill(r, t);
    match r.below(8) {
        0 => format!("[{a}] | length"),
        1 => format!("try ({a}) catch \"caught\""),
        2 => format!("({a})?"),
        3 => {
            let t2 = *r.pick(TEMPLATES);
            let b = fill(r, t2);
            format!("({a}), ({b})")
        }
        4 => {
            let t2 = *r.pick(TEMPLATES);
            let b = fill(r, t2);
            format!("({a}) | ({b})")
        }
        5 => format!("[limit(3; {a})]"),
        6 => format!("first({a})"),
        _ => a,
    }
}

pub fn gen(tier: Tier, r: &mut Rng, emit: &mut dyn FnMut(String)) {
    let q = tier == Tier::Quick;
    let scale = |quick: usize, thorough: usize| if q { quick } else { thorough };
    // ---- parser ------------------------------------------------------------------------------
    for _ in 0..scale(5000, 100_000) {
        let p = program_soup(r);
        emit(format!("C30 parse {}", hex_bytes(p.as_bytes())));
    }
    for t in TEMPLATES {
        emit(format!("C30 parse {}", hex_bytes(t.as_bytes())));
    }
    // truncated escapes followed by end of input / multi-byte characters, in every string context
    let esc = escape_programs();
    for (i, p) in esc.iter().enumerate() {
        if !q || i % 2 == 0 {
            emit(format!("C30 parse {}", hex_bytes(p.as_bytes())));
        }
    }
    // batches: (program, input) pairs for the child-process leg, programs for the CLI leg
    let mut evb: Vec<String> = Vec::new();
    let mut clim: Vec<String> = Vec::new();
    let batch_ev = scale(150, 150);
    let batch_cli = scale(40, 40);
    fn flush_ev(evb: &mut Vec<String>, emit: &mut dyn FnMut(String)) {
        if !evb.is_empty() {
            emit(format!("C30 evb {}", evb.join(",")));
            evb.clear();
        }
    }
    fn flush_cli(clim: &mut Vec<String>, tool: &str, input: &str, emit: &mut dyn FnMut(String)) {
        if !clim.is_empty() {
            emit(format!("C30 clim {tool} {} {}", clim.join(","), hex_bytes(input.as_bytes())));
            clim.clear();
        }
    }
    // deep program nesting: one request per program (a stack overflow must be attributable)
    let depths: &[usize] = if q { &[200, 2000] } else { &[200, 2000, 20_000] };
    for &n in depths {
        for (o, m, c) in [
            ("[", "1", "]"), ("(", "1", ")"), ("{a:", "1", "}"), ("-", "1", ""), (".a|", ".", ""), ("if . then ", "1", " else . end"), ("try ", "1", ""),
            ("\"\\(", "1", ")\""), ("[.[]|", "1", "]"), ("1+", "1", ""), ("not|", "not", ""), (".[", "0", "]"), ("..|", ".", ""), ("-(", "1", ")"), ("1 as $x|", "$x", ""),
            ("def f:", "1", ";f"), ("reduce . as $x (", "0", ";.)"), ("{\"a\":", "1", "}"), ("@json \"\\(", "1", ")\""), ("?", "", ""), (".", "", "?"),
        ] {
            let p = format!("{}{}{}", o.repeat(n), m, c.repeat(n));
            let p = if o == "?" { format!(".{}", "?".repeat(n)) } else if o == "." { format!(".a{}", "?".repeat(n)) } else { p };
            if q {
                // quick: one child process for all depth-200 shapes
                evb.push(format!("{}:{}", hex_bytes(p.as_bytes()), hex_bytes(b"null")));
            } else {
                emit(format!("C30 evx {} {}", hex_bytes(p.as_bytes()), hex_bytes(b"null")));
            }
            if n <= 2000 && (!q || n == 2000) {
                emit(format!("C30 cli jq {} {}", hex_bytes(p.as_bytes()), hex_bytes(b"null")));
            }
        }
        if q {
            flush_ev(&mut evb, emit);
            break; // quick: the CLI sees only depth 2000 below
        }
    }
    if q {
        for (o, m, c) in [("[", "1", "]"), ("(", "1", ")"), ("-", "1", ""), ("if . then ", "1", " else . end"), (".a|", ".", ""), ("1+", "1", "")] {
            let p = format!("{}{}{}", o.repeat(2000), m, c.repeat(2000));
            emit(format!("C30 evx {} {}", hex_bytes(p.as_bytes()), hex_bytes(b"null")));
            emit(format!("C30 cli jq {} {}", hex_bytes(p.as_bytes()), hex_bytes(b"null")));
        }
    }
    // ---- soups that happen to parse are also evaluated -----------------------------------------
    let mut evaluated = 0;
    for _ in 0..scale(6000, 100_000) {
        let p = program_soup(r);
        if p.contains("input") || p.contains("halt") || p.contains("env") || p.contains("$ENV") || p.contains("debug") || p.contains("stderr") {
            continue;
        }
        if p.len() > 2 && std::panic::catch_unwind(|| succinctly::jq::parse(&p).is_ok()).unwrap_or(false) {
            let inp = *r.pick(INPUTS);
            evb.push(format!("{}:{}", hex_bytes(p.as_bytes()), hex_bytes(inp.as_bytes())));
            if evb.len() >= batch_ev {
                flush_ev(&mut evb, emit);
            }
            evaluated += 1;
            if evaluated >= scale(150, 800) {
                break;
            }
        }
    }
    flush_ev(&mut evb, emit);
    // ---- every template with a few operands, then random compositions --------------------------
    let cli_input = "[1,[2,{\"a\":\"x\"}],\"s\",null,1.5]";
    for t in TEMPLATES {
        for k in 0..scale(1, 3) {
            let p = fill(r, t);
            let inp = *r.pick(INPUTS);
            evb.push(format!("{}:{}", hex_bytes(p.as_bytes()), hex_bytes(inp.as_bytes())));
            if evb.len() >= batch_ev {
                flush_ev(&mut evb, emit);
            }
            if k == 0 && !p.contains("input") && !p.contains("halt") && !p.contains("def ") && !p.contains("label") {
                clim.push(hex_bytes(p.as_bytes()));
                if clim.len() >= batch_cli {
                    flush_cli(&mut clim, "jq", cli_input, emit);
                }
            }
        }
    }
    flush_cli(&mut clim, "jq", cli_input, emit);
    for i in 0..scale(450, 2_700) {
        let p = composed(r);
        let inp = *r.pick(INPUTS);
        evb.push(format!("{}:{}", hex_bytes(p.as_bytes()), hex_bytes(inp.as_bytes())));
        if evb.len() >= batch_ev {
            flush_ev(&mut evb, emit);
        }
        if i % 4 == 0 && !p.contains("input") && !p.contains("halt") && !p.contains("def ") && !p.contains("label") {
            clim.push(hex_bytes(p.as_bytes()));
            if clim.len() >= batch_cli {
                flush_cli(&mut clim, if (i / 8) % 4 == 0 { "yq" } else { "jq" }, cli_input, emit);
            }
        }
    }
    flush_ev(&mut evb, emit);
    flush_cli(&mut clim, "jq", cli_input, emit);
    // programs that build values deeper than the depth limits: their own batches (quick) / one
    // process each (thorough)
    let mut deep_cli = Vec::new();
    for t in DEEP_TEMPLATES {
        let p = fill(r, t);
        if q {
            evb.push(format!("{}:{}", hex_bytes(p.as_bytes()), hex_bytes(b"null")));
        } else {
            emit(format!("C30 evx {} {}", hex_bytes(p.as_bytes()), hex_bytes(b"null")));
            emit(format!("C30 cli jq {} {}", hex_bytes(p.as_bytes()), hex_bytes(b"null")));
        }
        deep_cli.push(hex_bytes(p.as_bytes()));
    }
    flush_ev(&mut evb, emit);
    if q {
        emit(format!("C30 clim jq {} {}", deep_cli.join(","), hex_bytes(b"null")));
    }
    // a few programs individually through the CLI (exit status of the program itself)
    for _ in 0..scale(12, 60) {
        let t = *r.pick(TEMPLATES);
        let p = fill(r, t);
        let inp = *r.pick(INPUTS);
        emit(format!("C30 cli jq {} {}", hex_bytes(p.as_bytes()), hex_bytes(inp.as_bytes())));
    }
    // ---- extreme-operand programs whose run is also diffed with the jq model --------------------
    for _ in 0..scale(300, 4_000) {
        let p = if r.chance(1, 2) {
            let t = *r.pick(TEMPLATES);
            fill(r, t)
        } else {
            composed(r)
        };
        // builtins with no model (regex, dates, environment, streams of inputs) cannot get a verdict
        if ["input", "halt", "env", "$ENV", "debug", "stderr", "now", "date", "time", "strf", "strp", "$__", "test(", "match(", "sub(", "scan(", "splits", "ascii", "@sh", "@base32"]
            .iter()
            .any(|w| p.contains(w))
        {
            continue;
        }
        // Constructs whose behaviour on non-integer / NaN / out-of-range operands differs between the
        // implementation and the jq model in ways that are value semantics (C23/C24), not crashes: the
        // thorough tier found `limit(1e10; …)` raising "limit requires non-negative integer",
        // `flatten(0.5)` / `flatten(1e18)` erroring, `nth(0.5; …)` truncating, `del(.[nan, …])`,
        // `-0.5 % 2` printing `0` (jq: `-0`), the sign dropped from negative operands in the model's
        // error messages, `nan | trunc`, `*_by(nan)`, `9007199254740993 | floor`, `range(…; nan)`,
        // interpolation of i64::MIN.  They stay in the crash-only legs (evb / evx / clim / cli); only
        // the model-diffed leg skips them.  Reported to the owners of C23/C24.
        if ["limit(1e", "limit(9", "limit(18", "limit(4", "limit(2147", "flatten(", "nth(", "del(.[", "delpaths", "%", "trunc", "_by(", "indices", "floor", "nan", "\\(-", "-0.5", "-1e19 *", "-1e308 *", "-infinite *", "9223372036854775807", "9223372036854775808"]
            .iter()
            .any(|w| p.contains(w))
        {
            continue;
        }
        let inp = *r.pick(INPUTS);
        emit(format!("C30 evm {} {}", hex_bytes(p.as_bytes()), hex_bytes(inp.as_bytes())));
    }
    // ---- the guards, exactly ------------------------------------------------------------------
    for _ in 0..scale(300, 5000) {
        let pick = |r: &mut Rng| -> i64 {
            match r.below(6) {
                0 => r.below(20) as i64 - 5,
                1 => *r.pick(&[99_999i64, 100_000, 100_001, 200_000, 1_000_000]),
                2 => -(r.below(200_000) as i64),
                3 => r.below(300_000) as i64,
                _ => r.below(50) as i64,
            }
        };
        let (f, t) = (pick(r), pick(r));
        let s = match r.below(5) {
            0 => 0,
            1 => -(r.range(1, 5) as i64),
            2 => r.range(1, 1000) as i64,
            _ => r.range(1, 3) as i64,
        };
        emit(format!("C30 guard range {f} {t} {s}"));
    }
    for _ in 0..scale(200, 3000) {
        let len = r.below(5);
        let n = match r.below(5) {
            0 => -(r.below(10) as i64) - 1,
            1 => 0,
            _ => r.below(2000) as i64,
        };
        emit(format!("C30 guard repeat {len} {n}"));
    }
    for _ in 0..scale(200, 3000) {
        let len = r.below(8);
        let idx = match r.below(4) {
            0 => -(r.below(12) as i64),
            1 => r.below(8) as i64,
            _ => r.below(3000) as i64,
        };
        emit(format!("C30 guard setpath {len} {idx}"));
    }
    for _ in 0..scale(200, 3000) {
        let n = r.below(30) as i64 - 3;
        let m = r.below(40);
        emit(format!("C30 guard limit {n} {m}"));
    }
}
