//! C05 — JSON semi-index engines: scalar reference, PFSM, AVX2, SSE2, dispatcher, for the standard
//! and the simple cursor; plus `classify_chars` masks and `BitWriter`.
use crate::rng::Rng;
use crate::util::*;
use crate::Tier;
use succinctly::json::simple::{SemiIndex as SimpleSemi, State as SimpleState};
use succinctly::json::standard::{SemiIndex, State};
use succinctly::verif_hooks as h;

fn has_avx2() -> bool {
    std::arch::is_x86_feature_detected!("avx2")
}

/// Per-byte class codes derived by running the real `classify_chars`: bit j of entry b is set iff
/// mask j (quotes, backslashes, opens, closes, delims, value_chars) has the lane holding byte b set.
/// Every lane position sees a different byte (chunk = base, base+1, …).
fn class_codes(width: usize, f: &dyn Fn(&[u8]) -> [u32; 6]) -> Vec<u32> {
    let mut codes = vec![0u32; 256];
    let mut base = 0usize;
    while base < 256 {
        let chunk: Vec<u8> = (0..width).map(|i| ((base + i) & 0xFF) as u8).collect();
        let m = f(&chunk);
        for i in 0..width {
            let mut c = 0u32;
            for (j, mask) in m.iter().enumerate() {
                c |= ((mask >> i) & 1) << j;
            }
            // bits above the lane count must be clear
            if width < 32 && m.iter().any(|x| x >> width != 0) {
                c |= 1 << 7;
            }
            codes[(base + i) & 0xFF] = c;
        }
        base += width;
    }
    codes
}

pub fn tables() -> Vec<(&'static str, String)> {
    let mut v = vec![
        ("TRANSITION_TABLE", crate::json_list(h::TRANSITION_TABLE.iter())),
        ("PHI_TABLE", crate::json_list(h::PHI_TABLE.iter())),
        (
            "JSON_CLASS_SSE2",
            crate::json_list(class_codes(16, &|c| h::json_classify_sse2(c.try_into().unwrap())).iter()),
        ),
    ];
    if has_avx2() {
        v.push((
            "JSON_CLASS_AVX2",
            crate::json_list(class_codes(32, &|c| h::json_classify_avx2(c.try_into().unwrap()).unwrap()).iter()),
        ));
    }
    v
}

fn st(s: State) -> &'static str {
    match s {
        State::InJson => "J",
        State::InString => "S",
        State::InEscape => "E",
        State::InValue => "V",
    }
}

fn sst(s: SimpleState) -> &'static str {
    match s {
        SimpleState::InJson => "J",
        SimpleState::InString => "S",
        SimpleState::InEscape => "E",
    }
}

fn show(ib: &[u64], bp: &[u64], s: &str) -> String {
    format!("{}|{}|{}", hex_words(ib), hex_words(bp), s)
}

/// First engine in full, the others `=` when byte-identical to the first, else in full.
fn compact(parts: Vec<Option<String>>) -> String {
    let first = parts[0].clone().unwrap();
    let mut out = vec![first.clone()];
    for p in &parts[1..] {
        out.push(match p {
            None => "-".to_string(),
            Some(s) if *s == first => "=".to_string(),
            Some(s) => s.clone(),
        });
    }
    out.join(";")
}

pub fn exec(a: &[&str]) -> String {
    match a[0] {
        // std <avx2:0|1> <bytes> -> scalar;pfsm;avx2|-;sse2;dispatch   (each ib|bp|state, `=` if same as scalar)
        "std" => {
            if (a[1] == "1") != has_avx2() {
                return "HOST-AVX2-MISMATCH".into();
            }
            let b = parse_bytes(a[2]);
            let f = |x: SemiIndex| show(&x.ib, &x.bp, st(x.state));
            compact(vec![
                Some(f(h::json_standard_scalar(&b))),
                Some(f(h::json_standard_pfsm(&b))),
                h::json_standard_avx2(&b).map(f),
                Some(f(h::json_standard_sse2(&b))),
                Some(f(h::json_standard_dispatch(&b))),
            ])
        }
        // smp <avx2:0|1> <bytes> -> scalar;avx2|-;sse2;dispatch
        "smp" => {
            if (a[1] == "1") != has_avx2() {
                return "HOST-AVX2-MISMATCH".into();
            }
            let b = parse_bytes(a[2]);
            let f = |x: SimpleSemi| show(&x.ib, &x.bp, sst(x.state));
            compact(vec![
                Some(f(h::json_simple_scalar(&b))),
                h::json_simple_avx2(&b).map(f),
                Some(f(h::json_simple_sse2(&b))),
                Some(f(h::json_simple_dispatch(&b))),
            ])
        }
        // cls <avx2:0|1> <32 bytes> -> avx2 masks (6, hex) | - ; sse2 masks of the first 16 bytes
        "cls" => {
            if (a[1] == "1") != has_avx2() {
                return "HOST-AVX2-MISMATCH".into();
            }
            let b = parse_bytes(a[2]);
            let mut c32 = [0u8; 32];
            c32.copy_from_slice(&b[..32]);
            let mut c16 = [0u8; 16];
            c16.copy_from_slice(&b[..16]);
            let f = |m: [u32; 6]| m.iter().map(|x| format!("{x:x}")).collect::<Vec<_>>().join(",");
            format!(
                "{};{}",
                h::json_classify_avx2(&c32).map(f).unwrap_or_else(|| "-".into()),
                f(h::json_classify_sse2(&c16))
            )
        }
        // bw <ops> -> words;len      ops: b0 b1 w<hex>:<count> z<count>, '+'-separated
        "bw" => {
            let mut w = succinctly::json::BitWriter::with_capacity(1);
            if a[1] != "-" {
                for op in a[1].split('+') {
                    let (k, rest) = op.split_at(1);
                    match k {
                        "b" => w.write_bit(rest == "1"),
                        "w" => {
                            let (v, c) = rest.split_once(':').unwrap();
                            w.write_bits(u64::from_str_radix(v, 16).unwrap(), c.parse().unwrap())
                        }
                        "z" => w.write_zeros(rest.parse().unwrap()),
                        _ => return "BAD-OP".into(),
                    }
                }
            }
            let len = w.len();
            format!("{};{}", hex_words(&w.finish()), len)
        }
        _ => "BAD-OP".into(),
    }
}

// ------------------------------------------------------------------------------------------------
// generators
// ------------------------------------------------------------------------------------------------

fn gen_ws(r: &mut Rng, out: &mut Vec<u8>, heavy: bool) {
    let n = if heavy { r.below(6) } else if r.chance(1, 4) { r.below(3) } else { 0 };
    for _ in 0..n {
        out.push(*r.pick(&[b' ', b' ', b'\n', b'\t', b'\r']));
    }
}

pub fn gen_string(r: &mut Rng, out: &mut Vec<u8>) {
    out.push(b'"');
    let n = match r.below(8) {
        0 => 0,
        1 => r.below(40),
        _ => r.below(9),
    };
    for _ in 0..n {
        match r.below(14) {
            0 => out.extend_from_slice(b"\\\""),
            1 => out.extend_from_slice(b"\\\\"),
            2 => {
                out.push(b'\\');
                out.push(*r.pick(b"/bfnrt"));
            }
            3 => {
                out.extend_from_slice(b"\\u");
                for _ in 0..4 {
                    out.push(*r.pick(b"0123456789abcdefABCDEF"));
                }
            }
            4 => out.push(*r.pick(b"{}[]:,")), // structural bytes inside strings
            5 => out.extend_from_slice("é".as_bytes()),
            6 => out.push(b' '),
            _ => out.push(*r.pick(b"abcxyzABC0123456789_-+.eE")),
        }
    }
    out.push(b'"');
}

pub fn gen_number(r: &mut Rng, out: &mut Vec<u8>) {
    if r.chance(1, 3) {
        out.push(b'-');
    }
    if r.chance(1, 5) {
        out.push(b'0');
    } else {
        out.push(*r.pick(b"123456789"));
        for _ in 0..r.below(5) {
            out.push(*r.pick(b"0123456789"));
        }
    }
    if r.chance(1, 4) {
        out.push(b'.');
        for _ in 0..r.range(1, 4) {
            out.push(*r.pick(b"0123456789"));
        }
    }
    if r.chance(1, 5) {
        out.push(*r.pick(b"eE"));
        if r.chance(1, 2) {
            out.push(*r.pick(b"+-"));
        }
        for _ in 0..r.range(1, 3) {
            out.push(*r.pick(b"0123456789"));
        }
    }
}

/// A valid RFC 8259 value of roughly `budget` nodes.
pub fn gen_value(r: &mut Rng, out: &mut Vec<u8>, budget: &mut i64, depth: u32, heavy_ws: bool) {
    *budget -= 1;
    let leaf = *budget <= 0 || depth > 12 || r.chance(2, 5);
    if leaf {
        match r.below(7) {
            0 => out.extend_from_slice(b"true"),
            1 => out.extend_from_slice(b"false"),
            2 => out.extend_from_slice(b"null"),
            3 | 4 => gen_number(r, out),
            _ => gen_string(r, out),
        }
        return;
    }
    let n = r.below(6);
    if r.chance(1, 2) {
        out.push(b'[');
        gen_ws(r, out, heavy_ws);
        for i in 0..n {
            if i > 0 {
                out.push(b',');
                gen_ws(r, out, heavy_ws);
            }
            gen_value(r, out, budget, depth + 1, heavy_ws);
            gen_ws(r, out, heavy_ws);
        }
        out.push(b']');
    } else {
        out.push(b'{');
        gen_ws(r, out, heavy_ws);
        for i in 0..n {
            if i > 0 {
                out.push(b',');
                gen_ws(r, out, heavy_ws);
            }
            gen_string(r, out);
            gen_ws(r, out, heavy_ws);
            out.push(b':');
            gen_ws(r, out, heavy_ws);
            gen_value(r, out, budget, depth + 1, heavy_ws);
            gen_ws(r, out, heavy_ws);
        }
        out.push(b'}');
    }
}

/// A valid JSON text (value with optional surrounding whitespace), at most `max` bytes.
pub fn gen_json(r: &mut Rng, nodes: i64, max: usize) -> Vec<u8> {
    loop {
        let mut out = Vec::new();
        let heavy = r.chance(1, 4);
        gen_ws(r, &mut out, heavy);
        let mut b = nodes;
        gen_value(r, &mut out, &mut b, 0, heavy);
        gen_ws(r, &mut out, heavy);
        if out.len() <= max {
            return out;
        }
    }
}

const SOUP: &[u8] = b"{}[]\",:\\ tfn0123456789.eE+-\n\t";

fn soup(r: &mut Rng, n: usize) -> Vec<u8> {
    (0..n).map(|_| *r.pick(SOUP)).collect()
}

fn emit_both(emit: &mut dyn FnMut(String), bytes: &[u8]) {
    let f = if has_avx2() { 1 } else { 0 };
    let hx = hex_bytes(bytes);
    emit(format!("C05 std {f} {hx}"));
    emit(format!("C05 smp {f} {hx}"));
}

pub fn gen(tier: Tier, r: &mut Rng, emit: &mut dyn FnMut(String)) {
    let quick = tier == Tier::Quick;
    let f = if has_avx2() { 1 } else { 0 };

    // --- classification: every byte value in every lane position, plus random chunks
    for base in 0..256usize {
        let chunk: Vec<u8> = (0..32).map(|i| ((base + i * 37) & 0xFF) as u8).collect();
        emit(format!("C05 cls {f} {}", hex_bytes(&chunk)));
    }
    for _ in 0..(if quick { 200 } else { 20_000 }) {
        let chunk: Vec<u8> = (0..32).map(|_| if r.chance(1, 2) { *r.pick(SOUP) } else { r.byte() }).collect();
        emit(format!("C05 cls {f} {}", hex_bytes(&chunk)));
    }

    // --- BitWriter op sequences
    for _ in 0..(if quick { 400 } else { 40_000 }) {
        let n = r.below(40);
        let mut ops = Vec::new();
        for _ in 0..n {
            ops.push(match r.below(6) {
                0 | 1 => format!("b{}", r.below(2)),
                2 | 3 => {
                    let c = match r.below(4) {
                        0 => 64,
                        1 => r.below(3),
                        _ => r.below(65),
                    };
                    format!("w{:x}:{}", r.next_u64(), c)
                }
                _ => {
                    let c = match r.below(4) {
                        0 => r.below(4),
                        1 => 64 * r.below(4) + r.below(2),
                        _ => r.below(200),
                    };
                    format!("z{c}")
                }
            });
        }
        emit(format!("C05 bw {}", if ops.is_empty() { "-".to_string() } else { ops.join("+") }));
    }

    // --- every length 0..=130 and around larger chunk multiples, three fillers
    let mut lens: Vec<usize> = (0..=130).collect();
    for m in [192usize, 256, 512, 1024, 2048, 4096] {
        lens.extend_from_slice(&[m - 33, m - 32, m - 31, m - 17, m - 16, m - 15, m - 1, m, m + 1]);
    }
    for &n in &lens {
        if n > 4100 {
            continue;
        }
        emit_both(emit, &vec![b'['; n]);
        emit_both(emit, &soup(r, n));
        let mut j = gen_json(r, (n / 4) as i64 + 1, 1 << 20);
        j.resize(n, b' ');
        emit_both(emit, &j);
    }

    // --- alignment sweeps: a feature placed at every offset 0..=70 after a filler
    let features: &[&[u8]] = &[
        b"\"",             // quote
        b"\\\"",           // escaped quote (odd run)
        b"\\\\\"",         // even run then quote
        b"\\\\\\\"",       // odd run of 3 then quote
        b"\\\\\\\\\"",     // even run of 4 then quote
        b"\\u00e9",        // escape
        b"1",              // value start
        b"-12.5e+3",       // value
        b"true",           // literal
        b"[",              // bracket
        b"]",
        b"{",
        b"}",
        b",",
        b":",
        b"\\",             // lone backslash (escape state carried over the edge)
    ];
    // fillers put the scanner in a chosen state before the feature: InJson, InString, InValue
    let fillers: &[(&[u8], u8)] = &[(b"", b' '), (b"\"", b'a'), (b"", b'7'), (b"[", b','), (b"\"", b'\\')];
    let tails: &[&[u8]] = &[b"", b"\"", b" 1,\"x\\\"y\"]}", b"\\\"\"a\":[1,2]"];
    for off in 0..=70usize {
        for feat in features {
            for (pre, fill) in fillers {
                if off < pre.len() {
                    continue;
                }
                for tail in tails {
                    if quick && !r.chance(1, 3) {
                        continue;
                    }
                    let mut v = pre.to_vec();
                    v.resize(off, *fill);
                    v.extend_from_slice(feat);
                    v.extend_from_slice(tail);
                    emit_both(emit, &v);
                }
            }
        }
    }
    // the same with the feature placed just before a far chunk edge
    for edge in [96usize, 128, 256, 1024, 4064] {
        for d in 0..=5usize {
            for feat in features {
                if quick && !r.chance(1, 4) {
                    continue;
                }
                let off = edge - d;
                let mut v = vec![b'"'];
                v.resize(off, b'x');
                v.extend_from_slice(feat);
                v.extend_from_slice(b"\" ,[1]");
                emit_both(emit, &v);
            }
        }
    }

    // --- valid JSON, mutations, token soup, arbitrary bytes
    let n = if quick { 250 } else { 10_000 };
    for i in 0..n {
        let nodes = match i % 5 {
            0 => 3,
            1 => 12,
            2 => 40,
            3 => 120,
            _ => 400,
        };
        let j = gen_json(r, nodes, 4096);
        emit_both(emit, &j);
        // single-byte mutations
        if !j.is_empty() {
            for _ in 0..2 {
                let mut m = j.clone();
                let p = r.usize_below(m.len());
                match r.below(4) {
                    0 => m[p] = *r.pick(SOUP),
                    1 => m[p] = r.byte(),
                    2 => {
                        m.remove(p);
                    }
                    _ => m.insert(p, *r.pick(SOUP)),
                }
                emit_both(emit, &m);
            }
            // truncation
            let cut = r.usize_below(j.len() + 1);
            emit_both(emit, &j[..cut]);
        }
        let sl = match i % 4 {
            0 => r.usize_below(20),
            1 => r.usize_below(100),
            2 => r.usize_below(600),
            _ => r.usize_below(4097),
        };
        emit_both(emit, &soup(r, sl));
        let al = if i % 3 == 0 { r.usize_below(4097) } else { r.usize_below(200) };
        let arb: Vec<u8> = (0..al).map(|_| r.byte()).collect();
        emit_both(emit, &arb);
    }
}
