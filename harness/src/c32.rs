//! C32 — `SimpleJsonIndex` navigation (structural_pos / count / index, find_close, skip_value,
//! children) on generated valid documents (every structural position, every value start) plus a
//! malformed stream.
use crate::c05::gen_json;
use crate::rng::Rng;
use crate::util::*;
use crate::Tier;
use succinctly::json::SimpleJsonIndex;

fn has_avx2() -> bool {
    std::arch::is_x86_feature_detected!("avx2")
}

pub fn tables() -> Vec<(&'static str, String)> {
    Vec::new()
}

pub fn exec(a: &[&str]) -> String {
    match a[0] {
        // q <avx2:0|1> <bytes> <positions>
        //   -> count|structural positions|structural_pos(count)|p:index:find_close:skip_value:children;…
        "q" => {
            if (a[1] == "1") != has_avx2() {
                return "HOST-AVX2-MISMATCH".into();
            }
            let json = parse_bytes(a[2]);
            let ps: Vec<usize> = if a[3] == "-" { Vec::new() } else { a[3].split(',').map(num).collect() };
            let idx = SimpleJsonIndex::build(&json);
            let count = idx.structural_count();
            let all: Vec<usize> = idx.structural_positions(&json).collect();
            let mut out = format!("{}|{}|{}|", count, list(&all), opt(idx.structural_pos(count)));
            let mut parts = Vec::new();
            for p in ps {
                let kids = match idx.children(&json, p) {
                    None => "-".to_string(),
                    Some(it) => format!("[{}]", it.map(|x| x.to_string()).collect::<Vec<_>>().join(".")),
                };
                parts.push(format!(
                    "{}:{}:{}:{}:{}",
                    p,
                    opt(idx.structural_index(p)),
                    opt(idx.find_close(&json, p)),
                    opt(idx.skip_value(&json, p)),
                    kids
                ));
            }
            out.push_str(&if parts.is_empty() { "-".to_string() } else { parts.join(";") });
            out
        }
        _ => "BAD-OP".into(),
    }
}

fn emit_q(emit: &mut dyn FnMut(String), r: &mut Rng, json: &[u8], all_limit: usize) {
    let f = if has_avx2() { 1 } else { 0 };
    let n = json.len();
    let mut ps: Vec<usize> = Vec::new();
    if n <= all_limit {
        ps.extend(0..=n + 1);
    } else {
        // every structural byte and every byte that can start a value (sampled down), plus random positions
        let mut cand: Vec<usize> = (0..n)
            .filter(|&i| matches!(json[i], b'{' | b'[' | b'}' | b']' | b',' | b':' | b'"' | b't' | b'f' | b'n' | b'-' | b'0'..=b'9'))
            .collect();
        while cand.len() > 60 {
            let k = r.usize_below(cand.len());
            cand.swap_remove(k);
        }
        cand.sort_unstable();
        ps.extend(cand);
        for _ in 0..6 {
            ps.push(r.usize_below(n + 2));
        }
        ps.push(n);
    }
    emit(format!("C32 q {f} {} {}", hex_bytes(json), list(&ps)));
}

pub fn gen(tier: Tier, r: &mut Rng, emit: &mut dyn FnMut(String)) {
    let quick = tier == Tier::Quick;
    for s in [&b""[..], b"{}", b"[]", b"[[]]", b"{\"a\":[1,{\"b\":null}],\"c\":\"x\\\"]\"}", b" [ 1 , 2 ] ", b"\"abc", b"[1,2", b"]]", b"tru", b"-", b"\"a\\"] {
        emit_q(emit, r, s, 300);
    }
    let n = if quick { 1500 } else { 40_000 };
    for i in 0..n {
        let nodes = match i % 6 {
            0 => 2,
            1 => 6,
            2 => 15,
            3 => 40,
            4 => 120,
            _ => 400,
        };
        let j = gen_json(r, nodes, 4096);
        emit_q(emit, r, &j, 160);
        if i % 4 == 0 && !j.is_empty() {
            // malformed stream: mutation / truncation
            let mut m = j.clone();
            let p = r.usize_below(m.len());
            match r.below(4) {
                0 => m[p] = *r.pick(b"{}[]\",:\\ tfn0-9.eE+-"),
                1 => {
                    m.remove(p);
                }
                2 => m.truncate(p),
                _ => m.insert(p, *r.pick(b"{}[]\",:\\")),
            }
            emit_q(emit, r, &m, 160);
        }
        if i % 16 == 0 {
            let l = r.usize_below(120);
            let soup: Vec<u8> = (0..l).map(|_| *r.pick(b"{}[]\",:\\ tfn0123456789.eE+-\n")).collect();
            emit_q(emit, r, &soup, 160);
        }
    }
}
