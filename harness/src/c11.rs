//! C11 — `succinctly jq` stdout of a JSON document reads back to the same value under every
//! output option. Drives the freshly built CLI (`SV_CLI`, default
//! `<verif>/.build/target-cli/release/succinctly`), several documents per process.
//!
//! Request : `C11 jq <flags> <prog-hex> <nums> <exp> <doc-hex>[,<doc-hex>…]`
//!   flags : comma list of c, i0..i7, tab, S, a, r, j, z (--raw-output0), seq, P (--preserve-input)
//!   nums  : `lit=spelling;…` — `format_number_jq_compat` of every number literal of the documents
//!           (the model treats number re-spelling as a parameter; C10 owns that function)
//!   exp   : digests of the expected results computed from the generator's own tree (`-` = none)
//! Answer  : `rc=<n> route=<fast|lazy|mat> out=<hex | D:<len>:<fnv64>> <READBACK-OK|READBACK-FAIL …> <SORTED-OK|SORTED-FAIL|-> #vk=<c|o per value>`
//! The READBACK verdict is the property oracle: stdout is parsed with the strict reader below
//! (independent of the Lean model) and compared with the expected values after jq-style duplicate
//! collapse; numbers compare as doubles, strings exactly.
use crate::rng::Rng;
use crate::util::*;
use crate::Tier;
use std::io::{Read, Write};
use std::process::{Command, Stdio};

pub fn tables() -> Vec<(&'static str, String)> {
    Vec::new()
}

// ------------------------------------------------------------------ oracle values

#[derive(Clone, Debug, PartialEq)]
pub enum J {
    Null,
    Bool(bool),
    Num(u64), // f64 bit pattern
    Str(String),
    Arr(Vec<J>),
    Obj(Vec<(String, J)>),
}

/// jq's duplicate-key rule: first position, last value — at every level.
pub fn collapse(v: &J) -> J {
    match v {
        J::Arr(xs) => J::Arr(xs.iter().map(collapse).collect()),
        J::Obj(fs) => {
            let mut out: Vec<(String, J)> = Vec::new();
            for (k, x) in fs {
                let x = collapse(x);
                if let Some(slot) = out.iter_mut().find(|(k2, _)| k2 == k) {
                    slot.1 = x;
                } else {
                    out.push((k.clone(), x));
                }
            }
            J::Obj(out)
        }
        other => other.clone(),
    }
}

/// Canonical bytes of a (collapsed) value: objects with keys in byte order.
fn canon_bytes(v: &J, out: &mut Vec<u8>) {
    match v {
        J::Null => out.push(b'n'),
        J::Bool(b) => out.push(if *b { b't' } else { b'f' }),
        J::Num(bits) => {
            out.push(b'#');
            out.extend_from_slice(&bits.to_be_bytes());
        }
        J::Str(s) => {
            out.push(b's');
            out.extend_from_slice(&(s.len() as u64).to_be_bytes());
            out.extend_from_slice(s.as_bytes());
        }
        J::Arr(xs) => {
            out.push(b'[');
            for x in xs {
                canon_bytes(x, out);
            }
            out.push(b']');
        }
        J::Obj(fs) => {
            let mut idx: Vec<usize> = (0..fs.len()).collect();
            idx.sort_by(|a, b| fs[*a].0.as_bytes().cmp(fs[*b].0.as_bytes()));
            out.push(b'{');
            for i in idx {
                canon_bytes(&J::Str(fs[i].0.clone()), out);
                canon_bytes(&fs[i].1, out);
            }
            out.push(b'}');
        }
    }
}

pub fn fnv64(bs: &[u8]) -> u64 {
    let mut h: u64 = 0xcbf29ce484222325;
    for b in bs {
        h = (h ^ *b as u64).wrapping_mul(0x100000001b3);
    }
    h
}

pub fn digest(v: &J) -> u64 {
    let mut b = Vec::new();
    canon_bytes(v, &mut b);
    fnv64(&b)
}

// ------------------------------------------------------------------ strict RFC 8259 reader

pub struct Rd<'a> {
    pub s: &'a [u8],
    pub i: usize,
}

fn is_ws(b: u8) -> bool {
    b == b' ' || b == b'\t' || b == b'\n' || b == b'\r'
}

impl<'a> Rd<'a> {
    pub fn ws(&mut self) {
        while self.i < self.s.len() && is_ws(self.s[self.i]) {
            self.i += 1;
        }
    }
    fn peek(&self) -> Option<u8> {
        self.s.get(self.i).copied()
    }
    fn hex4(&mut self) -> Result<u32, String> {
        if self.i + 4 > self.s.len() {
            return Err("short \\u".into());
        }
        let mut n = 0u32;
        for k in 0..4 {
            let c = self.s[self.i + k];
            let d = match c {
                b'0'..=b'9' => c - b'0',
                b'a'..=b'f' => c - b'a' + 10,
                b'A'..=b'F' => c - b'A' + 10,
                _ => return Err("bad hex".into()),
            };
            n = n * 16 + d as u32;
        }
        self.i += 4;
        Ok(n)
    }
    /// after the opening quote
    fn string(&mut self) -> Result<String, String> {
        let mut out: Vec<u8> = Vec::new();
        loop {
            let Some(b) = self.peek() else { return Err("eof in string".into()) };
            self.i += 1;
            match b {
                b'"' => break,
                b'\\' => {
                    let Some(e) = self.peek() else { return Err("eof in escape".into()) };
                    self.i += 1;
                    let c: char = match e {
                        b'"' => '"',
                        b'\\' => '\\',
                        b'/' => '/',
                        b'b' => '\u{8}',
                        b'f' => '\u{c}',
                        b'n' => '\n',
                        b'r' => '\r',
                        b't' => '\t',
                        b'u' => {
                            let n = self.hex4()?;
                            if (0xD800..0xDC00).contains(&n) {
                                if self.peek() != Some(b'\\') || self.s.get(self.i + 1) != Some(&b'u') {
                                    return Err("unpaired high surrogate".into());
                                }
                                self.i += 2;
                                let m = self.hex4()?;
                                if !(0xDC00..0xE000).contains(&m) {
                                    return Err("unpaired high surrogate".into());
                                }
                                char::from_u32(0x10000 + ((n - 0xD800) << 10) + (m - 0xDC00)).ok_or("scalar")?
                            } else if (0xDC00..0xE000).contains(&n) {
                                return Err("unpaired low surrogate".into());
                            } else {
                                char::from_u32(n).ok_or("scalar")?
                            }
                        }
                        _ => return Err(format!("bad escape \\{}", e as char)),
                    };
                    let mut buf = [0u8; 4];
                    out.extend_from_slice(c.encode_utf8(&mut buf).as_bytes());
                }
                0..=0x1f => return Err(format!("raw control character {b:#x} in string")),
                _ => out.push(b),
            }
        }
        String::from_utf8(out).map_err(|_| "string is not well-formed UTF-8".to_string())
    }
    fn number(&mut self) -> Result<J, String> {
        let st = self.i;
        let s = self.s;
        let mut i = self.i;
        if s.get(i) == Some(&b'-') {
            i += 1;
        }
        match s.get(i) {
            Some(b'0') => i += 1,
            Some(b'1'..=b'9') => {
                while matches!(s.get(i), Some(b'0'..=b'9')) {
                    i += 1;
                }
            }
            _ => return Err("bad number".into()),
        }
        if s.get(i) == Some(&b'.') {
            i += 1;
            if !matches!(s.get(i), Some(b'0'..=b'9')) {
                return Err("bad fraction".into());
            }
            while matches!(s.get(i), Some(b'0'..=b'9')) {
                i += 1;
            }
        }
        if matches!(s.get(i), Some(b'e' | b'E')) {
            i += 1;
            if matches!(s.get(i), Some(b'+' | b'-')) {
                i += 1;
            }
            if !matches!(s.get(i), Some(b'0'..=b'9')) {
                return Err("bad exponent".into());
            }
            while matches!(s.get(i), Some(b'0'..=b'9')) {
                i += 1;
            }
        }
        // a number token must not run into more number characters
        if matches!(s.get(i), Some(b'0'..=b'9' | b'.' | b'e' | b'E' | b'+' | b'-')) {
            return Err("number token runs on".into());
        }
        self.i = i;
        let txt = std::str::from_utf8(&s[st..i]).unwrap();
        let f: f64 = txt.parse().map_err(|_| "f64 parse".to_string())?;
        Ok(J::Num(f.to_bits()))
    }
    /// one value starting exactly at `self.i`
    pub fn value(&mut self, depth: usize) -> Result<J, String> {
        if depth > 2000 {
            return Err("too deep".into());
        }
        let Some(b) = self.peek() else { return Err("eof".into()) };
        match b {
            b'[' => {
                self.i += 1;
                self.ws();
                let mut xs = Vec::new();
                if self.peek() == Some(b']') {
                    self.i += 1;
                    return Ok(J::Arr(xs));
                }
                loop {
                    xs.push(self.value(depth + 1)?);
                    self.ws();
                    match self.peek() {
                        Some(b',') => {
                            self.i += 1;
                            self.ws();
                        }
                        Some(b']') => {
                            self.i += 1;
                            return Ok(J::Arr(xs));
                        }
                        _ => return Err(format!("array: expected , or ] at {}", self.i)),
                    }
                }
            }
            b'{' => {
                self.i += 1;
                self.ws();
                let mut fs = Vec::new();
                if self.peek() == Some(b'}') {
                    self.i += 1;
                    return Ok(J::Obj(fs));
                }
                loop {
                    if self.peek() != Some(b'"') {
                        return Err(format!("object: expected key at {}", self.i));
                    }
                    self.i += 1;
                    let k = self.string()?;
                    self.ws();
                    if self.peek() != Some(b':') {
                        return Err(format!("object: expected : at {}", self.i));
                    }
                    self.i += 1;
                    self.ws();
                    let x = self.value(depth + 1)?;
                    fs.push((k, x));
                    self.ws();
                    match self.peek() {
                        Some(b',') => {
                            self.i += 1;
                            self.ws();
                        }
                        Some(b'}') => {
                            self.i += 1;
                            return Ok(J::Obj(fs));
                        }
                        _ => return Err(format!("object: expected , or }} at {}", self.i)),
                    }
                }
            }
            b'"' => {
                self.i += 1;
                Ok(J::Str(self.string()?))
            }
            b'n' if self.s[self.i..].starts_with(b"null") => {
                self.i += 4;
                Ok(J::Null)
            }
            b't' if self.s[self.i..].starts_with(b"true") => {
                self.i += 4;
                Ok(J::Bool(true))
            }
            b'f' if self.s[self.i..].starts_with(b"false") => {
                self.i += 5;
                Ok(J::Bool(false))
            }
            b'-' | b'0'..=b'9' => self.number(),
            _ => Err(format!("unexpected byte {b:#x} at {}", self.i)),
        }
    }
}

/// JSON-text = ws value ws
pub fn read_doc(s: &[u8]) -> Result<J, String> {
    let mut r = Rd { s, i: 0 };
    r.ws();
    let v = r.value(0)?;
    r.ws();
    if r.i != s.len() {
        return Err(format!("trailing bytes at {}", r.i));
    }
    Ok(v)
}

/// every object (before collapsing) has strictly increasing keys in byte order
fn sorted_ok(v: &J) -> bool {
    match v {
        J::Arr(xs) => xs.iter().all(sorted_ok),
        J::Obj(fs) => fs.windows(2).all(|w| w[0].0.as_bytes() < w[1].0.as_bytes()) && fs.iter().all(|(_, x)| sorted_ok(x)),
        _ => true,
    }
}

// ------------------------------------------------------------------ generator tree

#[derive(Clone, Debug)]
pub struct GS {
    pub chars: Vec<char>,
    /// per char: 0 raw (if JSON allows), 1 short escape (if one exists), 2 \uXXXX lower, 3 \uXXXX upper
    pub spell: Vec<u8>,
}

#[derive(Clone, Debug)]
pub enum G {
    Null,
    Bool(bool),
    Num(String),
    Str(GS),
    Arr(Vec<G>),
    Obj(Vec<(GS, G)>),
}

const GAPS: [&str; 9] = ["", "", "", " ", "\n", "\t", "\r", "\r\n  ", " \t \n"];

fn gap(r: &mut Rng, out: &mut Vec<u8>, ws: bool) {
    if ws {
        out.extend_from_slice(r.pick(&GAPS).as_bytes());
    }
}

fn write_gs(s: &GS, out: &mut Vec<u8>) {
    out.push(b'"');
    for (c, sp) in s.chars.iter().zip(&s.spell) {
        let cp = *c as u32;
        let must = cp < 0x20 || *c == '"' || *c == '\\';
        let short = match c {
            '"' => Some(b'"'),
            '\\' => Some(b'\\'),
            '/' => Some(b'/'),
            '\u{8}' => Some(b'b'),
            '\u{c}' => Some(b'f'),
            '\n' => Some(b'n'),
            '\r' => Some(b'r'),
            '\t' => Some(b't'),
            _ => None,
        };
        let mode = match *sp {
            0 if !must => 0,
            0 | 1 if short.is_some() => 1,
            0 | 1 => 2,
            m => m,
        };
        match mode {
            0 => {
                let mut buf = [0u8; 4];
                out.extend_from_slice(c.encode_utf8(&mut buf).as_bytes());
            }
            1 => {
                out.push(b'\\');
                out.push(short.unwrap());
            }
            m => {
                let mut units = [0u16; 2];
                for u in c.encode_utf16(&mut units) {
                    let h = if m == 3 { format!("\\u{:04X}", u) } else { format!("\\u{:04x}", u) };
                    out.extend_from_slice(h.as_bytes());
                }
            }
        }
    }
    out.push(b'"');
}

pub fn write_g(v: &G, r: &mut Rng, ws: bool, out: &mut Vec<u8>) {
    match v {
        G::Null => out.extend_from_slice(b"null"),
        G::Bool(b) => out.extend_from_slice(if *b { b"true" } else { b"false" }),
        G::Num(s) => out.extend_from_slice(s.as_bytes()),
        G::Str(s) => write_gs(s, out),
        G::Arr(xs) => {
            out.push(b'[');
            gap(r, out, ws);
            for (i, x) in xs.iter().enumerate() {
                if i > 0 {
                    out.push(b',');
                    gap(r, out, ws);
                }
                write_g(x, r, ws, out);
                gap(r, out, ws);
            }
            out.push(b']');
        }
        G::Obj(fs) => {
            out.push(b'{');
            gap(r, out, ws);
            for (i, (k, x)) in fs.iter().enumerate() {
                if i > 0 {
                    out.push(b',');
                    gap(r, out, ws);
                }
                write_gs(k, out);
                gap(r, out, ws);
                out.push(b':');
                gap(r, out, ws);
                write_g(x, r, ws, out);
                gap(r, out, ws);
            }
            out.push(b'}');
        }
    }
}

pub fn g_to_j(v: &G) -> J {
    match v {
        G::Null => J::Null,
        G::Bool(b) => J::Bool(*b),
        G::Num(s) => J::Num(s.parse::<f64>().expect("generated number").to_bits()),
        G::Str(s) => J::Str(s.chars.iter().collect()),
        G::Arr(xs) => J::Arr(xs.iter().map(g_to_j).collect()),
        G::Obj(fs) => J::Obj(fs.iter().map(|(k, x)| (k.chars.iter().collect(), g_to_j(x))).collect()),
    }
}

pub fn collect_nums(v: &G, out: &mut Vec<String>) {
    match v {
        G::Num(s) => {
            if !out.contains(s) {
                out.push(s.clone());
            }
        }
        G::Arr(xs) => xs.iter().for_each(|x| collect_nums(x, out)),
        G::Obj(fs) => fs.iter().for_each(|(_, x)| collect_nums(x, out)),
        _ => {}
    }
}

fn gen_char(r: &mut Rng) -> char {
    match r.below(16) {
        0..=5 => (b'a' + r.below(26) as u8) as char,
        6 => *r.pick(&['"', '\\', '/', ' ', '0', 'A', '~', '{', ':', ',']),
        7 => char::from_u32(r.below(0x20) as u32).unwrap(),
        8 => *r.pick(&['\u{7f}', '\u{80}', '\u{85}', '\u{9f}', '\u{a0}']),
        9 => char::from_u32(0xa0 + r.below(0x60) as u32).unwrap(),
        10 => *r.pick(&['\u{7ff}', '\u{800}', '\u{2028}', '\u{2029}', '\u{d7ff}', '\u{e000}', '\u{feff}', '\u{fffd}', '\u{ffff}']),
        11 => char::from_u32(0x100 + r.below(0xd700) as u32).unwrap_or('x'),
        12 => *r.pick(&['\u{10000}', '\u{1f600}', '\u{10ffff}', '\u{1d11e}', '\u{fffff}', '\u{100000}']),
        13 => char::from_u32(0x10000 + r.below(0x100000) as u32).unwrap_or('y'),
        _ => (b' ' + r.below(95) as u8) as char,
    }
}

pub fn gen_gs(r: &mut Rng) -> GS {
    let n = match r.below(10) {
        0 => 0,
        1..=6 => r.range(1, 6),
        7..=8 => r.range(6, 20),
        _ => r.range(20, 70),
    } as usize;
    let style = r.below(4); // 0: raw wherever possible, 1..: mixed spellings
    let chars: Vec<char> = (0..n).map(|_| gen_char(r)).collect();
    let spell = chars.iter().map(|_| if style == 0 { 0 } else { *r.pick(&[0u8, 0, 0, 1, 1, 2, 3]) }).collect();
    GS { chars, spell }
}

const KEYS: [&str; 20] = [
    "a", "b", "a", "", "aa", "ab", "A", "é", "z", "\u{ffff}", "\u{10000}", "a\u{0}", "k\n", "\u{7f}", "c", "b", "q\"", "b\\", "s/",
    "\"\\/",
];

fn gen_key(r: &mut Rng) -> GS {
    if r.chance(1, 6) {
        return gen_gs(r);
    }
    let chars: Vec<char> = r.pick(&KEYS).chars().collect();
    let spell = chars.iter().map(|_| *r.pick(&[0u8, 0, 0, 0, 1, 2, 3])).collect();
    GS { chars, spell }
}

const NUMS: [&str; 44] = [
    "0", "-0", "1", "-1", "7", "42", "255", "-17", "9007199254740991", "9007199254740992", "9007199254740993",
    "9223372036854775807", "9223372036854775808", "-9223372036854775808", "-9223372036854775809",
    "18446744073709551615", "18446744073709551616", "100000000000000000000", "123456789012345678901234567890",
    "0.0", "-0.0", "1.0", "1.5", "0.1", "0.10", "3.14159", "0.1000000000000000055", "2.2250738585072014e-308",
    "1e2", "1E2", "1e+2", "1E-2", "1e05", "1E-007", "1.5e300", "1e308", "1.7976931348623157e308", "1e309", "1e400",
    "5e-324", "1e-400", "0e0", "-0e-0", "12.50e1",
];

pub fn gen_num(r: &mut Rng) -> String {
    match r.below(8) {
        0..=2 => r.pick(&NUMS).to_string(),
        3 => format!("{}", r.below(1000) as i64 - 500),
        4 => format!("{}", r.next_u64() as i64),
        5 => {
            // decimal with random digits and trailing zeros
            let ip = r.below(100000);
            let fd = r.range(1, 18);
            let mut s = format!("{}{}.", if r.chance(1, 3) { "-" } else { "" }, ip);
            for _ in 0..fd {
                s.push((b'0' + r.below(10) as u8) as char);
            }
            if r.chance(1, 3) {
                s.push_str("00");
            }
            s
        }
        6 => {
            // exponent forms
            let m = r.below(1000);
            let frac = if r.chance(1, 2) { format!(".{}", r.below(1000)) } else { String::new() };
            let e = *r.pick(&["e", "E"]);
            let sg = *r.pick(&["", "+", "-"]);
            let ex = *r.pick(&[0u64, 1, 2, 5, 10, 17, 22, 100, 300, 308, 324, 400]);
            let pad = if r.chance(1, 5) { "0" } else { "" };
            format!("{}{m}{frac}{e}{sg}{pad}{ex}", if r.chance(1, 3) { "-" } else { "" })
        }
        _ => {
            // long mantissa
            let n = r.range(17, 40);
            let mut s = String::new();
            s.push((b'1' + r.below(9) as u8) as char);
            for i in 0..n {
                if i == 3 && r.chance(1, 2) {
                    s.push('.');
                }
                s.push((b'0' + r.below(10) as u8) as char);
            }
            s
        }
    }
}

fn raw_key(k: &str, escaped: bool, r: &mut Rng) -> GS {
    let chars: Vec<char> = k.chars().collect();
    let spell = chars.iter().map(|_| if escaped { *r.pick(&[0u8, 0, 2, 3]) } else { 0 }).collect();
    GS { chars, spell }
}

/// Objects aimed at the duplicate-key collapse: genuinely repeated keys (adjacent and far apart,
/// 2…40 fields, escape-free or with `\uXXXX`-spelled occurrences of the same key) TOGETHER with
/// families of *distinct* keys that share whatever a cheap discriminator could look at — same
/// length and same first/last byte (differing only in the middle), same prefix, same suffix,
/// case variants, the empty key — at several nesting levels.
pub fn gen_collision(r: &mut Rng, depth: u32) -> G {
    let letters = |r: &mut Rng, n: usize| -> String { (0..n).map(|_| (b'a' + r.below(26) as u8) as char).collect() };
    let fam = r.below(6);
    let pool_n = r.range(2, 8) as usize;
    let mut pool: Vec<String> = Vec::new();
    match fam {
        0 => {
            // same length, same first and last byte, different middle
            let (f, l) = ((b'a' + r.below(26) as u8) as char, *r.pick(&['x', 'z', '_', 'e', '0']));
            let m = r.range(1, 4) as usize;
            for _ in 0..pool_n {
                pool.push(format!("{f}{}{l}", letters(r, m)));
            }
        }
        1 => {
            for k in ["min_x", "max_x", "mid_x", "id", "mix_x", "min_y", "", "a"] {
                pool.push(k.to_string());
            }
        }
        2 => {
            let base = letters(r, 3);
            pool.extend([base.clone(), base.to_uppercase(), format!("{}{}", base[..1].to_uppercase(), &base[1..]), format!("{}{}", &base[..2], base[2..].to_uppercase())]);
        }
        3 => {
            let pl = r.range(2, 6) as usize;
            let pre = letters(r, pl);
            for _ in 0..pool_n {
                pool.push(format!("{pre}_{}", letters(r, 1)));
            }
        }
        4 => {
            let sl = r.range(2, 6) as usize;
            let suf = letters(r, sl);
            for _ in 0..pool_n {
                pool.push(format!("{}_{suf}", letters(r, 1)));
            }
        }
        _ => {
            // two-byte and three-byte keys: everything but the middle byte agrees
            let (f, l) = ((b'a' + r.below(26) as u8) as char, (b'a' + r.below(26) as u8) as char);
            pool.extend([format!("{f}{l}"), format!("{f}a{l}"), format!("{f}b{l}"), format!("{f}{f}{l}"), String::new(), format!("{f}")]);
        }
    }
    pool.dedup();
    let escaped = r.chance(1, 3);
    let n = *r.pick(&[2usize, 3, 4, 4, 5, 6, 8, 12, 16, 17, 24, 40]);
    let mut keys: Vec<String> = Vec::new();
    for i in 0..n {
        let k = if i > 0 && r.chance(1, 6) { keys[i - 1].clone() } else { r.pick(&pool).clone() };
        keys.push(k);
    }
    // a far-apart repetition of the first key, and an adjacent one
    if r.chance(2, 3) {
        keys.push(keys[0].clone());
    }
    if r.chance(1, 2) {
        let k = r.pick(&pool).clone();
        keys.push(k.clone());
        keys.push(k);
    }
    let mut counter = 0i64;
    let fs = keys
        .iter()
        .map(|k| {
            counter += 1;
            let v = if depth > 0 && r.chance(1, 6) {
                gen_collision(r, depth - 1)
            } else if depth > 0 && r.chance(1, 10) {
                G::Arr(vec![gen_collision(r, depth - 1), G::Num(counter.to_string())])
            } else {
                G::Num(counter.to_string())
            };
            (raw_key(k, escaped, r), v)
        })
        .collect();
    G::Obj(fs)
}

/// kind: 0 any, 1 container root, 2 object root
pub fn gen_g(r: &mut Rng, depth: u32, budget: &mut i64, kind: u32) -> G {
    *budget -= 1;
    let leaf = depth == 0 || *budget <= 0;
    let pick = if kind == 2 {
        9
    } else if kind == 1 {
        8 + r.below(2)
    } else if leaf {
        r.below(8)
    } else {
        r.below(12)
    };
    match pick {
        0 => G::Null,
        1 => G::Bool(r.chance(1, 2)),
        2..=4 => G::Num(gen_num(r)),
        5..=7 => G::Str(gen_gs(r)),
        8 | 10 => {
            let n = if leaf { 0 } else { *r.pick(&[0u64, 1, 1, 2, 3, 3, 5, 9]) };
            G::Arr((0..n).map(|_| gen_g(r, depth.saturating_sub(1), budget, 0)).collect())
        }
        _ if !leaf && r.chance(1, 5) => gen_collision(r, depth.min(2)),
        _ => {
            let n = if leaf { 0 } else { *r.pick(&[0u64, 1, 2, 2, 3, 4, 6, 18]) };
            G::Obj((0..n).map(|_| (gen_key(r), gen_g(r, depth.saturating_sub(1), budget, 0))).collect())
        }
    }
}

/// `levels` nested containers (alternating / random kinds) around a leaf: every node is at a level
/// below the CLI's limit when `levels <= 255`.
pub fn gen_deep(r: &mut Rng, levels: usize, leaf: bool) -> G {
    let mut v = if leaf { G::Num("1".into()) } else { G::Arr(vec![]) };
    for _ in 0..levels {
        v = if r.chance(1, 3) {
            G::Obj(vec![(gen_key(r), v)])
        } else if r.chance(1, 4) {
            G::Arr(vec![G::Null, v])
        } else {
            G::Arr(vec![v])
        };
    }
    v
}

// ------------------------------------------------------------------ programs (expected results)

pub const PROGS: [&str; 6] = [".", "(.)|.", ".[]", ".a", "[.[]]", "map(.)"];

fn children(v: &J) -> Option<Vec<J>> {
    match v {
        J::Arr(xs) => Some(xs.clone()),
        J::Obj(_) => match collapse(v) {
            J::Obj(fs) => Some(fs.into_iter().map(|(_, x)| x).collect()),
            _ => None,
        },
        _ => None,
    }
}

/// expected results of one document (None = jq runtime error)
pub fn expected(prog: &str, doc: &J) -> Option<Vec<J>> {
    let rs = match prog {
        "." | "(.)|." => vec![doc.clone()],
        ".[]" => children(doc)?,
        ".a" => match doc {
            J::Obj(fs) => vec![fs.iter().rev().find(|(k, _)| k == "a").map(|(_, x)| x.clone()).unwrap_or(J::Null)],
            J::Null => vec![J::Null],
            _ => return None,
        },
        "[.[]]" | "map(.)" => vec![J::Arr(children(doc)?)],
        _ => return None,
    };
    Some(rs.iter().map(collapse).collect())
}

// ------------------------------------------------------------------ CLI

pub fn cli_path() -> String {
    if let Ok(p) = std::env::var("SV_CLI") {
        return p;
    }
    // <verif>/.build/target-<features>/release/svharness -> <verif>/.build/target-cli/release/succinctly
    let exe = std::env::current_exe().expect("current_exe");
    let build = exe.parent().and_then(|p| p.parent()).and_then(|p| p.parent()).expect(".build dir");
    build.join("target-cli").join("release").join("succinctly").to_string_lossy().into_owned()
}

pub struct Run {
    pub rc: i32,
    pub stdout: Vec<u8>,
    pub stderr: Vec<u8>,
}

pub fn run_cli(args: &[String], stdin: &[u8], env: &[(&str, &str)]) -> Run {
    let mut cmd = Command::new(cli_path());
    cmd.args(args)
        .env_clear()
        .env("NO_COLOR", "1")
        .env("TZ", "UTC")
        .env("HOME", "/nonexistent")
        .env("SUCCINCTLY_VERIF_TRACE_ROUTE", "1")
        .stdin(Stdio::piped())
        .stdout(Stdio::piped())
        .stderr(Stdio::piped());
    for (k, v) in env {
        cmd.env(k, v);
    }
    let mut child = cmd.spawn().expect("spawn succinctly CLI (SV_CLI)");
    let mut si = child.stdin.take().unwrap();
    let data = stdin.to_vec();
    let w = std::thread::spawn(move || {
        let _ = si.write_all(&data);
    });
    let mut so = child.stdout.take().unwrap();
    let mut se = child.stderr.take().unwrap();
    let e = std::thread::spawn(move || {
        let mut b = Vec::new();
        let _ = se.read_to_end(&mut b);
        b
    });
    let mut stdout = Vec::new();
    let _ = so.read_to_end(&mut stdout);
    let _ = w.join();
    let stderr = e.join().unwrap_or_default();
    let rc = child.wait().ok().and_then(|s| s.code()).unwrap_or(-1);
    Run { rc, stdout, stderr }
}

#[derive(Default, Clone, Debug)]
pub struct Flags {
    pub compact: bool,
    pub indent: Option<u8>,
    pub tab: bool,
    pub sort: bool,
    pub ascii: bool,
    pub raw: bool,
    pub join: bool,
    pub raw0: bool,
    pub seq: bool,
    pub preserve: bool,
}

pub fn parse_flags(s: &str) -> Flags {
    let mut f = Flags::default();
    for t in s.split(',') {
        match t {
            "c" => f.compact = true,
            "tab" => f.tab = true,
            "S" => f.sort = true,
            "a" => f.ascii = true,
            "r" => f.raw = true,
            "j" => f.join = true,
            "z" => f.raw0 = true,
            "seq" => f.seq = true,
            "P" => f.preserve = true,
            t if t.starts_with('i') => f.indent = t[1..].parse().ok(),
            _ => {}
        }
    }
    f
}

pub fn cli_args(f: &Flags) -> Vec<String> {
    let mut a: Vec<String> = Vec::new();
    if f.compact {
        a.push("-c".into());
    }
    if let Some(n) = f.indent {
        a.push("--indent".into());
        a.push(n.to_string());
    }
    if f.tab {
        a.push("--tab".into());
    }
    if f.sort {
        a.push("-S".into());
    }
    if f.ascii {
        a.push("-a".into());
    }
    if f.raw {
        a.push("-r".into());
    }
    if f.join {
        a.push("-j".into());
    }
    if f.raw0 {
        a.push("--raw-output0".into());
    }
    if f.seq {
        a.push("--seq".into());
    }
    if f.preserve {
        a.push("--preserve-input".into());
    }
    a
}

pub fn out_str(bs: &[u8]) -> String {
    if bs.len() > 1024 {
        format!("D:{}:{:016x}", bs.len(), fnv64(bs))
    } else {
        hex_bytes(bs)
    }
}

/// Walk stdout against the expected results. Returns (readback verdict, sorted verdict).
fn oracle(f: &Flags, stdout: &[u8], exp: &[J]) -> (String, Option<bool>) {
    let term: &[u8] = if f.raw0 {
        &[0]
    } else if f.join {
        &[]
    } else {
        b"\n"
    };
    let raw_out = f.raw || f.join || f.raw0;
    let mut pos = 0usize;
    let mut sorted = true;
    for (n, e) in exp.iter().enumerate() {
        if f.seq {
            if stdout.get(pos) != Some(&0x1e) {
                return (format!("READBACK-FAIL value#{n}:missing-RS@{pos}"), None);
            }
            pos += 1;
        }
        match (raw_out, e) {
            (true, J::Str(s)) => {
                if !stdout[pos..].starts_with(s.as_bytes()) {
                    return (format!("READBACK-FAIL value#{n}:raw-string@{pos}"), None);
                }
                pos += s.len();
            }
            _ => {
                let mut rd = Rd { s: stdout, i: pos };
                // under -j nothing delimits the text: read what the expected value's text must span
                match rd.value(0) {
                    Err(m) => return (format!("READBACK-FAIL value#{n}:unreadable@{pos}:{}", m.replace(' ', "_")), None),
                    Ok(got) => {
                        sorted &= sorted_ok(&got);
                        let got = collapse(&got);
                        if digest(&got) != digest(e) || canon_eq(&got, e).is_err() {
                            let why = canon_eq(&got, e).err().unwrap_or_default();
                            return (format!("READBACK-FAIL value#{n}:different-value@{pos}:{}", why.replace(' ', "_")), None);
                        }
                        pos = rd.i;
                    }
                }
            }
        }
        if !stdout[pos..].starts_with(term) {
            return (format!("READBACK-FAIL value#{n}:terminator@{pos}"), None);
        }
        pos += term.len();
    }
    if pos != stdout.len() {
        return (format!("READBACK-FAIL extra-output@{pos}"), None);
    }
    ("READBACK-OK".into(), Some(sorted))
}

/// structural comparison (objects as key→value maps), with a short reason on mismatch
fn canon_eq(a: &J, b: &J) -> Result<(), String> {
    match (a, b) {
        (J::Null, J::Null) => Ok(()),
        (J::Bool(x), J::Bool(y)) if x == y => Ok(()),
        (J::Num(x), J::Num(y)) => {
            if x == y {
                Ok(())
            } else {
                Err(format!("number {:e} vs {:e}", f64::from_bits(*x), f64::from_bits(*y)))
            }
        }
        (J::Str(x), J::Str(y)) => {
            if x == y {
                Ok(())
            } else {
                Err(format!("string {} vs {}", hex_bytes(x.as_bytes()), hex_bytes(y.as_bytes())))
            }
        }
        (J::Arr(x), J::Arr(y)) => {
            if x.len() != y.len() {
                return Err(format!("array length {} vs {}", x.len(), y.len()));
            }
            for (p, q) in x.iter().zip(y) {
                canon_eq(p, q)?;
            }
            Ok(())
        }
        (J::Obj(x), J::Obj(y)) => {
            if x.len() != y.len() {
                return Err(format!("object size {} vs {}", x.len(), y.len()));
            }
            for (k, p) in x {
                match y.iter().find(|(k2, _)| k2 == k) {
                    Some((_, q)) => canon_eq(p, q)?,
                    None => return Err(format!("key {} missing", hex_bytes(k.as_bytes()))),
                }
            }
            Ok(())
        }
        _ => Err("different kinds".into()),
    }
}

pub fn exec(a: &[&str]) -> String {
    match a[0] {
        "jq" if a.len() == 6 => {
            let f = parse_flags(a[1]);
            let prog = String::from_utf8(parse_bytes(a[2])).unwrap_or_default();
            let docs: Vec<Vec<u8>> = a[5].split(',').map(parse_bytes).collect();
            // expected values: from the documents through the strict reader …
            let mut exp: Vec<J> = Vec::new();
            let mut exp_digests: Vec<String> = Vec::new();
            for d in &docs {
                match read_doc(d) {
                    Err(m) => return format!("BAD-DOC {}", m.replace(' ', "_")),
                    Ok(j) => {
                        if let Some(rs) = expected(&prog, &j) {
                            exp_digests.push(rs.iter().map(|r| format!("{:016x}", digest(r))).collect::<Vec<_>>().join("."));
                            exp.extend(rs);
                        } else {
                            exp_digests.push("!".into());
                        }
                    }
                }
            }
            // … which must agree with the digests the generator computed from its own tree
            if a[4] != "-" && a[4] != exp_digests.join(",") {
                return "ORACLE-INCONSISTENT generator-tree-vs-reader".into();
            }
            let mut stdin = Vec::new();
            for d in &docs {
                if f.seq {
                    stdin.push(0x1e);
                }
                stdin.extend_from_slice(d);
                stdin.push(b'\n');
            }
            let mut args = vec!["jq".to_string()];
            args.extend(cli_args(&f));
            args.push(prog.clone());
            let run = run_cli(&args, &stdin, &[]);
            let err = String::from_utf8_lossy(&run.stderr);
            let route = if err.contains("verif-route: fast") {
                "fast"
            } else if err.contains("verif-route: lazy") {
                "lazy"
            } else if err.contains("verif-route: original") {
                "mat"
            } else {
                "?"
            };
            let vk: String = err
                .lines()
                .filter_map(|l| match l {
                    "verif-route: value-cursor" => Some('c'),
                    "verif-route: value-owned" => Some('o'),
                    _ => None,
                })
                .take(40)
                .collect();
            let (rb, sorted) = oracle(&f, &run.stdout, &exp);
            let st = match (f.sort, sorted) {
                (true, Some(true)) => "SORTED-OK",
                (true, Some(false)) => "SORTED-FAIL",
                _ => "-",
            };
            format!("rc={} route={route} out={} {rb} {st} #vk={vk}", run.rc, out_str(&run.stdout))
        }
        _ => "BAD-OP".into(),
    }
}

// ------------------------------------------------------------------ request generation

const LAYOUTS: [&str; 13] = ["", "c", "i0", "i1", "i2", "i3", "i4", "i5", "i6", "i7", "tab", "tab,c", "c,i3"];
const RAWMODES: [&str; 4] = ["", "r", "j", "z"];
const DIMS: [usize; 7] = [13, 2, 2, 4, 2, 2, 6]; // layout, S, a, rawmode, seq, P, program

fn flags_of(c: &[usize; 7]) -> String {
    let mut t: Vec<&str> = Vec::new();
    if !LAYOUTS[c[0]].is_empty() {
        t.push(LAYOUTS[c[0]]);
    }
    if c[1] == 1 {
        t.push("S");
    }
    if c[2] == 1 {
        t.push("a");
    }
    if !RAWMODES[c[3]].is_empty() {
        t.push(RAWMODES[c[3]]);
    }
    if c[4] == 1 {
        t.push("seq");
    }
    if c[5] == 1 {
        t.push("P");
    }
    if t.is_empty() {
        "-".into()
    } else {
        t.join(",")
    }
}

/// greedy pairwise-covering set over DIMS, then `extra` random combinations
pub fn combos(r: &mut Rng, extra: usize) -> Vec<[usize; 7]> {
    use std::collections::HashSet;
    let mut need: HashSet<(usize, usize, usize, usize)> = HashSet::new();
    for d1 in 0..7 {
        for d2 in d1 + 1..7 {
            for v1 in 0..DIMS[d1] {
                for v2 in 0..DIMS[d2] {
                    need.insert((d1, v1, d2, v2));
                }
            }
        }
    }
    let pairs = |c: &[usize; 7]| -> Vec<(usize, usize, usize, usize)> {
        let mut p = Vec::new();
        for d1 in 0..7 {
            for d2 in d1 + 1..7 {
                p.push((d1, c[d1], d2, c[d2]));
            }
        }
        p
    };
    let mut out = Vec::new();
    while !need.is_empty() {
        let mut best: Option<([usize; 7], usize)> = None;
        for _ in 0..40 {
            let mut c = [0usize; 7];
            for d in 0..7 {
                c[d] = r.usize_below(DIMS[d]);
            }
            let gain = pairs(&c).iter().filter(|p| need.contains(p)).count();
            if best.map_or(true, |(_, g)| gain > g) {
                best = Some((c, gain));
            }
        }
        let (c, gain) = best.unwrap();
        if gain == 0 {
            // complete one missing pair directly
            let &(d1, v1, d2, v2) = need.iter().min().unwrap();
            let mut c = c;
            c[d1] = v1;
            c[d2] = v2;
            for p in pairs(&c) {
                need.remove(&p);
            }
            out.push(c);
            continue;
        }
        for p in pairs(&c) {
            need.remove(&p);
        }
        out.push(c);
    }
    for i in 0..extra {
        let mut c = [0usize; 7];
        for d in 0..7 {
            c[d] = r.usize_below(DIMS[d]);
        }
        // uniform flags land on the materialised route 7 times out of 8 (-S, -a, --seq each force
        // it): steer half of the extra combinations to the lazy route and an eighth (and the first
        // three) to the identity fast path (-c, --preserve-input, `.`, no raw mode)
        let m = if i < 3 { 0 } else { r.below(8) };
        if m < 4 {
            c[1] = 0;
            c[2] = 0;
            c[4] = 0;
        }
        if m == 0 {
            c[0] = *r.pick(&[1usize, 11, 12]);
            c[3] = 0;
            c[5] = 1;
            c[6] = 0;
        }
        out.push(c);
    }
    out
}

pub fn nums_table(gs: &[G]) -> String {
    let mut lits = Vec::new();
    for g in gs {
        collect_nums(g, &mut lits);
    }
    if lits.is_empty() {
        return "-".into();
    }
    lits.iter()
        .map(|l| format!("{l}={}", succinctly::jq::format_number_jq_compat(l.as_bytes())))
        .collect::<Vec<_>>()
        .join(";")
}

fn request(r: &mut Rng, c: &[usize; 7], gs: &[G]) -> String {
    let prog = PROGS[c[6]];
    let mut docs = Vec::new();
    let mut digs = Vec::new();
    for g in gs {
        let mut text = Vec::new();
        let ws = !r.chance(1, 4);
        gap(r, &mut text, ws);
        write_g(g, r, ws, &mut text);
        gap(r, &mut text, ws);
        docs.push(hex_bytes(&text));
        let j = g_to_j(g);
        digs.push(match expected(prog, &j) {
            Some(rs) => rs.iter().map(|x| format!("{:016x}", digest(x))).collect::<Vec<_>>().join("."),
            None => "!".into(),
        });
    }
    format!("C11 jq {} {} {} {} {}", flags_of(c), hex_bytes(prog.as_bytes()), nums_table(gs), digs.join(","), docs.join(","))
}

pub fn gen(tier: Tier, r: &mut Rng, emit: &mut dyn FnMut(String)) {
    // one CLI process per request: the quick tier is the pairwise-covering flag set (≈100 processes)
    let extra = if tier == Tier::Quick { 16 } else { 4_000 };
    let cs = combos(r, extra);
    for (n, c) in cs.iter().enumerate() {
        let prog = PROGS[c[6]];
        let kind = match prog {
            ".[]" | "[.[]]" | "map(.)" => 1,
            ".a" => 2,
            _ => 0,
        };
        // -j writes no terminator: one document, one result (read-back needs a delimiter)
        let single = RAWMODES[c[3]] == "j";
        let seq = c[4] == 1;
        let mut c = *c;
        if single && prog == ".[]" {
            c[6] = 4;
        }
        let batch = if single { 1 } else { r.range(6, 14) as usize };
        let mut gs = Vec::new();
        for b in 0..batch {
            let g = if n % 5 == 3 && b == 0 {
                // deep: up to the documented limit (every node at a level < 256), on every input
                // route including --seq (which used to stop at the validator's 128: C11-seq-depth, fixed)
                let _ = seq;
                let levels = *r.pick(&[60usize, 128, 129, 200, 254, 255]);
                match kind {
                    2 => G::Obj(vec![(GS { chars: vec!['a'], spell: vec![0] }, gen_deep(r, levels - 2, true))]),
                    _ => {
                        if levels == 255 && r.chance(1, 2) {
                            gen_deep(r, 255, false) // 256 nested containers, innermost empty
                        } else {
                            gen_deep(r, levels, true)
                        }
                    }
                }
            } else {
                let depth = *r.pick(&[0u32, 1, 2, 2, 3, 4, 6]);
                let mut budget = *r.pick(&[4i64, 10, 30, 80, 160]);
                gen_g(r, depth, &mut budget, kind)
            };
            gs.push(g);
        }
        emit(request(r, &c, &gs));
    }
    // duplicate keys together with near-collision key families, on every route: the lazy cursor
    // printer's own collapse (`collapse_duplicate_fields`), the owned and the materialised printers
    let coll_flags: &[&str] =
        if tier == Tier::Quick { &["-", "c", "tab", "i0", "r", "S", "a", "c,P", "seq"] } else { &["-", "c", "tab", "i0", "i3", "i7", "r", "z", "S", "a", "c,S", "c,a", "c,P", "P", "seq", "c,seq"] };
    let rounds = if tier == Tier::Quick { 1 } else { 60 };
    for round in 0..rounds {
        for (i, flags) in coll_flags.iter().enumerate() {
            let prog = PROGS[(i + round) % PROGS.len()];
            let gs: Vec<G> = (0..r.range(8, 14))
                .map(|_| {
                    let g = gen_collision(r, 2);
                    match r.below(4) {
                        0 => G::Arr(vec![g, gen_collision(r, 1)]),
                        1 => G::Obj(vec![(raw_key("a", false, r), g), (raw_key("b", false, r), gen_collision(r, 1))]),
                        _ => g,
                    }
                })
                .collect();
            let mut docs = Vec::new();
            let mut digs = Vec::new();
            for g in &gs {
                let mut text = Vec::new();
                let ws = r.chance(1, 3);
                write_g(g, r, ws, &mut text);
                docs.push(hex_bytes(&text));
                digs.push(match expected(prog, &g_to_j(g)) {
                    Some(rs) => rs.iter().map(|x| format!("{:016x}", digest(x))).collect::<Vec<_>>().join("."),
                    None => "!".into(),
                });
            }
            emit(format!("C11 jq {flags} {} {} {} {}", hex_bytes(prog.as_bytes()), nums_table(&gs), digs.join(","), docs.join(",")));
        }
    }
    // --seq with documents nested deeper than the strict validator's limit (pure arrays, no gaps):
    // regression class of the repaired finding C11-seq-depth
    for (flags, n) in [("seq", 128usize), ("seq", 129), ("c,seq", 256), ("S,seq", 200)] {
        let mut g = G::Arr(vec![]);
        for _ in 1..n {
            g = G::Arr(vec![g]);
        }
        let mut text = Vec::new();
        write_g(&g, r, false, &mut text);
        let d = format!("{:016x}", digest(&collapse(&g_to_j(&g))));
        emit(format!("C11 jq {flags} {} - {d} {}", hex_bytes(b"."), hex_bytes(&text)));
    }
}
