//! C24 — `succinctly jq` (the CLI binary, path in $SV_CLI) against recorded jq 1.7.1 behaviour.
//! Request: `C24 case <id> <filter hex> <input hex> <expected hex>` with expected =
//! `<status>\n<stdout>[\n!<stderr>]`. Answer: `REPRO` when the CLI reproduces the expectation
//! (status and stdout byte for byte, stderr up to jq's `(at <stdin>:N)` location), otherwise
//! `CLI-MISMATCH status=<n> out=<hex> err=<hex>`.
use crate::rng::Rng;
use crate::util::*;
use crate::Tier;
use std::io::Write;
use std::process::{Command, Stdio};

pub fn tables() -> Vec<(&'static str, String)> {
    vec![]
}

fn strip_loc(s: &str) -> String {
    // drop ` (at <stdin>:N)` / ` (at <unknown>)`
    let mut out = String::new();
    let mut rest = s;
    while let Some(i) = rest.find(" (at <") {
        out.push_str(&rest[..i]);
        match rest[i..].find(')') {
            Some(j) => rest = &rest[i + j + 1..],
            None => {
                rest = "";
            }
        }
    }
    out.push_str(rest);
    out
}

pub fn run_cli(filter: &str, input: &[u8]) -> Option<(i32, Vec<u8>, String)> {
    let cli = std::env::var("SV_CLI").ok()?;
    let mut child = Command::new(cli)
        .args(["jq", "-c", filter])
        .env("NO_COLOR", "1")
        .env("TZ", "UTC")
        .stdin(Stdio::piped())
        .stdout(Stdio::piped())
        .stderr(Stdio::piped())
        .spawn()
        .ok()?;
    {
        let mut si = child.stdin.take()?;
        let _ = si.write_all(input);
        let _ = si.write_all(b"\n");
    }
    let o = child.wait_with_output().ok()?;
    Some((o.status.code().unwrap_or(-1), o.stdout, String::from_utf8_lossy(&o.stderr).into_owned()))
}

const SEP: &str = "\"@@SEP@@\"";

/// Documented divergences of docs/compliance/jq/limitations.md, recognised on (program, CLI
/// behaviour): such runs are reported as skipped, with the section they fall under.
fn documented_divergence(prog: &str, stderr: &str, status: i32) -> Option<&'static str> {
    let has_float_lit = {
        let b = prog.as_bytes();
        (1..b.len()).any(|i| (b[i] == b'.' && b[i - 1].is_ascii_digit() && i + 1 < b.len() && b[i + 1].is_ascii_digit())
            || ((b[i] == b'e' || b[i] == b'E') && b[i - 1].is_ascii_digit() && i + 1 < b.len() && (b[i + 1].is_ascii_digit() || b[i + 1] == b'+' || b[i + 1] == b'-')))
    };
    if stderr.contains("...") && !stderr.is_ascii() {
        return Some("truncation that splits a multi-byte character");
    }
    if has_float_lit && stderr.contains("number (") {
        return Some("float literals lose their source spelling");
    }
    if stderr.contains("key must be a string") {
        return Some("object key yielding other than exactly one value (#354)");
    }
    if (prog.contains("@uri") || prog.contains("@base64") || prog.contains("@html")) && stderr.contains("expected string, got") {
        return Some("@uri/@base64/@html on a non-string");
    }
    if stderr.contains("Cannot index null with object") {
        return Some("slice write does not vivify null");
    }
    if stderr.contains("Cannot grow array to") {
        return Some("refused allocation");
    }
    if status == 1 && stderr.contains("compile error") && prog.contains(':') && prog.contains('[') && (prog.contains("[$") || prog.contains(":$") || prog.contains("[.")) {
        return Some("computed slice bounds");
    }
    if stderr.contains("is not defined") || stderr.contains("undefined function") {
        return Some("undefined functions are runtime errors");
    }
    if prog.contains("path(") && (prog.contains("reduce") || prog.contains("foreach") || prog.contains("?//")) {
        return Some("fold / variable-rooted navigation in path position");
    }
    None
}

fn strip_all_loc(stderr: &str) -> String {
    strip_loc(stderr)
}

/// answers computed ahead of time by `gen` (the CLI spawns of a tier run on several threads; the
/// answer of a request does not depend on when it is computed)
static PREFILLED: std::sync::OnceLock<std::sync::Mutex<std::collections::HashMap<String, String>>> = std::sync::OnceLock::new();

pub fn exec(a: &[&str]) -> String {
    if let Some(m) = PREFILLED.get() {
        if let Some(v) = m.lock().unwrap().get(&a.join(" ")) {
            return v.clone();
        }
    }
    exec_now(a)
}

fn exec_now(a: &[&str]) -> String {
    match a[0] {
        // run <prog hex> <input hex>,<input hex>,…  ->  S<status>|seg|seg|…|E:<stderr hex>
        "run" => {
            let prog = String::from_utf8(parse_bytes(a[1])).expect("utf8");
            let inputs: Vec<Vec<u8>> = a[2].split(',').map(parse_bytes).collect();
            let wrapped = format!("{SEP}, ({prog})");
            let mut stdin = Vec::new();
            for i in &inputs {
                stdin.extend_from_slice(i);
                stdin.push(b'\n');
            }
            let Some((status, out, err)) = run_cli(&wrapped, &stdin) else {
                return "NO-CLI".into();
            };
            if let Some(class) = documented_divergence(&prog, &err, status) {
                return format!("DOCUMENTED-DIVERGENCE {class}");
            }
            if status == 1 && err.contains("compile error") {
                // the CLI's parser rejects a program (classes of the two recorded parser findings)
                let class = if prog.contains("{$") || prog.contains(", $") {
                    "objshorthand"
                } else if prog.contains("@") && prog.contains(" \"") {
                    "fmtstring"
                } else if prog.contains("@base32") && err.contains("unknown format") {
                    // succinctly has no `@base32` / `@base32d` (C24-F29)
                    "base32"
                } else if prog.contains("??") && err.contains("found '?'") {
                    // a second `?` on a term (`"v"??`, `(f)??`) is a parse error in succinctly (C24-F26)
                    "doubleopt"
                } else {
                    "other"
                };
                let first = err.lines().next().unwrap_or("");
                return format!("CLI-COMPILE-ERROR {class} {}", hex_bytes(first.as_bytes()));
            }
            let out_s = String::from_utf8_lossy(&out).into_owned();
            let mut segs: Vec<Vec<&str>> = Vec::new();
            for line in out_s.lines() {
                if line == SEP {
                    segs.push(Vec::new());
                } else if let Some(last) = segs.last_mut() {
                    last.push(line);
                } else {
                    return format!("CLI-OUTPUT-BEFORE-MARKER {}", hex_bytes(out_s.as_bytes()));
                }
            }
            // which inputs raised an error (jq numbers them by input line)
            let mut err_inputs: Vec<usize> = Vec::new();
            for l in err.lines() {
                if let Some(i) = l.find("(at <stdin>:") {
                    let rest = &l[i + 12..];
                    if let Some(j) = rest.find(')') {
                        if let Ok(n) = rest[..j].parse::<usize>() {
                            err_inputs.push(n);
                        }
                    }
                }
            }
            let last_errs = err_inputs.iter().any(|&n| n == inputs.len());
            let st = if err_inputs.is_empty() && status == 0 {
                "0".to_string()
            } else if last_errs || status != 5 {
                status.to_string()
            } else {
                "?".to_string() // an earlier input failed, the last did not: jq versions differ on the final status
            };
            let seg_s: Vec<String> = segs.iter().map(|s| s.join(";")).collect();
            format!("S{st}|{}|E:{}", seg_s.join("|"), hex_bytes(strip_all_loc(&err).as_bytes()))
        }
        // mcase: a recorded case replayed through the model only in this tier (no CLI spawn)
        "mcase" => "CLI-NOT-RUN-IN-THIS-TIER".into(),
        "case" => {
            let filter = String::from_utf8(parse_bytes(a[2])).expect("utf8");
            let input = parse_bytes(a[3]);
            let expected = String::from_utf8(parse_bytes(a[4])).expect("utf8");
            let (exp_main, exp_err) = match expected.find("\n!") {
                Some(i) => (&expected[..i], &expected[i + 2..]),
                None => (&expected[..], ""),
            };
            let (exp_status, exp_out) = exp_main.split_once('\n').unwrap_or((exp_main, ""));
            let Some((status, out, err)) = run_cli(&filter, &input) else {
                return "NO-CLI".into();
            };
            let out_s = String::from_utf8_lossy(&out).into_owned();
            let ok = status.to_string() == exp_status
                && out_s == exp_out
                && (exp_err.is_empty() || strip_loc(err.trim_end()) == strip_loc(exp_err.trim_end()));
            if ok {
                "REPRO".into()
            } else {
                format!("CLI-MISMATCH status={status} out={} err={}", hex_bytes(&out), hex_bytes(err.as_bytes()))
            }
        }
        _ => "BAD-OP".into(),
    }
}

pub fn gen(tier: Tier, r: &mut Rng, emit: &mut dyn FnMut(String)) {
    let mut reqs: Vec<String> = Vec::new();
    gen_requests(tier, r, &mut |s| reqs.push(s));
    // the CLI spawns dominate the cost: compute the answers on several threads, then emit in order
    let workers = std::thread::available_parallelism().map(|n| n.get()).unwrap_or(4).clamp(1, 12);
    let cache = PREFILLED.get_or_init(Default::default);
    std::thread::scope(|sc| {
        for w in 0..workers {
            let reqs = &reqs;
            sc.spawn(move || {
                for req in reqs.iter().skip(w).step_by(workers) {
                    let parts: Vec<&str> = req.split(' ').skip(1).collect();
                    if parts.is_empty() {
                        continue;
                    }
                    let v = exec_now(&parts);
                    cache.lock().unwrap().insert(parts.join(" "), v);
                }
            });
        }
    });
    for req in reqs {
        emit(req);
    }
}

fn gen_requests(tier: Tier, r: &mut Rng, emit: &mut dyn FnMut(String)) {
    gen_runs(tier, r, emit);
    // Replays the recorded jq 1.7.1 cases ($SV_C24_DIR/*.list, regenerated by tools/gen_c24_corpus.py):
    // every 6th case in the quick tier (process spawns), all of them in the thorough tier. The
    // quantified part of C24 over generated programs is carried by C23's in-process comparison of the
    // same evaluator with the model; divergences found there are the cases of corpus/C24/findings.case.
    let Ok(dir) = std::env::var("SV_C24_DIR") else { return };
    let step = if tier == Tier::Quick { 8 } else { 1 };
    let mut n = 0usize;
    for name in ["golden.list", "probes.list"] {
        let Ok(txt) = std::fs::read_to_string(format!("{dir}/{name}")) else { continue };
        for line in txt.lines() {
            if line.starts_with('#') || line.is_empty() {
                continue;
            }
            if n % step == 0 {
                emit(line.to_string());
            } else {
                // the other recorded cases still validate the oracle on every run (driver only)
                emit(line.replacen("C24 case ", "C24 mcase ", 1));
            }
            n += 1;
        }
    }
}

/// generated core-fragment programs x 3 (quick) / 12 (thorough) inputs per CLI spawn
fn gen_runs(tier: Tier, r: &mut Rng, emit: &mut dyn FnMut(String)) {
    use crate::c23::{gen_json, gen_program, gen_root, tame_big_numbers, Ty};
    // order-sensitive programs on object families (one key set, permuted insertion orders)
    for p in ["reverse | sort", "unique", "min", "[.[0] < .[1], .[1] < .[0]]"] {
        emit(format!("C24 run {} {}", hex_bytes(p.as_bytes()), hex_bytes(crate::c23::FAMILY_FIXED.as_bytes())));
    }
    for _ in 0..(if tier == Tier::Quick { 40 } else { 600 }) {
        let p = *r.pick(crate::c23::ORDER_PROGS);
        let inputs: Vec<String> = (0..(if tier == Tier::Quick { 3 } else { 6 })).map(|_| hex_bytes(crate::c23::gen_family(r).as_bytes())).collect();
        emit(format!("C24 run {} {}", hex_bytes(p.as_bytes()), inputs.join(",")));
    }
    // thorough: fewer CLI spawns with more inputs each (the spawn dominates the cost): 6 000 x 12
    let n = if tier == Tier::Quick { 250 } else { 6_000 };
    let per_spawn = if tier == Tier::Quick { 3 } else { 12 };
    for i in 0..n {
        let depth = 1 + (i % 4) as u32;
        let typed = r.chance(4, 5);
        let prog = gen_program(r, depth, if typed { Ty::Root } else { Ty::Any }, false);
        if prog.contains("halt") || prog.contains("debug") || prog.contains("input") || prog.contains("env") || prog.contains("now") {
            continue;
        }
        let inputs: Vec<String> = (0..per_spawn)
            .map(|_| {
                let raw = if typed { gen_root(r) } else { gen_json(r, 3) };
                // jq numbers are doubles: keep the inputs inside the range where succinctly's exact
                // integers and jq's doubles coincide (the difference beyond 2^53 is C10/C11 territory)
                tame_big_numbers(&raw).replace("-0", "0")
            })
            .collect();
        let hexes: Vec<String> = inputs.iter().map(|s| hex_bytes(s.as_bytes())).collect();
        emit(format!("C24 run {} {}", hex_bytes(prog.as_bytes()), hexes.join(",")));
    }
}
