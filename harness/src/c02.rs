//! C02 — word-level bit kernels, every dispatch path driven directly.
use crate::rng::Rng;
use crate::util::*;
use crate::Tier;
use succinctly::verif_hooks as h;

pub fn tables() -> Vec<(&'static str, String)> {
    vec![("SELECT_IN_BYTE_TABLE", crate::json_list(h::SELECT_IN_BYTE_TABLE.iter()))]
}

pub fn exec(a: &[&str]) -> String {
    match a[0] {
        // sel <word> <k>  ->  ctz,broadword,pdep|-,dispatch
        "sel" => {
            let x = u64::from_str_radix(a[1], 16).unwrap();
            let k: u32 = a[2].parse().unwrap();
            format!(
                "{},{},{},{}",
                h::verif_select_in_word_ctz(x, k),
                h::select_in_word_broadword(x, k),
                opt(h::select_in_word_pdep(x, k)),
                succinctly::select_in_word(x, k)
            )
        }
        // pop <word> -> portable,count_ones,popcount_word
        "pop" => {
            let x = u64::from_str_radix(a[1], 16).unwrap();
            format!("{},{},{}", succinctly::popcount_word_portable(x), x.count_ones(), succinctly::popcount_word(x))
        }
        // selb <byte> <k>
        "selb" => {
            let b: u8 = a[1].parse().unwrap();
            let k: u32 = a[2].parse().unwrap();
            h::select_in_byte(b, k).to_string()
        }
        // blk <8 words> -> portable,avx2|-
        "blk" => {
            let ws = parse_words(a[1]);
            format!("{},{}", succinctly::bits::block_popcount_portable(&ws), opt(h::block_popcount_avx2(&ws)))
        }
        // pops <words> -> popcount_words
        "pops" => {
            let ws = parse_words(a[1]);
            succinctly::popcount_words(&ws).to_string()
        }
        // scan <words> <start> <remaining> -> scan_select;scan_select_scalar
        "scan" => {
            let ws = parse_words(a[1]);
            let f = |o: Option<(usize, usize)>| match o {
                Some((i, r)) => format!("{i}:{r}"),
                None => "-".into(),
            };
            format!(
                "{};{}",
                f(succinctly::bits::scan_select(&ws, num(a[2]), num(a[3]))),
                f(succinctly::bits::scan_select_scalar(&ws, num(a[2]), num(a[3])))
            )
        }
        // fuc <word> -> find_unmatched_close_in_word
        "fuc" => {
            let x = u64::from_str_radix(a[1], 16).unwrap();
            succinctly::trees::find_unmatched_close_in_word(x).to_string()
        }
        // fcw <word> <p> -> find_close_in_word
        "fcw" => {
            let x = u64::from_str_radix(a[1], 16).unwrap();
            let p: u32 = a[2].parse().unwrap();
            opt(succinctly::trees::find_close_in_word(x, p))
        }
        _ => "BAD-OP".into(),
    }
}

fn word_of_kind(r: &mut Rng, kind: u64) -> u64 {
    match kind {
        0 => r.next_u64(),
        1 => r.sparse_word(2),
        2 => r.sparse_word(4),
        3 => !r.sparse_word(3),
        4 => 1u64 << r.below(64),
        5 => (1u64 << r.below(64)) | (1u64 << r.below(64)),
        6 => {
            // 16-bit pattern at one of four byte alignments
            let v = r.below(1 << 16);
            v << (r.below(4) * 16)
        }
        7 => {
            // run of ones
            let a = r.below(64);
            let len = r.range(1, 64 - a);
            (if len == 64 { u64::MAX } else { (1u64 << len) - 1 }) << a
        }
        8 => *r.pick(&[0u64, u64::MAX, 1, 1 << 63, 0x5555_5555_5555_5555, 0xAAAA_AAAA_AAAA_AAAA, 0x8000_0000_0000_0001]),
        10 => {
            // bits only in one byte (top byte half of the time): the byte-finding loop must skip empty bytes
            let b = r.range(1, 255);
            let pos = if r.chance(1, 2) { 7 } else { r.below(8) };
            b << (pos * 8)
        }
        11 => {
            // every byte is 0x00, 0xFF or random: cumulative counts land exactly on byte boundaries
            let mut w = 0u64;
            for i in 0..8 {
                let b = match r.below(3) {
                    0 => 0u64,
                    1 => 0xFF,
                    _ => r.below(256),
                };
                w |= b << (i * 8);
            }
            w
        }
        12 => {
            // n opens followed by closes, then random tail: matches land at 2n-1-p (around bit 63 for n≈32)
            let n = r.range(1, 63);
            let low = (1u64 << n) - 1;
            let tail_from = (2 * n).min(63);
            low | ((r.next_u64() >> tail_from) << tail_from)
        }
        _ => {
            // balanced-ish parenthesis word: random walk biased upward
            let mut w = 0u64;
            let mut e = 0i32;
            for i in 0..64 {
                let open = e == 0 || r.chance(1, 2);
                if open {
                    w |= 1 << i;
                    e += 1;
                } else {
                    e -= 1;
                }
            }
            w
        }
    }
}

pub fn gen(tier: Tier, r: &mut Rng, emit: &mut dyn FnMut(String)) {
    let n = if tier == Tier::Quick { 40_000 } else { 2_000_000 };
    // all bytes × k 0..=9 for select_in_byte
    for b in 0..=255u32 {
        for k in [0u32, 1, 2, 3, 4, 5, 6, 7, 8, 9, 63, 64, 1 << 31, u32::MAX] {
            emit(format!("C02 selb {b} {k}"));
        }
    }
    // exhaustive 16-bit words at four alignments (thorough) / 10-bit (quick)
    let ex_bits = if tier == Tier::Quick { 9 } else { 16 };
    for v in 0..(1u64 << ex_bits) {
        for sh in [0u64, 16, 32, 48] {
            let x = v << sh;
            for k in 0..=(x.count_ones() + 1).min(17) {
                emit(format!("C02 sel {x:x} {k}"));
            }
        }
    }
    // every single-bit and two-bit word, k around the count
    for i in 0..64u32 {
        for j in i..64u32 {
            let x = (1u64 << i) | (1u64 << j);
            for k in 0..=2u32 {
                emit(format!("C02 sel {x:x} {k}"));
            }
        }
    }
    // all-ones / one-hole words: every k (the PDEP `k >= 63` mask branch, last byte of the broadword loop)
    for hole in [64u32, 0, 7, 8, 31, 32, 56, 62, 63] {
        let x = if hole == 64 { u64::MAX } else { !(1u64 << hole) };
        for k in 0..=66u32 {
            emit(format!("C02 sel {x:x} {k}"));
        }
        emit(format!("C02 sel {x:x} {}", u32::MAX));
    }
    // n opens then closes: open at p matches at 2n-1-p; every p for every n, so the match sweeps
    // across bit 63 (inside / exactly at 63 / beyond the word); also the same word shifted up
    for nn in 1..=64u32 {
        let x = if nn == 64 { u64::MAX } else { (1u64 << nn) - 1 };
        emit(format!("C02 fuc {x:x}"));
        emit(format!("C02 fuc {:x}", !x));
        for p in 0..=65u32 {
            if tier != Tier::Quick || p < 2 || p + 3 > nn || (2 * nn).wrapping_sub(p + 1).abs_diff(63) <= 2 || p >= 62 {
                emit(format!("C02 fcw {x:x} {p}"));
            }
        }
    }
    // block popcounts at the u8-lane extremes (all-ones halves, 0xFF bytes facing each other)
    for pat in 0..16u32 {
        let blk: Vec<u64> = (0..8)
            .map(|i| match (pat >> (i % 4)) & 1 {
                1 => u64::MAX,
                _ => {
                    if pat & 8 != 0 && i >= 4 {
                        0xFF00_FF00_FF00_FF00
                    } else {
                        0
                    }
                }
            })
            .collect();
        emit(format!("C02 blk {}", hex_words(&blk)));
    }
    for i in 0..n {
        let x = word_of_kind(r, (i % 13) as u64);
        let pc = x.count_ones() as u64;
        let k = match r.below(8) {
            0 => pc,
            1 => pc.saturating_sub(1),
            2 => pc + 1,
            3 => *r.pick(&[63u64, 64, 65, 70, 1 << 31, u32::MAX as u64]),
            _ => r.below(pc.max(1)),
        };
        emit(format!("C02 sel {x:x} {k}"));
        emit(format!("C02 pop {x:x}"));
        emit(format!("C02 fuc {x:x}"));
        let p = match r.below(16) {
            0 => r.range(60, 70),
            1 => *r.pick(&[0u64, 1, 61, 62, 63, 64, u32::MAX as u64]),
            _ => r.below(64),
        };
        emit(format!("C02 fcw {x:x} {p}"));
        if i % 4 == 0 {
            let kind = r.below(13);
            let blk: Vec<u64> = (0..8).map(|_| if r.chance(1, 8) { 0 } else { word_of_kind(r, kind) }).collect();
            emit(format!("C02 blk {}", hex_words(&blk)));
        }
        if i % 16 == 0 {
            // scan over up to 40 words with zero runs
            let nw = r.usize_below(41);
            let dens = r.below(4) as u32 + 1;
            let ws: Vec<u64> = (0..nw).map(|_| if r.chance(2, 3) { 0 } else { r.sparse_word(dens) }).collect();
            let total: u64 = ws.iter().map(|w| w.count_ones() as u64).sum();
            let start = r.usize_below(nw + 2);
            let rem = r.below(total + 3);
            emit(format!("C02 scan {} {start} {rem}", hex_words(&ws)));
            emit(format!("C02 pops {}", hex_words(&ws)));
        }
    }
}
