//! C10 — printed numbers read back to the same value.
//!
//! Every answer line carries (i) the strings the implementation printed (diffed against the Lean
//! model, which is fed the two `core` strings `{}` / `{:e}` where the Rust code holds an `f64`) and
//! (ii) an implementation-side oracle: `RT-OK` iff Rust's `parse::<f64>()` of the printed text has
//! the bit pattern of the source double (resp. of `parse::<f64>()` of the input literal), else
//! `RT-FAIL …`; `G-OK` iff the printed text is in the grammar the readers accept.  The model side
//! prints `RT-OK`/`G-OK` whenever the property promises them, so a value-changing defect shows as a
//! disagreement even where the model reproduces the implementation's string.
use crate::rng::Rng;
use crate::util::*;
use crate::Tier;
use succinctly::jq::{format_number_jq_compat, NumberRepr, OwnedValue};
use succinctly::json::validate::is_valid_number;
use succinctly::verif_hooks as h;
use succinctly::yaml::{
    format_float_with_fraction, format_float_yq, format_float_yq_yaml, format_float_yq_yaml_nested, resolve_plain,
    ResolvedScalar,
};

pub fn tables() -> Vec<(&'static str, String)> {
    Vec::new()
}

fn text_of_hex(s: &str) -> Option<String> {
    String::from_utf8(parse_bytes(s)).ok()
}

fn hex_text(s: &str) -> String {
    hex_bytes(s.as_bytes())
}

fn cls(s: &str) -> (&'static str, Option<f64>) {
    match s.parse::<f64>() {
        Err(_) => ("err", None),
        Ok(v) if v.is_nan() => ("nan", None),
        Ok(v) if v.is_infinite() => ("inf", None),
        Ok(v) if v == 0.0 => ("zero", Some(v)),
        Ok(v) => ("fin", Some(v)),
    }
}

/// `RT-OK` iff `printed` parses to exactly the bits of `want`.
fn rt(want: Option<f64>, printed: &[&str]) -> String {
    let Some(w) = want else { return "RT-NA".into() };
    for p in printed {
        match p.parse::<f64>() {
            Ok(g) if g.to_bits() == w.to_bits() => {}
            Ok(g) => return format!("RT-FAIL want={:016x} got={:016x}", w.to_bits(), g.to_bits()),
            Err(_) => return format!("RT-FAIL want={:016x} got=unparseable", w.to_bits()),
        }
    }
    "RT-OK".into()
}

fn is_literal(v: &OwnedValue) -> bool {
    matches!(v, OwnedValue::NumberLiteral(..))
}

fn accepted(s: &str) -> bool {
    is_literal(&OwnedValue::from_number_bytes(s.as_bytes()))
        || s.strip_prefix('+').is_some_and(|t| is_literal(&OwnedValue::from_number_bytes(t.as_bytes())))
}

fn same_value(r: ResolvedScalar, f: f64) -> bool {
    match r {
        ResolvedScalar::Float(g) => g.to_bits() == f.to_bits(),
        ResolvedScalar::Int(n) => n as f64 == f,
        _ => false,
    }
}

pub fn exec(a: &[&str]) -> String {
    match a[0] {
        // i64 <n> -> write_i64 Display RT
        "i64" => {
            let n: i64 = a[1].parse().unwrap();
            let w = h::verif_write_i64(n);
            let d = OwnedValue::Int(n).to_json();
            let ok = w.parse::<i64>() == Ok(n) && d.parse::<i64>() == Ok(n);
            format!("{w} {d} {}", if ok { "RT-OK" } else { "RT-FAIL" })
        }
        // wf <bits> <disp> -> format_float_with_fraction RT G
        "wf" => {
            let f = f64::from_bits(u64::from_str_radix(a[1], 16).unwrap());
            let out = format_float_with_fraction(f);
            let viaj = OwnedValue::Float(f).to_json();
            if viaj != f.to_string() || a[2] != f.to_string() {
                return format!("CORE-MISMATCH {viaj}");
            }
            let g = is_valid_number(out.as_bytes()) && out.contains('.');
            format!("{out} {} {}", rt(Some(f), &[&out, &viaj]), if g { "G-OK" } else { "G-FAIL" })
        }
        // yq <bits> <disp> <sci> -> json yaml RT G nested
        "yq" => {
            let f = f64::from_bits(u64::from_str_radix(a[1], 16).unwrap());
            if a[2] != f.to_string() || a[3] != format!("{f:e}") {
                return "CORE-MISMATCH".into();
            }
            let j = format_float_yq(f);
            let y = format_float_yq_yaml(f);
            let n = format_float_yq_yaml_nested(f);
            let nbare = n.strip_prefix("!!float ").unwrap_or(&n);
            let n_ok = if n.starts_with("!!float ") {
                matches!(resolve_plain(nbare), ResolvedScalar::Int(_)) && same_value(resolve_plain(nbare), f)
            } else {
                matches!(resolve_plain(nbare), ResolvedScalar::Float(g) if g.to_bits() == f.to_bits())
            };
            let g = is_valid_number(j.as_bytes()) && same_value(resolve_plain(&y), f) && n_ok;
            format!("{j} {y} {} {} {n}", rt(Some(f), &[&j, &y, nbare]), if g { "G-OK" } else { "G-FAIL" })
        }
        // lit <hex> -> out cls RT G
        "lit" => {
            let Some(s) = text_of_hex(a[1]) else { return "NON-UTF8".into() };
            let out = format_number_jq_compat(s.as_bytes());
            let (c, v) = cls(&s);
            let g = if accepted(&s) {
                if is_valid_number(out.as_bytes()) {
                    "G-OK"
                } else {
                    "G-FAIL"
                }
            } else {
                "G-NA"
            };
            format!("{out} {c} {} {g}", rt(v, &[&out]))
        }
        // fnb <hex> <disp|-> -> kind to_json RT
        "fnb" => {
            let Some(s) = text_of_hex(a[1]) else { return "NON-UTF8".into() };
            let v = OwnedValue::from_number_bytes(s.as_bytes());
            let kind = match &v {
                OwnedValue::Null => "null",
                OwnedValue::Int(_) => "int",
                OwnedValue::Float(f) if f.is_nan() => "nan",
                OwnedValue::Float(f) if f.is_infinite() => "inf",
                OwnedValue::Float(_) => "float",
                OwnedValue::NumberLiteral(NumberRepr::Int(_), _) => "lit-int",
                OwnedValue::NumberLiteral(NumberRepr::Float(_), _) => "lit-float",
                _ => "other",
            };
            let out = v.to_json();
            let (_, want) = cls(&s);
            let want_disp = want.map_or("-".to_string(), |f| f.to_string());
            if a[2] != want_disp {
                return "CORE-MISMATCH".into();
            }
            format!("{kind} {out} {}", rt(want, &[&out]))
        }
        // prev <hex> -> error-message preview (stream_owned_value_json_jq) of from_number_bytes(hex)
        "prev" => {
            let Some(s) = text_of_hex(a[1]) else { return "NON-UTF8".into() };
            let v = OwnedValue::from_number_bytes(s.as_bytes());
            if !is_literal(&v) {
                return "-".into();
            }
            let mut o = String::new();
            let _ = succinctly::jq::stream::stream_owned_value_json_jq(&v, &mut o);
            o
        }
        // norm <hex> <cap|-> -> normalize_extreme_literal_mantissa
        "norm" => {
            let Some(s) = text_of_hex(a[1]) else { return "NON-UTF8".into() };
            let cap = if a[2] == "-" { None } else { Some(num(a[2])) };
            match h::verif_normalize_extreme_literal_mantissa(&s, cap) {
                None => "none".into(),
                Some(Ok((m, e, sat, dc))) => format!("ok {m} {e} {} {dc}", sat as u8),
                Some(Err(fl)) => format!("err {fl}"),
            }
        }
        // tag <hex> -> needs_explicit_float_tag
        "tag" => {
            let Some(s) = text_of_hex(a[1]) else { return "NON-UTF8".into() };
            (h::verif_needs_explicit_float_tag(&s) as u8).to_string()
        }
        _ => "BAD-OP".into(),
    }
}

// ---------------------------------------------------------------------------------------------
// generators

fn pow10(e: i32) -> f64 {
    format!("1e{e}").parse().unwrap()
}

fn double_of_kind(r: &mut Rng, kind: u64) -> f64 {
    let f = match kind {
        // random bit pattern
        0 | 1 => f64::from_bits(r.next_u64()),
        // subnormal
        2 => f64::from_bits(r.next_u64() & ((1 << 52) - 1) | (r.below(2) << 63)),
        // power of ten (exact and neighbours)
        3 => {
            let p = pow10(r.range(0, 631) as i32 - 323);
            f64::from_bits((p.to_bits() as i64 + r.range(0, 2) as i64 - 1) as u64)
        }
        // power of two and neighbours
        4 => {
            let e = r.range(0, 2046);
            let b = e << 52;
            f64::from_bits((b as i64 + r.range(0, 2) as i64 - 1).max(0) as u64)
        }
        // integers around 2^53 and 2^63, small integers
        5 => {
            let base: f64 = *r.pick(&[9007199254740992.0, 9223372036854775808.0, 4503599627370496.0, 1e15, 1e16, 1e17, 1e21, 1e22]);
            f64::from_bits((base.to_bits() as i64 + r.range(0, 8) as i64 - 4) as u64)
        }
        // short decimals d.ddd × 10^k inside and around the yq window
        6 => {
            let w = r.range(1, 6) as u32;
            let digits = r.range(1, 10_u64.pow(w));
            let e = r.range(0, 24) as i32 - 12;
            format!("{digits}e{e}").parse().unwrap()
        }
        // 17-significant-digit decimals
        7 => {
            let m = r.range(10_000_000_000_000_000, 99_999_999_999_999_999);
            let e = r.range(0, 600) as i32 - 320;
            format!("{m}e{e}").parse().unwrap()
        }
        // small integers / halves (Display without '.')
        8 => (r.below(2_000_001) as f64 - 1_000_000.0) / *r.pick(&[1.0, 2.0, 4.0, 10.0]),
        _ => *r.pick(&[
            0.0,
            -0.0,
            1.0,
            -1.0,
            f64::MAX,
            f64::MIN,
            f64::MIN_POSITIVE,
            5e-324,
            -5e-324,
            0.1,
            0.3,
            1e-5,
            9.999999e-5,
            1e-4,
            999999.9,
            1e6,
            99999.99999999999,
            100000.0,
            1e-7,
            123456789012345680000.0,
            2.2250738585072014e-308,
            4.9406564584124654e-324,
            1.7976931348623157e308,
        ]),
    };
    let f = if r.chance(1, 4) { -f } else { f };
    if f.is_finite() {
        f
    } else {
        1.5
    }
}

fn digits(r: &mut Rng, n: usize) -> String {
    (0..n).map(|_| (b'0' + r.below(10) as u8) as char).collect()
}

fn len_small(r: &mut Rng) -> usize {
    match r.below(8) {
        0 => 0,
        1..=4 => r.range(1, 4) as usize,
        5 | 6 => r.range(5, 20) as usize,
        _ => r.range(21, 60) as usize,
    }
}

/// mantissa digit string with controlled leading / trailing zeros
fn mant_digits(r: &mut Rng, n: usize) -> String {
    let mut s = digits(r, n);
    if n > 0 && r.chance(1, 3) {
        let z = r.usize_below(n.min(8) + 1);
        s.replace_range(..z, &"0".repeat(z));
    }
    if n > 0 && r.chance(1, 3) {
        let z = r.usize_below(n.min(8) + 1);
        s.replace_range(n - z.., &"0".repeat(z));
    }
    if r.chance(1, 16) {
        s = "0".repeat(n);
    }
    s
}

fn exponent_text(r: &mut Rng) -> String {
    let mag: String = match r.below(12) {
        0 => "0".into(),
        1..=4 => r.below(12).to_string(),
        5 | 6 => r.below(40).to_string(),
        7 => r.range(280, 420).to_string(),
        8 => r.range(300, 330).to_string(),
        9 => r.below(2_000_000_000).to_string(),
        10 => {
            // around the i128 limits / beyond
            let base = *r.pick(&[
                "170141183460469231731687303715884105727",
                "170141183460469231731687303715884105728",
                "170141183460469231731687303715884105726",
                "170141183460469231731687303715884105700",
                "999999999",
                "1000000000",
                "1000000001",
                "18446744073709551616",
                "9223372036854775808",
            ]);
            base.to_string()
        }
        _ => {
            let n = r.range(1, 45) as usize;
            digits(r, n)
        }
    };
    let zeros = if r.chance(1, 5) { "0".repeat(r.range(1, 3) as usize) } else { String::new() };
    let sign = *r.pick(&["", "", "+", "-", "-"]);
    format!("{sign}{zeros}{mag}")
}

/// decimal literal from the JSON number grammar (`lenient`: plus leading zeros / leading dot / `+`).
fn literal(r: &mut Rng, lenient: bool, with_exp: bool) -> String {
    let sign = if r.chance(1, 3) { "-" } else { "" };
    let sign = if lenient && r.chance(1, 8) { "+" } else { sign };
    let n_ip = len_small(r).max(1);
    let mut ip = mant_digits(r, n_ip);
    if !lenient {
        let t = ip.trim_start_matches('0');
        ip = if t.is_empty() { "0".into() } else { t.into() };
        if r.chance(1, 6) {
            ip = "0".into();
        }
    } else if r.chance(1, 6) {
        ip.clear();
    }
    let mut fp = if r.chance(1, 2) || ip.is_empty() {
        let n_fp = len_small(r).max(1);
        Some(mant_digits(r, n_fp))
    } else {
        None
    };
    if ip == "0" && r.chance(1, 2) {
        // magnitude < 1 with leading zero run in the fraction
        let z = r.usize_below(12);
        let n_tail = r.range(1, 20) as usize;
        let tail = digits(r, n_tail);
        fp = Some(format!("{}{}", "0".repeat(z), tail));
    }
    let mut s = format!("{sign}{ip}");
    if let Some(f) = fp {
        s.push('.');
        s.push_str(&f);
    }
    if with_exp {
        s.push(*r.pick(&['e', 'E']));
        s.push_str(&exponent_text(r));
    }
    s
}

/// literal whose shifted exponent lands on a notation boundary (window -6..=0, plain-vs-scientific)
fn boundary_literal(r: &mut Rng) -> String {
    let n_int = r.range(1, 20) as usize;
    let n_frac = r.below(20) as usize;
    let mut ip = digits(r, n_int);
    if ip.starts_with('0') {
        ip.replace_range(..1, "7");
    }
    let fp = digits(r, n_frac);
    // shifted = exp + n_int - 1; choose around -7..1 and around digit_count
    let dc = (n_int + n_frac) as i64;
    let target = *r.pick(&[-8i64, -7, -6, -5, -1, 0, 1, 2, dc - 2, dc - 1, dc, dc + 1]);
    let exp = target - (n_int as i64 - 1);
    let sign = if r.chance(1, 4) { "-" } else { "" };
    if n_frac > 0 {
        format!("{sign}{ip}.{fp}e{exp}")
    } else {
        format!("{sign}{ip}E{exp:+}")
    }
}

/// literal near the overflow / underflow boundaries of binary64
fn extreme_literal(r: &mut Rng) -> String {
    let base = *r.pick(&[
        "1.7976931348623157",
        "1.7976931348623158",
        "1.797693134862315807",
        "1.797693134862315708",
        "1.797693134862315808",
        "2.4703282292062327",
        "2.4703282292062328",
        "2.47032822920623272",
        "4.9406564584124654",
        "2.2250738585072014",
        "2.2250738585072011",
        "9.999999999999999",
        "1",
    ]);
    let (m, e): (&str, i64) = if base.starts_with("1.79") {
        (base, 308)
    } else if base.starts_with("2.47") || base.starts_with("4.94") {
        (base, -324)
    } else if base.starts_with("2.22") {
        (base, -308)
    } else {
        (base, *r.pick(&[308i64, 309, -323, -324, -325, 400, -400, 999_999_999, 1_000_000_000, -1_000_000_000]))
    };
    // respell with the point moved by k places
    let k = r.range(0, 6) as i64 - 3;
    let digits_only: String = m.chars().filter(|c| *c != '.').collect();
    let point = 1 + k;
    let sign = if r.chance(1, 4) { "-" } else { "" };
    let mant = if point <= 0 {
        format!("0.{}{}", "0".repeat((-point) as usize), digits_only)
    } else if (point as usize) >= digits_only.len() {
        format!("{}{}", digits_only, "0".repeat(point as usize - digits_only.len()))
    } else {
        format!("{}.{}", &digits_only[..point as usize], &digits_only[point as usize..])
    };
    format!("{sign}{mant}e{}", e - k)
}

fn garbage(r: &mut Rng) -> String {
    let alpha: &[u8] = b"0123456789012345+-..eEeE0x_ainftyNn~";
    let n = r.range(0, 12) as usize;
    (0..n).map(|_| alpha[r.usize_below(alpha.len())] as char).collect()
}

fn mutate(r: &mut Rng, s: &str) -> String {
    let mut b: Vec<u8> = s.bytes().collect();
    let alpha: &[u8] = b"0123456789+-.eE";
    match r.below(3) {
        0 if !b.is_empty() => {
            let i = r.usize_below(b.len());
            b[i] = alpha[r.usize_below(alpha.len())];
        }
        1 if !b.is_empty() => {
            let i = r.usize_below(b.len());
            b.remove(i);
        }
        _ => {
            let i = r.usize_below(b.len() + 1);
            b.insert(i, alpha[r.usize_below(alpha.len())]);
        }
    }
    String::from_utf8(b).unwrap()
}

fn emit_lit(emit: &mut dyn FnMut(String), s: &str) {
    emit(format!("C10 lit {}", hex_text(s)));
}

fn emit_fnb(emit: &mut dyn FnMut(String), s: &str) {
    let disp = match s.parse::<f64>() {
        Ok(f) if f.is_finite() => f.to_string(),
        _ => "-".into(),
    };
    emit(format!("C10 fnb {} {disp}", hex_text(s)));
}

pub fn gen(tier: Tier, r: &mut Rng, emit: &mut dyn FnMut(String)) {
    let quick = tier == Tier::Quick;
    // ---- integers
    let n_int = if quick { 4_000 } else { 200_000 };
    for k in 0..=64u32 {
        for d in [-1i128, 0, 1] {
            for s in [1i128, -1] {
                let v = s * ((1i128 << k) + d);
                if v >= i64::MIN as i128 && v <= i64::MAX as i128 {
                    emit(format!("C10 i64 {v}"));
                }
            }
        }
    }
    let mut p: i128 = 1;
    for _ in 0..19 {
        for d in [-1i128, 0, 1] {
            for s in [1i128, -1] {
                let v = s * (p + d);
                emit(format!("C10 i64 {v}"));
            }
        }
        p *= 10;
    }
    for _ in 0..n_int {
        let v = match r.below(4) {
            0 => r.next_u64() as i64,
            1 => (r.next_u64() >> r.below(64)) as i64,
            2 => -((r.next_u64() >> r.below(64)) as i64),
            _ => r.below(100_000) as i64 - 50_000,
        };
        emit(format!("C10 i64 {v}"));
    }
    // ---- doubles
    let n_dbl = if quick { 30_000 } else { 1_500_000 };
    for i in 0..n_dbl {
        let f = double_of_kind(r, (i % 10) as u64);
        let bits = f.to_bits();
        emit(format!("C10 yq {bits:x} {f} {f:e}"));
        if i % 3 == 0 {
            emit(format!("C10 wf {bits:x} {f}"));
        }
    }
    // ---- literals
    let n_lit = if quick { 30_000 } else { 1_000_000 };
    for i in 0..n_lit {
        let s = match i % 10 {
            0 => literal(r, false, false),
            1 => literal(r, true, false),
            2 | 3 => literal(r, false, true),
            4 => literal(r, true, true),
            5 | 6 => boundary_literal(r),
            7 => extreme_literal(r),
            8 => {
                let kind = r.below(10);
                let f = double_of_kind(r, kind);
                if r.chance(1, 2) {
                    format!("{f:e}")
                } else {
                    format!("{f:E}")
                }
            }
            _ => {
                let we = r.chance(1, 2);
                let base = literal(r, true, we);
                mutate(r, &base)
            }
        };
        emit_lit(emit, &s);
        if i % 2 == 0 {
            emit_fnb(emit, &s);
        }
        if i % 8 == 1 {
            emit(format!("C10 prev {}", hex_text(&s)));
        }
        if i % 4 == 0 && s.contains(['e', 'E']) && s.parse::<f64>().is_ok() {
            let cap = match r.below(4) {
                0 => "-".to_string(),
                1 => "100000".to_string(),
                _ => r.below(12).to_string(),
            };
            emit(format!("C10 norm {} {cap}", hex_text(&s)));
        }
    }
    // ---- malformed stream
    let n_bad = if quick { 6_000 } else { 200_000 };
    for _ in 0..n_bad {
        let s = garbage(r);
        emit_lit(emit, &s);
        emit_fnb(emit, &s);
        emit(format!("C10 tag {}", hex_text(&s)));
    }
    // ---- tag on printed spellings and near-number texts
    for i in 0..(n_dbl / 10) {
        let f = double_of_kind(r, (i % 10) as u64);
        let s = match r.below(3) {
            0 => f.to_string(),
            1 => format!("{f:e}"),
            _ => {
                let we = r.chance(1, 2);
                literal(r, true, we)
            }
        };
        emit(format!("C10 tag {}", hex_text(&s)));
    }
    // ---- long mantissas up to the digit cap and past it (few, large)
    let caps: &[usize] = if quick { &[100_001, 100_002] } else { &[50_000, 99_999, 100_000, 100_001, 100_002, 100_003, 150_000] };
    for &n in caps {
        for shape in 0..4 {
            if quick && n == 100_001 && shape >= 2 {
                continue;
            }
            let body = {
                let mut d = digits(r, n);
                d.replace_range(..1, "3");
                d
            };
            let s = match shape {
                0 => format!("{body}e-{}", n + 20),       // scientific, negative shifted exponent
                1 => format!("{}.{}e0", &body[..50], &body[50..]), // plain positive shift
                2 => format!("0.000{body}e-2"),           // decimal window
                _ => format!("{}.{}e5000", &body[..1], &body[1..]), // overflow, scientific
            };
            emit_lit(emit, &s);
            if shape == 0 || shape == 3 {
                emit(format!("C10 prev {}", hex_text(&s)));
            }
        }
    }
}
