//! Deterministic PRNG (splitmix64 seeding xoshiro256**). Every random choice of
//! the harness derives from one `Rng` seeded by VERIF_SEED.
#[derive(Clone)]
pub struct Rng {
    s: [u64; 4],
}

fn splitmix(state: &mut u64) -> u64 {
    *state = state.wrapping_add(0x9E37_79B9_7F4A_7C15);
    let mut z = *state;
    z = (z ^ (z >> 30)).wrapping_mul(0xBF58_476D_1CE4_E5B9);
    z = (z ^ (z >> 27)).wrapping_mul(0x94D0_49BB_1331_11EB);
    z ^ (z >> 31)
}

impl Rng {
    pub fn new(seed: u64) -> Self {
        let mut st = seed ^ 0x5EED_5EED_5EED_5EED;
        let s = [splitmix(&mut st), splitmix(&mut st), splitmix(&mut st), splitmix(&mut st)];
        Rng { s }
    }
    /// Derive an independent stream (e.g. per property) from a label.
    pub fn fork(&mut self, label: &str) -> Rng {
        let mut h = self.next_u64();
        for b in label.bytes() {
            h = (h ^ b as u64).wrapping_mul(0x100_0000_01B3);
        }
        Rng::new(h)
    }
    pub fn next_u64(&mut self) -> u64 {
        let s = &mut self.s;
        let result = s[1].wrapping_mul(5).rotate_left(7).wrapping_mul(9);
        let t = s[1] << 17;
        s[2] ^= s[0];
        s[3] ^= s[1];
        s[1] ^= s[2];
        s[0] ^= s[3];
        s[2] ^= t;
        s[3] = s[3].rotate_left(45);
        result
    }
    /// Uniform in `0..n` (n > 0).
    pub fn below(&mut self, n: u64) -> u64 {
        if n == 0 {
            return 0;
        }
        self.next_u64() % n
    }
    pub fn range(&mut self, lo: u64, hi_incl: u64) -> u64 {
        lo + self.below(hi_incl - lo + 1)
    }
    pub fn usize_below(&mut self, n: usize) -> usize {
        self.below(n as u64) as usize
    }
    pub fn chance(&mut self, num: u64, den: u64) -> bool {
        self.below(den) < num
    }
    pub fn pick<'a, T>(&mut self, xs: &'a [T]) -> &'a T {
        &xs[self.usize_below(xs.len())]
    }
    /// Word with each bit set with probability 2^-shift (shift=1 → dense).
    pub fn sparse_word(&mut self, shift: u32) -> u64 {
        let mut w = u64::MAX;
        for _ in 0..shift {
            w &= self.next_u64();
        }
        w
    }
    pub fn byte(&mut self) -> u8 {
        self.next_u64() as u8
    }
}
