//! C26 — yq results do not depend on the input's syntax.
//!
//! `run <prog hex> <features> <br n toks> <hexA> <br n toks> <hexB> <json hex>`: one data tree (a sequence of
//! 24 sub-trees) and five programs joined by `,` rendered as block YAML (A), flow YAML (B) and JSON; the CLI (`SV_CLI`) evaluates
//! `.[] | (prog)` with `-o json -I 0` on each (JSON with `-p json`); answer `SAME <hash>` when exit
//! code and stdout agree, else `DIFF …`.  The driver checks that all three renderings denote the same
//! tree (loadRef on A and B, its JSON reader on the JSON) and answers `SAME`.
//! `nav <prog hex> <features> …same…`: one navigation or evaluator program applied verbatim to a tree that
//! carries integers around 2^53, at the ends of the i64 range and 10^15…10^18; four CLI runs: block
//! YAML, flow YAML, JSON on stdin with `-p json`, and the JSON as a file named `*.json`.
//! `esc <prog hex> <features> <br n toks> <hexA> <br n toks> <hexB> <ascii json hex>`: a tree of strings (values and
//! keys) with non-ASCII, control and astral characters at the start / in the middle / at the END;
//! A = block YAML with every string double-quoted and all such characters written as `\x` / `\u` /
//! `\U` escapes, B = flow YAML in random spellings, JSON = ASCII-only (`\uXXXX`; surrogate pairs or — two requests in three — raw characters beyond the BMP;
//! `\/`, either hex case); five CLI runs (A, B, ASCII JSON on stdin and as a `*.json` file, and the
//! raw-UTF-8 JSON the harness derives from A's tree) of one program from ESC_PROGRAMS — the
//! navigation programs the yq front end streams (`.`, `.a`, `.b.c`, `.[0]`, `.[]`, …) and evaluator
//! programs over the same paths.
use crate::c14::yamlgen::*;
use crate::rng::Rng;
use crate::util::*;
use crate::Tier;
use std::io::Write;
use std::process::{Command, Stdio};

pub fn tables() -> Vec<(&'static str, String)> {
    vec![]
}

fn json_str(s: &str, o: &mut String) {
    o.push('"');
    for c in s.chars() {
        match c {
            '"' => o.push_str("\\\""),
            '\\' => o.push_str("\\\\"),
            '\n' => o.push_str("\\n"),
            '\r' => o.push_str("\\r"),
            '\t' => o.push_str("\\t"),
            c if (c as u32) < 0x20 => o.push_str(&format!("\\u{:04x}", c as u32)),
            c => o.push(c),
        }
    }
    o.push('"');
}

/// ASCII-only JSON string: `\uXXXX` for every control / DEL / non-ASCII character (a surrogate pair
/// beyond the BMP), short escapes or `\u00XX` for `\n` `\t` …, `/` sometimes as `\/`.
fn json_str_ascii(s: &str, upper: bool, pairs: bool, o: &mut String) {
    let u = |n: u32, o: &mut String| {
        if upper {
            o.push_str(&format!("\\u{:04X}", n));
        } else {
            o.push_str(&format!("\\u{:04x}", n));
        }
    };
    o.push('"');
    for c in s.chars() {
        let n = c as u32;
        match c {
            '"' => o.push_str("\\\""),
            '\\' => o.push_str("\\\\"),
            '\n' if !upper => o.push_str("\\n"),
            '\t' if !upper => o.push_str("\\t"),
            '/' if upper => o.push_str("\\/"),
            _ if n < 0x20 || n == 0x7f => u(n, o),
            _ if n < 0x80 => o.push(c),
            _ if n < 0x10000 => u(n, o),
            _ if !pairs => o.push(c),
            _ => {
                let v = n - 0x10000;
                u(0xD800 + (v >> 10), o);
                u(0xDC00 + (v & 0x3ff), o);
            }
        }
    }
    o.push('"');
}

pub fn to_json_ascii(t: &Tree, upper: bool, pairs: bool, o: &mut String) {
    match t {
        Tree::Str(s) => json_str_ascii(s, upper, pairs, o),
        Tree::Seq(xs) => {
            o.push('[');
            for (i, x) in xs.iter().enumerate() {
                if i > 0 {
                    o.push(',');
                }
                to_json_ascii(x, upper, pairs, o);
            }
            o.push(']');
        }
        Tree::Map(kvs) => {
            o.push('{');
            for (i, (k, x)) in kvs.iter().enumerate() {
                if i > 0 {
                    o.push(',');
                }
                json_str_ascii(k, upper, pairs, o);
                o.push(':');
                to_json_ascii(x, upper, pairs, o);
            }
            o.push('}');
        }
        other => to_json(other, o),
    }
}

pub fn to_json(t: &Tree, o: &mut String) {
    match t {
        Tree::Null => o.push_str("null"),
        Tree::Bool(b) => o.push_str(if *b { "true" } else { "false" }),
        Tree::Int(i) => o.push_str(&i.to_string()),
        Tree::Str(s) => json_str(s, o),
        Tree::Seq(xs) => {
            o.push('[');
            for (i, x) in xs.iter().enumerate() {
                if i > 0 {
                    o.push(',');
                }
                to_json(x, o);
            }
            o.push(']');
        }
        Tree::Map(kvs) => {
            o.push('{');
            for (i, (k, x)) in kvs.iter().enumerate() {
                if i > 0 {
                    o.push(',');
                }
                json_str(k, o);
                o.push(':');
                to_json(x, o);
            }
            o.push('}');
        }
    }
}

/// An all-flow presentation of a tree.
fn to_flow(t: &Tree, r: &mut Rng) -> PNode {
    match t {
        Tree::Null => PNode::Null(r.below(4) as u32),
        Tree::Bool(b) => PNode::Bool(*b, r.below(3) as u32),
        Tree::Int(i) => PNode::Int(*i, r.below(5) as u32),
        Tree::Str(s) => {
            let mut opts = vec![SStyle::Double { short: r.chance(1, 2), esc_uni: r.chance(1, 4) }];
            if s.chars().all(is_printable) {
                opts.push(SStyle::Single);
            }
            if plain_safe(true, s) && resolves_to_str(s) {
                opts.push(SStyle::Plain);
            }
            let i = r.usize_below(opts.len());
            PNode::Str(s.clone(), opts.swap_remove(i))
        }
        Tree::Seq(xs) => PNode::Seq {
            flow: true,
            step: 2,
            compact: false,
            items: xs.iter().map(|x| (Meta { gap: r.below(2) as usize, ..Default::default() }, to_flow(x, r))).collect(),
        },
        Tree::Map(kvs) => PNode::Map {
            flow: true,
            step: 2,
            compact: false,
            entries: kvs
                .iter()
                .map(|(k, x)| {
                    let ks = if plain_safe(true, k) && resolves_to_str(k) && k != "<<" && r.chance(1, 2) {
                        KStyle::Plain
                    } else if k.chars().all(is_printable) && r.chance(1, 2) {
                        KStyle::Single
                    } else {
                        KStyle::Double { short: true, esc_uni: false }
                    };
                    (Meta::default(), k.clone(), ks, to_flow(x, r))
                })
                .collect(),
        },
    }
}

fn run_cli(args: &[&str], input: &[u8]) -> String {
    let Ok(cli) = std::env::var("SV_CLI") else { return "NO-CLI".into() };
    let Ok(mut ch) = Command::new(cli).args(args).env("NO_COLOR", "1").stdin(Stdio::piped()).stdout(Stdio::piped()).stderr(Stdio::piped()).spawn() else {
        return "SPAWN-FAILED".into();
    };
    let mut si = ch.stdin.take().unwrap();
    let b = input.to_vec();
    let w = std::thread::spawn(move || {
        let _ = si.write_all(&b);
    });
    let out = ch.wait_with_output().unwrap();
    let _ = w.join();
    format!("rc={} {}", out.status.code().unwrap_or(-1), String::from_utf8_lossy(&out.stdout))
}

fn fnv(s: &str) -> u64 {
    let mut h = 0xcbf29ce484222325u64;
    for b in s.bytes() {
        h = (h ^ b as u64).wrapping_mul(0x100000001b3);
    }
    h
}

fn brief(s: &str) -> String {
    let t: String = s.chars().take(70).collect();
    format!("{:016x}:{}", fnv(s), t.replace(|c: char| c == ' ' || c == '\n' || c == '\t', "_"))
}

static FILE_SEQ: std::sync::atomic::AtomicUsize = std::sync::atomic::AtomicUsize::new(0);

/// `yq -o json -I 0 prog <file>.json` (the extension declares the input format).
fn run_cli_json_file(prog: &str, js: &[u8]) -> String {
    let n = FILE_SEQ.fetch_add(1, std::sync::atomic::Ordering::SeqCst);
    let path = std::env::temp_dir().join(format!("sv-c26-{}-{}.json", std::process::id(), n));
    if std::fs::write(&path, js).is_err() {
        return "TEMPFILE-FAILED".into();
    }
    let ps = path.to_string_lossy().to_string();
    let out = run_cli(&["yq", "-o", "json", "-I", "0", prog, &ps], b"");
    let _ = std::fs::remove_file(&path);
    out
}

pub fn exec(a: &[&str]) -> String {
    match a[0] {
        "run" | "nav" => {
            let prog = String::from_utf8(parse_bytes(a[1])).unwrap();
            let prog = if a[0] == "run" { format!(".[] | ({prog})") } else { prog };
            let ya = parse_bytes(a[6]);
            let yb = parse_bytes(a[10]);
            let js = parse_bytes(a[11]);
            let oa = run_cli(&["yq", "-o", "json", "-I", "0", &prog], &ya);
            let ob = run_cli(&["yq", "-o", "json", "-I", "0", &prog], &yb);
            let oj = run_cli(&["yq", "-p", "json", "-o", "json", "-I", "0", &prog], &js);
            let of = if a[0] == "nav" { run_cli_json_file(&prog, &js) } else { oj.clone() };
            if oa == ob && ob == oj && oj == of {
                format!("SAME {:016x}", fnv(&oa))
            } else {
                format!("DIFF json={} jsonfile={} block={} flow={}", brief(&oj), brief(&of), brief(&oa), brief(&ob))
            }
        }
        "esc" => {
            let prog = String::from_utf8(parse_bytes(a[1])).unwrap();
            let ya = parse_bytes(a[6]);
            let yb = parse_bytes(a[10]);
            let js = parse_bytes(a[11]);
            // the raw-UTF-8 JSON of the same tree (A's tree, as the wire format states it)
            let raw = {
                let ps = parse_stream(a[3], a[4], a[5]);
                let mut o = String::new();
                to_json(&ps.docs[0].root.tree(), &mut o);
                o
            };
            let oa = run_cli(&["yq", "-o", "json", "-I", "0", &prog], &ya);
            let ob = run_cli(&["yq", "-o", "json", "-I", "0", &prog], &yb);
            let oj = run_cli(&["yq", "-p", "json", "-o", "json", "-I", "0", &prog], &js);
            let of = run_cli_json_file(&prog, &js);
            let or = run_cli(&["yq", "-p", "json", "-o", "json", "-I", "0", &prog], raw.as_bytes());
            if oa == ob && ob == oj && oj == of && of == or {
                format!("SAME {:016x}", fnv(&oa))
            } else {
                format!("DIFF asciijson={} asciijsonfile={} rawjson={} block={} flow={}", brief(&oj), brief(&of), brief(&or), brief(&oa), brief(&ob))
            }
        }
        _ => "BAD-OP".into(),
    }
}

/// A block presentation of a tree (collections in block style, scalars in random spellings).
fn to_block(t: &Tree, r: &mut Rng, ctx: Ctx) -> PNode {
    match t {
        Tree::Seq(xs) if !xs.is_empty() => PNode::Seq {
            flow: false,
            step: if ctx == Ctx::Map && r.chance(1, 3) { 0 } else { 2 },
            compact: ctx == Ctx::Seq && r.chance(1, 4),
            items: xs.iter().map(|x| (Meta::default(), to_block(x, r, Ctx::Seq))).collect(),
        },
        Tree::Map(kvs) if !kvs.is_empty() => PNode::Map {
            flow: false,
            step: 2,
            compact: ctx == Ctx::Seq && r.chance(1, 4),
            entries: kvs
                .iter()
                .map(|(k, x)| {
                    let ks = if plain_safe(false, k) && resolves_to_str(k) && k != "<<" { KStyle::Plain } else { KStyle::Double { short: true, esc_uni: false } };
                    (Meta::default(), k.clone(), ks, to_block(x, r, Ctx::Map))
                })
                .collect(),
        },
        other => to_flow(other, r),
    }
}

pub const BIG_INTS: &[i64] = &[
    9007199254740991, 9007199254740992, 9007199254740993, -9007199254740993, 9007199254740995, i64::MAX, i64::MIN, i64::MIN + 1, i64::MAX - 1,
    1_000_000_000_000_000, 10_000_000_000_000_001, 100_000_000_000_000_003, 1_000_000_000_000_000_007, 999_999_999_999_999_999, 1_234_567_890_123_456_789,
    -1_000_000_000_000_000_001, 4_611_686_018_427_387_905, 72_057_594_037_927_937,
];

/// Navigation programs the yq front end can stream, and evaluator-path programs over the same paths.
pub const NAV_PROGRAMS: &[&str] = &[
    ".", ".[]", ".[0]", ".[1]", ".[1].id", ".[1].lims", ".[1].lims[]", ".[2]", ".[2][]", ".[2][0]", ".[3]", ".[1].lims[1]", ".[] | .", ".[1] | .id",
    "[.[] | numbers]", ".[1].id + 0", "[.. | numbers]", "map(.)", ".[1] | to_entries", "[.[1].lims[] | tostring]", ".[2] | add", "[.[2][] | . - 1]", ".[1].lims | sort", "tojson",
];
/// Programs for `esc` requests; the tree is `[s, {a: s, b: {c: s, <key>: s}, l: [s, …]}, [s, …]]` or the
/// inner mapping itself.  Streamed navigation first, then evaluator programs over the same nodes.
pub const ESC_SEQ_PROGRAMS: &[&str] = &[
    ".", ".[]", ".[0]", ".[1]", ".[1].a", ".[1].b.c", ".[1].b", ".[1].l", ".[1].l[0]", ".[1].l[]", ".[2]", ".[2][]", ".[2][0]", ".[1].b[]", ".[1][]",
    ".[] | .", "map(.)", "[.. | strings]", ".[1] | to_entries", "tojson", ".[0] | explode", "[.. | strings | utf8bytelength]", ".[1].b | keys", ".[1].a + \"\"", "[.[2][] | length]", ".[1] | map_values(.)", "[paths]",
];
pub const ESC_MAP_PROGRAMS: &[&str] = &[
    ".", ".a", ".b.c", ".b", ".l", ".l[0]", ".l[]", ".[]", ".b[]", ".l[1]",
    ". | .a", "to_entries", "[.. | strings]", "tojson", ".a | explode", "keys", ".b | keys", "map_values(.)", ".a + \"\"", "[.l[] | length]", "[paths]", "[.[]]",
];

/// Characters the three syntaxes spell differently: controls, DEL, C1 / NEL / NBSP, the ends of the
/// 2- and 3-byte UTF-8 ranges, the replacement character, astral characters (surrogate pairs in
/// ASCII JSON, `\\U` in YAML).  U+2028 / U+2029 are left to the `dq-LP` class (finding N2).
const ESC_CHARS: &[char] = &[
    '\u{e9}', '\u{e9}', '\u{1}', '\u{1f}', '\u{7f}', '\u{80}', '\u{85}', '\u{a0}', '\u{ff}', '\u{100}', '\u{7ff}', '\u{800}', '\u{65e5}', '\u{fffd}', '\u{10000}', '\u{1f600}', '\u{10ffff}', '\u{8}', '\u{c}', '\u{1b}',
];
const ESC_WORDS: &[&str] = &["caf", "Zo", "x y", "a", "d\u{e9}j", "0", "-", "a/b", "q\"q", "b\\s", "t\tt", "n\nn"];

fn esc_string(r: &mut Rng) -> String {
    let c = |r: &mut Rng| *r.pick(ESC_CHARS);
    let w = |r: &mut Rng| r.pick(ESC_WORDS).to_string();
    match r.below(8) {
        // END (the most frequent shape), END twice, only, START, MIDDLE, both ends
        0 | 1 | 2 => format!("{}{}", w(r), c(r)),
        3 => format!("{}{}{}", w(r), c(r), c(r)),
        4 => c(r).to_string(),
        5 => format!("{}{}", c(r), w(r)),
        6 => format!("{}{}{}", w(r), c(r), w(r)),
        _ => format!("{}{}{}", c(r), w(r), c(r)),
    }
}

/// Block presentation with every string (and every key that is not a plain word) double-quoted and
/// every non-ASCII / non-printable character written as a numeric escape (`\\x`, `\\u`, `\\U`).
fn to_block_esc(t: &Tree, r: &mut Rng, ctx: Ctx) -> PNode {
    match t {
        Tree::Str(s) => PNode::Str(s.clone(), SStyle::Double { short: false, esc_uni: true }),
        Tree::Seq(xs) if !xs.is_empty() => PNode::Seq {
            flow: false,
            step: if ctx == Ctx::Map && r.chance(1, 3) { 0 } else { 2 },
            compact: false,
            items: xs.iter().map(|x| (Meta::default(), to_block_esc(x, r, Ctx::Seq))).collect(),
        },
        Tree::Map(kvs) if !kvs.is_empty() => PNode::Map {
            flow: false,
            step: 2,
            compact: ctx == Ctx::Seq && r.chance(1, 3),
            entries: kvs
                .iter()
                .map(|(k, x)| {
                    let ks = if k.is_ascii() && plain_safe(false, k) && resolves_to_str(k) && k != "<<" { KStyle::Plain } else { KStyle::Double { short: false, esc_uni: true } };
                    (Meta::default(), k.clone(), ks, to_block_esc(x, r, Ctx::Map))
                })
                .collect(),
        },
        other => to_flow(other, r),
    }
}

pub const PROGRAMS: &[&str] = &[
    ".", "[..]|length", "[paths]", "[leaf_paths]", "[..|type]", "[..|length?]", "[..|tostring]", "[..|tojson]", "[..|keys?]",
    "[..|to_entries?]", "[..|numbers|.+1]", "[..|numbers|.*2-1]", "[..|numbers|-.]", "[..|numbers|.%7]", "[..|strings|ascii_downcase]",
    "[..|strings|length]", "[..|strings|utf8bytelength]", "[..|arrays|map(type)]", "[..|objects|map_values(type)]",
    "[..|objects|has(\"a\")]", "[..|arrays|first?]", "[..|arrays|last?]", "[..|arrays|reverse]", "[..|arrays|length]",
    "[..|scalars]", "[..|booleans|not]", "[..|nulls]", "[.[]?]", "[.[]?|.[]?]", "tojson", "[..|strings|test(\"a\")]",
    "[..|strings|split(\" \")]", "[..|objects|to_entries|map(.key)]", "[..|objects|with_entries(.value|=type)]",
    "[..|strings|@base64]", "[..|strings|explode]", "[..|arrays|map(tostring)|join(\",\")]", "type", "length?",
    "[..|numbers|tostring]", "[..|tojson|fromjson]", "[..|select(type==\"string\")|startswith(\"a\")]", "[..|numbers|.==0]",
    "[..|numbers|[.,1]|max]", "[..|arrays|index(null)]", "[..|arrays|flatten]", "[..|strings|ltrimstr(\"a\")]", "[..|.==null]",
    "[..|strings|tonumber?]", "[..|arrays|any]", "[..|arrays|all]", "[..|objects|keys|sort]", "[..|objects|length]",
    "[..|strings|.+\"x\"]", "[..|arrays|.+[1]]", "[..|numbers|. < 5]", "[..|strings|. < \"b\"]", "[..|arrays|map(numbers)|add]",
    "[..|if type==\"object\" then \"o\" elif type==\"array\" then \"a\" else . end]", "[..|numbers|floor]", "[..|numbers|abs]",
    "[..|strings|ascii_upcase|ascii_downcase]", "[..|arrays|.[1:]]", "[..|arrays|.[-1:]?]", "[..|strings|.[0:2]]", "[..|.a?]",
    "[..|.[0]?]", "[..|objects|to_entries|from_entries]", "[..|arrays|unique]", "[..|arrays|sort]", "[..|arrays|group_by(type)|map(length)]",
    "[..|arrays|min]", "[..|arrays|max]", "@json", "[..|strings|@uri]", "[..|strings|@html]", "[..|numbers|@text]", "[.. | numbers | . / 2]",
];

pub fn gen(tier: Tier, r: &mut Rng, emit: &mut dyn FnMut(String)) {
    let n = if tier == Tier::Quick { 10 } else { 300 };
    let o = GenOpts { block_scalars: true, comments: true, breaks: false, anchors: false, multidoc: false, max_depth: 3 };
    let mut made = 0;
    let mut attempts = 0;
    while made < n && attempts < n * 50 {
        attempts += 1;
        // a block sequence of K generated sub-trees
        let k = 24;
        let mut items: Vec<(Meta, PNode)> = Vec::new();
        let mut tries = 0;
        while items.len() < k && tries < 400 {
            tries += 1;
            let d = {
                let mut g = Gen::new(r, o);
                g.doc(true)
            };
            let root = match d.root {
                PNode::Null(4) => PNode::Null(0),
                x => x,
            };
            // sub-trees showing a presentation feature with a recorded loader finding are left to C14
            let one = PStream { docs: vec![PDoc { fill: vec![], marker: false, end_marker: false, root: PNode::Seq { flow: false, step: 2, compact: false, items: vec![(Meta::default(), root.clone())] }, root_meta: Meta::default() }], br: Break::Lf };
            let f = features(&one);
            if f == "-" || f == "len64" {
                items.push((Meta::default(), root));
            }
        }
        // re-home the roots as sequence items: root-only constraints are weaker than item constraints,
        // so re-check by features and by the reference loader on the driver side
        let a = PStream { docs: vec![PDoc { fill: vec![], marker: false, end_marker: false, root: PNode::Seq { flow: false, step: 2, compact: false, items }, root_meta: Meta::default() }], br: Break::Lf };
        if features(&a) != "-" {
            continue;
        }
        let tree = a.docs[0].root.tree();
        let b = PStream { docs: vec![PDoc { fill: vec![], marker: false, end_marker: false, root: to_flow(&tree, r), root_meta: Meta::default() }], br: Break::Lf };
        if features(&b) != "-" {
            continue;
        }
        let mut js = String::new();
        to_json(&tree, &mut js);
        // five programs per CLI run (comma = concatenated output streams): fewer process spawns
        let prog = (0..5).map(|j| format!("({})", PROGRAMS[(made * 5 + j) % PROGRAMS.len()])).collect::<Vec<_>>().join(", ");
        let prog = prog.as_str();
        // `length` applied directly to a number counts the characters of its spelling (recorded finding N1)
        let numlen = prog.contains("(length?)") && a_items_have_int(&a);
        let dqlp = dq_lp(&a.docs[0].root) || dq_lp(&b.docs[0].root);
        emit(format!(
            "C26 run {} {} {} {} {} {} {}",
            hex_bytes(prog.as_bytes()),
            match (numlen, dqlp) {
                (true, true) => "numlen,dq-LP",
                (true, false) => "numlen",
                (false, true) => "dq-LP",
                _ => "-",
            },
            stream_wire(&a),
            hex_bytes(&render(&a)),
            stream_wire(&b),
            hex_bytes(&render(&b)),
            hex_bytes(js.as_bytes())
        ));
        made += 1;
    }
    // strings with escapes at the start / middle / END in every syntax, through streamed navigation
    // and evaluator programs
    let ne = if tier == Tier::Quick { 32 } else { 200 };
    let mut i = 0;
    let mut esc_tries = 0;
    while i < ne && esc_tries < ne * 30 {
        esc_tries += 1;
        let mut strs = |r: &mut Rng, lo: u64, hi: u64| (0..r.range(lo, hi)).map(|_| Tree::Str(esc_string(r))).collect::<Vec<_>>();
        let mut key = esc_string(r);
        if ["a", "b", "c", "l"].contains(&key.as_str()) {
            key.push('\u{e9}');
        }
        let inner = Tree::Map(vec![
            ("a".into(), Tree::Str(esc_string(r))),
            ("b".into(), Tree::Map(vec![("c".into(), Tree::Str(esc_string(r))), (key, Tree::Str(esc_string(r)))])),
            ("l".into(), Tree::Seq(strs(r, 2, 4))),
        ]);
        let as_map = i % 2 == 1;
        let tree = if as_map { inner } else { Tree::Seq(vec![Tree::Str(esc_string(r)), inner, Tree::Seq(strs(r, 1, 3))]) };
        let a = PStream { docs: vec![PDoc { fill: vec![], marker: false, end_marker: false, root: to_block_esc(&tree, r, Ctx::Root), root_meta: Meta::default() }], br: Break::Lf };
        let b = PStream { docs: vec![PDoc { fill: vec![], marker: false, end_marker: false, root: to_flow(&tree, r), root_meta: Meta::default() }], br: Break::Lf };
        if features(&a) != "-" || features(&b) != "-" || dq_lp(&b.docs[0].root) {
            continue;
        }
        // a surrogate-pair escape in JSON input is a recorded finding (N3): a tree with characters
        // beyond the BMP gets them as pairs in one request out of three (class tag json-surr-pair),
        // raw otherwise
        let mut raw = String::new();
        to_json(&tree, &mut raw);
        let astral = raw.chars().any(|c| c as u32 >= 0x10000);
        let pairs = astral && i % 3 == 0;
        let mut js = String::new();
        to_json_ascii(&tree, r.chance(1, 2), pairs, &mut js);
        let progs = if as_map { ESC_MAP_PROGRAMS } else { ESC_SEQ_PROGRAMS };
        let prog = progs[(i / 2 * 7) % progs.len()];
        emit(format!("C26 esc {} {} {} {} {} {} {}", hex_bytes(prog.as_bytes()), if pairs { "json-surr-pair" } else { "-" }, stream_wire(&a), hex_bytes(&render(&a)), stream_wire(&b), hex_bytes(&render(&b)), hex_bytes(js.as_bytes())));
        i += 1;
    }
    // integers beyond 2^53 under navigation programs, JSON given on stdin and as a *.json file
    let nn = if tier == Tier::Quick { 10 } else { 200 };
    let mut i = 0;
    let mut nav_tries = 0;
    while i < nn && nav_tries < nn * 30 {
        nav_tries += 1;
        let big = |r: &mut Rng| Tree::Int(*r.pick(BIG_INTS));
        let rnd = |r: &mut Rng| if r.chance(1, 2) { Tree::Int(*r.pick(BIG_INTS)) } else { Tree::Int((r.next_u64() as i64) >> r.below(12)) };
        let mut lims = Vec::new();
        for _ in 0..r.range(2, 4) {
            lims.push(rnd(r));
        }
        let mut row = Vec::new();
        for _ in 0..r.range(2, 5) {
            row.push(rnd(r));
        }
        let tree = Tree::Seq(vec![
            big(r),
            Tree::Map(vec![("id".into(), big(r)), ("lims".into(), Tree::Seq(lims)), ("s".into(), Tree::Str("x y".into())), ("small".into(), Tree::Int(r.below(1000) as i64))]),
            Tree::Seq(row),
            rnd(r),
            Tree::Str(gen_string(r)),
        ]);
        let a = PStream { docs: vec![PDoc { fill: vec![], marker: false, end_marker: false, root: to_block(&tree, r, Ctx::Root), root_meta: Meta::default() }], br: Break::Lf };
        let b = PStream { docs: vec![PDoc { fill: vec![], marker: false, end_marker: false, root: to_flow(&tree, r), root_meta: Meta::default() }], br: Break::Lf };
        if features(&a) != "-" || features(&b) != "-" {
            continue;
        }
        let mut js = String::new();
        to_json(&tree, &mut js);
        let prog = NAV_PROGRAMS[(i * 7 + r.usize_below(3)) % NAV_PROGRAMS.len()];
        emit(format!(
            "C26 nav {} {} {} {} {} {} {}",
            hex_bytes(prog.as_bytes()),
            if dq_lp(&a.docs[0].root) || dq_lp(&b.docs[0].root) { "dq-LP" } else { "-" },
            stream_wire(&a),
            hex_bytes(&render(&a)),
            stream_wire(&b),
            hex_bytes(&render(&b)),
            hex_bytes(js.as_bytes())
        ));
        i += 1;
    }
}

/// A double-quoted scalar or key written with the short escapes `\L` / `\P` (U+2028 / U+2029): the
/// JSON output spells it `\u2028` while the same string from a raw source is written raw (finding N2).
fn dq_lp(n: &PNode) -> bool {
    let lp = |s: &str| s.contains('\u{2028}') || s.contains('\u{2029}');
    match n {
        PNode::Str(s, SStyle::Double { short: true, .. }) => lp(s),
        PNode::Seq { items, .. } => items.iter().any(|e| dq_lp(&e.1)),
        PNode::Map { entries, .. } => entries.iter().any(|e| (matches!(e.2, KStyle::Double { short: true, .. }) && lp(&e.1)) || dq_lp(&e.3)),
        PNode::Anchored(_, x) => dq_lp(x),
        _ => false,
    }
}

fn a_items_have_int(a: &PStream) -> bool {
    match &a.docs[0].root {
        PNode::Seq { items, .. } => items.iter().any(|(_, x)| matches!(x, PNode::Int(..))),
        _ => false,
    }
}
