//! C26 — yq results do not depend on the input's syntax.
//!
//! `run <prog hex> <br n toks> <hexA> <br n toks> <hexB> <json hex>`: one data tree (a sequence of
//! 24 sub-trees) and five programs joined by `,` rendered as block YAML (A), flow YAML (B) and JSON; the CLI (`SV_CLI`) evaluates
//! `.[] | (prog)` with `-o json -I 0` on each (JSON with `-p json`); answer `SAME <hash>` when exit
//! code and stdout agree, else `DIFF …`.  The driver checks that all three renderings denote the same
//! tree (loadRef on A and B, its JSON reader on the JSON) and answers `SAME`.
use crate::c14::yamlgen::*;
use crate::rng::Rng;
use crate::util::*;
use crate::Tier;
use std::io::Write;
use std::process::{Command, Stdio};

pub fn tables() -> Vec<(&'static str, String)> {
    vec![]
}

fn json_str(s: &str, o: &mut String) {
    o.push('"');
    for c in s.chars() {
        match c {
            '"' => o.push_str("\\\""),
            '\\' => o.push_str("\\\\"),
            '\n' => o.push_str("\\n"),
            '\r' => o.push_str("\\r"),
            '\t' => o.push_str("\\t"),
            c if (c as u32) < 0x20 => o.push_str(&format!("\\u{:04x}", c as u32)),
            c => o.push(c),
        }
    }
    o.push('"');
}

pub fn to_json(t: &Tree, o: &mut String) {
    match t {
        Tree::Null => o.push_str("null"),
        Tree::Bool(b) => o.push_str(if *b { "true" } else { "false" }),
        Tree::Int(i) => o.push_str(&i.to_string()),
        Tree::Str(s) => json_str(s, o),
        Tree::Seq(xs) => {
            o.push('[');
            for (i, x) in xs.iter().enumerate() {
                if i > 0 {
                    o.push(',');
                }
                to_json(x, o);
            }
            o.push(']');
        }
        Tree::Map(kvs) => {
            o.push('{');
            for (i, (k, x)) in kvs.iter().enumerate() {
                if i > 0 {
                    o.push(',');
                }
                json_str(k, o);
                o.push(':');
                to_json(x, o);
            }
            o.push('}');
        }
    }
}

/// An all-flow presentation of a tree.
fn to_flow(t: &Tree, r: &mut Rng) -> PNode {
    match t {
        Tree::Null => PNode::Null(r.below(4) as u32),
        Tree::Bool(b) => PNode::Bool(*b, r.below(3) as u32),
        Tree::Int(i) => PNode::Int(*i, r.below(5) as u32),
        Tree::Str(s) => {
            let mut opts = vec![SStyle::Double { short: r.chance(1, 2), esc_uni: r.chance(1, 4) }];
            if s.chars().all(is_printable) {
                opts.push(SStyle::Single);
            }
            if plain_safe(true, s) && resolves_to_str(s) {
                opts.push(SStyle::Plain);
            }
            let i = r.usize_below(opts.len());
            PNode::Str(s.clone(), opts.swap_remove(i))
        }
        Tree::Seq(xs) => PNode::Seq {
            flow: true,
            step: 2,
            compact: false,
            items: xs.iter().map(|x| (Meta { gap: r.below(2) as usize, ..Default::default() }, to_flow(x, r))).collect(),
        },
        Tree::Map(kvs) => PNode::Map {
            flow: true,
            step: 2,
            compact: false,
            entries: kvs
                .iter()
                .map(|(k, x)| {
                    let ks = if plain_safe(true, k) && resolves_to_str(k) && k != "<<" && r.chance(1, 2) {
                        KStyle::Plain
                    } else if k.chars().all(is_printable) && r.chance(1, 2) {
                        KStyle::Single
                    } else {
                        KStyle::Double { short: true, esc_uni: false }
                    };
                    (Meta::default(), k.clone(), ks, to_flow(x, r))
                })
                .collect(),
        },
    }
}

fn run_cli(args: &[&str], input: &[u8]) -> String {
    let Ok(cli) = std::env::var("SV_CLI") else { return "NO-CLI".into() };
    let Ok(mut ch) = Command::new(cli).args(args).env("NO_COLOR", "1").stdin(Stdio::piped()).stdout(Stdio::piped()).stderr(Stdio::piped()).spawn() else {
        return "SPAWN-FAILED".into();
    };
    let mut si = ch.stdin.take().unwrap();
    let b = input.to_vec();
    let w = std::thread::spawn(move || {
        let _ = si.write_all(&b);
    });
    let out = ch.wait_with_output().unwrap();
    let _ = w.join();
    format!("rc={} {}", out.status.code().unwrap_or(-1), String::from_utf8_lossy(&out.stdout))
}

fn fnv(s: &str) -> u64 {
    let mut h = 0xcbf29ce484222325u64;
    for b in s.bytes() {
        h = (h ^ b as u64).wrapping_mul(0x100000001b3);
    }
    h
}

fn brief(s: &str) -> String {
    let t: String = s.chars().take(70).collect();
    format!("{:016x}:{}", fnv(s), t.replace(|c: char| c == ' ' || c == '\n' || c == '\t', "_"))
}

pub fn exec(a: &[&str]) -> String {
    match a[0] {
        "run" => {
            let prog = String::from_utf8(parse_bytes(a[1])).unwrap();
            let prog = format!(".[] | ({prog})");
            let ya = parse_bytes(a[5]);
            let yb = parse_bytes(a[9]);
            let js = parse_bytes(a[10]);
            let oa = run_cli(&["yq", "-o", "json", "-I", "0", &prog], &ya);
            let ob = run_cli(&["yq", "-o", "json", "-I", "0", &prog], &yb);
            let oj = run_cli(&["yq", "-p", "json", "-o", "json", "-I", "0", &prog], &js);
            if oa == ob && ob == oj {
                format!("SAME {:016x}", fnv(&oa))
            } else {
                format!("DIFF json={} block={} flow={}", brief(&oj), brief(&oa), brief(&ob))
            }
        }
        _ => "BAD-OP".into(),
    }
}

pub const PROGRAMS: &[&str] = &[
    ".", "[..]|length", "[paths]", "[leaf_paths]", "[..|type]", "[..|length?]", "[..|tostring]", "[..|tojson]", "[..|keys?]",
    "[..|to_entries?]", "[..|numbers|.+1]", "[..|numbers|.*2-1]", "[..|numbers|-.]", "[..|numbers|.%7]", "[..|strings|ascii_downcase]",
    "[..|strings|length]", "[..|strings|utf8bytelength]", "[..|arrays|map(type)]", "[..|objects|map_values(type)]",
    "[..|objects|has(\"a\")]", "[..|arrays|first?]", "[..|arrays|last?]", "[..|arrays|reverse]", "[..|arrays|length]",
    "[..|scalars]", "[..|booleans|not]", "[..|nulls]", "[.[]?]", "[.[]?|.[]?]", "tojson", "[..|strings|test(\"a\")]",
    "[..|strings|split(\" \")]", "[..|objects|to_entries|map(.key)]", "[..|objects|with_entries(.value|=type)]",
    "[..|strings|@base64]", "[..|strings|explode]", "[..|arrays|map(tostring)|join(\",\")]", "type", "length?",
    "[..|numbers|tostring]", "[..|tojson|fromjson]", "[..|select(type==\"string\")|startswith(\"a\")]", "[..|numbers|.==0]",
    "[..|numbers|[.,1]|max]", "[..|arrays|index(null)]", "[..|arrays|flatten]", "[..|strings|ltrimstr(\"a\")]", "[..|.==null]",
    "[..|strings|tonumber?]", "[..|arrays|any]", "[..|arrays|all]", "[..|objects|keys|sort]", "[..|objects|length]",
    "[..|strings|.+\"x\"]", "[..|arrays|.+[1]]", "[..|numbers|. < 5]", "[..|strings|. < \"b\"]", "[..|arrays|map(numbers)|add]",
    "[..|if type==\"object\" then \"o\" elif type==\"array\" then \"a\" else . end]", "[..|numbers|floor]", "[..|numbers|abs]",
    "[..|strings|ascii_upcase|ascii_downcase]", "[..|arrays|.[1:]]", "[..|arrays|.[-1:]?]", "[..|strings|.[0:2]]", "[..|.a?]",
    "[..|.[0]?]", "[..|objects|to_entries|from_entries]", "[..|arrays|unique]", "[..|arrays|sort]", "[..|arrays|group_by(type)|map(length)]",
    "[..|arrays|min]", "[..|arrays|max]", "@json", "[..|strings|@uri]", "[..|strings|@html]", "[..|numbers|@text]", "[.. | numbers | . / 2]",
];

pub fn gen(tier: Tier, r: &mut Rng, emit: &mut dyn FnMut(String)) {
    let n = if tier == Tier::Quick { 16 } else { 300 };
    let o = GenOpts { block_scalars: true, comments: true, breaks: false, anchors: false, multidoc: false, max_depth: 3 };
    let mut made = 0;
    let mut attempts = 0;
    while made < n && attempts < n * 50 {
        attempts += 1;
        // a block sequence of K generated sub-trees
        let k = 24;
        let mut items = Vec::new();
        for _ in 0..k {
            let d = {
                let mut g = Gen::new(r, o);
                g.doc(true)
            };
            let root = match d.root {
                PNode::Null(4) => PNode::Null(0),
                x => x,
            };
            items.push((Meta::default(), root));
        }
        // re-home the roots as sequence items: root-only constraints are weaker than item constraints,
        // so re-check by features and by the reference loader on the driver side
        let a = PStream { docs: vec![PDoc { fill: vec![], marker: false, end_marker: false, root: PNode::Seq { flow: false, step: 2, compact: false, items }, root_meta: Meta::default() }], br: Break::Lf };
        if features(&a) != "-" {
            continue;
        }
        let tree = a.docs[0].root.tree();
        let b = PStream { docs: vec![PDoc { fill: vec![], marker: false, end_marker: false, root: to_flow(&tree, r), root_meta: Meta::default() }], br: Break::Lf };
        if features(&b) != "-" {
            continue;
        }
        let mut js = String::new();
        to_json(&tree, &mut js);
        // five programs per CLI run (comma = concatenated output streams): fewer process spawns
        let prog = (0..5).map(|j| format!("({})", PROGRAMS[(made * 5 + j) % PROGRAMS.len()])).collect::<Vec<_>>().join(", ");
        let prog = prog.as_str();
        emit(format!(
            "C26 run {} {} {} {} {} {}",
            hex_bytes(prog.as_bytes()),
            stream_wire(&a),
            hex_bytes(&render(&a)),
            stream_wire(&b),
            hex_bytes(&render(&b)),
            hex_bytes(js.as_bytes())
        ));
        made += 1;
    }
}
