//! Shared by C14 / C18 / C26 / C29: presentation-annotated YAML trees, the Rust twin of the Lean
//! `render` (lean/SuccinctlyVerif/Spec/YamlTree.lean), the wire format, the generator of admissible
//! presentations, and the traversal of the real loader's result into a canonical tree.
#![allow(clippy::all)]
use crate::rng::Rng;
use crate::util::*;
use succinctly::yaml::{resolve_plain, ResolvedScalar, YamlIndex, YamlValue};

#[derive(Clone, PartialEq, Debug)]
pub enum Tree {
    Null,
    Bool(bool),
    Int(i64),
    Str(String),
    Seq(Vec<Tree>),
    Map(Vec<(String, Tree)>),
}

#[derive(Clone, Copy, PartialEq, Debug)]
pub enum Chomp {
    Strip,
    Clip,
    Keep,
}

#[derive(Clone, PartialEq, Debug)]
pub enum SStyle {
    Plain,
    Single,
    Double { short: bool, esc_uni: bool },
    Literal { chomp: Chomp, ind: usize, explicit: bool },
    Folded { chomp: Chomp, ind: usize, explicit: bool, folds: Vec<usize> },
}

#[derive(Clone, PartialEq, Debug)]
pub enum Filler {
    Blank,
    Comment(String),
}

#[derive(Clone, PartialEq, Debug, Default)]
pub struct Meta {
    pub fill: Vec<Filler>,
    pub trail: Option<String>,
    pub gap: usize,
}

#[derive(Clone, Copy, PartialEq, Debug)]
pub enum KStyle {
    Plain,
    Single,
    Double { short: bool, esc_uni: bool },
}

#[derive(Clone, PartialEq, Debug)]
pub enum PNode {
    Null(u32),
    Bool(bool, u32),
    Int(i64, u32),
    Str(String, SStyle),
    Seq { flow: bool, step: usize, compact: bool, items: Vec<(Meta, PNode)> },
    Map { flow: bool, step: usize, compact: bool, entries: Vec<(Meta, String, KStyle, PNode)> },
    Anchored(String, Box<PNode>),
    Alias(String, Tree),
}

#[derive(Clone, Debug)]
pub struct PDoc {
    pub fill: Vec<Filler>,
    pub marker: bool,
    pub end_marker: bool,
    pub root: PNode,
    pub root_meta: Meta,
}

#[derive(Clone, Copy, PartialEq, Debug)]
pub enum Break {
    Lf,
    Crlf,
    Cr,
}

#[derive(Clone, Debug)]
pub struct PStream {
    pub docs: Vec<PDoc>,
    pub br: Break,
}

impl PNode {
    pub fn tree(&self) -> Tree {
        match self {
            PNode::Null(_) => Tree::Null,
            PNode::Bool(b, _) => Tree::Bool(*b),
            PNode::Int(i, _) => Tree::Int(*i),
            PNode::Str(s, _) => Tree::Str(s.clone()),
            PNode::Seq { items, .. } => Tree::Seq(items.iter().map(|(_, n)| n.tree()).collect()),
            PNode::Map { entries, .. } => Tree::Map(entries.iter().map(|(_, k, _, n)| (k.clone(), n.tree())).collect()),
            PNode::Anchored(_, n) => n.tree(),
            PNode::Alias(_, t) => t.clone(),
        }
    }
    fn is_block_coll(&self) -> bool {
        matches!(self, PNode::Seq { flow: false, .. } | PNode::Map { flow: false, .. })
    }
}

// ------------------------------------------------------------------------------------------------
// character classes / core schema (twins of the Lean definitions)

pub fn is_printable(c: char) -> bool {
    let n = c as u32;
    (0x20..=0x7E).contains(&n)
        || ((0xA0..=0xD7FF).contains(&n) && n != 0x2028 && n != 0x2029)
        || ((0xE000..=0xFFFD).contains(&n) && n != 0xFEFF)
        || (0x10000..=0x10FFFF).contains(&n)
}

pub fn is_indicator(c: char) -> bool {
    "-?:,[]{}#&*!|>'\"%@`".contains(c)
}

pub fn is_flow_ind(c: char) -> bool {
    ",[]{}".contains(c)
}

fn all_digits(s: &[char]) -> bool {
    !s.is_empty() && s.iter().all(|c| c.is_ascii_digit())
}

fn is_float_syntax(s: &[char]) -> bool {
    let s = match s.first() {
        Some('-') | Some('+') => &s[1..],
        _ => s,
    };
    let ip = s.iter().take_while(|c| c.is_ascii_digit()).count();
    let mut r = &s[ip..];
    let mut has_frac = false;
    let mut frac = 0;
    if r.first() == Some(&'.') {
        has_frac = true;
        frac = r[1..].iter().take_while(|c| c.is_ascii_digit()).count();
        r = &r[1 + frac..];
    }
    let mant_ok = if ip == 0 { has_frac && frac > 0 } else { true };
    let exp_ok = match r.first() {
        None => true,
        Some(e) => {
            (*e == 'e' || *e == 'E') && {
                let x = &r[1..];
                let x = match x.first() {
                    Some('-') | Some('+') => &x[1..],
                    _ => x,
                };
                all_digits(x)
            }
        }
    };
    mant_ok && exp_ok
}

/// `resolvePlain s = .str`
pub fn resolves_to_str(s: &str) -> bool {
    if ["", "null", "Null", "NULL", "~", "true", "True", "TRUE", "false", "False", "FALSE"].contains(&s) {
        return false;
    }
    let cs: Vec<char> = s.chars().collect();
    if cs.len() >= 2 && cs[0] == '0' && cs[1] == 'x' {
        return !(cs.len() > 2 && cs[2..].iter().all(|c| c.is_ascii_hexdigit()));
    }
    if cs.len() >= 2 && cs[0] == '0' && cs[1] == 'o' {
        return !(cs.len() > 2 && cs[2..].iter().all(|c| ('0'..='7').contains(c)));
    }
    if cs[0] == '-' || cs[0] == '+' {
        if all_digits(&cs[1..]) || is_float_syntax(&cs) {
            return false;
        }
        return ![".inf", ".Inf", ".INF"].contains(&&s[1..]);
    }
    if all_digits(&cs) || is_float_syntax(&cs) {
        return false;
    }
    ![".inf", ".Inf", ".INF", ".nan", ".NaN", ".NAN"].contains(&s)
}

fn plain_body_ok(flow: bool, s: &[char]) -> bool {
    for i in 0..s.len() {
        let c = s[i];
        if flow && is_flow_ind(c) {
            return false;
        }
        match s.get(i + 1) {
            None => {
                if c == ':' {
                    return false;
                }
            }
            Some(&d) => {
                if (c == ':' && d == ' ') || (c == ' ' && d == '#') {
                    return false;
                }
            }
        }
    }
    true
}

fn plain_first_ok(flow: bool, s: &[char]) -> bool {
    match s.first() {
        None => false,
        Some(&c) => {
            if c == '-' || c == '?' || c == ':' {
                match s.get(1) {
                    None => false,
                    Some(&d) => d != ' ' && !(flow && is_flow_ind(d)),
                }
            } else {
                !is_indicator(c) && c != ' '
            }
        }
    }
}

pub fn plain_safe(flow: bool, s: &str) -> bool {
    let cs: Vec<char> = s.chars().collect();
    cs.iter().all(|&c| is_printable(c))
        && plain_first_ok(flow, &cs)
        && cs.last() != Some(&' ')
        && plain_body_ok(flow, &cs)
        && !s.starts_with("---")
        && !s.starts_with("...")
}

// ------------------------------------------------------------------------------------------------
// render (twin of Spec/YamlTree.lean)

fn num_escape(c: char) -> String {
    let n = c as u32;
    if n < 0x100 {
        format!("\\x{n:02x}")
    } else if n < 0x10000 {
        format!("\\u{n:04x}")
    } else {
        format!("\\U{n:08x}")
    }
}

fn short_escape(c: char) -> Option<char> {
    Some(match c as u32 {
        0x00 => '0',
        0x07 => 'a',
        0x08 => 'b',
        0x09 => 't',
        0x0A => 'n',
        0x0B => 'v',
        0x0C => 'f',
        0x0D => 'r',
        0x1B => 'e',
        0x85 => 'N',
        0xA0 => '_',
        0x2028 => 'L',
        0x2029 => 'P',
        _ => return None,
    })
}

fn dq_text(short: bool, esc_uni: bool, s: &str) -> String {
    let mut o = String::from("\"");
    for c in s.chars() {
        if c == '"' {
            o.push_str("\\\"");
        } else if c == '\\' {
            o.push_str("\\\\");
        } else if is_printable(c) && ((c as u32) < 0x80 || !esc_uni) && !(short && c as u32 == 0xA0) {
            o.push(c);
        } else if short {
            match short_escape(c) {
                Some(e) => {
                    o.push('\\');
                    o.push(e);
                }
                None => o.push_str(&num_escape(c)),
            }
        } else {
            o.push_str(&num_escape(c));
        }
    }
    o.push('"');
    o
}

fn sq_text(s: &str) -> String {
    format!("'{}'", s.replace('\'', "''"))
}

fn spaces(n: usize) -> String {
    " ".repeat(n)
}

fn null_text(v: u32) -> &'static str {
    ["null", "Null", "NULL", "~", ""][(v % 5) as usize]
}

fn bool_text(b: bool, v: u32) -> &'static str {
    if b {
        ["true", "True", "TRUE"][(v % 3) as usize]
    } else {
        ["false", "False", "FALSE"][(v % 3) as usize]
    }
}

fn int_text(i: i64, v: u32) -> String {
    if i < 0 {
        let a = (i as i128).unsigned_abs();
        return if v % 5 == 4 { format!("-0{a}") } else { format!("-{a}") };
    }
    match v % 5 {
        1 => format!("+{i}"),
        2 => format!("0x{i:x}"),
        3 => format!("0o{i:o}"),
        4 => format!("00{i}"),
        _ => format!("{i}"),
    }
}

fn key_text(k: &str, ks: KStyle) -> String {
    match ks {
        KStyle::Plain => k.to_string(),
        KStyle::Single => sq_text(k),
        KStyle::Double { short, esc_uni } => dq_text(short, esc_uni, k),
    }
}

fn chomp_char(c: Chomp) -> &'static str {
    match c {
        Chomp::Strip => "-",
        Chomp::Clip => "",
        Chomp::Keep => "+",
    }
}

fn block_body_lines(folded: bool, folds: &[usize], chomp: Chomp, s: &str) -> Vec<String> {
    let mut cs: Vec<char> = s.chars().collect();
    if chomp != Chomp::Strip {
        cs.pop();
    }
    if !folded {
        return cs.iter().collect::<String>().split('\n').map(|x| x.to_string()).collect();
    }
    let marked: Vec<char> = cs.iter().enumerate().map(|(i, &c)| if folds.contains(&i) { '\u{1}' } else { c }).collect();
    let body_len = marked.len() - marked.iter().rev().take_while(|&&c| c == '\n').count();
    let trailing = marked.len() - body_len;
    let mut d = String::new();
    let mut prev_nl = false;
    for &c in &marked[..body_len] {
        if c == '\n' {
            d.push_str(if prev_nl { "\n" } else { "\n\n" });
            prev_nl = true;
            continue;
        }
        prev_nl = false;
        if c == '\u{1}' {
            d.push('\n');
        } else {
            d.push(c);
        }
    }
    for _ in 0..trailing {
        d.push('\n');
    }
    d.split('\n').map(|x| x.to_string()).collect()
}

fn block_scalar_text(folded: bool, chomp: Chomp, ind: usize, explicit: bool, folds: &[usize], pn: usize, trail: &str, s: &str) -> String {
    let ci = pn + ind - 1;
    let mut o = String::new();
    o.push(if folded { '>' } else { '|' });
    if explicit {
        o.push_str(&ind.to_string());
    }
    o.push_str(chomp_char(chomp));
    o.push_str(trail);
    o.push('\n');
    for l in block_body_lines(folded, folds, chomp, s) {
        if !l.is_empty() {
            o.push_str(&spaces(ci));
            o.push_str(&l);
        }
        o.push('\n');
    }
    o
}

fn trail_text(t: &Option<String>) -> String {
    match t {
        None => String::new(),
        Some(c) => format!(" #{c}"),
    }
}

fn fill_text(n: usize, fs: &[Filler]) -> String {
    let mut o = String::new();
    for f in fs {
        match f {
            Filler::Blank => o.push('\n'),
            Filler::Comment(c) => {
                o.push_str(&spaces(n));
                o.push('#');
                o.push_str(c);
                o.push('\n');
            }
        }
    }
    o
}

fn str_flow_text(s: &str, st: &SStyle) -> String {
    match st {
        SStyle::Plain => s.to_string(),
        SStyle::Single => sq_text(s),
        SStyle::Double { short, esc_uni } => dq_text(*short, *esc_uni, s),
        _ => dq_text(true, false, s),
    }
}

/// Offsets (in chars of the LF text) of scalar/key tokens recorded while rendering (C29).
#[derive(Clone, Debug)]
pub struct Tok {
    pub start: usize,
    pub end: usize,
    /// path from the document root: `K(key)` / `I(index)`
    pub path: Vec<PathElem>,
    pub is_key: bool,
}

#[derive(Clone, Debug, PartialEq)]
pub enum PathElem {
    Key(String),
    Idx(usize),
}

pub struct Renderer {
    pub out: String,
    pub toks: Vec<Tok>,
    path: Vec<PathElem>,
    /// the lines that start with a block collection entry: (document, indentation, is a `- ` line)
    pub skel: Vec<(usize, usize, bool)>,
}

#[derive(Clone, Copy, PartialEq)]
pub enum Ctx {
    Root,
    Seq,
    Map,
}

impl Renderer {
    fn doc_idx(&self) -> usize {
        match self.path.first() {
            Some(PathElem::Idx(i)) => *i,
            _ => 0,
        }
    }

    fn mark(&mut self, start_byte: usize, is_key: bool) {
        let start = self.out[..start_byte].chars().count();
        let end = self.out.chars().count();
        self.toks.push(Tok { start, end, path: self.path.clone(), is_key });
    }

    fn flow(&mut self, n: &PNode) {
        match n {
            PNode::Null(v) => {
                let p = self.out.len();
                self.out.push_str(null_text(*v));
                self.mark(p, false);
            }
            PNode::Bool(b, v) => {
                let p = self.out.len();
                self.out.push_str(bool_text(*b, *v));
                self.mark(p, false);
            }
            PNode::Int(i, v) => {
                let p = self.out.len();
                self.out.push_str(&int_text(*i, *v));
                self.mark(p, false);
            }
            PNode::Str(s, st) => {
                let p = self.out.len();
                self.out.push_str(&str_flow_text(s, st));
                self.mark(p, false);
            }
            PNode::Seq { items, .. } => {
                self.out.push('[');
                for (i, (m, x)) in items.iter().enumerate() {
                    if i > 0 {
                        self.out.push(',');
                    }
                    self.out.push_str(&spaces(if i == 0 { m.gap } else { m.gap + 1 }));
                    self.path.push(PathElem::Idx(i));
                    self.flow(x);
                    self.path.pop();
                }
                self.out.push(']');
            }
            PNode::Map { entries, .. } => {
                self.out.push('{');
                for (i, (m, k, ks, x)) in entries.iter().enumerate() {
                    if i > 0 {
                        self.out.push_str(", ");
                    }
                    self.path.push(PathElem::Key(k.clone()));
                    let p = self.out.len();
                    self.out.push_str(&key_text(k, *ks));
                    self.mark(p, true);
                    self.out.push(':');
                    self.out.push_str(&spaces(m.gap + 1));
                    self.flow(x);
                    self.path.pop();
                }
                self.out.push('}');
            }
            PNode::Anchored(a, x) => {
                self.out.push('&');
                self.out.push_str(a);
                self.out.push(' ');
                self.flow(x);
            }
            PNode::Alias(a, _) => {
                self.out.push('*');
                self.out.push_str(a);
            }
        }
    }

    fn inline(&mut self, m: &Meta, text: &str) {
        self.out.push_str(&spaces(m.gap + 1));
        let p = self.out.len();
        self.out.push_str(text);
        self.mark(p, false);
        self.out.push_str(&trail_text(&m.trail));
        self.out.push('\n');
    }

    fn value(&mut self, ctx: Ctx, e: usize, col: usize, m: &Meta, n: &PNode) {
        let pn = if ctx == Ctx::Root { 0 } else { e + 1 };
        match n {
            PNode::Null(v) => {
                if v % 5 == 4 {
                    self.out.push_str(&trail_text(&m.trail));
                    self.out.push('\n');
                } else {
                    self.inline(m, null_text(*v));
                }
            }
            PNode::Bool(b, v) => self.inline(m, bool_text(*b, *v)),
            PNode::Int(i, v) => self.inline(m, &int_text(*i, *v)),
            PNode::Str(s, SStyle::Literal { chomp, ind, explicit }) => {
                self.out.push_str(&spaces(m.gap + 1));
                let p = self.out.len();
                self.out.push_str(&block_scalar_text(false, *chomp, *ind, *explicit, &[], pn, &trail_text(&m.trail), s));
                let _ = p;
            }
            PNode::Str(s, SStyle::Folded { chomp, ind, explicit, folds }) => {
                self.out.push_str(&spaces(m.gap + 1));
                self.out.push_str(&block_scalar_text(true, *chomp, *ind, *explicit, folds, pn, &trail_text(&m.trail), s));
            }
            PNode::Str(s, st) => self.inline(m, &str_flow_text(s, st)),
            PNode::Alias(a, _) => {
                self.out.push_str(&spaces(m.gap + 1));
                self.out.push('*');
                self.out.push_str(a);
                self.out.push_str(&trail_text(&m.trail));
                self.out.push('\n');
            }
            PNode::Anchored(a, x) => {
                self.out.push_str(&spaces(m.gap + 1));
                self.out.push('&');
                self.out.push_str(a);
                let m2 = Meta { fill: m.fill.clone(), trail: m.trail.clone(), gap: 0 };
                self.value(ctx, e, col + m.gap + 1 + a.chars().count() + 1, &m2, x);
            }
            PNode::Seq { flow: true, .. } | PNode::Map { flow: true, .. } => {
                self.out.push_str(&spaces(m.gap + 1));
                self.flow(n);
                self.out.push_str(&trail_text(&m.trail));
                self.out.push('\n');
            }
            PNode::Seq { step, compact, items, .. } => {
                if *compact {
                    self.out.push_str(&spaces(m.gap + 1));
                    self.items_block(false, col + m.gap + 1, items);
                } else {
                    self.out.push_str(&trail_text(&m.trail));
                    self.out.push('\n');
                    self.items_block(true, if ctx == Ctx::Root { 0 } else { e + step }, items);
                }
            }
            PNode::Map { step, compact, entries, .. } => {
                if *compact {
                    self.out.push_str(&spaces(m.gap + 1));
                    self.entries_block(false, col + m.gap + 1, entries);
                } else {
                    self.out.push_str(&trail_text(&m.trail));
                    self.out.push('\n');
                    self.entries_block(true, if ctx == Ctx::Root { 0 } else { e + step }, entries);
                }
            }
        }
    }

    fn items_block(&mut self, indent_first: bool, n: usize, items: &[(Meta, PNode)]) {
        for (i, (m, x)) in items.iter().enumerate() {
            self.out.push_str(&fill_text(n, &m.fill));
            if i > 0 || indent_first {
                self.out.push_str(&spaces(n));
                self.skel.push((self.doc_idx(), n, true));
            }
            self.out.push('-');
            self.path.push(PathElem::Idx(i));
            self.value(Ctx::Seq, n, n + 1, m, x);
            self.path.pop();
        }
    }

    fn entries_block(&mut self, indent_first: bool, n: usize, entries: &[(Meta, String, KStyle, PNode)]) {
        for (i, (m, k, ks, x)) in entries.iter().enumerate() {
            self.out.push_str(&fill_text(n, &m.fill));
            if i > 0 || indent_first {
                self.out.push_str(&spaces(n));
                self.skel.push((self.doc_idx(), n, false));
            }
            self.path.push(PathElem::Key(k.clone()));
            let kt = key_text(k, *ks);
            let p = self.out.len();
            self.out.push_str(&kt);
            self.mark(p, true);
            self.out.push(':');
            self.value(Ctx::Map, n, n + kt.chars().count() + 1, m, x);
            self.path.pop();
        }
    }

    fn doc(&mut self, idx: usize, d: &PDoc) {
        self.out.push_str(&fill_text(0, &d.fill));
        self.path = vec![PathElem::Idx(idx)];
        if d.marker {
            self.out.push_str("---");
            self.value(Ctx::Root, 0, 3, &d.root_meta, &d.root);
        } else {
            let at = self.out.len();
            let ntok = self.toks.len();
            self.value(Ctx::Root, 0, 0, &d.root_meta, &d.root);
            // drop the first character / the leading spaces of the root's text
            let drop = if d.root.is_block_coll() && d.root_meta.trail.is_none() {
                1
            } else {
                self.out[at..].chars().take_while(|&c| c == ' ').count()
            };
            // all dropped characters are ASCII
            let at_chars = self.out[..at].chars().count();
            self.out.replace_range(at..at + drop, "");
            for t in &mut self.toks[ntok..] {
                if t.start >= at_chars + drop {
                    t.start -= drop;
                    t.end -= drop;
                }
            }
        }
        if d.end_marker {
            self.out.push_str("...\n");
        }
    }
}

/// LF text of a stream and the token table (char offsets into the LF text).
pub fn render_lf(s: &PStream) -> (String, Vec<Tok>) {
    let r = rendered(s);
    (r.out, r.toks)
}

fn rendered(s: &PStream) -> Renderer {
    let mut r = Renderer { out: String::new(), toks: Vec::new(), path: Vec::new(), skel: Vec::new() };
    for (i, d) in s.docs.iter().enumerate() {
        r.doc(i, d);
    }
    r
}

/// V2's class: the entry lines of a document (indentation, sequence or mapping entry) in order; a
/// frame is opened by the first entry line at an indentation deeper than the innermost open one and
/// closed by a shallower line.  The entries of a compact collection after the first start lines at a
/// column where no frame was opened by the `- ` line; the class is: such a line follows a deeper
/// entry line while no frame is open at its column (`- A:\n    x: 0\n  B: 1`, `- -\n    - a\n  - b`,
/// `- a:\n  - b\n  c:\n    d: 1\n  e: 2` — an indentless sequence's frame at the column is closed by
/// the next key, which opens none).
pub fn returns_between_levels(s: &PStream) -> bool {
    let r = rendered(s);
    let mut doc = usize::MAX;
    let mut fr: Vec<(usize, bool)> = Vec::new();
    for &(d, n, is_seq) in &r.skel {
        if d != doc {
            doc = d;
            fr.clear();
        }
        let mut popped = false;
        while fr.last().map_or(false, |f| f.0 > n) {
            fr.pop();
            popped = true;
        }
        match fr.last().copied() {
            None => fr.push((n, is_seq)),
            Some((t, tseq)) if t == n => {
                if !tseq && is_seq {
                    fr.push((n, true));
                } else if tseq && !is_seq {
                    fr.pop();
                }
            }
            Some(_) => {
                if popped {
                    return true;
                }
                fr.push((n, is_seq));
            }
        }
    }
    false
}

pub fn break_text(b: Break) -> &'static str {
    match b {
        Break::Lf => "\n",
        Break::Crlf => "\r\n",
        Break::Cr => "\r",
    }
}

pub fn render(s: &PStream) -> Vec<u8> {
    let (t, _) = render_lf(s);
    t.replace('\n', break_text(s.br)).into_bytes()
}

// ------------------------------------------------------------------------------------------------
// wire format

fn hx(s: &str) -> String {
    hex_bytes(s.as_bytes())
}

fn meta_tok(m: &Meta, o: &mut Vec<String>) {
    let mut t = format!("m{}", m.gap);
    for f in &m.fill {
        match f {
            Filler::Blank => t.push_str(";b"),
            Filler::Comment(c) => {
                t.push_str(";c");
                t.push_str(&hx(c));
            }
        }
    }
    if let Some(c) = &m.trail {
        t.push_str(";t");
        t.push_str(&hx(c));
    }
    o.push(t);
}

fn chomp_tok(c: Chomp) -> char {
    match c {
        Chomp::Strip => 's',
        Chomp::Clip => 'c',
        Chomp::Keep => 'k',
    }
}

fn style_tok(st: &SStyle) -> String {
    match st {
        SStyle::Plain => "p".into(),
        SStyle::Single => "s".into(),
        SStyle::Double { short, esc_uni } => format!("d{}{}", *short as u8, *esc_uni as u8),
        SStyle::Literal { chomp, ind, explicit } => format!("l{}{}{}", chomp_tok(*chomp), ind, *explicit as u8),
        SStyle::Folded { chomp, ind, explicit, folds } => {
            let mut t = format!("f{}{}{}", chomp_tok(*chomp), ind, *explicit as u8);
            for f in folds {
                t.push(';');
                t.push_str(&f.to_string());
            }
            t
        }
    }
}

fn kstyle_tok(ks: KStyle) -> String {
    match ks {
        KStyle::Plain => "p".into(),
        KStyle::Single => "s".into(),
        KStyle::Double { short, esc_uni } => format!("d{}{}", short as u8, esc_uni as u8),
    }
}

fn tree_toks(t: &Tree, o: &mut Vec<String>) {
    match t {
        Tree::Null => o.push("N0".into()),
        Tree::Bool(b) => o.push(if *b { "T0".into() } else { "F0".into() }),
        Tree::Int(i) => o.push(format!("I{i}:0")),
        Tree::Str(s) => o.push(format!("Sd10:{}", hx(s))),
        Tree::Seq(xs) => {
            o.push(format!("Q100:{}", xs.len()));
            for x in xs {
                o.push("m0".into());
                tree_toks(x, o);
            }
        }
        Tree::Map(kvs) => {
            o.push(format!("M100:{}", kvs.len()));
            for (k, x) in kvs {
                o.push("m0".into());
                o.push(format!("Kd10:{}", hx(k)));
                tree_toks(x, o);
            }
        }
    }
}

pub fn node_toks(n: &PNode, o: &mut Vec<String>) {
    match n {
        PNode::Null(v) => o.push(format!("N{v}")),
        PNode::Bool(b, v) => o.push(format!("{}{v}", if *b { 'T' } else { 'F' })),
        PNode::Int(i, v) => o.push(format!("I{i}:{v}")),
        PNode::Str(s, st) => o.push(format!("S{}:{}", style_tok(st), hx(s))),
        PNode::Seq { flow, step, compact, items } => {
            o.push(format!("Q{}{}{}:{}", *flow as u8, step, *compact as u8, items.len()));
            for (m, x) in items {
                meta_tok(m, o);
                node_toks(x, o);
            }
        }
        PNode::Map { flow, step, compact, entries } => {
            o.push(format!("M{}{}{}:{}", *flow as u8, step, *compact as u8, entries.len()));
            for (m, k, ks, x) in entries {
                meta_tok(m, o);
                o.push(format!("K{}:{}", kstyle_tok(*ks), hx(k)));
                node_toks(x, o);
            }
        }
        PNode::Anchored(a, x) => {
            o.push(format!("A{}", hx(a)));
            node_toks(x, o);
        }
        PNode::Alias(a, t) => {
            o.push(format!("R{}", hx(a)));
            tree_toks(t, o);
        }
    }
}

/// `<br> <ndocs> <tokens>`
pub fn stream_wire(s: &PStream) -> String {
    let mut o = Vec::new();
    for d in &s.docs {
        o.push(format!("D{}{}", d.marker as u8, d.end_marker as u8));
        let m = Meta { fill: d.fill.clone(), trail: d.root_meta.trail.clone(), gap: d.root_meta.gap };
        meta_tok(&m, &mut o);
        node_toks(&d.root, &mut o);
    }
    let br = match s.br {
        Break::Lf => "l",
        Break::Crlf => "c",
        Break::Cr => "r",
    };
    format!("{br} {} {}", s.docs.len(), o.join(","))
}

fn unhx(s: &str) -> String {
    String::from_utf8(parse_bytes(s)).unwrap_or_default()
}

fn parse_meta(t: &str) -> Meta {
    let mut parts = t[1..].split(';');
    let mut m = Meta { gap: parts.next().unwrap_or("0").parse().unwrap_or(0), ..Default::default() };
    for p in parts {
        if p == "b" {
            m.fill.push(Filler::Blank);
        } else if let Some(h) = p.strip_prefix('c') {
            m.fill.push(Filler::Comment(unhx(h)));
        } else if let Some(h) = p.strip_prefix('t') {
            m.trail = Some(unhx(h));
        }
    }
    m
}

fn parse_chomp(c: u8) -> Chomp {
    match c {
        b's' => Chomp::Strip,
        b'k' => Chomp::Keep,
        _ => Chomp::Clip,
    }
}

fn parse_style(st: &str) -> SStyle {
    let b = st.as_bytes();
    match b[0] {
        b'p' => SStyle::Plain,
        b's' => SStyle::Single,
        b'd' => SStyle::Double { short: b[1] == b'1', esc_uni: b[2] == b'1' },
        b'l' => SStyle::Literal { chomp: parse_chomp(b[1]), ind: (b[2] - b'0') as usize, explicit: b[3] == b'1' },
        _ => SStyle::Folded {
            chomp: parse_chomp(b[1]),
            ind: (b[2] - b'0') as usize,
            explicit: b[3] == b'1',
            folds: st[4..].split(';').filter_map(|x| x.parse().ok()).collect(),
        },
    }
}

fn parse_kstyle(st: &str) -> KStyle {
    let b = st.as_bytes();
    match b[0] {
        b'p' => KStyle::Plain,
        b's' => KStyle::Single,
        _ => KStyle::Double { short: b[1] == b'1', esc_uni: b[2] == b'1' },
    }
}

fn parse_node(toks: &[&str], pos: &mut usize) -> PNode {
    let tok = toks[*pos];
    *pos += 1;
    let body = &tok[1..];
    match tok.as_bytes()[0] {
        b'N' => PNode::Null(body.parse().unwrap()),
        b'T' => PNode::Bool(true, body.parse().unwrap()),
        b'F' => PNode::Bool(false, body.parse().unwrap()),
        b'I' => {
            let (i, v) = body.split_once(':').unwrap();
            PNode::Int(i.parse().unwrap(), v.parse().unwrap())
        }
        b'S' => {
            let (st, h) = body.split_once(':').unwrap();
            PNode::Str(unhx(h), parse_style(st))
        }
        b'Q' => {
            let (f, n) = body.split_once(':').unwrap();
            let fb = f.as_bytes();
            let n: usize = n.parse().unwrap();
            let mut items = Vec::new();
            for _ in 0..n {
                let m = parse_meta(toks[*pos]);
                *pos += 1;
                items.push((m, parse_node(toks, pos)));
            }
            PNode::Seq { flow: fb[0] == b'1', step: (fb[1] - b'0') as usize, compact: fb[2] == b'1', items }
        }
        b'M' => {
            let (f, n) = body.split_once(':').unwrap();
            let fb = f.as_bytes();
            let n: usize = n.parse().unwrap();
            let mut entries = Vec::new();
            for _ in 0..n {
                let m = parse_meta(toks[*pos]);
                *pos += 1;
                let (ks, h) = toks[*pos][1..].split_once(':').unwrap();
                *pos += 1;
                entries.push((m, unhx(h), parse_kstyle(ks), parse_node(toks, pos)));
            }
            PNode::Map { flow: fb[0] == b'1', step: (fb[1] - b'0') as usize, compact: fb[2] == b'1', entries }
        }
        b'A' => PNode::Anchored(unhx(body), Box::new(parse_node(toks, pos))),
        _ => PNode::Alias(unhx(body), parse_node(toks, pos).tree()),
    }
}

pub fn parse_stream(br: &str, ndocs: &str, toks: &str) -> PStream {
    let ts: Vec<&str> = toks.split(',').collect();
    let n: usize = ndocs.parse().unwrap();
    let mut pos = 0;
    let mut docs = Vec::new();
    for _ in 0..n {
        let d = ts[pos].as_bytes();
        let m = parse_meta(ts[pos + 1]);
        pos += 2;
        let root = parse_node(&ts, &mut pos);
        docs.push(PDoc {
            fill: m.fill.clone(),
            marker: d[1] == b'1',
            end_marker: d[2] == b'1',
            root,
            root_meta: Meta { fill: vec![], trail: m.trail, gap: m.gap },
        });
    }
    PStream { docs, br: match br { "c" => Break::Crlf, "r" => Break::Cr, _ => Break::Lf } }
}

// ------------------------------------------------------------------------------------------------
// canonical text

pub fn canon(t: &Tree, o: &mut String) {
    match t {
        Tree::Null => o.push('n'),
        Tree::Bool(b) => o.push(if *b { 't' } else { 'f' }),
        Tree::Int(i) => {
            o.push('i');
            o.push_str(&i.to_string());
        }
        Tree::Str(s) => {
            o.push('s');
            o.push_str(&hx(s));
        }
        Tree::Seq(xs) => {
            o.push('[');
            for (i, x) in xs.iter().enumerate() {
                if i > 0 {
                    o.push(',');
                }
                canon(x, o);
            }
            o.push(']');
        }
        Tree::Map(kvs) => {
            o.push('{');
            for (i, (k, x)) in kvs.iter().enumerate() {
                if i > 0 {
                    o.push(',');
                }
                o.push_str(&hx(k));
                o.push(':');
                canon(x, o);
            }
            o.push('}');
        }
    }
}

pub fn canon_docs(ts: &[Tree]) -> String {
    if ts.is_empty() {
        return "-".into();
    }
    let mut o = String::new();
    for (i, t) in ts.iter().enumerate() {
        if i > 0 {
            o.push(';');
        }
        canon(t, &mut o);
    }
    o
}

// ------------------------------------------------------------------------------------------------
// the real loader

pub fn value_to_tree<W: AsRef<[u64]>>(v: YamlValue<'_, W>, depth: usize) -> Result<Tree, String> {
    if depth > 200 {
        return Err("depth".into());
    }
    Ok(match v {
        YamlValue::Null => Tree::Null,
        YamlValue::String(s) => {
            let txt = s.as_str().map_err(|e| format!("string:{e}"))?;
            if s.is_unquoted() {
                match resolve_plain(&txt) {
                    ResolvedScalar::Null => Tree::Null,
                    ResolvedScalar::Bool(b) => Tree::Bool(b),
                    ResolvedScalar::Int(i) => Tree::Int(i),
                    ResolvedScalar::Float(_) => return Err("float".into()),
                    ResolvedScalar::Str => Tree::Str(txt.into_owned()),
                }
            } else {
                Tree::Str(txt.into_owned())
            }
        }
        YamlValue::Mapping(fields) => {
            let mut kvs = Vec::new();
            for f in fields {
                let k = match f.key() {
                    YamlValue::String(s) => s.as_str().map_err(|e| format!("key:{e}"))?.into_owned(),
                    other => format!("<non-string-key:{}>", other.key_string()),
                };
                kvs.push((k, value_to_tree(f.value(), depth + 1)?));
            }
            Tree::Map(kvs)
        }
        YamlValue::Sequence(elems) => {
            let mut xs = Vec::new();
            for e in elems {
                xs.push(value_to_tree(e, depth + 1)?);
            }
            Tree::Seq(xs)
        }
        YamlValue::Alias { target: Some(c), .. } => value_to_tree(c.value(), depth + 1)?,
        YamlValue::Alias { target: None, anchor_name } => return Err(format!("unresolved-alias:{anchor_name}")),
        YamlValue::Error(e) => return Err(format!("error-node:{e}")),
    })
}

/// `YamlIndex::build` + full traversal: one tree per document, and each document's `to_json`.
pub fn load_docs(bytes: &[u8]) -> Result<(Vec<Tree>, Vec<String>), String> {
    let index = YamlIndex::build(bytes).map_err(|e| format!("build:{e:?}"))?;
    let root = index.root(bytes);
    let mut docs = Vec::new();
    let mut jsons = Vec::new();
    match root.value() {
        YamlValue::Sequence(mut elements) => {
            while let Some((cursor, rest)) = elements.uncons_cursor() {
                docs.push(value_to_tree(cursor.value(), 0)?);
                jsons.push(cursor.to_json());
                elements = rest;
            }
        }
        other => {
            docs.push(value_to_tree(other, 0)?);
            jsons.push(root.to_json_document());
        }
    }
    Ok((docs, jsons))
}

// ------------------------------------------------------------------------------------------------
// small JSON reader for the tree type

pub struct JsonReader<'a> {
    s: &'a [u8],
    i: usize,
}

impl<'a> JsonReader<'a> {
    pub fn new(s: &'a str) -> Self {
        JsonReader { s: s.as_bytes(), i: 0 }
    }
    fn ws(&mut self) {
        while self.i < self.s.len() && matches!(self.s[self.i], b' ' | b'\n' | b'\r' | b'\t') {
            self.i += 1;
        }
    }
    pub fn at_end(&mut self) -> bool {
        self.ws();
        self.i >= self.s.len()
    }
    fn hex4(&mut self) -> Option<u32> {
        let h = std::str::from_utf8(self.s.get(self.i..self.i + 4)?).ok()?;
        self.i += 4;
        u32::from_str_radix(h, 16).ok()
    }
    fn string(&mut self) -> Option<String> {
        // at opening quote
        self.i += 1;
        let mut out: Vec<u8> = Vec::new();
        loop {
            let b = *self.s.get(self.i)?;
            self.i += 1;
            match b {
                b'"' => return String::from_utf8(out).ok(),
                b'\\' => {
                    let e = *self.s.get(self.i)?;
                    self.i += 1;
                    let c = match e {
                        b'"' => '"',
                        b'\\' => '\\',
                        b'/' => '/',
                        b'b' => '\u{8}',
                        b'f' => '\u{c}',
                        b'n' => '\n',
                        b'r' => '\r',
                        b't' => '\t',
                        b'u' => {
                            let hi = self.hex4()?;
                            if (0xD800..0xDC00).contains(&hi) {
                                if self.s.get(self.i..self.i + 2)? != b"\\u" {
                                    return None;
                                }
                                self.i += 2;
                                let lo = self.hex4()?;
                                char::from_u32(0x10000 + (hi - 0xD800) * 0x400 + (lo.wrapping_sub(0xDC00)))?
                            } else {
                                char::from_u32(hi)?
                            }
                        }
                        _ => return None,
                    };
                    let mut buf = [0u8; 4];
                    out.extend_from_slice(c.encode_utf8(&mut buf).as_bytes());
                }
                _ => out.push(b),
            }
        }
    }
    pub fn value(&mut self) -> Option<Tree> {
        self.ws();
        let b = *self.s.get(self.i)?;
        match b {
            b'n' if self.s[self.i..].starts_with(b"null") => {
                self.i += 4;
                Some(Tree::Null)
            }
            b't' if self.s[self.i..].starts_with(b"true") => {
                self.i += 4;
                Some(Tree::Bool(true))
            }
            b'f' if self.s[self.i..].starts_with(b"false") => {
                self.i += 5;
                Some(Tree::Bool(false))
            }
            b'"' => self.string().map(Tree::Str),
            b'[' => {
                self.i += 1;
                let mut xs = Vec::new();
                self.ws();
                if self.s.get(self.i) == Some(&b']') {
                    self.i += 1;
                    return Some(Tree::Seq(xs));
                }
                loop {
                    xs.push(self.value()?);
                    self.ws();
                    match self.s.get(self.i)? {
                        b',' => self.i += 1,
                        b']' => {
                            self.i += 1;
                            return Some(Tree::Seq(xs));
                        }
                        _ => return None,
                    }
                }
            }
            b'{' => {
                self.i += 1;
                let mut kvs = Vec::new();
                self.ws();
                if self.s.get(self.i) == Some(&b'}') {
                    self.i += 1;
                    return Some(Tree::Map(kvs));
                }
                loop {
                    self.ws();
                    if self.s.get(self.i) != Some(&b'"') {
                        return None;
                    }
                    let k = self.string()?;
                    self.ws();
                    if self.s.get(self.i) != Some(&b':') {
                        return None;
                    }
                    self.i += 1;
                    let v = self.value()?;
                    kvs.push((k, v));
                    self.ws();
                    match self.s.get(self.i)? {
                        b',' => self.i += 1,
                        b'}' => {
                            self.i += 1;
                            return Some(Tree::Map(kvs));
                        }
                        _ => return None,
                    }
                }
            }
            _ => {
                let st = self.i;
                if self.s[self.i] == b'-' {
                    self.i += 1;
                }
                while self.i < self.s.len() && self.s[self.i].is_ascii_digit() {
                    self.i += 1;
                }
                if matches!(self.s.get(self.i), Some(b'.' | b'e' | b'E')) {
                    return None;
                }
                std::str::from_utf8(&self.s[st..self.i]).ok()?.parse::<i64>().ok().map(Tree::Int)
            }
        }
    }
}

pub fn read_json(s: &str) -> Option<Tree> {
    let mut r = JsonReader::new(s);
    let v = r.value()?;
    if r.at_end() {
        Some(v)
    } else {
        None
    }
}

pub fn read_json_stream(s: &str) -> Option<Vec<Tree>> {
    let mut r = JsonReader::new(s);
    let mut out = Vec::new();
    while !r.at_end() {
        out.push(r.value()?);
    }
    Some(out)
}

// ------------------------------------------------------------------------------------------------
// generator of admissible presentation-annotated streams

#[derive(Clone, Copy)]
pub struct GenOpts {
    /// layers enabled
    pub block_scalars: bool,
    pub comments: bool,
    pub breaks: bool,
    pub anchors: bool,
    pub multidoc: bool,
    /// strings restricted to JSON-friendly ones without YAML-only features (C26)
    pub max_depth: usize,
}

pub const ALL: GenOpts = GenOpts { block_scalars: true, comments: true, breaks: true, anchors: true, multidoc: true, max_depth: 4 };

const WORDS: &[&str] = &[
    "a", "b", "key", "name", "x y", "foo bar", "value", "item", "true", "false", "null", "~", "yes", "no", "on", "off", "Null", "TRUE", "y", "n",
    "0", "1", "-1", "12", "007", "1.5", "1e3", ".5", "-.inf", ".nan", "0x1F", "0o17", "+5", "1_000", "0b11", "1.", "1e", "0x", "-", "--", "---", "...",
    "a: b", "a:b", "a :b", ":a", "a:", "- a", "-a", "? a", "?a", "a #b", "a#b", "#a", "&a", "*a", "!a", "|", ">", "|a", "%a", "@a", "`a", "a, b", "[a]", "{a}", "a]", "a}",
    "'", "\"", "a'b", "a\"b", "it's", "\\", "a\\nb", " a", "a ", " ", "  ", "a  b", "é", "ü x", "日本", "😀", "a\u{a0}b", "\u{85}", "\u{2028}", "\u{feff}x", "\t", "a\tb", "\u{7f}", "\u{1}", "\u{0}", "\u{1b}[0m",
    "a\nb", "a\n", "\n", "a\n\nb", "a\r\nb", "<<", "=", "a=b", "http://x.y/z?q=1#f", "key: value", "- item", "# comment", "a,b", "1,2",
    "a \"b", "a 'b", "x \"y\" z", "a,\"b", "0 \"\"9", "a | b", "a > b", "a |", "a >-", "say \"hi\"", "don't 'quote",
];

pub fn gen_string(r: &mut Rng) -> String {
    match r.below(10) {
        0..=5 => r.pick(WORDS).to_string(),
        6 => {
            // concatenation of two words
            format!("{}{}", r.pick(WORDS), r.pick(WORDS))
        }
        7 => {
            // random printable ASCII incl. indicators
            let n = r.range(1, 12);
            (0..n).map(|_| *r.pick(&[' ', ':', '-', '#', ',', '[', ']', '{', '}', '&', '*', '!', '|', '>', '\'', '"', '%', '@', '`', '?', 'a', 'b', 'z', '0', '9', '.', '_', '/', '\\', '=', '~', '+'])).collect()
        }
        8 => {
            // random code points
            let n = r.range(1, 6);
            (0..n)
                .map(|_| loop {
                    let cp = match r.below(5) {
                        0 => r.below(0x20) as u32,
                        1 => 0x20 + r.below(0x60) as u32,
                        2 => 0x80 + r.below(0x80) as u32,
                        3 => 0x100 + r.below(0xFF00) as u32,
                        _ => 0x10000 + r.below(0x100000) as u32,
                    };
                    if let Some(c) = char::from_u32(cp) {
                        break c;
                    }
                })
                .collect()
        }
        _ => String::new(),
    }
}

/// Multi-line text suited to block scalars.
pub fn gen_text(r: &mut Rng) -> String {
    let nl = r.range(1, 5);
    let mut s = String::new();
    for i in 0..nl {
        if i > 0 {
            for _ in 0..*r.pick(&[1usize, 1, 1, 2, 3]) {
                s.push('\n');
            }
        }
        if r.chance(1, 6) {
            s.push_str(&spaces(r.range(1, 3) as usize));
        }
        let nw = r.range(1, 4);
        for w in 0..nw {
            if w > 0 {
                s.push(' ');
            }
            s.push_str(*r.pick(&["word", "a", "b:", "- x", "# no comment", "k: v", "é", "'q'", "\"d\"", "x", "|", ">", "&a", "*b", "日本", "[1]", "{}"]));
        }
    }
    for _ in 0..*r.pick(&[0usize, 0, 1, 1, 1, 2, 3]) {
        s.push('\n');
    }
    s
}

fn bs_line_ok(l: &str) -> bool {
    l.chars().all(is_printable) && (l.is_empty() || l.chars().any(|c| c != ' '))
}

fn chomp_choices(s: &str) -> Vec<Chomp> {
    let cs: Vec<char> = s.chars().collect();
    let n = cs.len();
    let mut v = Vec::new();
    if cs.last() != Some(&'\n') {
        v.push(Chomp::Strip);
    } else {
        v.push(Chomp::Keep);
        if n >= 2 && cs[n - 2] != '\n' {
            v.push(Chomp::Clip);
        }
    }
    v
}

fn needs_explicit(s: &str) -> bool {
    match s.split('\n').find(|l| !l.is_empty()) {
        Some(l) => l.starts_with(' '),
        None => false,
    }
}

pub struct Gen<'a> {
    pub r: &'a mut Rng,
    pub o: GenOpts,
    env: Vec<(String, Tree)>,
    nanchor: usize,
    budget: usize,
}

impl<'a> Gen<'a> {
    pub fn new(r: &'a mut Rng, o: GenOpts) -> Self {
        Gen { r, o, env: Vec::new(), nanchor: 0, budget: 0 }
    }

    fn comment(&mut self) -> String {
        self.r.pick(&["", " c", " a: b", " - x", "#", " 'q", " \"d", " é", " [", " |"]).to_string()
    }

    fn meta(&mut self, flow: bool) -> Meta {
        let mut m = Meta::default();
        if self.r.chance(1, 6) {
            m.gap = self.r.range(1, 3) as usize;
        }
        if !flow && self.o.comments {
            if self.r.chance(1, 6) {
                for _ in 0..self.r.range(1, 2) {
                    let f = if self.r.chance(1, 2) { Filler::Blank } else { Filler::Comment(self.comment()) };
                    m.fill.push(f);
                }
            }
            if self.r.chance(1, 8) {
                m.trail = Some(self.comment());
            }
        }
        m
    }

    fn str_style(&mut self, s: &str, flow: bool, root: bool) -> SStyle {
        let mut opts: Vec<SStyle> = vec![SStyle::Double { short: self.r.chance(1, 2), esc_uni: self.r.chance(1, 4) }];
        if s.chars().all(is_printable) {
            opts.push(SStyle::Single);
        }
        if plain_safe(flow, s) && resolves_to_str(s) {
            opts.push(SStyle::Plain);
            opts.push(SStyle::Plain);
        }
        if !flow && self.o.block_scalars && s.split('\n').all(bs_line_ok) {
            let ex_needed = needs_explicit(s);
            let lo = if root { 2 } else { 1 };
            for chomp in chomp_choices(s) {
                let hi = if self.r.chance(1, 8) { 9 } else { 4 };
                let ind = self.r.range(lo, hi) as usize;
                if root && (ex_needed || !s.chars().any(|c| c != '\n')) {
                    continue;
                }
                let explicit = !root && (ex_needed || self.r.chance(1, 4));
                opts.push(SStyle::Literal { chomp, ind, explicit });
                if !s.starts_with('\n') && s.split('\n').all(|l| !l.starts_with(' ')) {
                    let cs: Vec<char> = s.chars().collect();
                    let mut folds = Vec::new();
                    for i in 1..cs.len().saturating_sub(1) {
                        if cs[i] == ' ' && cs[i - 1] != ' ' && cs[i - 1] != '\n' && cs[i + 1] != ' ' && cs[i + 1] != '\n' && self.r.chance(1, 3) {
                            folds.push(i);
                        }
                    }
                    opts.push(SStyle::Folded { chomp, ind, explicit, folds });
                }
            }
        }
        let i = self.r.usize_below(opts.len());
        opts.swap_remove(i)
    }

    fn key_style(&mut self, k: &str, flow: bool) -> KStyle {
        let mut opts = vec![KStyle::Double { short: self.r.chance(1, 2), esc_uni: self.r.chance(1, 4) }];
        if k.chars().all(is_printable) {
            opts.push(KStyle::Single);
        }
        if plain_safe(flow, k) && resolves_to_str(k) && k != "<<" {
            opts.push(KStyle::Plain);
            opts.push(KStyle::Plain);
            opts.push(KStyle::Plain);
        }
        *self.r.pick(&opts)
    }

    fn scalar(&mut self, flow: bool, ctx: Ctx) -> PNode {
        match self.r.below(10) {
            0 => {
                let mut v = self.r.below(5) as u32;
                if v == 4 && (flow || ctx == Ctx::Root) {
                    v = 0;
                }
                PNode::Null(v)
            }
            1 => PNode::Bool(self.r.chance(1, 2), self.r.below(3) as u32),
            2 | 3 => {
                let i = match self.r.below(6) {
                    0 => 0,
                    1 => self.r.below(100) as i64,
                    2 => -(self.r.below(100) as i64),
                    3 => *self.r.pick(&[i64::MAX, i64::MIN, i64::MAX - 1, i64::MIN + 1, 255, 256, -255, 8, 9, 10, 15, 16, 17, 63, 64]),
                    _ => self.r.next_u64() as i64 >> self.r.below(64),
                };
                PNode::Int(i, self.r.below(5) as u32)
            }
            _ => {
                let s = if !flow && self.o.block_scalars && self.r.chance(1, 4) { gen_text(self.r) } else { gen_string(self.r) };
                let st = self.str_style(&s, flow, ctx == Ctx::Root);
                PNode::Str(s, st)
            }
        }
    }

    fn node(&mut self, depth: usize, flow: bool, ctx: Ctx) -> PNode {
        // alias to an existing anchor
        if self.o.anchors && !self.env.is_empty() && ctx != Ctx::Root && self.r.chance(1, 10) {
            let a = self.r.pick(&self.env).0.clone();
            let t = self.env.iter().find(|e| e.0 == a).unwrap().1.clone();
            return PNode::Alias(a, t);
        }
        let before = self.env.len();
        let n = self.plain_node(depth, flow, ctx);
        if self.o.anchors && self.r.chance(1, 10) {
            let ok = match &n {
                PNode::Seq { flow: false, compact, .. } | PNode::Map { flow: false, compact, .. } => !*compact,
                PNode::Null(v) => !(flow && v % 5 == 4),
                PNode::Alias(..) | PNode::Anchored(..) => false,
                _ => true,
            };
            if ok {
                let reuse = if !self.env.is_empty() && self.r.chance(1, 8) { Some(self.r.pick(&self.env).0.clone()) } else { None };
                let name = if let Some(nm) = reuse.filter(|nm| !mentions(&n, nm)) {
                    nm
                } else {
                    self.nanchor += 1;
                    format!("{}{}", self.r.pick(&["a", "x-", "A_", "anchor"]), self.nanchor)
                };
                let t = n.tree();
                let k = self.env.len() - before;
                self.env.insert(k, (name.clone(), t));
                return PNode::Anchored(name, Box::new(n));
            }
        }
        n
    }

    fn plain_node(&mut self, depth: usize, flow: bool, ctx: Ctx) -> PNode {
        if depth >= self.o.max_depth || self.budget == 0 || self.r.chance(2, 5) {
            return self.scalar(flow, ctx);
        }
        self.budget -= 1;
        let is_seq = self.r.chance(1, 2);
        let cflow = flow || self.r.chance(1, 4);
        let n = if self.r.chance(1, 12) { 0 } else { self.r.range(1, 4) as usize };
        let cflow = cflow || n == 0;
        let compact = !cflow && ctx == Ctx::Seq && self.r.chance(1, 2);
        let step = if ctx == Ctx::Map && is_seq && self.r.chance(1, 3) {
            0
        } else if self.r.chance(1, 10) {
            self.r.range(1, 8) as usize
        } else {
            *self.r.pick(&[1usize, 2, 2, 2, 3, 4])
        };
        if is_seq {
            let mut items = Vec::new();
            for i in 0..n {
                let mut m = self.meta(cflow);
                if compact && i == 0 {
                    m.fill.clear();
                }
                let x = self.node(depth + 1, cflow, Ctx::Seq);
                if matches!(&x, PNode::Seq { flow: false, compact: true, .. } | PNode::Map { flow: false, compact: true, .. }) {
                    m.trail = None;
                }
                items.push((m, x));
            }
            fix_keep_blank_items(&mut items);
            PNode::Seq { flow: cflow, step, compact, items }
        } else {
            let mut entries: Vec<(Meta, String, KStyle, PNode)> = Vec::new();
            for i in 0..n {
                let mut m = self.meta(cflow);
                if compact && i == 0 {
                    m.fill.clear();
                }
                let mut k = gen_string(self.r);
                let mut tries = 0;
                while entries.iter().any(|e| e.1 == k) || k.chars().count() > 200 || k == "<<" {
                    tries += 1;
                    k = format!("{}{}", gen_string(self.r), tries);
                }
                let ks = self.key_style(&k, cflow);
                let x = self.node(depth + 1, cflow, Ctx::Map);
                entries.push((m, k, ks, x));
            }
            fix_keep_blank_entries(&mut entries);
            PNode::Map { flow: cflow, step, compact, entries }
        }
    }

    pub fn doc(&mut self, first: bool) -> PDoc {
        self.env.clear();
        self.budget = self.r.range(0, 8) as usize;
        let root = {
            let n = self.node(0, false, Ctx::Root);
            // root collections are never compact
            match n {
                PNode::Seq { flow, step, items, .. } => PNode::Seq { flow, step, compact: false, items },
                PNode::Map { flow, step, entries, .. } => PNode::Map { flow, step, compact: false, entries },
                x => x,
            }
        };
        let mut marker = !first || self.r.chance(1, 3);
        if let PNode::Null(v) = &root {
            if v % 5 == 4 {
                marker = true;
            }
        }
        let mut fill = Vec::new();
        if self.o.comments && self.r.chance(1, 6) {
            fill.push(if self.r.chance(1, 2) { Filler::Blank } else { Filler::Comment(self.comment()) });
        }
        let mut root_meta = self.meta(false);
        root_meta.fill.clear();
        PDoc { fill, marker, end_marker: self.o.multidoc && self.r.chance(1, 4), root, root_meta }
    }

    pub fn stream(&mut self) -> PStream {
        let nd = if self.o.multidoc && self.r.chance(1, 4) { self.r.range(2, 4) as usize } else { 1 };
        let mut docs: Vec<PDoc> = Vec::new();
        for i in 0..nd {
            let mut d = self.doc(i == 0);
            if let Some(p) = docs.last() {
                if ends_keep(&p.root) && !p.end_marker && d.fill.first() == Some(&Filler::Blank) {
                    d.fill.clear();
                }
            }
            docs.push(d);
        }
        let br = if self.o.breaks { *self.r.pick(&[Break::Lf, Break::Lf, Break::Crlf, Break::Cr]) } else { Break::Lf };
        PStream { docs, br }
    }
}

/// Deeply nested block collections (indentation steps 2–4, 14–24 levels, or as many as reach a
/// chosen column) around a multi-line literal / folded block scalar whose content lines start at
/// column 15…65 — the range where the vectorised block-scalar scanners count indentation in more than
/// one lane — followed by sibling entries at every level.
pub fn deep_stream(r: &mut Rng) -> PStream {
    let target: Option<usize> = if r.chance(2, 3) { Some(*r.pick(&[15usize, 16, 17, 31, 32, 33, 34, 47, 48, 49, 63, 64, 65])) } else { None };
    let mut steps: Vec<usize> = Vec::new();
    let mut e = 0usize;
    let ind;
    match target {
        Some(t) => {
            while t - e > 4 {
                let st = (*r.pick(&[2usize, 2, 3, 4])).min(t - e - 1);
                steps.push(st);
                e += st;
            }
            ind = t - e;
        }
        None => {
            for _ in 0..r.range(14, 24) {
                let st = *r.pick(&[2usize, 2, 3, 4]);
                steps.push(st);
                e += st;
            }
            ind = r.range(1, 4) as usize;
        }
    }
    // the text: at least two non-empty lines
    let mut s = String::new();
    for _ in 0..20 {
        s = gen_text(r);
        if s.split('\n').filter(|l| !l.is_empty()).count() >= 2 && s.split('\n').all(bs_line_ok) {
            break;
        }
        s = String::new();
    }
    if s.is_empty() {
        s = (*r.pick(&["line one\nline two\nline three\n", "a\n  b\nc", "x: 1\ny: 2\n\n", "- a\n- b\n"])).to_string();
    }
    let chomp = *r.pick(&chomp_choices(&s));
    let explicit = needs_explicit(&s) || r.chance(1, 3);
    let can_fold = !s.starts_with('\n') && s.split('\n').all(|l| !l.starts_with(' '));
    let st = if can_fold && r.chance(1, 2) {
        let cs: Vec<char> = s.chars().collect();
        let mut folds = Vec::new();
        for i in 1..cs.len().saturating_sub(1) {
            if cs[i] == ' ' && cs[i - 1] != ' ' && cs[i - 1] != '\n' && cs[i + 1] != ' ' && cs[i + 1] != '\n' && r.chance(1, 3) {
                folds.push(i);
            }
        }
        SStyle::Folded { chomp, ind, explicit, folds }
    } else {
        SStyle::Literal { chomp, ind, explicit }
    };
    let mut node = PNode::Str(s, st);
    let mut first = true;
    let nlev = steps.len();
    for lv in (0..=nlev).rev() {
        // level `lv` holds `node`; its own step (distance from its parent's entries) is steps[lv-1]
        let step = if lv == 0 { 2 } else { steps[lv - 1] };
        let is_seq = r.chance(1, 3);
        let sib = first || r.chance(1, 2);
        first = false;
        if is_seq {
            let mut items = vec![(Meta::default(), node)];
            if sib {
                items.push((Meta::default(), PNode::Int(lv as i64, 0)));
            }
            node = PNode::Seq { flow: false, step, compact: false, items };
        } else {
            let mut entries = vec![(Meta::default(), format!("k{lv}"), KStyle::Plain, node)];
            if sib {
                entries.push((Meta::default(), "after".to_string(), KStyle::Plain, PNode::Int(1, 0)));
            }
            node = PNode::Map { flow: false, step, compact: false, entries };
        }
    }
    let br = *r.pick(&[Break::Lf, Break::Lf, Break::Crlf, Break::Cr]);
    PStream { docs: vec![PDoc { fill: vec![], marker: r.chance(1, 4), end_marker: false, root: node, root_meta: Meta::default() }], br }
}

impl<'a> Gen<'a> {
    fn fresh_key(&mut self, used: &mut Vec<String>) -> (String, KStyle) {
        let mut k = gen_string(self.r);
        let mut tries = 0;
        while used.contains(&k) || k.chars().count() > 200 || k == "<<" {
            tries += 1;
            k = format!("{}{}", gen_string(self.r), tries);
        }
        used.push(k.clone());
        let ks = if self.r.chance(1, 2) && plain_safe(false, &k) && resolves_to_str(&k) { KStyle::Plain } else { self.key_style(&k, false) };
        (k, ks)
    }

    /// A block mapping (compact or not) of 2–4 keys; the key at `pos` (0 first, 1 middle, 2 last) —
    /// and now and then one more — has an indentless block sequence as its value (`k:\n- a\n- b` at
    /// the key's own column); the sequence's items are scalars or, while `level > 0`, compact
    /// mappings of the same kind.  The other keys carry scalars.
    fn indentless_map(&mut self, level: usize, compact: bool, pos: usize) -> PNode {
        let n = self.r.range(2, 4) as usize;
        let at = match pos {
            0 => 0,
            1 => n / 2,
            _ => n - 1,
        };
        let extra = if self.r.chance(1, 4) { Some(self.r.usize_below(n)) } else { None };
        let mut used = Vec::new();
        let mut entries: Vec<(Meta, String, KStyle, PNode)> = Vec::new();
        for i in 0..n {
            let mut m = self.meta(false);
            if compact && i == 0 {
                m.fill.clear();
            }
            let (k, ks) = self.fresh_key(&mut used);
            let x = if i == at || extra == Some(i) {
                let ni = self.r.range(1, 3) as usize;
                let mut items = Vec::new();
                for _ in 0..ni {
                    let mut im = self.meta(false);
                    let x = if level > 0 && self.r.chance(1, 2) {
                        im.trail = None;
                        let p = self.r.usize_below(3);
                        self.indentless_map(level - 1, true, p)
                    } else {
                        self.scalar(false, Ctx::Seq)
                    };
                    items.push((im, x));
                }
                fix_keep_blank_items(&mut items);
                PNode::Seq { flow: false, step: 0, compact: false, items }
            } else {
                self.scalar(false, Ctx::Map)
            };
            entries.push((m, k, ks, x));
        }
        fix_keep_blank_entries(&mut entries);
        PNode::Map { flow: false, step: *self.r.pick(&[1usize, 2, 2, 3, 4]), compact, entries }
    }
}

/// Indentless block sequences as values of the first / a middle / the last key of compact mappings
/// (`- ports:\n  - 80\n  name: web`), with following sibling keys, at nesting depths 1–4: the compact
/// mapping is an item of a sequence that is the root, or the (indented or again indentless) value of
/// a key of an enclosing mapping, which may itself be a compact item one level further out.
pub fn indentless_stream(r: &mut Rng) -> PStream {
    let br = *r.pick(&[Break::Lf, Break::Lf, Break::Crlf, Break::Cr]);
    let mut g = Gen::new(r, GenOpts { block_scalars: true, comments: true, breaks: true, anchors: false, multidoc: false, max_depth: 2 });
    let inner = g.r.range(0, 2) as usize;
    let pos = g.r.usize_below(3);
    let mut node = g.indentless_map(inner, true, pos);
    let wraps = g.r.range(0, 3) as usize;
    for w in 0..=wraps {
        // `node` is a compact mapping: make it an item of a block sequence …
        let mut items: Vec<(Meta, PNode)> = Vec::new();
        if g.r.chance(1, 3) {
            items.push((g.meta(false), g.scalar(false, Ctx::Seq)));
        }
        let mut m = g.meta(false);
        m.trail = None;
        items.push((m, node));
        if g.r.chance(1, 2) {
            items.push((g.meta(false), g.scalar(false, Ctx::Seq)));
        }
        fix_keep_blank_items(&mut items);
        let last = w == wraps;
        let step = if !last && g.r.chance(1, 2) { 0 } else { *g.r.pick(&[1usize, 2, 2, 3, 4]) };
        let seq = PNode::Seq { flow: false, step, compact: false, items };
        if last && g.r.chance(1, 2) {
            node = seq;
            break;
        }
        // … that is the value of a key (first / middle / last) of an enclosing mapping
        let n = g.r.range(1, 3) as usize;
        let at = g.r.usize_below(n);
        let mut used = Vec::new();
        let mut entries: Vec<(Meta, String, KStyle, PNode)> = Vec::new();
        let compact = !last;
        let mut seq = Some(seq);
        for i in 0..n {
            let mut m = g.meta(false);
            if compact && i == 0 {
                m.fill.clear();
            }
            let (k, ks) = g.fresh_key(&mut used);
            let x = if i == at { seq.take().unwrap() } else { g.scalar(false, Ctx::Map) };
            entries.push((m, k, ks, x));
        }
        fix_keep_blank_entries(&mut entries);
        node = PNode::Map { flow: false, step: 2, compact, entries };
    }
    let mut root_meta = Meta::default();
    if g.r.chance(1, 8) {
        root_meta.trail = Some(g.comment());
    }
    let marker = g.r.chance(1, 4) || root_meta.trail.is_some();
    PStream { docs: vec![PDoc { fill: vec![], marker, end_marker: false, root: node, root_meta }], br }
}

/// Does the node contain an alias (or a nested anchor) named `a`?
pub fn mentions(n: &PNode, a: &str) -> bool {
    match n {
        PNode::Alias(x, _) => x == a,
        PNode::Anchored(x, y) => x == a || mentions(y, a),
        PNode::Seq { items, .. } => items.iter().any(|e| mentions(&e.1, a)),
        PNode::Map { entries, .. } => entries.iter().any(|e| mentions(&e.3, a)),
        _ => false,
    }
}

pub fn ends_keep(n: &PNode) -> bool {
    match n {
        PNode::Str(_, SStyle::Literal { chomp: Chomp::Keep, .. }) | PNode::Str(_, SStyle::Folded { chomp: Chomp::Keep, .. }) => true,
        PNode::Seq { flow: false, items, .. } => items.last().map_or(false, |x| ends_keep(&x.1)),
        PNode::Map { flow: false, entries, .. } => entries.last().map_or(false, |x| ends_keep(&x.3)),
        PNode::Anchored(_, x) => ends_keep(x),
        _ => false,
    }
}

fn fix_keep_blank_items(items: &mut [(Meta, PNode)]) {
    for i in 1..items.len() {
        if ends_keep(&items[i - 1].1) && items[i].0.fill.first() == Some(&Filler::Blank) {
            items[i].0.fill.clear();
        }
    }
}

fn fix_keep_blank_entries(entries: &mut [(Meta, String, KStyle, PNode)]) {
    for i in 1..entries.len() {
        if ends_keep(&entries[i - 1].3) && entries[i].0.fill.first() == Some(&Filler::Blank) {
            entries[i].0.fill.clear();
        }
    }
}

// ------------------------------------------------------------------------------------------------
// presentation features of a stream (used to state known-finding classes narrowly)

fn feat_node(n: &PNode, parent_compact: bool, flow: bool, out: &mut Vec<&'static str>) {
    match n {
        PNode::Str(s, SStyle::Literal { explicit, .. }) | PNode::Str(s, SStyle::Folded { explicit, .. }) => {
            if parent_compact && *explicit {
                out.push("compact-explicit");
            }
            if parent_compact && !s.chars().any(|c| c != '\n') {
                out.push("compact-bs-empty");
            }
            if s.split('\n').find(|l| !l.is_empty()).map_or(false, |l| l.starts_with('#')) {
                out.push("bs-hash-first");
            }
        }
        PNode::Str(s, SStyle::Plain) => {
            if !flow && (s.contains('[') || s.contains('{')) {
                out.push("plain-flowind");
            }
            if !flow && plain_inner_indicator(s) {
                out.push("plain-quote-bar");
            }
            if flow && s.starts_with(':') {
                out.push("flow-colon-plain");
            }
            if flow && (s.contains(":\"") || s.contains(":'")) {
                out.push("flow-colon-quote");
            }
        }
        PNode::Seq { flow: f, compact, items, .. } => {
            for (m, x) in items {
                feat_meta(m, out);
                if *compact && !*f && is_bs(x) {
                    out.push("bs-in-compact-seq");
                }
                feat_node(x, *compact && !*f, *f || flow, out);
            }
        }
        PNode::Map { flow: f, compact, entries, .. } => {
            // the block scalar under the key on the `- ` line, with further keys after it (V4)
            if *compact && !*f && entries.len() >= 2 && is_bs(&entries[0].3) {
                out.push("bs-in-compact-map");
            }
            for (m, k, ks, x) in entries {
                feat_meta(m, out);
                if !(*f || flow) && *ks == KStyle::Plain && (k.contains('[') || k.contains('{')) {
                    out.push("plain-flowind");
                }
                if !(*f || flow) && *ks == KStyle::Plain && plain_inner_indicator(k) {
                    out.push("plain-quote-bar");
                }
                if (*f || flow) && *ks == KStyle::Plain && k.starts_with(':') {
                    out.push("flow-colon-plain");
                }
                if k == "<<" && *ks != KStyle::Plain {
                    out.push("quoted-merge");
                }
                if (*f || flow) && *ks == KStyle::Plain && k.contains(':') {
                    out.push("flow-colon-key");
                }
                feat_node(x, *compact && !*f, *f || flow, out);
            }
        }
        PNode::Anchored(_, x) => feat_node(x, parent_compact, flow, out),
        _ => {}
    }
}

/// A quote, `|` or `>` inside a block-context plain scalar right after a character that is not
/// alphanumeric (space, comma, …): a position where a validator could take it for a node start.
fn plain_inner_indicator(s: &str) -> bool {
    let cs: Vec<char> = s.chars().collect();
    (1..cs.len()).any(|i| matches!(cs[i], '"' | '\'' | '|' | '>') && !cs[i - 1].is_alphanumeric())
}

fn strip_anchor(n: &PNode) -> &PNode {
    match n {
        PNode::Anchored(_, x) => strip_anchor(x),
        x => x,
    }
}

fn feat_meta(m: &Meta, out: &mut Vec<&'static str>) {
    if let Some(c) = &m.trail {
        if c.contains(": ") || c.ends_with(':') {
            out.push("comment-colon");
        }
    }
}

fn is_bs(n: &PNode) -> bool {
    match n {
        PNode::Str(_, SStyle::Literal { .. }) | PNode::Str(_, SStyle::Folded { .. }) => true,
        PNode::Anchored(_, x) => is_bs(x),
        _ => false,
    }
}

pub fn features(ps: &PStream) -> String {
    let mut out: Vec<&'static str> = Vec::new();
    for d in &ps.docs {
        feat_meta(&d.root_meta, &mut out);
        feat_node(&d.root, false, false, &mut out);
        if is_bs(&d.root) && (!d.marker || d.root_meta.trail.is_some() || matches!(d.root, PNode::Anchored(..))) {
            out.push("root-bs");
        }
        if let PNode::Anchored(_, x) = &d.root {
            if x.is_block_coll() && d.root_meta.trail.is_some() {
                out.push("root-anchor-comment");
            }
        }
    }
    // a block mapping key with nothing (or only a comment) after its `:` on the line, followed — after
    // blank and comment lines — by a line that starts with a quote (token table: no guessing where a
    // quoted key ends)
    let (t, toks) = render_lf(ps);
    let cs: Vec<char> = t.chars().collect();
    for tok in toks.iter().filter(|k| k.is_key) {
        let mut i = tok.end;
        if cs.get(i) != Some(&':') {
            continue;
        }
        i += 1;
        let eol = (i..cs.len()).find(|&j| cs[j] == '\n').unwrap_or(cs.len());
        let rest: String = cs[i..eol].iter().collect();
        let r = rest.trim_start_matches(' ');
        if !(r.is_empty() || (rest.starts_with(' ') && r.starts_with('#'))) {
            continue;
        }
        // next content line
        let mut j = eol + 1;
        while j < cs.len() {
            let e = (j..cs.len()).find(|&q| cs[q] == '\n').unwrap_or(cs.len());
            let line: String = cs[j..e].iter().collect();
            let l = line.trim_start_matches(' ');
            if l.is_empty() || l.starts_with('#') {
                j = e + 1;
                continue;
            }
            if l.starts_with('"') || l.starts_with('\'') {
                out.push("qkey-after-empty");
            }
            break;
        }
    }
    if returns_between_levels(ps) {
        out.push("compact-nested");
    }
    if t.contains("]:") || t.contains("}:") {
        out.push("bracket-colon");
    }
    if render(ps).len() % 64 == 0 {
        out.push("len64");
    }
    out.sort();
    out.dedup();
    if out.is_empty() {
        "-".into()
    } else {
        out.join(",")
    }
}

fn keys_node(n: &PNode, out: &mut Vec<String>) {
    match n {
        PNode::Seq { items, .. } => items.iter().for_each(|e| keys_node(&e.1, out)),
        PNode::Map { entries, .. } => entries.iter().for_each(|e| {
            out.push(e.1.clone());
            keys_node(&e.3, out)
        }),
        PNode::Anchored(_, x) => keys_node(x, out),
        _ => {}
    }
}

/// Every mapping key of the stream.
pub fn all_keys(ps: &PStream) -> Vec<String> {
    let mut out = Vec::new();
    for d in &ps.docs {
        keys_node(&d.root, &mut out);
    }
    out
}
