//! C20 — DSV indexing engines (scalar, SSE2, AVX2, BMI2, dispatcher) and the quote-mask kernels,
//! each driven directly through the verif hooks.
use crate::rng::Rng;
use crate::util::*;
use crate::Tier;
use succinctly::dsv::{DsvConfig, DsvIndex};
use succinctly::verif_hooks as h;

pub fn tables() -> Vec<(&'static str, String)> {
    vec![]
}

fn idx_str(ix: &DsvIndex) -> String {
    let lw = ix.as_lightweight();
    format!("{}/{}", hex_words(&lw.markers), hex_words(&lw.newlines))
}

fn cfg(d: u8, q: u8, n: u8) -> DsvConfig {
    DsvConfig { delimiter: d, quote_char: q, newline: n }
}

fn byte_of(s: &str) -> u8 {
    u8::from_str_radix(s, 16).expect("hex byte")
}

fn flag(s: &str, i: usize) -> bool {
    s.as_bytes().get(i) == Some(&b'1')
}

/// `avx2 bmi2 fast_bmi2` of this host as the three flag characters of a request.
pub fn host_flags() -> String {
    let b = |x: bool| if x { '1' } else { '0' };
    [
        b(std::arch::is_x86_feature_detected!("avx2")),
        b(std::arch::is_x86_feature_detected!("bmi2")),
        b(h::has_fast_bmi2()),
    ]
    .iter()
    .collect()
}

fn pair(p: (u64, u64)) -> String {
    format!("{:x},{:x}", p.0, p.1)
}

pub fn exec(a: &[&str]) -> String {
    match a[0] {
        // idx <flags> <d> <q> <n> <text> -> scalar;sse2;avx2|-;bmi2|-;dispatch
        "idx" => {
            let fl = a[1];
            let c = cfg(byte_of(a[2]), byte_of(a[3]), byte_of(a[4]));
            let text = parse_bytes(a[5]);
            let want_avx2 = flag(fl, 0);
            let want_bmi2 = flag(fl, 0) && flag(fl, 1);
            let na = || "UNAVAILABLE".to_string();
            let sc = idx_str(&h::dsv_build_index_scalar(&text, &c));
            let ss = h::dsv_build_index_sse2(&text, &c).map(|i| idx_str(&i)).unwrap_or_else(na);
            let av = if want_avx2 {
                h::dsv_build_index_avx2(&text, &c).map(|i| idx_str(&i)).unwrap_or_else(na)
            } else {
                "-".into()
            };
            let bm = if want_bmi2 {
                h::dsv_build_index_bmi2(&text, &c).map(|i| idx_str(&i)).unwrap_or_else(na)
            } else {
                "-".into()
            };
            let di = idx_str(&h::dsv_build_index_dispatch(&text, &c));
            format!("{sc};{ss};{av};{bm};{di}")
        }
        // tog <flags> <carry> <qmask> -> prefix_xor;out,carry;out,carry|-
        "tog" => {
            let c = u64::from_str_radix(a[2], 16).unwrap();
            let qm = u64::from_str_radix(a[3], 16).unwrap();
            let b = if flag(a[1], 1) {
                h::dsv_toggle64_bmi2(c, qm).map(pair).unwrap_or_else(|| "UNAVAILABLE".into())
            } else {
                "-".into()
            };
            format!("{:x};{};{}", h::dsv_prefix_xor(qm), pair(h::dsv_toggle64_prefix_xor(c, qm)), b)
        }
        // dep <carry> <qmask> <addend> -> toggle64_from_deposit;next_carry
        "dep" => {
            let c = u64::from_str_radix(a[1], 16).unwrap();
            let qm = u64::from_str_radix(a[2], 16).unwrap();
            let ad = u64::from_str_radix(a[3], 16).unwrap();
            format!("{};{:x}", pair(h::dsv_toggle64_from_deposit(c, qm, ad)), h::dsv_next_carry(c, qm))
        }
        _ => "BAD-OP".into(),
    }
}

/// Text over {d,q,n,x} with quoted regions of chosen span, quote runs, and optional random bytes.
fn gen_text(r: &mut Rng, d: u8, q: u8, n: u8, len: usize, style: u64) -> Vec<u8> {
    let mut t = Vec::with_capacity(len);
    let filler = |r: &mut Rng| -> u8 {
        match r.below(8) {
            0 => d,
            1 => n,
            2 => b'x',
            3 => r.byte(),
            4 => 0,
            5 => 0xff,
            _ => *r.pick(&[b'a', b'b', b' ', b'1']),
        }
    };
    match style {
        // uniformly random over the four classes
        0 => {
            for _ in 0..len {
                t.push(*r.pick(&[d, q, n, b'x']));
            }
        }
        // random bytes with sprinkled specials
        1 => {
            for _ in 0..len {
                t.push(if r.chance(1, 3) { *r.pick(&[d, q, n]) } else { r.byte() });
            }
        }
        // quoted regions spanning 0–5 chunks of 64, separated by short unquoted stretches
        2 => {
            while t.len() < len {
                let gap = r.usize_below(40);
                for _ in 0..gap {
                    t.push(filler(r));
                }
                t.push(q);
                let span = r.usize_below(6) * 64 + r.usize_below(70);
                for _ in 0..span {
                    let b = filler(r);
                    t.push(if b == q { b'y' } else { b });
                }
                t.push(q);
                if r.chance(1, 4) {
                    t.push(d);
                } else if r.chance(1, 4) {
                    t.push(n);
                }
            }
            t.truncate(len);
        }
        // runs of quotes (odd/even), doubled quotes inside fields
        3 => {
            while t.len() < len {
                let run = r.range(1, 9) as usize;
                for _ in 0..run {
                    t.push(q);
                }
                let gap = r.usize_below(30);
                for _ in 0..gap {
                    t.push(*r.pick(&[d, n, b'x', d, n]));
                }
            }
            t.truncate(len);
        }
        // specials placed at chunk boundaries (bits 62,63,0,1 of each word)
        4 => {
            for i in 0..len {
                let m = i % 64;
                t.push(if m >= 62 || m <= 1 {
                    *r.pick(&[q, q, d, n])
                } else if r.chance(1, 10) {
                    *r.pick(&[d, n, q])
                } else {
                    b'x'
                });
            }
        }
        // marker-free stretches: quoted regions (and unquoted gaps) whose content holds neither the
        // delimiter nor the newline, so whole 64-byte chunks carry nothing but the quote state;
        // region lengths 0–5 chunks at every alignment, optional doubled quotes / CR inside
        6 | 7 => {
            let plain = |r: &mut Rng| -> u8 { *r.pick(&[b'x', b'a', b' ', b'1', b'\r', b'.']) };
            while t.len() < len {
                let gap = if style == 6 { r.usize_below(8) } else { r.usize_below(200) };
                for _ in 0..gap {
                    let b = plain(r);
                    t.push(if b == d || b == n || b == q { b'x' } else { b });
                }
                if r.chance(1, 3) {
                    t.push(*r.pick(&[d, n]));
                }
                t.push(q);
                let span = *r.pick(&[0usize, 1, 2, 3, 4, 5]) * 64 + r.usize_below(70);
                for _ in 0..span {
                    if r.chance(1, 40) {
                        t.push(q);
                        t.push(q);
                    } else {
                        let b = plain(r);
                        t.push(if b == d || b == n || b == q { b'y' } else { b });
                    }
                }
                t.push(q);
                t.push(*r.pick(&[d, n, d]));
            }
            t.truncate(len);
        }
        // mostly delimiters/newlines, rare quotes (long unquoted / long quoted stretches)
        _ => {
            for _ in 0..len {
                t.push(if r.chance(1, 100) { q } else { *r.pick(&[d, n, d, n, b'x']) });
            }
        }
    }
    t
}

fn gen_triple(r: &mut Rng, i: usize) -> (u8, u8, u8) {
    const FIXED: &[(u8, u8, u8)] = &[
        (b',', b'"', b'\n'),
        (b'\t', b'"', b'\n'),
        (b';', b'"', b'\n'),
        (b'|', b'\'', b'\r'),
        (0x00, b'"', b'\n'),
        (b',', 0x00, b'\n'),
        (b',', b'"', 0x00),
        (0xff, b'"', b'\n'),
        (b',', 0xff, b'\n'),
        (b',', b'"', 0xff),
        (0x00, 0xff, 0x80),
        (0x7f, 0x80, 0x81),
        (b'x', b'y', b'z'),
        (b'"', b',', b'\n'),
        (b'\n', b',', b'"'),
    ];
    if i % 3 == 0 {
        return FIXED[(i / 3) % FIXED.len()];
    }
    loop {
        let pick = |r: &mut Rng| -> u8 {
            if r.chance(1, 3) {
                *r.pick(&[0x00u8, 0xff, 0x80, 0x7f, b',', b'"', b'\n', b'\r', b'\t', b' ', b'x'])
            } else {
                r.byte()
            }
        };
        let (d, q, n) = (pick(r), pick(r), pick(r));
        if d != q && q != n && d != n {
            return (d, q, n);
        }
    }
}

pub fn gen(tier: Tier, r: &mut Rng, emit: &mut dyn FnMut(String)) {
    let fl = host_flags();
    let quick = tier == Tier::Quick;
    // ---- kernel level: quote masks × both carries (and junk upper carry bits)
    let mut masks: Vec<u64> = vec![
        0,
        1,
        0b11,
        0b101,
        1 << 63,
        3 << 62,
        (1 << 63) | 1,
        0xAAAA_AAAA_AAAA_AAAA,
        0x5555_5555_5555_5555,
        0xFF00_FF00_FF00_FF00,
        !0,
        !0 >> 1,
        !1,
    ];
    for i in 0..64 {
        masks.push(1 << i);
        masks.push((1u64 << i) | (1 << 63));
        masks.push(!0u64 << i);
    }
    let nk = if quick { 4_000 } else { 400_000 };
    for i in 0..nk {
        masks.push(match i % 4 {
            0 => r.next_u64(),
            1 => r.sparse_word(3),
            2 => r.sparse_word(5) | (1 << 63),
            _ => !r.sparse_word(2),
        });
    }
    for (i, qm) in masks.iter().enumerate() {
        for c in [0u64, 1] {
            emit(format!("C20 tog {fl} {c:x} {qm:x}"));
        }
        if i % 8 == 0 {
            // carries with junk above bit 0 (the kernels mask with `& 1`)
            let c = r.next_u64();
            emit(format!("C20 tog {fl} {c:x} {qm:x}"));
            let ad = r.next_u64();
            emit(format!("C20 dep {c:x} {qm:x} {ad:x}"));
        }
    }
    // ---- engine level
    let lens_small: Vec<usize> = vec![0, 1, 2, 3, 31, 32, 33, 62, 63, 64, 65, 66, 126, 127, 128, 129, 191, 192, 193, 255, 256, 257, 320, 383, 384, 385, 448, 511, 512, 513];
    let mut case = 0usize;
    let mut one = |r: &mut Rng, len: usize, style: u64, emit: &mut dyn FnMut(String)| {
        let (d, q, n) = gen_triple(r, case);
        case += 1;
        let t = gen_text(r, d, q, n, len, style);
        emit(format!("C20 idx {fl} {d:02x} {q:02x} {n:02x} {}", hex_bytes(&t)));
    };
    let reps = if quick { 2 } else { 40 };
    for _ in 0..reps {
        for &len in &lens_small {
            for style in 0..8 {
                one(r, len, style, emit);
            }
        }
    }
    let n_rand = if quick { 1_200 } else { 60_000 };
    for i in 0..n_rand {
        let len = match i % 5 {
            0 => r.usize_below(70),
            1 => 60 + r.usize_below(10),
            2 => 120 + r.usize_below(20),
            3 => 130 + r.usize_below(600),
            _ => 64 * r.usize_below(8) + *r.pick(&[0usize, 1, 63]),
        };
        one(r, len, (i % 8) as u64, emit);
    }
    let big: &[usize] = if quick { &[4095, 4096, 4097] } else { &[4095, 4096, 4097, 65535, 65536, 65537, 65600] };
    let big_reps = if quick { 2 } else { 6 };
    for _ in 0..big_reps {
        for &len in big {
            for style in 0..8 {
                one(r, len, style, emit);
            }
        }
    }
}
