//! C18 — strict YAML validation never rejects a well-formed document; positioned errors.
//!
//! `acc <br> <ndocs> <tokens> <features> <hex>`: a generated admissible stream (C14 generator); the
//!     validator (library, and `yq --validate` when SV_CLI is set) must accept.
//! `pos <hex> <offset|->`: arbitrary bytes; `<offset>` is the error offset the generator observed (or
//!     `-` for accept).  The validator is run under a wall-clock guard; the answer is `ACCEPT` or the
//!     reported `<line>:<col>`, which the model recomputes naively from the offset.
use crate::c14::yamlgen::*;
use crate::rng::Rng;
use crate::util::*;
use crate::Tier;
use std::io::Write;
use std::process::{Command, Stdio};
use std::sync::mpsc;
use std::time::Duration;
use succinctly::yaml::validate::validate;

pub fn tables() -> Vec<(&'static str, String)> {
    vec![]
}

/// validate under a wall-clock limit: Some(Ok) / Some(Err(offset,line,col,kind)) / None = timeout
fn guarded(bytes: Vec<u8>) -> Option<Result<(), (usize, usize, usize, String)>> {
    let (tx, rx) = mpsc::channel();
    std::thread::spawn(move || {
        let r = std::panic::catch_unwind(|| validate(&bytes).map_err(|e| (e.position.offset, e.position.line, e.position.column, format!("{:?}", e.kind))));
        let _ = tx.send(r);
    });
    match rx.recv_timeout(Duration::from_secs(5)) {
        Ok(Ok(r)) => Some(r),
        Ok(Err(_)) => Some(Err((usize::MAX, 0, 0, "PANIC".into()))),
        Err(_) => None,
    }
}

fn cli_validate(bytes: &[u8]) -> Option<String> {
    let cli = std::env::var("SV_CLI").ok()?;
    let mut ch = Command::new(cli)
        .args(["yq", "--validate", "-o", "json", "-I", "0", "."])
        .env("NO_COLOR", "1")
        .stdin(Stdio::piped())
        .stdout(Stdio::piped())
        .stderr(Stdio::piped())
        .spawn()
        .ok()?;
    let mut si = ch.stdin.take()?;
    let b = bytes.to_vec();
    let w = std::thread::spawn(move || {
        let _ = si.write_all(&b);
    });
    let out = ch.wait_with_output().ok()?;
    let _ = w.join();
    let err = String::from_utf8_lossy(&out.stderr);
    Some(if err.contains("validation error") { format!("CLI-REJECT:{}", err.lines().next().unwrap_or("").replace(' ', "_")) } else { "CLI-ACCEPT".into() })
}

pub fn exec(a: &[&str]) -> String {
    match a[0] {
        "acc" => {
            let bytes = parse_bytes(a[5]);
            let lib = match guarded(bytes.clone()) {
                None => return "TIMEOUT".into(),
                Some(Ok(())) => "ACCEPT".to_string(),
                Some(Err((o, l, c, k))) => format!("REJECT {} {l}:{c}@{o}", k.replace(' ', "_")),
            };
            // the CLI leg costs a process spawn: run it on a deterministic 1/8 sample of the streams
            let sampled = if bytes.len() % 8 == 0 { cli_validate(&bytes) } else { None };
            match sampled {
                None => lib,
                Some(c) if c == "CLI-ACCEPT" && lib == "ACCEPT" => lib,
                Some(c) => format!("{lib} {c}"),
            }
        }
        "pos" => {
            let bytes = parse_bytes(a[1]);
            match guarded(bytes) {
                None => "TIMEOUT".into(),
                Some(Ok(())) => {
                    if a[2] == "-" {
                        "ACCEPT".into()
                    } else {
                        "OFFSET-CHANGED accept".into()
                    }
                }
                Some(Err((o, l, c, _))) => {
                    if a[2] == o.to_string() {
                        format!("{l}:{c}")
                    } else {
                        format!("OFFSET-CHANGED {o}")
                    }
                }
            }
        }
        _ => "BAD-OP".into(),
    }
}

fn mutate(r: &mut Rng, mut b: Vec<u8>) -> Vec<u8> {
    let n = r.range(1, 4);
    for _ in 0..n {
        if b.is_empty() {
            b.push(r.byte());
            continue;
        }
        let i = r.usize_below(b.len());
        match r.below(7) {
            0 => {
                b.remove(i);
            }
            1 => b.insert(i, *r.pick(b"\t\r\n :-?#&*!|>'\"%@`[]{},\\")),
            2 => b[i] = *r.pick(b"\t\r\n :-?#&*!|>'\"%@`[]{},\\"),
            3 => b.insert(i, r.byte()),
            4 => {
                let j = r.usize_below(b.len());
                b.swap(i, j);
            }
            5 => b.truncate(i),
            _ => {
                let ins: &[u8] = *r.pick(&[b"\r\n".as_slice(), b"\r", b"\n\t", b"---", b"...", b"\\x", b"\\z", b"*nope", b"&a &b ", b"%YAML 1.2\n", b"\n  \t- ", b"\xff", b"\xc3", b"a: b: c"]);
                for (k, x) in ins.iter().enumerate() {
                    b.insert(i + k, *x);
                }
            }
        }
    }
    b
}

pub fn gen(tier: Tier, r: &mut Rng, emit: &mut dyn FnMut(String)) {
    let n = if tier == Tier::Quick { 2_500 } else { 12_000 };
    for i in 0..n {
        let o = if i % 3 == 0 { GenOpts { block_scalars: true, comments: true, breaks: true, anchors: false, multidoc: false, max_depth: 3 } } else { ALL };
        // one stream in eight: indentless sequences under the first / middle / last key of compact
        // mappings, at several nesting depths, with following sibling keys
        let ps = if i % 8 == 5 {
            indentless_stream(r)
        } else {
            let mut g = Gen::new(r, o);
            g.stream()
        };
        let bytes = render(&ps);
        emit(format!("C18 acc {} {} {}", stream_wire(&ps), features(&ps), hex_bytes(&bytes)));
        // malformed / arbitrary stream
        let m = match i % 4 {
            0 => (0..r.range(0, 24)).map(|_| *r.pick(b"\t\r\n :-?#&*!|>'\"%@`[]{},\\ab01~")).collect::<Vec<u8>>(),
            1 => (0..r.range(0, 16)).map(|_| r.byte()).collect(),
            _ => mutate(r, bytes.clone()),
        };
        let off = match guarded(m.clone()) {
            None => "-".to_string(),
            Some(Ok(())) => "-".to_string(),
            Some(Err((o, _, _, _))) => o.to_string(),
        };
        emit(format!("C18 pos {} {off}", hex_bytes(&m)));
    }
}
